"""C13 -- Expression text is parsed with Python's precedence and meaning.
proof:  Props/C13.v about the hand models Model/PyExpr.v, ExprParse.v (lark tree shapes, parser model, transcription
        of _walk_lark_tree and of the Term methods it reaches), ExprSem.v (Python reference meaning / DSL meaning),
        ExprPrint.v (to_python)
tie:    correspondence, decided inside Coq: (a) lark tree vs lark_of, (b) Term tree vs walk, (c) to_python() tokens
        vs the printer model, op_remap / factor_remap vs the model's tables, every public Term method vs
        call_method, is_equal vs the model's is_equal, py_meaning vs CPython eval, eval vs the library's evaluation
oracle: (d) value of the parsed expression (through descr().extend() on a Pandas frame) vs Python's own evaluation
        of the same text on the same operands, on the common domain; (e) parse(to_python(parse(text))) is_equal
        parse(text)"""
import ast, itertools, json, math, os, re, sys, warnings
import lib
from lib import clist, cz, cbool, copt, cstr

N_RANDOM = {"quick": 2000, "thorough": 30000}
PER_FILE = 900      # loading the standard library dominates a small case file: few, large files

# ------------------------------------------------------------------------------------------------ environment
INT_COLS, FLT_COLS, BOOL_COLS, STR_COLS = ["a", "b", "c"], ["x", "y"], ["p", "q"], ["s"]
ALL_COLS = INT_COLS + FLT_COLS + BOOL_COLS + STR_COLS
_ENV = {}


def env():
    """imports of the library under test, done once (VERIF_REPO is on sys.path)"""
    if _ENV:
        return _ENV
    warnings.simplefilter("ignore")
    import numpy, pandas, lark
    import data_algebra
    import data_algebra.expr_rep as er
    import data_algebra.parse_by_lark as pbl
    import data_algebra.data_model
    from data_algebra.data_ops import descr
    _ENV.update(np=numpy, pd=pandas, lark=lark, er=er, pbl=pbl, descr=descr,
                dd={k: er.ColumnReference(k) for k in ALL_COLS},
                dm=data_algebra.data_model.default_data_model())
    return _ENV


# ------------------------------------------------------------------------------------------------ tokens
NUM_OTHER = {"HEX_NUMBER", "OCT_NUMBER", "BIN_NUMBER", "IMAG_NUMBER"}


class LexError(Exception):
    pass


def model_tok(t):
    """lark Token -> model token (tuple).  Literal tokens carry the value the walker computes from the text."""
    ty, s = t.type, str(t)
    if ty == "NAME":
        return ("name", s)
    if ty == "DEC_NUMBER":
        return ("int", int(s))
    if ty == "FLOAT_NUMBER":
        return ("float", float(s))
    if ty == "STRING":
        try:
            v = ast.literal_eval(s)
        except Exception:
            return ("other", False, "STRING")
        return ("str", v) if isinstance(v, str) else ("other", False, "STRING")
    if ty in NUM_OTHER:
        return ("other", True, ty)
    if ty == "LONG_STRING":
        return ("other", False, ty)
    return ("sym", s)


def lex_text(text):
    E = env()
    try:
        return [model_tok(t) for t in E["pbl"].parser.lex(text)]
    except Exception as e:
        raise LexError(type(e).__name__)


def cq(f):
    n, d = float(f).as_integer_ratio()
    return f"(Qmake ({n})%Z ({d})%positive)"


def tok_c(t):
    k = t[0]
    if k == "name":
        return f"(TName {cstr(t[1])})"
    if k == "int":
        return f"(TInt ({t[1]})%N)"
    if k == "float":
        return "(TFloat None)" if math.isinf(t[1]) else f"(TFloat (Some {cq(t[1])}))"
    if k == "str":
        return f"(TStr {cstr(t[1])})"
    if k == "sym":
        return f"(TSym {cstr(t[1])})"
    return f"(TOther {cbool(t[1])} {cstr(t[2])})"


# ------------------------------------------------------------------------------------------------ lark trees
MODELLED_KINDS = {"or_test", "and_test", "not", "comparison", "expr", "xor_expr", "and_expr", "shift_expr", "arith_expr",
                  "term", "factor", "power", "funccall", "getattr", "arguments", "var", "number", "string",
                  "const_true", "const_false", "const_none", "list", "tuple", "set", "dict", "tuplelist_comp",
                  "set_comp", "dict_comp", "key_value"}
COMP_OPS = {"<", ">", "==", ">=", "<=", "<>", "!="}


def tree_of_lark(t):
    E = env()
    if t is None:
        return ("none",)
    if isinstance(t, E["lark"].Tree):
        return ("node", str(t.data), [tree_of_lark(c) for c in t.children])
    return ("tok", model_tok(t))


def in_fragment(t):
    """does the real tree use only the shapes Model/ExprParse.v models?  (everything else is 'outside the fragment':
    the parser model must then answer None, and the walker model is not consulted)"""
    if t[0] != "node":
        return True
    d, cs = t[1], t[2]
    if d not in MODELLED_KINDS:
        return False
    if d == "comparison":
        for c in cs[1::2]:
            if c[0] != "tok" or c[1][0] != "sym" or c[1][1] not in COMP_OPS:
                return False
        if len(cs) % 2 == 0:
            return False
    if d == "dict_comp" and not all(c[0] == "node" and c[1] == "key_value" for c in cs):
        return False
    if d == "key_value":
        # values that are collections are DictTerm entries the value model does not carry
        if any(c[0] == "node" and c[1] in ("list", "tuple", "set", "dict") for c in cs):
            return False
    if d in ("tuplelist_comp", "set_comp", "arguments") and any(c[0] == "node" and c[1] in ("star_expr", "comp_for", "argvalue", "starargs", "kwargs") for c in cs):
        return False
    return all(in_fragment(c) for c in cs)


def tree_c(t):
    if t[0] == "none":
        return "LNone"
    if t[0] == "tok":
        return f"(LTok {tok_c(t[1])})"
    return f"(LNode {cstr(t[1])} {clist([tree_c(c) for c in t[2]])})"


# ------------------------------------------------------------------------------------------------ expression objects
class Unsupported(Exception):
    pass


def pval_of(v):
    if v is None:
        return ("none",)
    if isinstance(v, (bool,)) or type(v).__name__ == "bool_":
        return ("bool", bool(v))
    if isinstance(v, int):
        return ("int", int(v))
    if isinstance(v, float):
        if math.isnan(v):
            raise Unsupported("nan")
        if math.isinf(v):
            return ("inf", v < 0)
        return ("float", math.copysign(1.0, v) < 0, abs(v))
    if isinstance(v, str):
        return ("str", v)
    raise Unsupported(type(v).__name__)


def pval_c(v):
    k = v[0]
    if k == "none":
        return "PNone"
    if k == "bool":
        return f"(PBool {cbool(v[1])})"
    if k == "int":
        return f"(PInt {cz(v[1])})"
    if k == "float":
        return f"(PFloat {cbool(v[1])} {cq(v[2])})"
    if k == "inf":
        return f"(PInf {cbool(v[1])})"
    return f"(PStr {cstr(v[1])})"


def expr_of_term(e):
    er = env()["er"]
    if isinstance(e, er.Expression):
        params = None
        if e.params is not None:
            params = [(str(k), pval_of(v)) for k, v in e.params.items()]
        return ("op", e.op, bool(e.inline), bool(e.method), params, [expr_of_term(a) for a in e.args])
    if isinstance(e, er.Value):
        return ("val", pval_of(e.value))
    if isinstance(e, er.ColumnReference):
        return ("col", e.column_name)
    if isinstance(e, er.ListTerm):
        out = []
        for v in e.value:
            if not isinstance(v, er.Value):
                raise Unsupported("list element " + type(v).__name__)
            out.append(pval_of(v.value))
        return ("list", out)
    if isinstance(e, er.DictTerm):
        return ("dict", [(pval_of(k), pval_of(v)) for k, v in e.value.items()])
    raise Unsupported(type(e).__name__)


def expr_c(e):
    k = e[0]
    if k == "col":
        return f"(ECol {cstr(e[1])})"
    if k == "val":
        return f"(EVal {pval_c(e[1])})"
    if k == "list":
        return f"(EList {clist([pval_c(v) for v in e[1]])})"
    if k == "dict":
        return "(EDict %s)" % clist(["(%s, %s)" % (pval_c(a), pval_c(b)) for a, b in e[1]])
    params = "None" if e[4] is None else "(Some %s)" % clist(["(%s, %s)" % (cstr(a), pval_c(b)) for a, b in e[4]])
    return f"(EOp {cstr(e[1])} {cbool(e[2])} {cbool(e[3])} {params} {clist([expr_c(a) for a in e[5]])})"


def res_c(r):
    return "Err" if r is None else f"(Ok {expr_c(r)})"


def term_of_expr(e):
    """inverse of expr_of_term, for replays and method probes"""
    er = env()["er"]
    k = e[0]
    if k == "col":
        return er.ColumnReference(e[1])
    if k == "val":
        return er.Value(py_of_pval(e[1]))
    if k == "list":
        return er.ListTerm([er.Value(py_of_pval(v)) for v in e[1]])
    if k == "dict":
        return er.DictTerm({py_of_pval(a): py_of_pval(b) for a, b in e[1]})
    return er.Expression(e[1], [term_of_expr(a) for a in e[5]], inline=e[2], method=e[3])


def py_of_pval(v):
    k = v[0]
    if k == "none":
        return None
    if k == "float":
        return -v[2] if v[1] else v[2]
    if k == "inf":
        return -math.inf if v[1] else math.inf
    return v[1]


# ------------------------------------------------------------------------------------------------ observing one text
def observe(text):
    """everything the implementation does with one expression text"""
    E = env()
    o = {"text": text}
    try:
        o["toks"] = lex_text(text)
    except LexError as e:
        o["lex_error"] = str(e)
        return o
    try:
        lt = E["pbl"].parser.parse(text)
        o["tree"] = tree_of_lark(lt)
        o["infrag"] = in_fragment(o["tree"])
        # the parser's lexer is contextual: where only a NAME can follow, a keyword text is lexed as a NAME
        # ('and' alone is the column called and).  The model gets the tokens the parser really consumed.
        try:
            ctoks = [model_tok(t) for t in E["pbl"].parser.parse_interactive(text).iter_parse()]
            if ctoks != o["toks"]:
                o["toks"] = ctoks
                o["contextual"] = True
        except Exception:
            pass
    except Exception as e:
        o["tree"] = None
        o["infrag"] = True
        o["lark_error"] = type(e).__name__
    try:
        term = E["pbl"].parse_by_lark(text, data_def=E["dd"])
        o["term"] = term
    except Exception as e:
        o["parse_error"] = type(e).__name__
        return o
    try:
        o["parsed"] = expr_of_term(term)
    except Unsupported as e:
        o["unsupported"] = str(e)
    try:
        o["printed_text"] = str(term.to_python())
        o["printed"] = lex_text(o["printed_text"])
    except Exception as e:
        o["print_error"] = type(e).__name__
    return o


def roundtrip(o):
    """oracle (e): parse(to_python(parse(text))) is_equal parse(text).  Returns None when fine, else a description."""
    E = env()
    if "term" not in o:
        return None
    if "printed_text" not in o:
        return {"why": "to_python() raised " + o.get("print_error", "?")}
    try:
        t2 = E["pbl"].parse_by_lark(o["printed_text"], data_def=E["dd"])
    except Exception as e:
        return {"why": "the printed text does not parse: " + type(e).__name__, "printed": o["printed_text"]}
    try:
        same = bool(o["term"].is_equal(t2)) and bool(t2.is_equal(o["term"]))
    except Exception as e:
        return {"why": "is_equal raised " + type(e).__name__, "printed": o["printed_text"]}
    if not same:
        return {"why": "the reparsed tree is not is_equal to the parsed tree", "printed": o["printed_text"], "reparsed": str(t2.to_python())}
    # is_equal of two ListTerms only compares lengths; also compare the printed forms (a stricter, still fair test:
    # printing is a function of the tree)
    try:
        p2 = str(t2.to_python())
    except Exception as e:
        return {"why": "to_python() of the reparsed tree raised " + type(e).__name__}
    if p2 != o["printed_text"]:
        return {"why": "printing the reparsed tree gives a different text", "printed": o["printed_text"], "reprinted": p2}
    return None


def contains_value(e, pred):
    if e[0] == "val":
        return pred(e[1])
    if e[0] == "op":
        return any(contains_value(a, pred) for a in e[5])
    if e[0] == "list":
        return any(pred(v) for v in e[1])
    if e[0] == "dict":
        return any(pred(a) or pred(b) for a, b in e[1])
    return False


def contains_short_list(e):
    if e[0] == "list":
        return len(e[1]) <= 1
    if e[0] == "op":
        return any(contains_short_list(a) for a in e[5])
    return False


def calls_a_non_name(t):
    """a call whose callee is neither NAME nor expr.NAME, e.g. (+a)(b, c): the walker takes str(children[0]) of
    whatever tree is called as the function name"""
    if t[0] != "node":
        return False
    if t[1] == "funccall" and t[2] and not (t[2][0][0] == "node" and t[2][0][1] in ("var", "getattr")):
        return True
    return any(calls_a_non_name(c) for c in t[2])


def calls_a_dunder(t):
    """expr.__name__(...) written in the text: the dunder methods of Term build operator expressions directly,
    also ones the grammar walker refuses (& | ^) or with the operands the other way round"""
    if t[0] != "node":
        return False
    if t[1] == "getattr" and len(t[2]) == 2 and t[2][1][0] == "tok" and t[2][1][1][0] == "name" and t[2][1][1][1].startswith("__"):
        return True
    return any(calls_a_dunder(c) for c in t[2])


def roundtrip_signature(o):
    """narrow description of a round-trip failure, matched against known_findings.d/C13.json (no finding is listed
    since 181daac: the causes below name the five repaired defects, so a regression is reported under its old name)"""
    sig = {"oracle": "roundtrip", "cause": "other"}
    p = o.get("parsed")
    if p is None:
        return sig
    negzero = contains_value(p, lambda v: v[0] == "float" and v[1] and v[2] == 0.0)
    inf = contains_value(p, lambda v: v[0] == "inf")
    short = contains_short_list(p)
    odd_call = o.get("tree") is not None and calls_a_non_name(o["tree"])
    dunder = o.get("tree") is not None and calls_a_dunder(o["tree"])
    causes = [c for c, f in (("negative_zero_constant", negzero), ("infinite_constant", inf), ("list_of_at_most_one_element", short),
                             ("call_of_a_non_name", odd_call), ("dunder_method_call", dunder)) if f]
    if len(causes) == 1:
        sig["cause"] = causes[0]
    elif causes:
        sig["cause"] = "+".join(causes)
    return sig


# ------------------------------------------------------------------------------------------------ Python's meaning
class OutOfDomain(Exception):
    pass


BIG = 2 ** 53


def _num(v):
    return isinstance(v, (int, float)) and not isinstance(v, bool)


def _chk(v):
    if isinstance(v, bool):
        return v
    if isinstance(v, int):
        if abs(v) >= BIG:
            raise OutOfDomain("big int")
        return v
    if isinstance(v, float):
        if math.isnan(v) or math.isinf(v) or abs(v) >= 1e15:
            raise OutOfDomain("float range")
        return v
    raise OutOfDomain("type")


REF_METHODS = {
    "abs": (1, lambda x: abs(x)),
    "floor": (1, lambda x: float(math.floor(x))),
    "ceil": (1, lambda x: float(math.ceil(x))),
    "maximum": (2, lambda x, y: max(x, y)),
    "minimum": (2, lambda x, y: min(x, y)),
    "fmax": (2, lambda x, y: max(x, y)),
    "fmin": (2, lambda x, y: min(x, y)),
}
COQ_METHODS = {"abs", "if_else", "maximum", "minimum", "fmax", "fmin"}     # the ones Model/ExprSem.concrete_fsem defines


def ref_eval(node, row):
    """The common domain of C13, over CPython's own AST of the text: the value Python assigns, or OutOfDomain.
    Mirrors Model/ExprSem.py_meaning (strict; ints/floats for arithmetic, bools for and/or/not)."""
    if isinstance(node, ast.Expression):
        return ref_eval(node.body, row)
    if isinstance(node, ast.Constant):
        v = node.value
        if isinstance(v, bool) or _num(v):
            return _chk(v)
        raise OutOfDomain("constant")
    if isinstance(node, ast.Name):
        if node.id in row and not isinstance(row[node.id], str):
            return row[node.id]
        raise OutOfDomain("name")
    if isinstance(node, ast.UnaryOp):
        v = ref_eval(node.operand, row)
        if isinstance(node.op, ast.Not):
            if not isinstance(v, bool):
                raise OutOfDomain("not on non-bool")
            return not v
        if isinstance(node.op, (ast.USub, ast.UAdd)):
            if not _num(v):
                raise OutOfDomain("sign of non-number")
            return _chk(-v if isinstance(node.op, ast.USub) else +v)
        raise OutOfDomain("unary")
    if isinstance(node, ast.BoolOp):
        vs = [ref_eval(v, row) for v in node.values]          # strict: every operand must be in the domain
        if not all(isinstance(v, bool) for v in vs):
            raise OutOfDomain("and/or on non-bool")
        return all(vs) if isinstance(node.op, ast.And) else any(vs)
    if isinstance(node, ast.BinOp):
        a, b = ref_eval(node.left, row), ref_eval(node.right, row)
        if not (_num(a) and _num(b)):
            raise OutOfDomain("arithmetic on non-number")
        op = node.op
        if isinstance(op, ast.Add):
            return _chk(a + b)
        if isinstance(op, ast.Sub):
            return _chk(a - b)
        if isinstance(op, ast.Mult):
            return _chk(a * b)
        if isinstance(op, (ast.Div, ast.FloorDiv, ast.Mod)):
            if b == 0:
                raise OutOfDomain("division by zero")
            return _chk(a / b if isinstance(op, ast.Div) else (a // b if isinstance(op, ast.FloorDiv) else a % b))
        if isinstance(op, ast.Pow):
            if not isinstance(b, int) or b < 0 or b > 64:
                raise OutOfDomain("exponent")
            if isinstance(a, int) and a != 0 and abs(a) ** b >= BIG:
                raise OutOfDomain("big int")
            return _chk(a ** b)
        raise OutOfDomain("operator")
    if isinstance(node, ast.Compare):
        vals = [ref_eval(node.left, row)] + [ref_eval(c, row) for c in node.comparators]
        res = True
        for i, op in enumerate(node.ops):
            a, b = vals[i], vals[i + 1]
            if isinstance(a, bool) and isinstance(b, bool):
                if not isinstance(op, (ast.Eq, ast.NotEq)):
                    raise OutOfDomain("order of bools")
            elif not (_num(a) and _num(b)):
                raise OutOfDomain("comparison of non-numbers")
            if isinstance(op, ast.Eq):
                r = a == b
            elif isinstance(op, ast.NotEq):
                r = a != b
            elif isinstance(op, ast.Lt):
                r = a < b
            elif isinstance(op, ast.LtE):
                r = a <= b
            elif isinstance(op, ast.Gt):
                r = a > b
            elif isinstance(op, ast.GtE):
                r = a >= b
            else:
                raise OutOfDomain("comparison operator")
            res = res and r
        return res
    if isinstance(node, ast.Call):
        if node.keywords:
            raise OutOfDomain("keywords")
        if isinstance(node.func, ast.Attribute):
            name = node.func.attr
            args = [ref_eval(node.func.value, row)] + [ref_eval(a, row) for a in node.args]
        elif isinstance(node.func, ast.Name):
            name = node.func.id
            args = [ref_eval(a, row) for a in node.args]
        else:
            raise OutOfDomain("call")
        if name == "if_else" and len(args) == 3:
            if not isinstance(args[0], bool) or not (_num(args[1]) and _num(args[2])):
                raise OutOfDomain("if_else types")
            cond_node = node.func.value if isinstance(node.func, ast.Attribute) else node.args[0]
            if not any(isinstance(n, ast.Name) for n in ast.walk(cond_node)):
                raise OutOfDomain("if_else on a constant condition (the DSL defines it for column conditions)")
            return args[1] if args[0] else args[2]
        if name in REF_METHODS and REF_METHODS[name][0] == len(args) and all(_num(a) for a in args):
            return _chk(REF_METHODS[name][1](*args))
        raise OutOfDomain("method")
    raise OutOfDomain(type(node).__name__)


def has_call(node):
    return any(isinstance(n, ast.Call) for n in ast.walk(node))


def has_chain(node):
    return any(isinstance(n, ast.Compare) and len(n.ops) > 1 for n in ast.walk(node))


def python_values(text, rows):
    """per row: ('v', value) in the common domain, or None.  None for all rows when Python rejects the text."""
    try:
        tree = ast.parse(text.strip(), mode="eval")
    except (SyntaxError, ValueError, MemoryError, RecursionError):
        return None, None
    out = []
    code = None
    if not has_call(tree):
        try:
            code = compile(tree, "<c13>", "eval")
        except Exception:
            code = None
    for row in rows:
        try:
            v = ref_eval(tree, row)
        except (OutOfDomain, OverflowError, ZeroDivisionError, RecursionError):
            out.append(None)
            continue
        if code is not None:
            # the reference evaluator must be CPython's own evaluation wherever it is defined
            pv = eval(code, {"__builtins__": {}}, dict(row))
            if not (type(pv) is type(v) and pv == v):
                raise AssertionError(f"harness reference evaluator differs from CPython on {text!r} {row}: {v!r} vs {pv!r}")
        out.append(("v", v))
    return out, tree


def make_rows(rng, k):
    rows = []
    for i in range(k):
        r = {}
        for c in INT_COLS:
            r[c] = rng.choice([-3, -2, -1, 0, 1, 2, 3, 4, 5, 7])
        for c in FLT_COLS:
            r[c] = rng.choice([-2.5, -1.0, -0.5, 0.0, 0.25, 0.5, 1.0, 1.5, 2.0, 3.75])
        for c in BOOL_COLS:
            r[c] = rng.random() < 0.5
        r["s"] = rng.choice(["u", "v", "it's"])
        rows.append(r)
    # make sure the columns keep their dtypes (ints stay ints, at least one True and one False)
    rows[0]["p"], rows[0]["q"] = True, False
    if k > 1:
        rows[1]["p"], rows[1]["q"] = False, True
    return rows


def frame_of(rows):
    pd = env()["pd"]
    return pd.DataFrame({c: [r[c] for r in rows] for c in ALL_COLS})


def library_values(text, rows, only=None):
    """the library's evaluation of the text on the operand rows: list of python scalars, or an exception class name.
    `only`: indices of the rows to evaluate (one frame)."""
    E = env()
    idx = list(range(len(rows))) if only is None else list(only)
    df = frame_of([rows[i] for i in idx])
    with warnings.catch_warnings():
        warnings.simplefilter("ignore")
        try:
            with E["np"].errstate(all="ignore"):
                ops = E["descr"](d=df).extend({"res_": text})
                out = ops.transform(df)
            col = list(out["res_"])
        except Exception as e:
            return "raise:" + type(e).__name__
    res = []
    for v in col:
        if isinstance(v, (bool, E["np"].bool_)):
            res.append(bool(v))
        elif isinstance(v, (int, E["np"].integer)):
            res.append(int(v))
        elif isinstance(v, (float, E["np"].floating)):
            res.append(float(v))
        else:
            res.append(("?", repr(v)))
    return dict(zip(idx, res))


def same_value(pv, lv):
    if isinstance(pv, bool) or isinstance(lv, bool):
        return isinstance(pv, bool) and isinstance(lv, bool) and pv == lv
    if not (_num(pv) and _num(lv)):
        return False
    if isinstance(lv, float) and (math.isnan(lv) or math.isinf(lv)):
        return False
    return abs(pv - lv) <= 1e-8 * max(abs(pv), abs(lv), 1.0)


def meaning_check(text, rows):
    """oracle (d).  Returns (None | failure dict, pyvals, libvals)"""
    pyv, tree = python_values(text, rows)
    if pyv is None or not any(v is not None for v in pyv):
        return None, pyv, None
    dom = [i for i, v in enumerate(pyv) if v is not None]
    lv = library_values(text, rows)
    if isinstance(lv, str):
        # a vectorised evaluation can raise because of rows outside the domain: retry on the domain rows only
        lv = library_values(text, rows, only=dom)
        if isinstance(lv, str) and len(dom) > 1:
            lv = library_values(text, rows, only=dom[:1])
            dom = dom[:1]
    if isinstance(lv, str):
        return {"why": "the library raises on operands in the common domain: " + lv, "row": rows[dom[0]], "python": pyv[dom[0]][1]}, pyv, None
    for i in dom:
        if i in lv and not same_value(pyv[i][1], lv[i]):
            return {"why": "value differs from Python's", "row": rows[i], "python": pyv[i][1], "library": lv[i]}, pyv, lv
    return None, pyv, lv


def meaning_signature(text):
    sig = {"oracle": "meaning", "cause": "other"}
    try:
        tree = ast.parse(text.strip(), mode="eval")
        if has_chain(tree):
            sig["cause"] = "comparison_chain"
    except Exception:
        pass
    return sig


# ------------------------------------------------------------------------------------------------ generation
def pick(rng, weighted):
    tot = sum(w for w, _ in weighted)
    r = rng.random() * tot
    for w, x in weighted:
        r -= w
        if r <= 0:
            return x
    return weighted[-1][1]


INT_LITS = ["0", "1", "2", "3", "4", "5", "7", "10", "12", "100", "1_000"]
FLT_LITS = ["0.5", "2.0", "1.25", "3.", ".5", "1e2", "2.5e-1", "0.0", "10.75", "1e0"]
STR_LITS = ["'u'", '"v"', "'it\\'s'", '"a b"', "''", "'%Y'"]
CMP = ["<", "<=", ">", ">=", "==", "!="]
NUM_METHODS0 = ["abs", "floor", "ceil"]
NUM_METHODS1 = ["maximum", "minimum", "fmax", "fmin"]
OTHER_METHODS0 = ["sin", "exp", "round", "is_null", "is_bad", "sign", "sqrt", "cumsum", "shift", "coalesce_0", "as_str", "as_int64", "parse_date", "__neg__", "__pos__"]
OTHER_METHODS1 = ["coalesce", "concat", "mod", "remainder", "shift", "around", "__add__", "__rsub__", "__rpow__", "float_divide", "arctan2", "parse_date", "format_datetime", "is_in"]


class Gen:
    def __init__(self, rng):
        self.rng = rng

    def leaf_num(self):
        r = self.rng
        return pick(r, [(5, lambda: r.choice(INT_COLS)), (3, lambda: r.choice(FLT_COLS)), (5, lambda: r.choice(INT_LITS[:7])),
                        (1, lambda: r.choice(INT_LITS)), (2, lambda: r.choice(FLT_LITS)), (1.5, lambda: "-" + r.choice(INT_LITS[1:6])),
                        (0.5, lambda: "-" + r.choice(FLT_LITS))])()

    def num(self, d):
        r = self.rng
        if d <= 0 or r.random() < 0.22:
            return [self.leaf_num()]
        form = pick(r, [(30, "bin"), (9, "pow"), (9, "neg"), (2, "pos"), (9, "par"), (5, "m0"), (3, "m1"), (2, "ifelse"), (1.5, "fn"), (1, "sloppy")])
        if form == "bin":
            op = pick(r, [(5, "+"), (5, "-"), (5, "*"), (3, "/"), (2, "//"), (2, "%")])
            return self.num(d - 1) + [op] + self.num(d - 1)
        if form == "pow":
            base = self.num(d - 2) if r.random() < 0.3 else [self.leaf_num()]
            if r.random() < 0.5:
                base = ["("] + base + [")"] if len(base) > 1 else base
            e = pick(r, [(6, lambda: [r.choice(["0", "1", "2", "3"])]), (1, lambda: ["-", "1"]), (1, lambda: [r.choice(INT_COLS)]),
                         (1.5, lambda: [r.choice(["2", "1"]), "**", r.choice(["2", "1", "0"])]), (1, lambda: ["-", r.choice(INT_COLS)]),
                         (1, lambda: ["(", r.choice(INT_COLS), "+", "1", ")"])])()
            return base + ["**"] + e
        if form == "neg":
            return ["-"] + self.num(d - 1)
        if form == "pos":
            return ["+"] + self.num(d - 1)
        if form == "par":
            inner = self.num(d - 1)
            return ["("] + inner + [")"] if r.random() < 0.85 else ["(", "("] + inner + [")", ")"]
        if form == "m0":
            recv = self.recv(d)
            return recv + [".", r.choice(NUM_METHODS0), "(", ")"]
        if form == "m1":
            recv = self.recv(d)
            return recv + [".", r.choice(NUM_METHODS1), "("] + self.num(d - 2) + [")"]
        if form == "ifelse":
            return ["("] + self.boolean(d - 1) + [")", ".", "if_else", "("] + self.num(d - 2) + [","] + self.num(d - 2) + [")"]
        if form == "fn":
            f = r.choice(["abs", "fmax", "fmin", "floor"])
            args = self.num(d - 2) if f in ("abs", "floor") else self.num(d - 2) + [","] + self.num(d - 2)
            return [f, "("] + args + [")"]
        return self.sloppy(d)

    def recv(self, d):
        r = self.rng
        if r.random() < 0.5:
            return [r.choice(INT_COLS + FLT_COLS)]
        if r.random() < 0.3:
            return ["(", self.leaf_num(), ")"]
        return ["("] + self.num(d - 1) + [")"]

    def boolean(self, d):
        r = self.rng
        if d <= 0 or r.random() < 0.15:
            return [r.choice(BOOL_COLS + BOOL_COLS + ["True", "False"])]
        form = pick(r, [(30, "cmp"), (4, "chain"), (16, "andor"), (9, "not"), (7, "par"), (2, "beq"), (2, "isin"), (1, "sloppy")])
        if form == "cmp":
            return self.num(d - 1) + [r.choice(CMP)] + self.num(d - 1)
        if form == "chain":
            out = self.num(d - 2)
            for _ in range(r.choice([2, 2, 3])):
                out += [r.choice(CMP)] + self.num(d - 2)
            return out
        if form == "andor":
            op = r.choice(["and", "or"])
            out = self.boolean(d - 1)
            for _ in range(r.choice([1, 1, 2])):
                out += [op if r.random() < 0.8 else r.choice(["and", "or"])] + self.boolean(d - 1)
            return out
        if form == "not":
            return ["not"] + self.boolean(d - 1)
        if form == "par":
            return ["("] + self.boolean(d - 1) + [")"]
        if form == "beq":
            return self.boolean(d - 2) + [r.choice(["==", "!="])] + self.boolean(d - 2)
        if form == "isin":
            n = r.choice([2, 3, 1, 2])
            items = []
            for i in range(n):
                items += ([","] if i else []) + [r.choice(INT_LITS[:6] + ["-1", "-2"])]
            toks = []
            for it in items:
                toks += ["-", it[1:]] if it.startswith("-") else [it]
            if r.random() < 0.15:
                toks += [","]
            return [r.choice(INT_COLS), ".", "is_in", "(", "["] + toks + ["]", ")"]
        return self.sloppy(d)

    def sloppy(self, d):
        """forms outside the common domain, error paths, and shapes outside the modelled fragment"""
        r = self.rng
        a = lambda: r.choice(ALL_COLS)
        forms = [
            lambda: [a(), r.choice(["%+%", "%?%", "%/%"]), a()],
            lambda: [a(), "+", r.choice(STR_LITS)],
            lambda: [r.choice(INT_LITS), r.choice(["-", "<", "=="]), r.choice(STR_LITS)],
            lambda: [r.choice(STR_LITS)],
            lambda: ["None"] if r.random() < 0.5 else ["None", r.choice(["+", "-", "=="]), a()],
            lambda: [a(), r.choice(["&", "|", "^", "<<", ">>", "<>"]), a()],
            lambda: ["~", a()],
            lambda: [a(), r.choice(["in", "is"]), a()],
            lambda: [a(), "not", "in", a()] if r.random() < 0.5 else [a(), "is", "not", "None"],
            lambda: [a(), "if", "p", "else", a()],
            lambda: [a(), "[", "0", "]"],
            lambda: [r.choice(["f", "zz", "nosuch"]), "(", a(), ")"],
            lambda: [r.choice(["_size", "_row_number", "_count", "_ngroup"]), "(", ")"],
            lambda: [a(), ".", r.choice(OTHER_METHODS0), "(", ")"],
            lambda: [a(), ".", r.choice(OTHER_METHODS1), "("] + self.num(1) + [")"],
            lambda: [a(), ".", r.choice(OTHER_METHODS1), "(", r.choice(STR_LITS), ")"],
            lambda: [a(), ".", "mapv", "(", "{", "1", ":", "2", ",", "3", ":", "4", "}", ")"],
            lambda: [a(), ".", "mapv", "(", "{", "'u'", ":", "1.5", ",", "'v'", ":", "2", ",", "}", ",", "0", ")"],
            lambda: [a(), ".", "mapv", "(", "{", "1", ":", "'a'", ",", "True", ":", "'b'", "}", ")"],
            lambda: [a(), ".", "mapv", "(", "{", "}", ")"],
            lambda: [a(), ".", "trimstr", "(", "0", ",", "2", ")"],
            lambda: [a(), ".", "if_else", "(", a(), ")"],
            lambda: [a(), ".", r.choice(["nosuch", "abs"])] + ([] if r.random() < 0.5 else ["(", a(), ")"]),
            lambda: [r.choice(["zz", "inf"]), "+", "1"],
            lambda: [r.choice(["0x1F", "1j", "0b11", "0o7", "1e400", "'a' 'b'", '"""x"""', "b'x'"])],
            lambda: ["(", a(), ",", a(), ")"] if r.random() < 0.6 else r.choice([["(", ")"], ["[", "]"], ["{", "}"], ["(", a(), ",", ")"]]),
            lambda: [a(), ".", "is_in", "("] + r.choice([["(", "1", ",", "2", ")"], ["{", "1", ",", "2", "}"], ["[", "1", ",", "]"], ["[", "-", "1", ",", "]"],
                                                          ["[", "True", "]"], ["[", "]"], ["[", "1", ",", "'a'", "]"], ["[", "1", ",", "2.5", "]"],
                                                          ["[", a(), "]"], ["[", "'u'", ",", "'v'", "]"], ["[", "None", ",", "1", "]"]]) + [")"],
            lambda: [a(), ".", "shift", "(", "periods", "=", "1", ")"],
            lambda: [a(), ".", "shift", "(", r.choice(["0", "True", "False", "1.5", "-", "2"]), ")"] if r.random() < 0.5 else [a(), ".", "shift", "(", "-", "2", ")"],
            lambda: [a(), r.choice(["+", "*", "-"])],
            lambda: [r.choice(["*", "/", ")", "and"]), a()],
            lambda: [a(), a()],
            lambda: ["(", a(), "+", a()],
            lambda: ["lambda", ":", "1"],
            lambda: ["-", r.choice(["True", "None", "'u'"])],
            lambda: ["(", "-", "0.0", ")", "**", "2"] if r.random() < 0.3 else ["-", "0.0", "+", a()],
            lambda: [a(), r.choice(["+", "*"]), "(", a(), r.choice(["<", "=="]), a(), ")"],
            lambda: ["not", r.choice(INT_LITS + INT_COLS)],
            lambda: [a(), r.choice(["and", "or"]), r.choice(INT_LITS + INT_COLS)],
            lambda: [a(), ".", "abs", "(", ")", ".", "sin", "(", ")"],
            lambda: ["1", ".", "abs", "(", ")"],
            lambda: ["(", "+", a(), ")", "(", a(), ",", a(), ")"],
        ]
        return r.choice(forms)()

    def text(self):
        r = self.rng
        d = r.choice([1, 2, 2, 3, 3, 4])
        k = r.random()
        toks = self.boolean(d) if k < 0.4 else (self.num(d) if k < 0.92 else self.sloppy(d))
        return join_tokens(r, toks)


SYMCH = set("+-*/%<>=!&|^~.")


def join_tokens(rng, toks):
    """spaces between tokens, dropped at random where the lexing cannot change"""
    compact = rng.random() < 0.3
    out = ""
    for i, t in enumerate(toks):
        if i == 0:
            out = t
            continue
        p = toks[i - 1]
        need = False
        if (p[-1].isalnum() or p[-1] in "_'\"") and (t[0].isalnum() or t[0] in "_'\""):
            need = True
        elif p[-1] in SYMCH and t[0] in SYMCH:
            need = True
        elif (p[-1].isdigit() or p[-1] == ".") and t[0] == ".":
            need = True
        elif p[-1] == "." and (t[0].isdigit()):
            need = True
        if need:
            out += " " + t
        elif t in (")", ",", "(", "]", "[", ".", ":", "}") or p in ("(", "[", ".", "{"):
            out += ("" if rng.random() < 0.9 else " ") + t
        else:
            out += ("" if compact and rng.random() < 0.7 else " ") + t
    return out


FIXED_TEXTS = """a + b * c
a - b - c
a + b + c
a * b * c
a / b / c
a // b % c
a ** b ** c
-a ** b
a ** -b
(-a) ** b
- - a
-(-a)
+a
-5 ** 2
(-5) ** 2
2 ** 3 ** 2
(2 ** 3) ** 2
-2 ** 2
a - (b - c)
(a - b) - c
a + (b + c)
a * (b + c)
a < b
a < b < c
a == b == c
a < b <= c > 1
not p
not not p
not a == b
not a < b and p
p and q or p
p or q and p
(p or q) and p
p and not q
p and q and p
a < b and b < c
not (p and q)
-(a + b)
-a.abs()
(-a).abs()
a.abs() ** 2
2 ** a.abs()
a ** b.abs()
(a + b).abs()
a.abs().abs()
(a > b).if_else(a, b)
(a > b).if_else(1, 2.5)
a.maximum(b)
a.fmax(b)
fmax(a, b)
abs(a - b)
a.is_in([1, 2, 3])
a.is_in([1])
a.is_in([1,])
a.is_in((1, 2))
a.is_in({1, 2})
a.mapv({1: 2, 3: 4})
a.mapv({1: 2}, 0)
a.shift()
a.shift(2)
a.coalesce_0()
a %+% b
a %?% b
a %/% b
x / y
x // y
x % y
a / b
a // b
a % b
-a // b
-a % b
a // -b
a % -b
1 + 2
1 + 2 * 3
10 - 4 - 3
2 * 3 + 4
2 + 3 * 4
(2 + 3) * 4
1.5 + a
x * 2
.5 * x
3. + x
1e2 + a
1_000 + a
- 3 + 5
a - -3
a--3
a+-b
a*-b
a/-b
a**-1
True
False
True and p
p == q
p != q
p == True
a <> b
a != b
'abc'
"it's"
s
s + 'x'
s %+% 'x'
a + 'x'
1 + 'x'
1 - 'x'
None
None + 1
None - 1
-True
~a
a | b
a & b
a ^ b
a << b
a in b
a not in b
a is b
a is not None
a if p else b
a[1]
a.b
f(a)
lambda: 1
(a)
((a))
(a,)
()
a.shift(periods=2)
0x10
1j
'a' 'b'
a.__add__(b)
a.__radd__(b)
a.__rpow__(2)
a.nosuch()
zz + 1
_size()
_row_number()
a +
* a
a b
(a + b
a + b)
a , b
""".strip().split("\n")

WITNESS_TEXTS = ["a < b < c", "a == b == c", "(-0.0) ** 2", "1e400 + a", "a.is_in([-1,])", "a.is_in([True])", "(+p)(a, c)",
                 "a.__and__(b)", "a.__rsub__([1, 2])"]


def exhaustive_texts():
    """ALL token sequences up to a length bound over small alphabets (thorough tier)"""
    specs = [(["a", "-", "**"], 7), (["a", "-", "**", "(", ")"], 6), (["a", "2", "+", "*", "-", "(", ")"], 5),
             (["p", "a", "<", "and", "or", "not"], 5), (["a", "1", ".abs()", "-", "**", "(", ")", ","], 4)]
    seen = set()
    for alpha, n in specs:
        for k in range(1, n + 1):
            for seq in itertools.product(alpha, repeat=k):
                s = " ".join(seq).replace(" .abs()", ".abs()")
                if s not in seen:
                    seen.add(s)
                    yield s


# ------------------------------------------------------------------------------------------------ method / table probes
def method_probes(rng, chk):
    """every public attribute of the Term classes against Model/ExprParse.call_method"""
    E = env()
    er = E["er"]
    terms = []
    selfs = [("col", "a"), ("val", ("int", 3)), ("val", ("str", "u")), ("val", ("none",)), ("val", ("bool", True)), ("val", ("float", False, 1.5)),
             ("op", "+", True, False, None, [("col", "a"), ("val", ("int", 1))]), ("list", [("int", 1)]), ("dict", [(("int", 1), ("int", 2))])]
    argpool = [("col", "b"), ("val", ("int", 2)), ("val", ("int", 0)), ("val", ("str", "v")), ("val", ("none",)), ("val", ("bool", True)), ("val", ("bool", False)),
               ("val", ("float", False, 2.5)), ("list", [("int", 1), ("int", 2)]), ("dict", [(("int", 1), ("int", 2))]), ("val", ("int", -1))]
    names = set()
    for cls in (er.ColumnReference, er.Value, er.Expression):
        names |= {n for n in dir(cls) if callable(getattr(cls, n, None))}
    housekeeping = {n for n in names if n.startswith("__") and n.endswith("__") and n[2:-2] in (
        "class", "delattr", "dir", "format", "getattribute", "getstate", "init", "init_subclass", "new", "reduce", "reduce_ex", "repr", "setattr",
        "sizeof", "str", "subclasshook", "hash", "op_expr", "rop_expr", "uop_expr", "triop_expr", "doc", "module", "dict", "weakref", "abstractmethods", "slots")}
    housekeeping |= {"is_equal", "to_python", "to_source", "act_on", "get_column_names", "get_method_names"}
    modelled = sorted(names - housekeeping)
    chk.cov["oracle"]["term_methods_probed"] = len(modelled)
    chk.cov["oracle"]["term_attributes_outside_model"] = sorted(housekeeping & names)
    cases, meta = [], []
    full = chk.tier == "thorough"
    for m in modelled + ["nosuch_method"]:
        for s in (selfs if full else [selfs[0]] + rng.sample(selfs[1:], 2)):
            for nargs in (0, 1, 2, 3):
                combos = [tuple(rng.choice(argpool) for _ in range(nargs)) for _ in range(1 if (nargs in (0, 3) or not full) else 3)]
                if nargs == 1 and full:
                    combos += [(a,) for a in rng.sample(argpool, 3)]
                for args in combos:
                    try:
                        recv = term_of_expr(s)
                        r = getattr(recv, m)(*[term_of_expr(a) for a in args])
                        if not isinstance(r, er.PreTerm):
                            obs = None
                        else:
                            obs = expr_of_term(r)
                    except Unsupported:
                        continue
                    except Exception:
                        obs = None
                    cases.append(f"CMethod {cstr(m)} {expr_c(s)} {clist([expr_c(a) for a in args])} {res_c(obs)}")
                    meta.append({"kind": "method", "method": m, "self": s, "args": list(args), "observed": obs})
    return cases, meta, modelled


def known_names(extra):
    """the names Expression.__init__ accepts (_can_find_method_by_name), among every name this run can mention"""
    E = env()
    er = E["er"]
    cand = set(extra) | set(E["dm"].impl_map.keys()) | set(E["dm"].user_fun_map.keys()) | set(dir(er.Value(0)))
    cand |= {"_count", "_row_number", "_size", "_connected_components", "_ngroup", "_uniform", "fmax", "fmin", "around", "connected_components"}
    out = []
    for n in sorted(cand):
        try:
            if er._can_find_method_by_name(n):
                out.append(n)
        except Exception:
            pass
    return out


def names_in_tokens(toks):
    return {t[1] for t in toks if t[0] in ("name", "sym")}


# ------------------------------------------------------------------------------------------------ the run
def obs_c(v):
    if v is None:
        return "None"
    if isinstance(v, bool):
        return f"(Some (OBool {cbool(v)}))"
    if isinstance(v, int):
        return f"(Some (ONum (Qmake ({v})%Z 1%positive)))"
    if isinstance(v, float) and not (math.isnan(v) or math.isinf(v)):
        return f"(Some (ONum {cq(v)}))"
    return "None"


def env_c(row):
    parts = []
    for k, v in row.items():
        parts.append("(%s, %s)" % (cstr(k), pval_c(pval_of(v))))
    return clist(parts)


def shrink_text(text, fails):
    """token-level delta debugging of a failing text"""
    try:
        pieces = [str(t) for t in env()["pbl"].parser.lex(text)]
    except Exception:
        return text
    best = lib.shrink_list(pieces, lambda ps: fails(" ".join(ps)), max_steps=150)
    cand = " ".join(best)
    try:
        return cand if fails(cand) else text
    except Exception:
        return text


def run(chk):
    import time
    rng = chk.rng
    tier = chk.tier
    phase = {}
    t0 = time.time()
    chk.prove([], extra_vo=["theories/Model/ExprParseCases.vo"])
    chk.cov["trusted_base"] = [
        "Coq 8.16.1 kernel + vm_compute",
        "hand models Model/PyExpr.v, ExprParse.v, ExprSem.v, ExprPrint.v of expr_rep.py / parse_by_lark.py / the scalar entries of pandas_base.impl_map (sampled by correspondence on every run); Model/ExprAst.v and ExprRoundtrip.v only supply the vocabulary of the theorems (ASTs with parentheses, printable, src_ok)",
        "the lexer: tokens are the ones the library's own lark lexer delivers (for accepted texts the contextual tokens the parser consumed); the Coq development starts from token lists",
        "lark's LALR parser and lexer for python3_lark.py are NOT modelled: Model/ExprParse.lark_of is a different (total, structurally recursive) parser for the accepted fragment whose agreement with lark is checked tree-for-tree on every generated text",
        "token values: int() / float() / ast.literal_eval() of literal tokens and repr() of constants are Python's (a literal token reaches Coq as its value; repr(v) is trusted to lex back to one literal token of the same value)",
        "CPython's own parser and evaluator as the meaning of a text (oracle), harness/props/C13.py ref_eval as the executable statement of the common domain (cross-checked against eval() on every call-free text)",
        "harness/props/C13.py serialisation of lark trees and Term objects",
    ]
    chk.assumptions = [
        "operands where Python and the DSL define the operators identically = ints and floats for + - * / // % ** (true division, Python floor/modulo, int exponent >= 0, no division by zero, |ints| < 2^53), numeric comparisons (== != also bool/bool), bools for and/or/not; strict evaluation; bools are not numbers; method calls are the same uninterpreted function on both sides",
        "float arithmetic is exact rational arithmetic in the model; values observed from the implementation are compared with the 1e-8 relative rule",
        "texts whose lark tree uses a shape outside the modelled fragment (conditional expressions, lambda, subscripts, keyword/star arguments, comprehensions, in/is comparisons, adjacent strings, await, ellipsis) are outside the model; the walker rejects all of them",
        "Term attributes that are not expression builders (is_equal, to_python, to_source, act_on, get_*_names, object housekeeping dunders) are outside the model's method table",
        "round trip theorem: for texts of well-formed source ASTs (Model/ExprAst.wfn: the modelled fragment in every parenthesisation) whose NAME tokens are not operator symbols (src_ok: a fact about the lexer); no known finding is excluded (the five former ones were repaired by a6af5a7, e648ab6, 3753518, 181daac and are regression Examples / corpus texts)",
        "if_else is compared only on conditions that depend on a column (the library's if_else does not accept a constant condition: outside 'operators defined identically')",
    ]
    chk.cov["rule"] = ("random expression texts from a grammar over names (int/float/bool/str columns), int and float literals incl. negative and exponent forms, strings, "
                       "+ - * / // % ** unary -/+, comparisons and chains, and/or/not, necessary and redundant parentheses, method and function calls, list/tuple/set/dict arguments, "
                       "plus error paths and shapes outside the fragment (~10%); a fixed list of 190 regression texts; thorough: ALL token sequences up to 7 tokens over {a,-,**}, up to 6 over {a,-,**,(,)}, "
                       "up to 5 over {a,2,+,*,-,(,)} and {p,a,<,and,or,not}, up to 4 over {a,1,.abs(),-,**,(,),,}; non-trivial = the text has at least 3 tokens; distinct by text")
    phase["prove"] = round(time.time() - t0, 1)
    t0 = time.time()
    E = env()
    rows = make_rows(rng, 5 if tier == "quick" else 7)
    chk.cov["oracle"]["operand_rows"] = rows

    # ---- texts: corpus first, then witnesses of known findings, fixed list, random, exhaustive
    texts, origin = [], {}

    def add(t, o):
        if t not in origin:
            origin[t] = o
            texts.append(t)
    cdir = os.path.join(lib.ROOT, "corpus", "C13")
    if os.path.isdir(cdir):
        for n in sorted(os.listdir(cdir)):
            if n.endswith(".json"):
                try:
                    add(json.load(open(os.path.join(cdir, n)))["text"], "corpus")
                except Exception:
                    pass
    for t in WITNESS_TEXTS:
        add(t, "witness")
    for t in FIXED_TEXTS:
        add(t, "fixed")
    g = Gen(rng)
    for _ in range(N_RANDOM[tier]):
        add(g.text(), "random")
    if tier == "thorough":
        for t in exhaustive_texts():
            add(t, "exhaustive")
        chk.cov["exhaustive_small_scope"] = "all token sequences: <=7 over {a - **}, <=6 over {a - ** ( )}, <=5 over {a 2 + * - ( )} and {p a < and or not}, <=4 over {a 1 .abs() - ** ( ) ,}"

    # ---- observe, run the oracles
    obs_list = []
    seen_names = set()
    n_meaning = n_rt = 0
    for text in texts:
        o = observe(text)
        o["origin"] = origin[text]
        if "lex_error" in o:
            chk.dist("lexer_error")
            chk.count(text, nontrivial=False)
            continue
        ntok = len(o["toks"])
        chk.count(text, nontrivial=ntok >= 3)
        chk.dist("tokens_%02d" % min(ntok // 3 * 3, 30))
        seen_names |= names_in_tokens(o["toks"])
        if o.get("contextual"):
            chk.dist("keyword_lexed_as_name")
        if o.get("tree") is None:
            chk.dist("lark_rejects")
        elif not o["infrag"]:
            chk.dist("outside_fragment")
        elif "term" in o:
            chk.dist("parsed_ok")
        else:
            chk.dist("walker_rejects:" + o.get("parse_error", "?"))
        obs_list.append(o)
        if "term" not in o:
            continue
        if len(chk.cov["samples"]) < 6 and origin[text] == "random" and ntok >= 5:
            chk.sample({"text": text, "to_python": o.get("printed_text")})
        # (e) round trip
        n_rt += 1
        rt = roundtrip(o)
        if rt is not None:
            def rt_fails(t):
                oo = observe(t)
                return "term" in oo and roundtrip(oo) is not None and roundtrip_signature(oo) == roundtrip_signature(o)
            small = shrink_text(text, rt_fails)
            so = observe(small)
            detail = roundtrip(so) or rt
            chk.impl_violation("printing a parsed expression and parsing it again does not give an equal tree: " + detail["why"],
                               {"kind": "impl-violation", "oracle": "roundtrip", "text": small, "original_text": text, "detail": detail},
                               roundtrip_signature(so if "parsed" in so else o))
        # (d) meaning
        try:
            mc, pyv, lv = meaning_check(text, rows)
        except AssertionError as e:
            chk.corr_break("harness reference evaluator disagrees with CPython eval()", str(e))
            mc, pyv, lv = None, None, None
        o["pyv"], o["lv"] = pyv, lv
        if pyv is not None and any(v is not None for v in pyv):
            n_meaning += 1
            chk.dist("meaning_compared")
        if mc is not None:
            def m_fails(t):
                r = meaning_check(t, rows)[0]
                return r is not None and meaning_signature(t) == meaning_signature(text)
            small = shrink_text(text, m_fails)
            d2 = meaning_check(small, rows)[0] or mc
            chk.impl_violation("the parsed expression does not compute the value Python assigns to the text: " + d2["why"],
                               {"kind": "impl-violation", "oracle": "meaning", "text": small, "original_text": text, "detail": d2, "rows": rows},
                               meaning_signature(small))
    chk.cov["oracle"].update({"roundtrip_checked": n_rt, "meaning_checked_texts": n_meaning})
    phase["observe_and_oracles"] = round(time.time() - t0, 1)
    t0 = time.time()

    # ---- correspondence
    if not os.path.exists(os.path.join(lib.COQ, "theories/Model/ExprParseCases.vo")):
        chk.corr_break("Model/ExprParseCases.vo not built", "")
        search_after_break(chk, rng, rows)
        return
    mcases, mmeta, modelled = method_probes(rng, chk)
    reject_chains = False
    try:
        E["pbl"].parse_by_lark("a < b < c", data_def=E["dd"])
    except Exception:
        reject_chains = True
    chk.cov["oracle"]["comparison_chains_rejected_by_the_code"] = reject_chains
    known = known_names(seen_names | set(modelled))
    terms, meta = [], []
    terms.append("CRemap false %s" % clist(["(%s, %s)" % (cstr(k), cstr(v)) for k, v in E["pbl"].op_remap.items()]))
    meta.append({"kind": "op_remap", "observed": dict(E["pbl"].op_remap)})
    terms.append("CRemap true %s" % clist(["(%s, %s)" % (cstr(k), cstr(v)) for k, v in E["pbl"].factor_remap.items()]))
    meta.append({"kind": "factor_remap", "observed": dict(E["pbl"].factor_remap)})
    terms += mcases
    meta += mmeta
    dd_c = clist([cstr(c) for c in ALL_COLS])
    n_value = 0
    exprs_seen = []
    for o in obs_list:
        if "unsupported" in o:
            chk.dist("unsupported_value_in_tree")
            continue
        tree = o.get("tree")
        parsed = o.get("parsed")
        printed = o.get("printed", [])
        if "term" in o and "printed" not in o:
            continue
        terms.append("CParse %s %s %s %s %s %s" % (clist([tok_c(t) for t in o["toks"]]), copt(tree_c(tree)) if tree is not None else "None",
                                                    cbool(o["infrag"]), dd_c, res_c(parsed), clist([tok_c(t) for t in printed])))
        meta.append({"kind": "text", "text": o["text"], "lark_tree": repr(tree)[:1500], "in_fragment": o["infrag"], "parsed": repr(parsed)[:1500],
                     "parse_error": o.get("parse_error"), "to_python": o.get("printed_text")})
        if parsed is not None and len(exprs_seen) < 400:
            exprs_seen.append((parsed, o["term"]))
        # values: py_meaning vs CPython, eval vs the library, on up to two rows per text
        if tree is not None and o["infrag"] and o.get("pyv") is not None and (tier == "thorough" or n_value < 700):
            try:
                ptree = ast.parse(o["text"].strip(), mode="eval")
                calls = {n.func.attr if isinstance(n.func, ast.Attribute) else getattr(n.func, "id", "?") for n in ast.walk(ptree) if isinstance(n, ast.Call)}
            except Exception:
                calls = {"?"}
            if calls <= COQ_METHODS:
                k = 0
                for i, v in enumerate(o["pyv"]):
                    if v is None or k >= 2:
                        continue
                    lvv = o["lv"].get(i) if isinstance(o.get("lv"), dict) else None
                    if isinstance(lvv, tuple):
                        lvv = None
                    # the concrete method semantics of the case files has no floor/ceil
                    terms.append("CValue %s %s %s %s %s" % (tree_c(tree), dd_c, env_c({c: rows[i][c] for c in ALL_COLS}), obs_c(v[1]), obs_c(lvv)))
                    meta.append({"kind": "value", "text": o["text"], "row": rows[i], "python": v[1], "library": lvv})
                    k += 1
                    n_value += 1
    # is_equal on pairs of parsed trees
    for i in range(min(len(exprs_seen), 150 if tier == "quick" else 400)):
        a, ta = exprs_seen[i]
        b, tb = exprs_seen[rng.randrange(len(exprs_seen))] if rng.random() < 0.6 else exprs_seen[i]
        try:
            ob = bool(ta.is_equal(tb))
        except Exception:
            continue
        terms.append(f"CEqual {expr_c(a)} {expr_c(b)} {cbool(ob)}")
        meta.append({"kind": "is_equal", "a": repr(a)[:600], "b": repr(b)[:600], "observed": ob})
    # is_equal on constants, lists and dicts that differ in type only, in one element, in key order ...
    pool = [("none",), ("bool", True), ("bool", False), ("int", 1), ("int", 0), ("int", -1), ("float", False, 1.0), ("float", False, 0.0),
            ("float", True, 0.0), ("float", False, 2.5), ("str", "u"), ("str", "1"), ("inf", False)]
    for _ in range(120 if tier == "quick" else 1500):
        kind = rng.random()
        if kind < 0.35:
            a, b = ("val", rng.choice(pool)), ("val", rng.choice(pool))
        elif kind < 0.7:
            la = [rng.choice(pool[1:]) for _ in range(rng.randint(0, 3))]
            lb = list(la) if rng.random() < 0.5 else [rng.choice(pool[1:]) for _ in range(rng.randint(0, 3))]
            if lb and rng.random() < 0.5:
                lb[rng.randrange(len(lb))] = rng.choice(pool[1:])
            a, b = ("list", la), ("list", lb)
        else:
            keys = rng.sample([("int", 1), ("int", 2), ("str", "u"), ("float", False, 2.5), ("bool", False)], rng.randint(0, 3))
            da = [(k, rng.choice(pool)) for k in keys]
            db = list(da)
            rng.shuffle(db)
            if db and rng.random() < 0.5:
                i = rng.randrange(len(db))
                db[i] = (db[i][0] if rng.random() < 0.6 else rng.choice([("int", 3), ("float", False, 1.0), ("bool", True)]), rng.choice(pool))
            if len({py_of_pval(k) for k, _ in db}) != len(db) or len({py_of_pval(k) for k, _ in da}) != len(da):
                continue
            a, b = ("dict", da), ("dict", db)
        try:
            ob = bool(term_of_expr(a).is_equal(term_of_expr(b)))
        except Exception:
            continue
        terms.append(f"CEqual {expr_c(a)} {expr_c(b)} {cbool(ob)}")
        meta.append({"kind": "is_equal", "a": repr(a)[:600], "b": repr(b)[:600], "observed": ob})
    pre = ("From Coq Require Import List ZArith NArith QArith Bool String.\nImport ListNotations.\n"
           "From DA Require Import Base.Cases Model.PyExpr Model.ExprPrint Model.ExprParse Model.ExprSem Model.ExprParseCases.\n"
           "Local Close Scope Q_scope.\nLocal Open Scope string_scope.\nLocal Open Scope list_scope.\n"
           "Definition the_cfg := mkcfg %s.\n" % clist([cstr(n) for n in known]))
    phase["build_cases"] = round(time.time() - t0, 1)
    t0 = time.time()
    failing, errors, nchecked = lib.run_case_files("C13", pre, terms, "check_cases the_cfg", per_file=PER_FILE, timeout=1500)
    phase["coq_cases"] = round(time.time() - t0, 1)
    chk.cov["oracle"]["phase_seconds"] = phase
    kinds = {}
    for m in meta:
        kinds[m["kind"]] = kinds.get(m["kind"], 0) + 1
    chk.cov["correspondence"] = {"cases": len(terms), "by_kind": kinds, "checked_in_coq": nchecked, "disagreements": len(failing), "errors": errors[:2],
                                 "known_function_names": len(known)}
    chk.cov["traces_validated_against_impl"] = nchecked
    if errors:
        chk.corr_break("correspondence case files failed to compile", errors[0])
    for i in failing[:4]:
        chk.corr_break("Model/ExprParse.v (or ExprPrint / ExprSem / PyExpr) disagrees with the implementation: " + meta[i]["kind"] + " " + str(meta[i].get("text", meta[i].get("method", ""))), meta[i])
    if failing or errors or not getattr(chk, "proof_ok", True):
        search_after_break(chk, rng, rows)


def search_after_break(chk, rng, rows):
    """a model/implementation disagreement is not a violation by itself: look for a failing input of the property
    with a larger random corpus (the disagreeing texts already went through both oracles above)"""
    if any(v[2] for v in chk.violations):
        return
    g = Gen(rng)
    for _ in range(6000):
        text = g.text()
        o = observe(text)
        if "term" not in o:
            continue
        rt = roundtrip(o)
        if rt is not None and chk.impl_violation("printing a parsed expression and parsing it again does not give an equal tree: " + rt["why"],
                                                 {"kind": "impl-violation", "oracle": "roundtrip", "text": text, "detail": rt}, roundtrip_signature(o)):
            return
        mc = meaning_check(text, rows)[0]
        if mc is not None and chk.impl_violation("the parsed expression does not compute the value Python assigns to the text: " + mc["why"],
                                                 {"kind": "impl-violation", "oracle": "meaning", "text": text, "detail": mc, "rows": rows}, meaning_signature(text)):
            return


def replay(path):
    r = json.load(open(path))
    if r.get("kind") != "impl-violation":
        print(json.dumps(r, indent=1)[:3000])
        return 1
    text = r["text"]
    o = observe(text)
    if r["oracle"] == "roundtrip":
        rt = roundtrip(o) if "term" in o else None
        print("text", repr(text), "parsed", o.get("parsed"), "to_python", o.get("printed_text"), "round trip:", rt or "fine")
        return 1 if rt is not None else 0
    rows = r.get("rows") or [r["detail"]["row"]]
    mc = meaning_check(text, rows)[0] if "term" in o else None
    print("text", repr(text), "meaning:", mc or ("fine" if "term" in o else "rejected by the parser (" + o.get("parse_error", o.get("lark_error", "?")) + ")"))
    return 1 if mc is not None else 0
