"""C14 -- generated SQL carries every literal and identifier verbatim.
proof: Props/C14.v over Gen/G_Quote.v / Gen/G_QuoteMySQL.v (quote_identifier, quote_string, _clean_annotation regenerated
       each run) against the lexing rules of Model/Lex.v
tie:   translator + correspondence (nasty strings through the real functions of all five dialects and the generated Gallina)
oracle: execution on SQLite (SQLite and PostgreSQL dialect text): literals, names, labels, record-map keys, annotations;
        reference lexers for the backslash family (MySQL / BigQuery / Spark)"""
import json, os, warnings
import lib
from lib import clist, cstr, cbool

warnings.filterwarnings("ignore")
N = {"quick": (400, 60), "thorough": (20000, 1500)}
ALPHA = ["'", '"', "\\", "\n", "\r", "\t", " ", "-", "-", ";", "%", "*", "/", "é", "✓", "a", "b", "_", "`", "(", ")", "0", "%s", "--", "/*", "*/", "''", "\\'"]
FIXED = ["", "it's", 'a"b', "back\\slash", "\\", "a\\'b", "''", "'", "nl\nline", "cr\rline", "--c", "/* c */", "%s %d %%", "é✓", "x'; DROP TABLE d; --",
         "\\' OR 1=1 --", "tab\tsep", " lead", "trail ", "`bt`", "semi;colon", "a\\", "\\\\"]


def rand_string(rng, maxlen=8):
    return "".join(rng.choice(ALPHA) for _ in range(rng.randint(0, maxlen)))


def models():
    import data_algebra.SQLite, data_algebra.PostgreSQL, data_algebra.MySQL, data_algebra.BigQuery, data_algebra.SparkSQL
    return {"SQLite": data_algebra.SQLite.SQLiteModel(), "PostgreSQL": data_algebra.PostgreSQL.PostgreSQLModel(), "MySQL": data_algebra.MySQL.MySQLModel(),
            "BigQuery": data_algebra.BigQuery.BigQueryModel(), "SparkSQL": data_algebra.SparkSQL.SparkSQLModel()}


# ---------------- reference lexers (independent of the Coq ones; documented rules of the engines)
def lex_std(q, text):
    if not text or text[0] != q:
        return None          # not a string literal of this dialect at all
    i, out = 1, []
    while i < len(text):
        c = text[i]
        if c == q:
            if i + 1 < len(text) and text[i + 1] == q:
                out.append(q); i += 2; continue
            return "".join(out), text[i + 1:]
        out.append(c); i += 1
    return None


ESC = {"n": "\n", "t": "\t", "r": "\r", "0": "\0", "b": "\b", "Z": "\x1a", "\\": "\\", "'": "'", '"': '"', "%": "\\%", "_": "\\_"}


def lex_bs(q, text):
    if not text or text[0] != q:
        return None          # not a string literal of this dialect at all
    i, out = 1, []
    while i < len(text):
        c = text[i]
        if c == "\\":
            if i + 1 >= len(text):
                return None
            out.append(ESC.get(text[i + 1], text[i + 1])); i += 2; continue
        if c == q:
            if i + 1 < len(text) and text[i + 1] == q:
                out.append(q); i += 2; continue
            return "".join(out), text[i + 1:]
        out.append(c); i += 1
    return None


def run_sqlite(sql, frames):
    import data_algebra.SQLite
    h = data_algebra.SQLite.example_handle()
    try:
        for k, v in frames.items():
            h.insert_table(v, table_name=k, allow_overwrite=True)
        return h.read_query(sql)
    finally:
        h.close()


def generated_correspondence(chk, n):
    rng = chk.rng
    ms = models()
    terms, meta = [], []
    strings = list(FIXED) + [rand_string(rng) for _ in range(n)]
    for i, s in enumerate(strings):
        name, m = rng.choice(sorted(ms.items())) if i >= len(FIXED) * 0 else ("SQLite", ms["SQLite"])
        for name, m in (ms.items() if i < len(FIXED) else [(name, m)]):
            qs = m.quote_string(s)
            terms.append("QString %s %s %s" % (cstr(m.string_quote), cstr(s), cstr(qs)))
            meta.append({"fn": "quote_string", "dialect": name, "input": s, "observed": qs})
            try:
                qi = m.quote_identifier(s)
            except ValueError:
                qi = None
            terms.append("QIdent %s %s %s %s" % (cbool(name == "MySQL"), cstr(m.identifier_quote), cstr(s), "None" if qi is None else "(Some %s)" % cstr(qi)))
            meta.append({"fn": "quote_identifier", "dialect": name, "input": s, "observed": qi})
            chk.count(("q", name, s), nontrivial=len(s) > 0)
            chk.dist("quote:" + name)
        # annotations: ASCII only (the model treats ASCII whitespace; Unicode whitespace is kept out, see evidence)
        from data_algebra.sql_model import _clean_annotation
        a = "".join(c for c in s if ord(c) < 128) + rng.choice(["", "\n", "  x\n\ty % z  ", "\x0b\x0c", " \x1c "])
        ca = _clean_annotation(a)
        terms.append("QAnno (Some %s) (Some %s)" % (cstr(a), cstr(ca)))
        meta.append({"fn": "_clean_annotation", "input": a, "observed": ca})
        chk.count(("anno", a), nontrivial=len(a) > 0)
        if i < 3:
            chk.sample(meta[-1])
    terms.append("QAnno None None")
    meta.append({"fn": "_clean_annotation", "input": None})
    pre = ("From Coq Require Import List Bool NArith String.\nImport ListNotations.\nOpen Scope string_scope.\n"
           "From DA Require Import Base.PyRT Base.Cases Model.QuoteCases.\nOpen Scope list_scope.\n")
    failing, errors, nchecked = lib.run_case_files("C14", pre, terms, "check_cases", per_file=300)
    chk.cov["correspondence"] = {"what": "quote_string / quote_identifier (5 dialects) / _clean_annotation: real vs regenerated", "cases": len(terms),
                                 "checked_in_coq": nchecked, "disagreements": len(failing), "errors": errors[:2]}
    if errors:
        chk.corr_break("correspondence case files failed to compile", errors[0])
    for i in failing[:3]:
        chk.corr_break("regenerated quoting code disagrees with the implementation", meta[i])
    return strings


def lexer_oracle(chk, strings):
    """every dialect's own quoting must read back verbatim under that dialect's lexing rules"""
    ms = models()
    fam = {"SQLite": "std", "PostgreSQL": "std", "MySQL": "backslash", "BigQuery": "backslash", "SparkSQL": "backslash"}
    for s in strings:
        for name, m in ms.items():
            text = m.quote_string(s) + " AS x"
            r = (lex_std if fam[name] == "std" else lex_bs)(m.string_quote, text)
            chk.count(("lex", name, s), nontrivial=len(s) > 0)
            if r is None or r[0] != s or r[1] != " AS x":
                chk.impl_violation(f"{name}: string literal does not read back verbatim under the dialect's lexing rules",
                                   {"kind": "impl-violation", "oracle": "lexer", "dialect": name, "value": s, "sql_literal": m.quote_string(s),
                                    "reads_back_as": None if r is None else r[0]},
                                   {"oracle": "lexer", "family": fam[name], "has_backslash": "\\" in s})
            if m.identifier_quote not in s:
                qi = m.quote_identifier(s)
                if not (qi[0] == m.identifier_quote and qi[-1] == m.identifier_quote and qi[1:-1] == s):
                    chk.impl_violation(f"{name}: identifier does not read back verbatim", {"kind": "impl-violation", "oracle": "lexer", "dialect": name, "name": s, "sql": qi},
                                       {"oracle": "ident", "family": fam[name]})
            else:
                try:
                    m.quote_identifier(s)
                    chk.impl_violation(f"{name}: identifier containing the identifier quote was accepted", {"kind": "impl-violation", "oracle": "lexer", "dialect": name, "name": s},
                                       {"oracle": "ident_accept", "family": fam[name]})
                except ValueError:
                    pass


def sqlite_oracle(chk, n):
    """execute generated SQL (SQLite dialect and PostgreSQL dialect text) on SQLite: values / names read back verbatim"""
    import pandas as pd
    import data_algebra.PostgreSQL, data_algebra.SQLite, data_algebra.cdata as cdata
    from data_algebra.data_ops import TableDescription, descr
    from data_algebra.expr_rep import Value
    from data_algebra.sql_format_options import SQLFormatOptions
    rng = chk.rng
    dialects = {"SQLite": data_algebra.SQLite.SQLiteModel(), "PostgreSQL": data_algebra.PostgreSQL.PostgreSQLModel()}
    pool = [s for s in FIXED if "\0" not in s]
    for i in range(n):
        s = rng.choice(pool) if rng.random() < 0.5 else rand_string(rng)
        s2 = rand_string(rng, 4)
        kind = rng.choice(["literal", "literal", "select", "is_in", "mapv", "column", "table", "label", "recordmap", "annotation"])
        dname, model = rng.choice(sorted(dialects.items()))
        case = {"kind": "impl-violation", "oracle": "sqlite", "use": kind, "dialect_text": dname, "string": s, "other": s2}
        chk.count(("sqlite", kind, dname, s, s2), nontrivial=len(s) > 0)
        chk.dist("sqlite:" + kind)
        try:
            if kind in ("literal", "select", "is_in", "mapv"):
                d = pd.DataFrame({"x": [1, 2, 3], "g": [s, s2, "zz"]})
                if kind == "literal":
                    ops = descr(d=d).extend({"v": Value(s)})
                    r = run_sqlite(ops.to_sql(model), {"d": d})
                    bad = list(r["v"]) != [s] * 3
                elif kind == "select":
                    ops = descr(d=d).select_rows(TableDescription(table_name="d", column_names=["x", "g"]).column_map()["g"] == Value(s)) if False else \
                        descr(d=d).extend({"m": Value(s)}).select_rows("g == m").drop_columns(["m"])
                    r = run_sqlite(ops.to_sql(model), {"d": d})
                    bad = sorted(r["x"]) != sorted(int(x) for x, g in zip(d["x"], d["g"]) if g == s)
                elif kind == "is_in":
                    import data_algebra.expr_rep as er
                    ops = descr(d=d).extend({"v": er.ColumnReference("g").is_in(er.ListTerm([er.Value(s), er.Value("q")]))})
                    r = run_sqlite(ops.to_sql(model), {"d": d})
                    bad = [bool(v) for v in r["v"]] != [g in (s, "q") for g in d["g"]]
                else:
                    import data_algebra.expr_rep as er
                    ops = descr(d=d).extend({"v": er.ColumnReference("g").mapv(er.DictTerm({s: 7, "zz": 9}), er.Value(0))})
                    r = run_sqlite(ops.to_sql(model), {"d": d})
                    bad = [int(v) for v in r["v"]] != [{s: 7, "zz": 9}.get(g, 0) for g in d["g"]]
                if bad:
                    chk.impl_violation(f"string value does not survive the SQL ({kind}, {dname} text on SQLite)", {**case, "observed": r.to_dict("list")}, {"oracle": "sqlite", "use": kind})
            elif kind in ("column", "table"):
                if '"' in s or not s.strip() or "\0" in s:
                    continue
                col, tab = (s, "d") if kind == "column" else ("c", s)
                d = pd.DataFrame({col: [1, 2], "y": [3, 4]})
                ops = TableDescription(table_name=tab, column_names=[col, "y"]).extend({"z": "y + 1"})
                r = run_sqlite(ops.to_sql(model), {tab: d})
                if list(r.columns) != [col, "y", "z"] or list(r["z"]) != [4, 5]:
                    chk.impl_violation(f"{kind} name does not survive the SQL ({dname} text on SQLite)", {**case, "observed_columns": list(r.columns)}, {"oracle": "sqlite", "use": kind})
            elif kind == "label":
                d = pd.DataFrame({"x": [1, 2]})
                ops = descr(d=d).concat_rows(descr(d=d), id_column="src", a_name=s, b_name=s2 + "b")
                r = run_sqlite(ops.to_sql(model), {"d": d})
                if sorted(r["src"]) != sorted([s, s, s2 + "b", s2 + "b"]):
                    chk.impl_violation(f"concat_rows label does not survive the SQL ({dname} text on SQLite)", {**case, "observed": sorted(set(r["src"]))}, {"oracle": "sqlite", "use": kind})
            elif kind == "recordmap":
                if s == s2 or not s or not s2 or dname == "PostgreSQL":
                    continue      # PostgreSQL's parenthesised UNION ALL operands are not SQLite syntax: record maps run with SQLite text only
                ct = pd.DataFrame({"k": [s, s2], "v": ["c1", "c2"]})
                rs = cdata.RecordSpecification(ct, record_keys=["id"], control_table_keys=["k"])
                d = pd.DataFrame({"id": [1, 2], "c1": [10, 20], "c2": [30, 40]})
                ops = descr(d=d).convert_records(rs.map_from_rows())
                rp = ops.transform(d)
                r = run_sqlite(ops.to_sql(model), {"d": d})
                a = sorted(zip(rp["id"], rp["k"], rp["v"]))
                b = sorted(zip(r["id"], r["k"], r["v"]))
                ops2 = descr(b=rp).convert_records(rs.map_to_rows())
                r2 = run_sqlite(ops2.to_sql(model), {"b": rp})
                if a != b or sorted(zip(r2["id"], r2["c1"], r2["c2"])) != [(1, 10, 30), (2, 20, 40)]:
                    chk.impl_violation(f"record-map key does not survive the SQL ({dname} text on SQLite)", {**case, "pandas": a, "sql": b}, {"oracle": "sqlite", "use": kind})
            else:
                # annotation: the pipeline text (with nasty names) becomes a `--` comment; results must not depend on it
                if '"' in s or not s.strip():
                    continue
                d = pd.DataFrame({s: [1, 2], "y": [3, 4]})
                ops = TableDescription(table_name="d", column_names=[s, "y"]).extend({"z": "y + 1"}).select_rows("z > 0").order_rows(["z"])
                ra = run_sqlite(ops.to_sql(model, sql_format_options=SQLFormatOptions(annotate=True)), {"d": d})
                rb = run_sqlite(ops.to_sql(model, sql_format_options=SQLFormatOptions(annotate=False)), {"d": d})
                if not ra.equals(rb) or list(ra["z"]) != [4, 5]:
                    chk.impl_violation(f"annotation comment changes the query ({dname} text on SQLite)", {**case}, {"oracle": "sqlite", "use": kind})
        except Exception as e:
            chk.impl_violation(f"generated SQL is not well-formed or cannot be produced ({kind}, {dname} text on SQLite): {type(e).__name__}",
                               {**case, "error": repr(e)[:300]}, {"oracle": "sqlite", "use": kind, "error": type(e).__name__})


def run(chk):
    n1, n2 = N[chk.tier]
    chk.prove(["G_Quote", "G_QuoteMySQL"], extra_vo=["theories/Model/QuoteCases.vo"])
    chk.cov["trusted_base"] = ["Coq 8.16.1 kernel + vm_compute", "tools/py2v.py translator (sql_model.py quote_identifier/quote_string/_clean_annotation, MySQL.py quote_identifier)",
                               "Base/PyStr.v models of str `in`, +, .strip(), .replace(), re.sub(<quote>, ..) and re.sub('(\\\\s|\\\\r|\\\\n)+', ..) on byte strings (ASCII whitespace only)",
                               "Model/Lex.v: SQL lexing rules of the standard family (SQLite, PostgreSQL) and of the backslash family (MySQL, BigQuery, Spark) written from documentation; only SQLite is executable here",
                               "value_to_sql numeric/bool/None branches, record-map SQL and concat labels: covered by the SQLite execution oracle, not by a theorem"]
    chk.assumptions = ["identifiers do not contain the dialect's identifier quote (guard of the property; the code rejects them)",
                       "annotation strings in the correspondence are ASCII (Unicode whitespace such as U+0085/U+2028 is outside the byte-level model)"]
    chk.cov["rule"] = ("23 fixed nasty strings + random strings (<=8 tokens over quotes, backslash, CR/LF/TAB, comment markers, percent, unicode, backtick) through quote_string / "
                       "quote_identifier of the five dialects and _clean_annotation (correspondence + reference lexers); and as literal / comparison / is_in / mapv value, column name, "
                       "table name, concat label, record-map key and annotated pipeline text executed on SQLite with SQLite and PostgreSQL dialect text; non-trivial = non-empty string")
    if os.path.exists(os.path.join(lib.COQ, "theories/Model/QuoteCases.vo")):
        strings = generated_correspondence(chk, n1)
    else:
        chk.corr_break("Model/QuoteCases.vo not built", "")
        strings = list(FIXED)
    lexer_oracle(chk, strings)
    sqlite_oracle(chk, n2)


def replay(path):
    r = json.load(open(path))
    if r.get("oracle") == "lexer" and "value" in r:
        m = models()[r["dialect"]]
        fam = "std" if r["dialect"] in ("SQLite", "PostgreSQL") else "bs"
        res = (lex_std if fam == "std" else lex_bs)(m.string_quote, m.quote_string(r["value"]) + " AS x")
        print("literal", m.quote_string(r["value"]), "reads back as", res)
        return 0 if res is not None and res[0] == r["value"] else 1
    print(json.dumps(r, indent=1)[:3000])
    return 1
