"""C14 -- generated SQL carries every literal and identifier verbatim.
proof: Props/C14.v over Gen/G_Quote.v / Gen/G_QuoteMySQL.v / Gen/G_ValueToSql.v (quote_identifier, quote_string, _clean_annotation,
       value_to_sql regenerated each run) against the lexing rules of Model/Lex.v; Python values, str(int), repr(float) in
       Model/PyVal.v; concat_rows labels and record-map SQL as a token model in Model/RecMapSql.v
tie:   translator + correspondence (nasty strings and values of every kind through the real functions of all five dialects and the
       generated Gallina; the label text value_to_sql returned; the record-map line lists against the rendered token model)
oracle: execution on SQLite (SQLite and PostgreSQL dialect text): literals, numbers, names, labels, record-map keys, annotations;
        reference lexers (strings: both families; numbers / NULL / TRUE / FALSE: one regular expression)"""
import json, math, os, re, warnings
import lib
from lib import clist, cstr, cbool

warnings.filterwarnings("ignore")
N = {"quick": (400, 60), "thorough": (20000, 1500)}
ALPHA = ["'", '"', "\\", "\n", "\r", "\t", " ", "-", "-", ";", "%", "*", "/", "é", "✓", "a", "b", "_", "`", "(", ")", "0", "%s", "--", "/*", "*/", "''", "\\'"]
FIXED = ["", "it's", 'a"b', "back\\slash", "\\", "a\\'b", "''", "'", "nl\nline", "cr\rline", "--c", "/* c */", "%s %d %%", "é✓", "x'; DROP TABLE d; --",
         "\\' OR 1=1 --", "tab\tsep", " lead", "trail ", "`bt`", "semi;colon", "a\\", "\\\\"]


def rand_string(rng, maxlen=8):
    return "".join(rng.choice(ALPHA) for _ in range(rng.randint(0, maxlen)))


def models():
    import data_algebra.SQLite, data_algebra.PostgreSQL, data_algebra.MySQL, data_algebra.BigQuery, data_algebra.SparkSQL
    return {"SQLite": data_algebra.SQLite.SQLiteModel(), "PostgreSQL": data_algebra.PostgreSQL.PostgreSQLModel(), "MySQL": data_algebra.MySQL.MySQLModel(),
            "BigQuery": data_algebra.BigQuery.BigQueryModel(), "SparkSQL": data_algebra.SparkSQL.SparkSQLModel()}


# ---------------- reference lexers (independent of the Coq ones; documented rules of the engines)
def lex_std(q, text):
    if not text or text[0] != q:
        return None          # not a string literal of this dialect at all
    i, out = 1, []
    while i < len(text):
        c = text[i]
        if c == q:
            if i + 1 < len(text) and text[i + 1] == q:
                out.append(q); i += 2; continue
            return "".join(out), text[i + 1:]
        out.append(c); i += 1
    return None


ESC = {"n": "\n", "t": "\t", "r": "\r", "0": "\0", "b": "\b", "Z": "\x1a", "\\": "\\", "'": "'", '"': '"', "%": "\\%", "_": "\\_"}


def lex_bs(q, text):
    if not text or text[0] != q:
        return None          # not a string literal of this dialect at all
    i, out = 1, []
    while i < len(text):
        c = text[i]
        if c == "\\":
            if i + 1 >= len(text):
                return None
            out.append(ESC.get(text[i + 1], text[i + 1])); i += 2; continue
        if c == q:
            if i + 1 < len(text) and text[i + 1] == q:
                out.append(q); i += 2; continue
            return "".join(out), text[i + 1:]
        out.append(c); i += 1
    return None


def run_sqlite(sql, frames):
    import data_algebra.SQLite
    h = data_algebra.SQLite.example_handle()
    try:
        for k, v in frames.items():
            h.insert_table(v, table_name=k, allow_overwrite=True)
        return h.read_query(sql)
    finally:
        h.close()


def generated_correspondence(chk, n):
    rng = chk.rng
    ms = models()
    terms, meta = [], []
    strings = list(FIXED) + [rand_string(rng) for _ in range(n)]
    for i, s in enumerate(strings):
        name, m = rng.choice(sorted(ms.items())) if i >= len(FIXED) * 0 else ("SQLite", ms["SQLite"])
        for name, m in (ms.items() if i < len(FIXED) else [(name, m)]):
            qs = m.quote_string(s)
            terms.append("QString %s %s %s" % (cstr(m.string_quote), cstr(s), cstr(qs)))
            meta.append({"fn": "quote_string", "dialect": name, "input": s, "observed": qs})
            try:
                qi = m.quote_identifier(s)
            except ValueError:
                qi = None
            terms.append("QIdent %s %s %s %s" % (cbool(name == "MySQL"), cstr(m.identifier_quote), cstr(s), "None" if qi is None else "(Some %s)" % cstr(qi)))
            meta.append({"fn": "quote_identifier", "dialect": name, "input": s, "observed": qi})
            chk.count(("q", name, s), nontrivial=len(s) > 0)
            chk.dist("quote:" + name)
        # annotations: ASCII only (the model treats ASCII whitespace; Unicode whitespace is kept out, see evidence)
        from data_algebra.sql_model import _clean_annotation
        a = "".join(c for c in s if ord(c) < 128) + rng.choice(["", "\n", "  x\n\ty % z  ", "\x0b\x0c", " \x1c "])
        ca = _clean_annotation(a)
        terms.append("QAnno (Some %s) (Some %s)" % (cstr(a), cstr(ca)))
        meta.append({"fn": "_clean_annotation", "input": a, "observed": ca})
        chk.count(("anno", a), nontrivial=len(a) > 0)
        if i < 3:
            chk.sample(meta[-1])
    terms.append("QAnno None None")
    meta.append({"fn": "_clean_annotation", "input": None})
    pre = ("From Coq Require Import List Bool NArith String.\nImport ListNotations.\nOpen Scope string_scope.\n"
           "From DA Require Import Base.PyRT Base.Cases Model.QuoteCases.\nOpen Scope list_scope.\n")
    failing, errors, nchecked = lib.run_case_files("C14", pre, terms, "check_cases", per_file=300)
    chk.cov["correspondence"] = {"what": "quote_string / quote_identifier (5 dialects) / _clean_annotation: real vs regenerated", "cases": len(terms),
                                 "checked_in_coq": nchecked, "disagreements": len(failing), "errors": errors[:2]}
    if errors:
        chk.corr_break("correspondence case files failed to compile", errors[0])
    for i in failing[:3]:
        chk.corr_break("regenerated quoting code disagrees with the implementation", meta[i])
    return strings


def lexer_oracle(chk, strings):
    """every dialect's own quoting must read back verbatim under that dialect's lexing rules"""
    ms = models()
    fam = {"SQLite": "std", "PostgreSQL": "std", "MySQL": "backslash", "BigQuery": "backslash", "SparkSQL": "backslash"}
    for s in strings:
        for name, m in ms.items():
            text = m.quote_string(s) + " AS x"
            r = (lex_std if fam[name] == "std" else lex_bs)(m.string_quote, text)
            chk.count(("lex", name, s), nontrivial=len(s) > 0)
            if r is None or r[0] != s or r[1] != " AS x":
                chk.impl_violation(f"{name}: string literal does not read back verbatim under the dialect's lexing rules",
                                   {"kind": "impl-violation", "oracle": "lexer", "dialect": name, "value": s, "sql_literal": m.quote_string(s),
                                    "reads_back_as": None if r is None else r[0]},
                                   {"oracle": "lexer", "family": fam[name], "has_backslash": "\\" in s})
            if m.identifier_quote not in s:
                qi = m.quote_identifier(s)
                if not (qi[0] == m.identifier_quote and qi[-1] == m.identifier_quote and qi[1:-1] == s):
                    chk.impl_violation(f"{name}: identifier does not read back verbatim", {"kind": "impl-violation", "oracle": "lexer", "dialect": name, "name": s, "sql": qi},
                                       {"oracle": "ident", "family": fam[name]})
            else:
                try:
                    m.quote_identifier(s)
                    chk.impl_violation(f"{name}: identifier containing the identifier quote was accepted", {"kind": "impl-violation", "oracle": "lexer", "dialect": name, "name": s},
                                       {"oracle": "ident_accept", "family": fam[name]})
                except ValueError:
                    pass


def sqlite_oracle(chk, n):
    """execute generated SQL (SQLite dialect and PostgreSQL dialect text) on SQLite: values / names read back verbatim"""
    import pandas as pd
    import data_algebra.PostgreSQL, data_algebra.SQLite, data_algebra.cdata as cdata
    from data_algebra.data_ops import TableDescription, descr
    from data_algebra.expr_rep import Value
    from data_algebra.sql_format_options import SQLFormatOptions
    rng = chk.rng
    dialects = {"SQLite": data_algebra.SQLite.SQLiteModel(), "PostgreSQL": data_algebra.PostgreSQL.PostgreSQLModel()}
    pool = [s for s in FIXED if "\0" not in s]
    for i in range(n):
        s = rng.choice(pool) if rng.random() < 0.5 else rand_string(rng)
        s2 = rand_string(rng, 4)
        kind = rng.choice(["literal", "literal", "select", "is_in", "mapv", "column", "table", "label", "recordmap", "annotation", "number"])
        dname, model = rng.choice(sorted(dialects.items()))
        case = {"kind": "impl-violation", "oracle": "sqlite", "use": kind, "dialect_text": dname, "string": s, "other": s2}
        chk.count(("sqlite", kind, dname, s, s2), nontrivial=len(s) > 0)
        chk.dist("sqlite:" + kind)
        try:
            if kind == "number":
                v = rand_float(rng) if rng.random() < 0.7 else rng.randint(-10 ** 15, 10 ** 15)
                case["value"] = repr(v)
                d = pd.DataFrame({"x": [1]})
                try:
                    r = run_sqlite(descr(d=d).extend({"v": Value(v)}).to_sql(model), {"d": d})
                    got = r["v"][0]
                    if isinstance(v, float) and math.isnan(v):
                        bad = not (got is None or got != got)
                    else:
                        bad = got is None or got != got or not (abs(float(got) - v) <= 1e-8 * max(abs(v), 1.0) or float(got) == v)
                    err = None
                except Exception as e:
                    bad, err, got = True, repr(e)[:200], None
                if bad:
                    chk.impl_violation(f"numeric value does not survive the SQL ({dname} text on SQLite)", {**case, "observed": repr(got), "error": err},
                                       {"oracle": "value", "kind": "float_inf" if isinstance(v, float) and math.isinf(v) else "number"})
                continue
            if kind in ("literal", "select", "is_in", "mapv"):
                d = pd.DataFrame({"x": [1, 2, 3], "g": [s, s2, "zz"]})
                if kind == "literal":
                    ops = descr(d=d).extend({"v": Value(s)})
                    r = run_sqlite(ops.to_sql(model), {"d": d})
                    bad = list(r["v"]) != [s] * 3
                elif kind == "select":
                    ops = descr(d=d).select_rows(TableDescription(table_name="d", column_names=["x", "g"]).column_map()["g"] == Value(s)) if False else \
                        descr(d=d).extend({"m": Value(s)}).select_rows("g == m").drop_columns(["m"])
                    r = run_sqlite(ops.to_sql(model), {"d": d})
                    bad = sorted(r["x"]) != sorted(int(x) for x, g in zip(d["x"], d["g"]) if g == s)
                elif kind == "is_in":
                    import data_algebra.expr_rep as er
                    ops = descr(d=d).extend({"v": er.ColumnReference("g").is_in(er.ListTerm([er.Value(s), er.Value("q")]))})
                    r = run_sqlite(ops.to_sql(model), {"d": d})
                    bad = [bool(v) for v in r["v"]] != [g in (s, "q") for g in d["g"]]
                else:
                    import data_algebra.expr_rep as er
                    ops = descr(d=d).extend({"v": er.ColumnReference("g").mapv(er.DictTerm({s: 7, "zz": 9}), er.Value(0))})
                    r = run_sqlite(ops.to_sql(model), {"d": d})
                    bad = [int(v) for v in r["v"]] != [{s: 7, "zz": 9}.get(g, 0) for g in d["g"]]
                if bad:
                    chk.impl_violation(f"string value does not survive the SQL ({kind}, {dname} text on SQLite)", {**case, "observed": r.to_dict("list")}, {"oracle": "sqlite", "use": kind})
            elif kind in ("column", "table"):
                if '"' in s or not s.strip() or "\0" in s:
                    continue
                col, tab = (s, "d") if kind == "column" else ("c", s)
                d = pd.DataFrame({col: [1, 2], "y": [3, 4]})
                ops = TableDescription(table_name=tab, column_names=[col, "y"]).extend({"z": "y + 1"})
                r = run_sqlite(ops.to_sql(model), {tab: d})
                if list(r.columns) != [col, "y", "z"] or list(r["z"]) != [4, 5]:
                    chk.impl_violation(f"{kind} name does not survive the SQL ({dname} text on SQLite)", {**case, "observed_columns": list(r.columns)}, {"oracle": "sqlite", "use": kind})
            elif kind == "label":
                d = pd.DataFrame({"x": [1, 2]})
                ops = descr(d=d).concat_rows(descr(d=d), id_column="src", a_name=s, b_name=s2 + "b")
                r = run_sqlite(ops.to_sql(model), {"d": d})
                if sorted(r["src"]) != sorted([s, s, s2 + "b", s2 + "b"]):
                    chk.impl_violation(f"concat_rows label does not survive the SQL ({dname} text on SQLite)", {**case, "observed": sorted(set(r["src"]))}, {"oracle": "sqlite", "use": kind})
            elif kind == "recordmap":
                if s == s2 or not s or not s2 or dname == "PostgreSQL":
                    continue      # PostgreSQL's parenthesised UNION ALL operands are not SQLite syntax: record maps run with SQLite text only
                ct = pd.DataFrame({"k": [s, s2], "v": ["c1", "c2"]})
                rs = cdata.RecordSpecification(ct, record_keys=["id"], control_table_keys=["k"])
                d = pd.DataFrame({"id": [1, 2], "c1": [10, 20], "c2": [30, 40]})
                ops = descr(d=d).convert_records(rs.map_from_rows())
                rp = ops.transform(d)
                r = run_sqlite(ops.to_sql(model), {"d": d})
                a = sorted(zip(rp["id"], rp["k"], rp["v"]))
                b = sorted(zip(r["id"], r["k"], r["v"]))
                ops2 = descr(b=rp).convert_records(rs.map_to_rows())
                r2 = run_sqlite(ops2.to_sql(model), {"b": rp})
                if a != b or sorted(zip(r2["id"], r2["c1"], r2["c2"])) != [(1, 10, 30), (2, 20, 40)]:
                    chk.impl_violation(f"record-map key does not survive the SQL ({dname} text on SQLite)", {**case, "pandas": a, "sql": b}, {"oracle": "sqlite", "use": kind})
            else:
                # annotation: the pipeline text (with nasty names) becomes a `--` comment; results must not depend on it
                if '"' in s or not s.strip():
                    continue
                d = pd.DataFrame({s: [1, 2], "y": [3, 4]})
                ops = TableDescription(table_name="d", column_names=[s, "y"]).extend({"z": "y + 1"}).select_rows("z > 0").order_rows(["z"])
                ra = run_sqlite(ops.to_sql(model, sql_format_options=SQLFormatOptions(annotate=True)), {"d": d})
                rb = run_sqlite(ops.to_sql(model, sql_format_options=SQLFormatOptions(annotate=False)), {"d": d})
                if not ra.equals(rb) or list(ra["z"]) != [4, 5]:
                    chk.impl_violation(f"annotation comment changes the query ({dname} text on SQLite)", {**case}, {"oracle": "sqlite", "use": kind})
        except Exception as e:
            chk.impl_violation(f"generated SQL is not well-formed or cannot be produced ({kind}, {dname} text on SQLite): {type(e).__name__}",
                               {**case, "error": repr(e)[:300]}, {"oracle": "sqlite", "use": kind, "error": type(e).__name__})


# ---------------- Coq literals for Python values (Model/PyVal.v)
def float_triple(x):
    """(neg, digits, decpt) as CPython's shortest conversion gives them: value = 0.d1..dn * 10^decpt"""
    from decimal import Decimal
    sign, digits, exp = Decimal(repr(x)).as_tuple()
    ds = list(digits)
    n0 = len(ds)
    if all(d == 0 for d in ds):
        return bool(sign), [0], 1
    while len(ds) > 1 and ds[-1] == 0:
        ds.pop()
    while len(ds) > 1 and ds[0] == 0:
        ds.pop(0); n0 -= 1
    return bool(sign), ds, n0 + exp


def cval(v):
    import data_algebra.expr_rep as er
    if v is None:
        return "PNone"
    if isinstance(v, er.ListTerm):
        return "(PListTerm %s)" % clist([cval(x) for x in v.value])
    if isinstance(v, er.Value):
        return "(PValue %s)" % cval(v.value)
    if isinstance(v, str):
        return "(PStr %s)" % cstr(v)
    if isinstance(v, bool):
        return "(PBool %s)" % cbool(v)
    if type(v) is float:
        if math.isnan(v):
            return "(PFloat FNan)"
        if math.isinf(v):
            return "(PFloat (FInf %s))" % cbool(v < 0)
        neg, ds, decpt = float_triple(v)
        return "(PFloat (FFin %s %s %s))" % (cbool(neg), clist(["d%d" % d for d in ds]), lib.cz(decpt))
    if type(v) is int:
        return "(PInt %s)" % lib.cz(v)
    if type(v) is list:
        return "(PList %s)" % clist([cval(x) for x in v])
    if type(v) is tuple:
        return "(PTuple %s)" % clist([cval(x) for x in v])
    return "(POther %s)" % cstr(str(v))          # any other object (numpy scalars ...): str(v)


def cchar(c):
    return "(ascii_of_nat %d)" % ord(c)


FAM = {"SQLite": "std", "PostgreSQL": "std", "MySQL": "backslash", "BigQuery": "backslash", "SparkSQL": "backslash"}


def cdialect(name, m):
    return "(mk_dialect %s %s %s %s %s %s)" % ("Std" if FAM[name] == "std" else "Backslash", cchar(m.string_quote), cchar(m.identifier_quote),
                                              cstr(m.string_type), cstr(m.union_all_term_start), cstr(m.union_all_term_end))


NUM_RE = re.compile(r"^-?[0-9]+(\.[0-9]+)?([eE][+-]?[0-9]+)?$")


def rand_float(rng):
    k = rng.random()
    if k < 0.08:
        return rng.choice([0.0, -0.0, 1.0, -1.0, 1e16, 1e15, 9999999999999998.0, 1e-4, 1e-5, 0.1, 1e22, 1e100, 5e-324, 1.7976931348623157e308, 123456789012345678.0, 0.5, 100.0])
    if k < 0.16:
        return rng.choice([float("nan"), float("inf"), float("-inf")])
    if k < 0.5:
        return rng.choice([-1, 1]) * rng.random() * 10.0 ** rng.randint(-12, 25)
    if k < 0.75:
        return round(rng.uniform(-1000, 1000), rng.randint(0, 6))
    return float(rng.randint(-10 ** 6, 10 ** 6)) * 10.0 ** rng.randint(-3, 14)


def rand_value(rng, depth=0):
    import data_algebra.expr_rep as er
    import numpy as np
    k = rng.random()
    if k < 0.08:
        return None
    if k < 0.30:
        return rng.choice(FIXED) if rng.random() < 0.4 else rand_string(rng)
    if k < 0.38:
        return rng.random() < 0.5
    if k < 0.55:
        return rng.choice([0, 1, -1, 7, -12, 10 ** 18, -10 ** 30, 2 ** 63]) if rng.random() < 0.4 else rng.randint(-10 ** 12, 10 ** 12)
    if k < 0.80:
        return rand_float(rng)
    if k < 0.86 and depth < 2:
        return er.Value(rand_value(rng, 3))
    if k < 0.95 and depth < 1:
        items = [rand_value(rng, 2) for _ in range(rng.randint(0, 4))]
        return rng.choice([list, tuple, er.ListTerm])(items)
    return rng.choice([np.int64(rng.randint(-50, 50)), np.float64(2.5), np.bool_(True)])


def value_oracle(chk, name, m, v, text):
    """from the property text: the emitted token is one literal of the dialect that denotes the same value"""
    import data_algebra.expr_rep as er
    if isinstance(v, er.Value):
        v = v.value
    case = {"kind": "impl-violation", "oracle": "value", "dialect": name, "value": repr(v), "sql": text}
    if v is None or (type(v) is float and math.isnan(v)):
        ok = text == "NULL"
    elif isinstance(v, str):
        r = (lex_std if FAM[name] == "std" else lex_bs)(m.string_quote, text + " AS x")
        if FAM[name] != "std" and "\\" in v:
            return        # the listed backslash-family finding is reported by lexer_oracle on the same strings
        ok = r is not None and r[0] == v and r[1] == " AS x"
    elif isinstance(v, bool):
        ok = text == ("TRUE" if v else "FALSE")
    elif type(v) is int:
        ok = NUM_RE.match(text) is not None and "." not in text and "e" not in text.lower() and int(text) == v
    elif type(v) is float:
        ok = NUM_RE.match(text) is not None and float(text) == v and math.copysign(1, float(text)) == math.copysign(1, v)
        if not ok:
            chk.impl_violation(f"{name}: float value is not written as a numeric literal that denotes it", case,
                               {"oracle": "value", "kind": "float_inf" if math.isinf(v) else "float"})
            return
    else:
        return
    if not ok:
        chk.impl_violation(f"{name}: value is not written as one literal token that denotes it", case, {"oracle": "value", "kind": type(v).__name__})


def value_correspondence(chk, n):
    """value_to_sql on values of every kind, all five dialects: real vs regenerated (+ the literal-token oracle)"""
    rng = chk.rng
    ms = models()
    terms, meta = [], []
    fixed = [None, True, False, 0, -5, 10 ** 30, 1.5, -0.0, 1e16, 1e-5, 1.234e-7, float("nan"), float("inf"), float("-inf"), "it's", "\\", [1, "a'b", None], (1.0, 2)]
    vals = fixed + [rand_value(rng) for _ in range(n)]
    for i, v in enumerate(vals):
        for name, m in (sorted(ms.items()) if i < len(fixed) else [rng.choice(sorted(ms.items()))]):
            text = m.value_to_sql(v)
            terms.append("VSql %s %s %s" % (cstr(m.string_quote), cval(v), cstr(text)))
            meta.append({"fn": "value_to_sql", "dialect": name, "input": repr(v), "observed": text})
            chk.count(("value", name, repr(v)), nontrivial=True)
            chk.dist("value:" + type(v).__name__)
            value_oracle(chk, name, m, v, text)
    return terms, meta


def label_correspondence(chk, n):
    """concat_rows labels: the text value_to_sql returns for the label (spied on inside to_sql) vs the model, and its place in the SQL"""
    import pandas as pd
    from data_algebra.data_ops import descr
    rng = chk.rng
    terms, meta = [], []
    for i in range(n):
        name, m0 = rng.choice(sorted(models().items()))
        calls = []

        class Spy(type(m0)):
            def value_to_sql(self, v):
                r = super().value_to_sql(v)
                calls.append((v, r))
                return r
        m = Spy()
        a, b = (rng.choice(FIXED) if rng.random() < 0.5 else rand_string(rng)), rand_string(rng, 4) + "b"
        d = pd.DataFrame({"x": [1, 2]})
        ops = descr(d=d).concat_rows(descr(d=d), id_column="src", a_name=a, b_name=b)
        chk.count(("label", name, a, b), nontrivial=len(a) > 0)
        try:
            sql = ops.to_sql(m)
        except Exception as e:
            chk.impl_violation(f"concat_rows with these labels: SQL cannot be produced ({name}): {type(e).__name__}",
                               {"kind": "impl-violation", "oracle": "label", "dialect": name, "a_name": a, "b_name": b, "error": repr(e)[:300]},
                               {"oracle": "label", "error": type(e).__name__})
            continue
        for lab in (a, b):
            got = [r for v, r in calls if isinstance(v, str) and v == lab]
            if not got or (got[0] + " AS " + m.quote_identifier("src")) not in sql:
                chk.corr_break("concat_rows label does not reach the SQL as the literal value value_to_sql(label)",
                               {"dialect": name, "label": lab, "value_to_sql_calls": [repr(c)[:80] for c in calls][:6], "sql": sql[:600]})
                continue
            terms.append("VLabel %s %s %s" % (cdialect(name, m0), cstr(lab), cstr(got[0])))
            meta.append({"fn": "concat_rows label", "dialect": name, "input": lab, "observed": got[0]})
    return terms, meta


def scan_quoted(name, m, text):
    """reference tokenizer for one dialect: the identifiers and string literals of `text`, in order (None if malformed)"""
    idents, lits, i = [], [], 0
    rd = lex_std if FAM[name] == "std" else lex_bs
    while i < len(text):
        c = text[i]
        if c == m.identifier_quote:
            j = text.find(m.identifier_quote, i + 1)
            if j < 0:
                return None
            idents.append(text[i + 1:j]); i = j + 1
        elif c == m.string_quote:
            r = rd(m.string_quote, text[i:])
            if r is None:
                return None
            lits.append(r[0]); i = len(text) - len(r[1])
        else:
            i += 1
    return idents, lits


def recordmap_oracle(chk, name, m, cols, names, keys, rkeys, to_blocks, pre, suf):
    """from the property text: tokenized in the dialect, the record-map SQL reads back exactly the control table's names and
    key values, and nothing else"""
    strs = [v for c in names for v in cols[c] if isinstance(v, str)] + list(names) + list(rkeys)
    if FAM[name] != "std" and any("\\" in x for x in strs):
        return      # listed backslash-family finding
    nrow = len(cols[names[0]])
    vcols = [c for c in names if c not in keys]
    exp_id = set(rkeys)
    exp_lit = set()
    if to_blocks:
        exp_id |= set(names) | {"table_values"} | {v for c in vcols for v in cols[c]}
        exp_lit |= {str(v) for c in vcols for v in cols[c]} | {v for c in names for v in cols[c] if isinstance(v, str)}
    elif nrow == 1:
        exp_id |= set(vcols) | {cols[c][0] for c in vcols}
    else:
        exp_id |= set(vcols) | set(keys) | {v for c in vcols for v in cols[c]}
        exp_lit |= {str(v) for c in keys for v in cols[c]}
    got_id, got_lit, bad = set(), set(), False
    for line in pre + suf:
        r = scan_quoted(name, m, line)
        if r is None:
            bad = True
            break
        got_id |= set(r[0]); got_lit |= set(r[1])
    if bad or got_id != exp_id or got_lit != exp_lit:
        chk.impl_violation(f"{name}: record-map SQL does not read back the control table's names / key values verbatim",
                           {"kind": "impl-violation", "oracle": "recordmap-lexer", "dialect": name, "control_table": cols, "record_keys": rkeys,
                            "control_table_keys": keys, "to_blocks": to_blocks, "sql_lines": pre + suf,
                            "unexpected_literals": sorted(got_lit - exp_lit), "missing_literals": sorted(exp_lit - got_lit),
                            "unexpected_identifiers": sorted(got_id - exp_id), "missing_identifiers": sorted(exp_id - got_id)},
                           {"oracle": "recordmap-lexer", "family": FAM[name]})


def recordmap_correspondence(chk, n):
    """the line lists of row_recs_to_blocks / blocks_to_row_recs for random control tables with nasty strings, five dialects,
    against the rendered token model"""
    import pandas as pd
    import data_algebra.cdata as cdata
    rng = chk.rng
    ms = models()
    terms, meta = [], []

    def cell(kind):
        if kind == "int":
            return rng.randint(0, 9)
        return rng.choice(FIXED[1:]) if rng.random() < 0.4 else (rand_string(rng, 5) or "z")
    tries = 0
    while len(terms) < n and tries < 20 * n:
        tries += 1
        nrow = rng.choice([1, 1, 2, 2, 3])
        nkey, nval = rng.choice([1, 1, 2]), rng.choice([1, 2, 2])
        cols = {}
        names = []
        for j in range(nkey + nval):
            nm = cell("str")
            if nm in names:
                nm = nm + str(j)
            names.append(nm)
        for j, nm in enumerate(names):
            kind = "int" if (j < nkey and rng.random() < 0.25) else "str"
            cols[nm] = [cell(kind) for _ in range(nrow)]
        keys = names[:nkey]
        rkeys = [cell("str") for _ in range(rng.choice([0, 1, 2]))]
        try:
            ct = pd.DataFrame(cols)
            rs = cdata.RecordSpecification(ct, record_keys=rkeys, control_table_keys=keys)
        except Exception:
            continue
        name, m = rng.choice(sorted(ms.items()))

        def ccell(v):
            return "(PStr %s)" % cstr(v) if isinstance(v, str) else "(POther %s)" % cstr(str(v))
        crs = "(mk_recspec %s %s %s)" % (clist(["(%s, %s)" % (cstr(c), clist([ccell(v) for v in cols[c]])) for c in names]),
                                        clist([cstr(c) for c in rkeys]), clist([cstr(c) for c in keys]))
        for tb, fn in ((True, m.row_recs_to_blocks_query_str_list_pair), (False, m.blocks_to_row_recs_query_str_list_pair)):
            try:
                pre, suf = fn(rs)
                obs = "(Some (%s, %s))" % (clist([cstr(x) for x in pre]), clist([cstr(x) for x in suf]))
                err = None
                recordmap_oracle(chk, name, m, cols, names, keys, rkeys, tb, pre, suf)
            except (ValueError, AssertionError) as e:
                obs, err, pre, suf = "None", type(e).__name__, None, None
            terms.append("VRecMap %s %s %s %s" % (cdialect(name, m), crs, cbool(tb), obs))
            meta.append({"fn": fn.__name__, "dialect": name, "control_table": cols, "record_keys": rkeys, "control_table_keys": keys,
                         "observed": [pre, suf], "error": err})
            chk.count(("recmap", name, tb, repr(cols), repr(rkeys)), nontrivial=True)
            chk.dist("recmap:" + ("rendered" if err is None else "rejected"))
    return terms, meta


def more_correspondence(chk, n1, n2):
    terms, meta = [], []
    for t, mt in (value_correspondence(chk, n1), label_correspondence(chk, max(20, n2 // 2)), recordmap_correspondence(chk, max(100, n2))):
        terms += t
        meta += mt
    pre = ("From Coq Require Import List Bool NArith ZArith String Ascii.\nImport ListNotations.\nOpen Scope string_scope.\n"
           "From DA Require Import Base.PyRT Base.Cases Model.Lex Model.PyVal Model.RecMapSql Model.QuoteCases.\nOpen Scope list_scope.\n")
    failing, errors, nchecked = lib.run_case_files("C14v", pre, terms, "check_cases", per_file=150)
    chk.cov["correspondence_values"] = {"what": "value_to_sql (values of every kind, 5 dialects) real vs regenerated; concat_rows label text; record-map line lists vs rendered token model",
                                        "cases": len(terms), "checked_in_coq": nchecked, "disagreements": len(failing), "errors": errors[:2],
                                        "by_kind": {k: sum(1 for m in meta if m["fn"] == k) for k in sorted(set(m["fn"] for m in meta))}}
    chk.cov["traces_validated_against_impl"] = nchecked
    if errors:
        chk.corr_break("correspondence case files (values / labels / record maps) failed to compile", errors[0])
    for i in failing[:3]:
        chk.corr_break("model of value_to_sql / concat label / record-map SQL disagrees with the implementation", meta[i])
        if meta[i]["fn"] == "value_to_sql":
            chk.sample({"disagreement": meta[i]})


def run(chk):
    n1, n2 = N[chk.tier]
    chk.prove(["G_Quote", "G_QuoteMySQL", "G_ValueToSql"], extra_vo=["theories/Model/QuoteCases.vo"])
    chk.cov["trusted_base"] = ["Coq 8.16.1 kernel + vm_compute", "tools/py2v.py translator (sql_model.py quote_identifier/quote_string/_clean_annotation/value_to_sql [dispatch on the value's dynamic type, tests kept in source order], MySQL.py quote_identifier)",
                               "Model/PyVal.v: Python values reaching value_to_sql and CPython's str(int), repr(float) [shortest digits + decimal point position -> text], math.isnan, str.join (library code, compared with CPython on every run)",
                               "Model/RecMapSql.v: hand transcription of row_recs_to_blocks_query_str_list_pair / blocks_to_row_recs_query_str_list_pair / table_values_to_sql_str_list / _list_join_expecting_list as token lines, and of the concat_rows label term (compared line by line with the implementation on every run; pandas control table = named columns of cells, no nulls: RecordSpecification rejects them)",
                               "Base/PyStr.v models of str `in`, +, .strip(), .replace(), re.sub(<quote>, ..) and re.sub('(\\\\s|\\\\r|\\\\n)+', ..) on byte strings (ASCII whitespace only)",
                               "Model/Lex.v: SQL lexing rules of the standard family (SQLite, PostgreSQL) and of the backslash family (MySQL, BigQuery, Spark) written from documentation; only SQLite is executable here",
                               "value_to_sql on list values: shape theorem only (items are written by value_to_sql); value_to_sql's last branch (str(v) of any other object, e.g. numpy scalars) is outside the theorems"]
    chk.assumptions = ["identifiers do not contain the dialect's identifier quote (guard of the property; the code rejects them)",
                       "annotation strings in the correspondence are ASCII (Unicode whitespace such as U+0085/U+2028 is outside the byte-level model)"]
    chk.cov["rule"] = ("23 fixed nasty strings + random strings (<=8 tokens over quotes, backslash, CR/LF/TAB, comment markers, percent, unicode, backtick) through quote_string / "
                       "quote_identifier of the five dialects and _clean_annotation (correspondence + reference lexers); and as literal / comparison / is_in / mapv value, column name, "
                       "table name, concat label, record-map key and annotated pipeline text executed on SQLite with SQLite and PostgreSQL dialect text; non-trivial = non-empty string")
    if os.path.exists(os.path.join(lib.COQ, "theories/Model/QuoteCases.vo")):
        strings = generated_correspondence(chk, n1)
        more_correspondence(chk, n1, n2)
    else:
        chk.corr_break("Model/QuoteCases.vo not built", "")
        strings = list(FIXED)
    lexer_oracle(chk, strings)
    sqlite_oracle(chk, n2)


def replay(path):
    r = json.load(open(path))
    if r.get("oracle") == "lexer" and "value" in r:
        m = models()[r["dialect"]]
        fam = "std" if r["dialect"] in ("SQLite", "PostgreSQL") else "bs"
        res = (lex_std if fam == "std" else lex_bs)(m.string_quote, m.quote_string(r["value"]) + " AS x")
        print("literal", m.quote_string(r["value"]), "reads back as", res)
        return 0 if res is not None and res[0] == r["value"] else 1

    class _Chk:          # collects what the oracles report
        def __init__(self):
            self.v = []

        def impl_violation(self, what, replay, sig=None):
            self.v.append(what)

        def count(self, *a, **k):
            pass
    c = _Chk()
    if r.get("oracle") == "recordmap-lexer":
        import pandas as pd
        import data_algebra.cdata as cdata
        m = models()[r["dialect"]]
        cols, keys, rkeys = r["control_table"], r["control_table_keys"], r["record_keys"]
        rs = cdata.RecordSpecification(pd.DataFrame(cols), record_keys=rkeys, control_table_keys=keys)
        fn = m.row_recs_to_blocks_query_str_list_pair if r["to_blocks"] else m.blocks_to_row_recs_query_str_list_pair
        pre, suf = fn(rs)
        recordmap_oracle(c, r["dialect"], m, cols, list(cols), keys, rkeys, r["to_blocks"], pre, suf)
        print("\n".join(pre + suf)); print(c.v)
        return 1 if c.v else 0
    if r.get("oracle") == "label":
        import pandas as pd
        from data_algebra.data_ops import descr
        d = pd.DataFrame({"x": [1, 2]})
        try:
            sql = descr(d=d).concat_rows(descr(d=d), id_column="src", a_name=r["a_name"], b_name=r["b_name"]).to_sql(models()[r["dialect"]])
            print(sql)
            return 0
        except Exception as e:
            print("SQL cannot be produced:", repr(e)[:300])
            return 1
    if r.get("oracle") == "value" and "sql" in r:
        try:
            v = eval(r["value"], {"inf": float("inf"), "nan": float("nan"), "__builtins__": {}})
        except Exception:
            v = None
        if isinstance(v, (int, float, str, bool)):
            m = models()[r["dialect"]]
            value_oracle(c, r["dialect"], m, v, m.value_to_sql(v))
            print(repr(v), "->", m.value_to_sql(v), c.v)
            return 1 if c.v else 0
    print(json.dumps(r, indent=1)[:3000])
    return 1
