"""C15 -- results do not depend on how tables and columns are named.
proof:  Props/C15.v.  Part A (Model/Rename.v over Model/Sem.v, every flavour): an injective renaming of tables and columns
        commutes with the reference semantics of EVERY pipeline (rows untouched, columns renamed).  Part B
        (Model/ScratchNames.v): the Pandas steps that write scratch columns into the working frame, transcribed name by
        name, with the scratch names the executor CHOOSES (_unused_column_name, join-suffix loop; fix c06ea4b): for every
        step that refers to existing columns the step equals the same step with its scratch values in locals (nothing
        captured / overwritten / dropped) and commutes with every injective renaming of the user's columns; with the bare
        base names (the code before the fix) a user column of that name changes the step (one witness per class, all in
        the regression corpus); SQL: the view numbering rule of to_sql (161d83f) makes every generated view name differ
        from every table of the pipeline, so a WITH query resolves each name as meant (unguarded); Polars (85ef226):
        scratch names listed in `reserved`, steps not transcribed (oracle + corpus).
tie:    (a) each backend's real result on RENAMED pipelines vs sem_gen <flavour> inside Coq; (b) Model/ScratchCases.v:
        real Pandas steps with one column renamed to each scratch name vs the model's prediction, the scratch names
        COLLECTED FROM THE SOURCE by an AST scan vs the model's table `reserved` (both ways), the view names of real
        generated SQL vs the model's name resolution.
oracle: from the property text, on the real code, per backend: rename tables and columns injectively (names drawn from a
        pool holding every collected internal name) -> evaluate -> rename back  ==  evaluate  (same column set, same row
        multiset, same row order after a final total order_rows); a backend that raises only after renaming violates
        "changes nothing else" as well."""
import ast, glob, json, os, re, time
import pandas as pd
import lib, pipes, execcorr as X
from lib import clist, cstr, cbool

N = {"quick": 46, "thorough": 600}
BACKENDS = X.ALL_BACKENDS
SCAN_FILES = ["pandas_base.py", "polars_model.py", "sql_model.py", "near_sql.py", "view_representations.py"]

# ------------------------------------------------------------------------------------------------ source scan

NAME_METHODS = {"alias", "col", "drop", "rename", "with_columns", "select", "sort_values", "groupby", "group_by", "over", "sort", "suffix",
                "prefix", "insert", "assign", "pop", "melt", "pivot", "explode", "with_row_count", "with_row_index", "lit"}
NAME_KEYWORDS = {"suffixes", "suffix", "by", "on", "left_on", "right_on", "columns", "subset", "name", "names", "id_vars", "value_vars",
                 "var_name", "value_name", "index", "values", "query_name", "view_name", "table_name"}
NAME_VARS = re.compile(r"(_name|_col|_column|_q|_qqn|_key|_suffix|_prefix)$|^(view_name|v_name|standin|scratch)")
NAME_FUNCS = re.compile(r"(column|col)_?names?$|unused|fresh|scratch|temp_name|tmp_name")
NAMEISH = re.compile(r"^[A-Za-z_][A-Za-z0-9_ ]*$")


def _parts(node):
    """[(kind, text)] of the string material of an expression; kind: exact | prefix | suffix | infix"""
    if isinstance(node, ast.Constant) and isinstance(node.value, str):
        return [("exact", node.value)]
    if isinstance(node, ast.JoinedStr):
        out, vals = [], node.values
        for i, v in enumerate(vals):
            if isinstance(v, ast.Constant) and isinstance(v.value, str):
                first, last = i == 0, i == len(vals) - 1
                out.append(("exact" if (first and last) else "prefix" if first else "suffix" if last else "infix", v.value))
        return out
    if isinstance(node, ast.BinOp) and isinstance(node.op, ast.Add):
        out = [("prefix" if k in ("exact", "prefix") else "infix", t) for k, t in _parts(node.left)]
        out += [("suffix" if k in ("exact", "suffix") else "infix", t) for k, t in _parts(node.right)]
        return out
    if isinstance(node, (ast.List, ast.Tuple, ast.Set)):
        return [p for e in node.elts for p in _parts(e)]
    if isinstance(node, ast.Dict):
        return [p for k in node.keys if k is not None for p in _parts(k)]
    if isinstance(node, (ast.ListComp, ast.GeneratorExp, ast.SetComp)):
        return _parts(node.elt)
    if isinstance(node, ast.DictComp):
        return _parts(node.key)
    return []


def scan_file(path):
    tree = ast.parse(open(path).read())
    found, fn_stack = [], []

    class V(ast.NodeVisitor):
        def visit_FunctionDef(self, node):
            fn_stack.append(node.name); self.generic_visit(node); fn_stack.pop()

        def add(self, node, how, ps):
            for k, t in ps:
                if (how.startswith("kw:suffix") or how.endswith("_suffix")) and k == "exact":
                    k = "suffix"
                if how.endswith("_prefix") and k == "exact":
                    k = "prefix"
                found.append({"file": os.path.basename(path), "fn": fn_stack[-1] if fn_stack else "<module>", "line": node.lineno,
                              "how": how, "kind": k, "text": t})

        def visit_Subscript(self, node):
            sl = node.slice
            if isinstance(sl, ast.Tuple) and sl.elts:            # df.loc[rows, cols]
                sl = sl.elts[-1]
            self.add(node, "subscript", _parts(sl))
            self.generic_visit(node)

        def visit_Call(self, node):
            f = node.func
            nm = f.attr if isinstance(f, ast.Attribute) else f.id if isinstance(f, ast.Name) else None
            if nm in NAME_METHODS or (nm and NAME_FUNCS.search(nm)):
                for a in node.args:
                    self.add(node, "call:" + nm, _parts(a))
            for kw in node.keywords:
                if kw.arg in NAME_KEYWORDS:
                    self.add(node, "kw:" + kw.arg, _parts(kw.value))
            self.generic_visit(node)

        def visit_Assign(self, node):
            for tg in node.targets:
                if isinstance(tg, ast.Name) and NAME_VARS.search(tg.id):
                    self.add(node, "assign:" + tg.id, _parts(node.value))
                if isinstance(tg, ast.Name) and re.search(r"^cols$|_cols$", tg.id) and isinstance(node.value, ast.Dict):
                    self.add(node, "dictkeys:" + tg.id, _parts(node.value))
            self.generic_visit(node)
    V().visit(tree)
    return found


def scan_sources(repo=None):
    """string literals in name positions of the executor / generator sources: {(kind, text): [where...]}, kind in exact|prefix|suffix"""
    repo = repo or lib.REPO
    out = {}
    for f in SCAN_FILES:
        for x in scan_file(os.path.join(repo, "data_algebra", f)):
            if x["kind"] == "infix" or not NAMEISH.match(x["text"]) or set(x["text"]) <= {"_"}:
                continue                      # (a run of underscores is padding, not a name)
            out.setdefault((x["kind"], x["text"]), []).append(f'{x["file"]}:{x["line"]} {x["fn"]} {x["how"]}')
    return out


KIND_COQ = {"exact": "KExact", "prefix": "KPrefixNum", "suffix": "KSuffix"}

# mirror of Model/ScratchNames.v `reserved` (kind, text) -> (space, backend, class); compared with the Coq table on every run (ncases)
RESERVED = {
    ("exact", "_data_table_temp_col"): ("column", "pandas", "project_ones"),
    ("prefix", "data_algebra_project_temp_col_"): ("column", "pandas", "project_const"),
    ("prefix", "data_algebra_extend_temp_col_"): ("column", "pandas", "extend_const"),
    ("exact", "_data_algebra_orig_index"): ("column", "pandas", "extend_orig_index"),
    ("exact", "_data_algebra_temp_g"): ("column", "pandas", "extend_standin"),
    ("exact", "data_algebra_temp_merge_col"): ("column", "pandas", "join_merge_key"),
    ("exact", "data_algebra_temp_null_key_col"): ("column", "pandas", "join_null_key"),
    ("suffix", "_tmp_right_col"): ("column", "pandas", "join_suffix"),
    ("exact", "_da_temp_zero_column"): ("column", "polars", "temp_literal"),
    ("exact", "_da_temp_one_column"): ("column", "polars", "temp_literal"),
    ("exact", "_da_count_tmp"): ("column", "polars", "temp_literal"),
    ("exact", "_da_extend_temp_partition_column"): ("column", "polars", "extend_standin"),
    ("exact", "_da_project_temp_group_by_column"): ("column", "polars", "project_standin"),
    ("prefix", "_da_extend_temp_v_column_"): ("column", "polars", "extend_const"),
    ("prefix", "_da_project_temp_v_column_"): ("column", "polars", "project_const"),
    ("exact", "_da_join_scratch_key"): ("column", "polars", "join_merge_key"),
    ("suffix", "_da_left_tmp"): ("column", "polars", "join_suffix"),
    ("suffix", "_da_right_tmp"): ("column", "polars", "join_suffix"),
    ("prefix", "table_reference_"): ("table", "sql", "view_name"),
    ("prefix", "extend_"): ("table", "sql", "view_name"),
    ("prefix", "project_"): ("table", "sql", "view_name"),
    ("prefix", "select_rows_"): ("table", "sql", "view_name"),
    ("prefix", "order_rows_"): ("table", "sql", "view_name"),
    ("prefix", "map_columns_"): ("table", "sql", "view_name"),
    ("prefix", "rename_"): ("table", "sql", "view_name"),
    ("prefix", "natural_join_"): ("table", "sql", "view_name"),
    ("prefix", "concat_rows_"): ("table", "sql", "view_name"),
    ("prefix", "convert_records_blocks_in_"): ("table", "sql", "view_name"),
    ("prefix", "convert_records_blocks_out_"): ("table", "sql", "view_name"),
    ("prefix", "join_source_left_"): ("alias", "sql", "join_alias"),
    ("prefix", "join_source_right_"): ("alias", "sql", "join_alias"),
}
SPACE_COQ = {"column": "SColumn", "table": "STable", "alias": "SAlias"}


def name_class(space, name, entries=None):
    """(class, backend) of the first entry of the table matching `name` in the given name space, or None"""
    for (kind, text), (sp, backend, cls) in (entries or RESERVED).items():
        if sp != space:
            continue
        if kind == "exact" and name == text:
            return cls
        if kind == "prefix" and name.startswith(text) and all(c in "0123456789" for c in name[len(text):]):
            return cls
        if kind == "suffix" and name.endswith(text):
            return cls
    return None


# ------------------------------------------------------------------------------------------------ renaming scripts and tables

_TOKEN = re.compile(r"'[^']*'|\"[^\"]*\"|[A-Za-z_][A-Za-z_0-9]*|.", re.S)


def rename_expr(text, rc):
    """rename column references in expression source: identifiers that are column names, not method / function names"""
    out, toks = [], _TOKEN.findall(text)
    for i, t in enumerate(toks):
        if re.match(r"^[A-Za-z_]", t) and t in rc:
            prev = next((toks[j] for j in range(i - 1, -1, -1) if not toks[j].isspace()), "")
            nxt = next((toks[j] for j in range(i + 1, len(toks)) if not toks[j].isspace()), "")
            if prev != "." and nxt != "(":
                t = rc[t]
        out.append(t)
    return "".join(out)


def expr_idents(text):
    return {t for t in _TOKEN.findall(text) if re.match(r"^[A-Za-z_]", t)}


def script_columns(s, acc=None, exprs=None, seen=None):
    """(all column names a script mentions or creates, identifiers occurring in its expression sources)"""
    acc = set() if acc is None else acc
    exprs = set() if exprs is None else exprs
    seen = set() if seen is None else seen
    if id(s) in seen or s["op"] == "table":
        return acc, exprs
    seen.add(id(s))
    script_columns(s["src"], acc, exprs, seen)
    if "b" in s:
        script_columns(s["b"], acc, exprs, seen)
    op = s["op"]
    if op in ("extend", "project"):
        for k, e in s["ops"].items():
            acc.add(k); exprs |= expr_idents(e)
        for f in ("partition_by", "order_by", "reverse", "group_by"):
            v = s.get(f)
            if isinstance(v, list):
                acc |= set(v)
    elif op == "select_rows":
        exprs |= expr_idents(s["expr"])
    elif op in ("select_columns", "drop_columns"):
        acc |= set(s["columns"])
    elif op in ("rename_columns", "map_columns"):
        acc |= set(s["map"].keys()) | set(s["map"].values())
    elif op == "order_rows":
        acc |= set(s["columns"]) | set(s.get("reverse") or [])
    elif op == "natural_join":
        for x in s["on"]:
            acc |= set(x) if isinstance(x, (list, tuple)) else {x}
    elif op == "concat_rows":
        if s.get("id_column"):
            acc.add(s["id_column"])
    return acc, exprs


def rename_script(s, rt, rc, memo=None):
    """the script with tables renamed by rt and columns by rc (dicts, identity where absent); sub-script sharing is kept"""
    memo = {} if memo is None else memo
    if id(s) in memo:
        return memo[id(s)]
    c = lambda x: rc.get(x, x)                                       # noqa: E731
    cl = lambda xs: [c(x) for x in xs]                               # noqa: E731
    op = s["op"]
    if op == "table":
        r = {"op": "table", "name": rt.get(s["name"], s["name"])}
    else:
        r = dict(s)
        r["src"] = rename_script(s["src"], rt, rc, memo)
        if "b" in s:
            r["b"] = rename_script(s["b"], rt, rc, memo)
        if op in ("extend", "project"):
            r["ops"] = {c(k): rename_expr(e, rc) for k, e in s["ops"].items()}
            for f in ("partition_by", "order_by", "reverse", "group_by"):
                if isinstance(s.get(f), list):
                    r[f] = cl(s[f])
        elif op == "select_rows":
            r["expr"] = rename_expr(s["expr"], rc)
        elif op in ("select_columns", "drop_columns"):
            r["columns"] = cl(s["columns"])
        elif op in ("rename_columns", "map_columns"):
            r["map"] = {c(k): c(v) for k, v in s["map"].items()}
        elif op == "order_rows":
            r["columns"] = cl(s["columns"]); r["reverse"] = cl(s.get("reverse") or [])
        elif op == "natural_join":
            r["on"] = [[c(x[0]), c(x[1])] if isinstance(x, (list, tuple)) else c(x) for x in s["on"]]
        elif op == "concat_rows":
            r["id_column"] = c(s["id_column"]) if s.get("id_column") else s.get("id_column")      # a_name / b_name are DATA
    memo[id(s)] = r
    return r


def rename_tabs(tabs, rt, rc):
    return [{"name": rt.get(t["name"], t["name"]), "spec": [(rc.get(c, c), ty) for c, ty in t["spec"]], "rows": t["rows"]} for t in tabs]


def renamed_case(case, rt, rc):
    s2 = rename_script(case.script, rt, rc)
    tabs2 = rename_tabs(case.tabs, rt, rc)
    return X.Case(s2, tabs2, pipes.build(s2, {t["name"]: t for t in tabs2}))


def case_names(case):
    cols, exprs = script_columns(case.script)
    for t in case.tabs:
        if t["name"] in case.frames:
            cols |= {c for c, _ in t["spec"]}
    return sorted(cols), exprs, sorted(case.frames)


# ------------------------------------------------------------------------------------------------ the oracle

def compare(script, base, other):
    """None when `other` (already renamed back) is the same table as `base`: same column set, same row multiset,
    same row order when the pipeline ends in a total order_rows, same column order when it ends in select_columns"""
    return pipes.frames_equiv(base, other, check_col_order=X.defines_column_order(script),
                              check_row_order=X.order_is_total(script, base))


def oracle(case, rt, rc, backend, base=None):
    """(effect | None, detail, renamed case | None, renamed result | None)"""
    res, err = base if base is not None else case.result(backend)
    try:
        c2 = renamed_case(case, rt, rc)
    except Exception as e:            # noqa
        return "build_rejects", f"{type(e).__name__}: {str(e)[:160]}", None, None
    r2, e2 = c2.result(backend)
    if res is None and r2 is None:
        return None, "raises before and after", c2, None
    if res is None:
        return "raises_only_before", f"original: {err}", c2, r2
    if r2 is None:
        return "raises", e2, c2, None
    back = {v: k for k, v in rc.items()}
    why = compare(case.script, res, r2.rename(columns=back))
    return ("wrong_result" if why else None), why, c2, r2


# ------------------------------------------------------------------------------------------------ name pools and renamings

ORDINARY = ["alpha", "beta", "col_a", "q7", "Total", "k2", "m_1", "zz", "n9", "val", "idx", "tmp", "left_c", "right_c", "w_w", "t_t"]
ODD_COLS = ["a b", "it's", "x-y", "café", "列", "semi;colon", "per%cent", "(paren)", "dot.ted"]
ODD_TABS = ["my table", "café_t", "t-1", "T.1", "it's_t"]


def special_column_names(entries, real_cols):
    """concrete column names colliding with the collected scratch names / generated names"""
    out = []
    for (kind, text), _ in entries.items():
        if kind == "exact":
            out.append(text)
        elif kind == "prefix":
            out += [text + str(i) for i in (0, 1, 2)]
        elif kind == "suffix":
            out += [c + text for c in real_cols]
    return out


def special_table_names(entries, view_names=()):
    out = list(view_names)
    for (kind, text), _ in entries.items():
        if kind == "prefix":
            out += [text + str(i) for i in (0, 1, 2, 3)]
        elif kind == "exact":
            out.append(text)
    return out


def interesting_columns(s, acc=None):
    """columns in the roles where the executors use scratch columns: group / partition / order keys, aggregate and window
    arguments and outputs, join keys and shared join columns"""
    acc = set() if acc is None else acc
    if s["op"] == "table":
        return acc
    interesting_columns(s["src"], acc)
    if "b" in s:
        interesting_columns(s["b"], acc)
    if s["op"] == "project" or (s["op"] == "extend" and (s.get("partition_by") or s.get("order_by"))):
        acc |= set(s["ops"]) | {t for e in s["ops"].values() for t in expr_idents(e)}
        for f in ("partition_by", "order_by", "group_by"):
            if isinstance(s.get(f), list):
                acc |= set(s[f])
    if s["op"] == "natural_join":
        acc |= {x if isinstance(x, str) else x[0] for x in s["on"]}
        acc.add("__join__")
    return acc


def draw_renaming(rng, case, entries, *, p_special=0.45, view_names=(), tables=True, columns=True, odd=True):
    """random injective renaming (rt, rc) of the case's tables and columns; names drawn from the collected internal names,
    ordinary names, odd names the identifier quoting accepts; identity for some"""
    cols, exprs, tabs = case_names(case)
    hot = interesting_columns(case.script)
    rc, used = {}, set()
    if columns:
        specials = special_column_names({k: v for k, v in entries.items() if k[0] != "suffix"}, [])
        order = list(cols)
        rng.shuffle(order)
        later = []
        for c in order:
            r = rng.random()
            p = p_special * (1.6 if (c in hot or "__join__" in hot) else 0.5)
            if r < p:
                if rng.random() < 0.25:
                    later.append(c)                     # gets <other column's new name> + suffix
                    continue
                cand = [n for n in specials if n not in used]
                n = rng.choice(cand) if cand else c
            elif r < p + 0.12 and odd and c not in exprs:
                cand = [n for n in ODD_COLS if n not in used]
                n = rng.choice(cand) if cand else c
            elif r < p + 0.45:
                cand = [n for n in ORDINARY if n not in used and n not in cols]
                n = rng.choice(cand) if cand else c
            else:
                n = c
            if n in used or (n != c and n in cols and n not in rc):     # keep injective: n may still be somebody's old name
                n = c
            rc[c] = n
            used.add(n)
        # repair: identity choices may collide with names handed out before them
        sufs = [t for (k, t) in entries if k == "suffix"]
        ident = re.compile(r"^[A-Za-z_][A-Za-z0-9_]*$")
        for c in later:
            bases = [rc[b] for b in cols if b in rc and b != c and (c not in exprs or ident.match(rc[b]))]
            n = (rng.choice(bases) + rng.choice(sufs)) if bases and sufs else c
            if n in used or n in cols:
                n = c
            rc[c] = n
            used.add(n)
        for c in cols:                                       # the expression grammar: names inside expression source are identifiers
            if c in exprs and not ident.match(rc.get(c, c)):
                rc[c] = c
        vals = list(rc.values())
        if len(set(vals)) != len(vals):
            rc = {c: c for c in cols}
    rt = {}
    if tables:
        stabs = special_table_names({k: v for k, v in entries.items() if v[0] in ("table", "alias")}, view_names)
        usedt = set()
        for t in tabs:
            r = rng.random()
            if r < p_special:
                cand = [n for n in stabs if n not in usedt and n not in tabs]
            elif r < p_special + 0.1 and odd:
                cand = [n for n in ODD_TABS if n not in usedt]
            elif r < p_special + 0.4:
                cand = [n for n in ("tab_one", "Sales", "t2", "base_data") if n not in usedt and n not in tabs]
            else:
                cand = []
            n = rng.choice(cand) if cand else t
            if n in usedt:
                n = t
            rt[t] = n
            usedt.add(n)
        if len(set(rt.values())) != len(rt):
            rt = {t: t for t in tabs}
    return rt, rc


def moved(r):
    return {k: v for k, v in r.items() if k != v}


def classify(rt, rc, entries):
    """name classes (of the model's table) among the new names actually used"""
    cls = set()
    for new in moved(rc).values():
        k = name_class("column", new, entries)
        if k:
            cls.add("column:" + k)
    for new in moved(rt).values():
        k = name_class("table", new, entries) or name_class("alias", new, entries)
        if k:
            cls.add("table:" + k)
    return sorted(cls)


def odd_kinds(rt, rc):
    out = set()
    for new in list(moved(rc).values()) + list(moved(rt).values()):
        if not re.match(r"^[A-Za-z_][A-Za-z0-9_]*$", new):
            out.add("odd_name")
    return sorted(out)


def minimise_renaming(case, rt, rc, backend, effect, entries=None):
    """keep only the renamed names the effect needs: each renamed name is first replaced by a neutral fresh name (names
    derived from it by a suffix follow it), then put back to its old name, as long as the same effect persists"""
    base = case.result(backend)
    rt, rc = dict(rt), dict(rc)
    sufs = [t for (k, t) in (entries or RESERVED) if k == "suffix"]

    def still(rt2, rc2):
        for d in (rt2, rc2):
            vals = list(d.values())
            if len(set(vals)) != len(vals):
                return False
        try:
            return oracle(case, rt2, rc2, backend, base)[0] == effect
        except Exception:      # noqa
            return False

    def with_name(d, k, new):
        """d with k -> new; entries named <old new name of k> + suffix follow"""
        d2 = dict(d)
        old = d[k]
        d2[k] = new
        for k2, v2 in d.items():
            if k2 != k:
                for sf in sufs:
                    if v2 == old + sf:
                        d2[k2] = new + sf
        return d2
    for which in ("c", "t"):
        for neutral in (True, False):
            d = rc if which == "c" else rt
            for i, k in enumerate(sorted(moved(d))):
                if d[k] == k:
                    continue
                cand = with_name(d, k, (f"zq{i}{which}" if neutral else k))
                if cand == d:
                    continue
                if still(rt if which == "c" else cand, cand if which == "c" else rc):
                    d.clear(); d.update(cand)
    return rt, rc


def has_keyless_join(s):
    if s["op"] == "table":
        return False
    return (s["op"] == "natural_join" and not s["on"]) or has_keyless_join(s["src"]) or ("b" in s and has_keyless_join(s["b"]))


def signature(backend, effect, rt, rc, entries, case=None):
    cls = classify(rt, rc, entries)
    return {"backend": backend, "effect": effect, "name_class": "+".join(cls) if cls else ("+".join(odd_kinds(rt, rc)) or "ordinary"),
            "renamed": ("both" if moved(rt) and moved(rc) else "tables" if moved(rt) else "columns"),
            "keyless_join": bool(case is not None and has_keyless_join(case.script))}


def report(chk, case, rt, rc, backend, effect, detail, entries, shrink=True):
    rt, rc = minimise_renaming(case, rt, rc, backend, effect, entries)
    sig = signature(backend, effect, rt, rc, entries, case)
    known_again = [f["id"] for f in chk.known if lib.match_sig(f.get("signature", {}), sig) and f["id"] in chk.known_hits]
    if shrink and not known_again:          # (a listed finding met again is only counted)
        def fails(c2):
            cols, _, tabs = case_names(c2)
            return oracle(c2, {k: v for k, v in rt.items() if k in tabs}, {k: v for k, v in rc.items() if k in cols}, backend)[0] == effect
        try:
            case = X.shrink_case(case, fails, max_steps=40)
        except Exception:      # noqa
            pass
        cols, _, tabs = case_names(case)
        rt, rc = {k: v for k, v in rt.items() if k in tabs}, {k: v for k, v in rc.items() if k in cols}
        rt, rc = minimise_renaming(case, rt, rc, backend, effect, entries)
        sig = signature(backend, effect, rt, rc, entries, case)
    eff, detail2, c2, r2 = oracle(case, rt, rc, backend)
    base, berr = case.result(backend)
    what = (f"{backend}: renaming {json.dumps(moved(rc), ensure_ascii=False)} (columns) {json.dumps(moved(rt), ensure_ascii=False)} (tables) "
            f"{'makes the backend raise' if effect == 'raises' else 'changes the result' if effect == 'wrong_result' else effect}: {str(detail2 or detail)[:200]}")
    rep = {"kind": "impl-violation", "case": case.json(), "rt": rt, "rc": rc, "backend": backend, "effect": effect, "detail": str(detail2 or detail),
           "signature": sig, "original_result": None if base is None else pipes.frame_to_json(base), "original_error": berr,
           "renamed_result": None if r2 is None else pipes.frame_to_json(r2)}
    return chk.impl_violation(what, rep, sig), sig


# ------------------------------------------------------------------------------------------------ scratch cases (Model/ScratchNames.v)

def _df(d):
    return pd.DataFrame(d)


# values chosen so that reading a wrong column, grouping by a wrong column or undoing the sort by a wrong column is VISIBLE:
# no column is constant or sorted, group sums are not monotone in row order, x has a null
LEFT_W = {"g": ["b", "a", "c", "a", "b"], "h": ["u", "v", "u", "v", "u"], "x": [40.125, 20.25, None, 10.5, 50.0],
          "y": [4.0, 5.0, 2.0, 1.0, 3.0], "z": [7.5, 8.5, 9.5, 6.5, 5.5]}
LEFT_J = {"k": [1, 2, 3, 4], "x": [10.5, None, 30.25, 40.0], "y": [1.5, 2.5, 3.5, 4.5]}
RIGHT_J = {"k": [1, 2, 5], "x": [100.5, 200.25, 500.0], "w": [7.5, 8.5, 9.5]}
LEFT_N = {"k": [1.0, None, 3.0, 4.0], "x": [10.5, None, 30.25, 40.0], "y": [1.5, 2.5, 3.5, 4.5]}
RIGHT_N = {"k": [1.0, None, 5.0], "x": [100.5, 200.25, 500.0], "w": [7.5, 8.5, 9.5]}
LEFT_C = {"g": ["a", "b"], "y": [1.5, 2.5]}
RIGHT_C = {"q": [10.5, 20.25, 30.0], "w": [7.5, 8.5, 9.5]}


def A(fn, arg=None, *extra):
    """one assignment: fn of a column ("c:<name>"), of a constant ("v:<text>") or of nothing"""
    return {"fn": fn, "arg": arg, "extra": list(extra)}


TEMPLATES = [
    {"id": "P1", "kind": "project", "ops": {"s": A("sum", "c:x"), "m": A("max", "c:y")}, "gb": ["g"], "slots": ["g", "x", "s", "z"]},
    {"id": "P2", "kind": "project", "ops": {"s": A("sum", "c:x"), "n": A("_size")}, "gb": ["g", "h"], "slots": ["g", "h", "x", "n", "z"]},
    {"id": "P3", "kind": "project", "ops": {"s": A("mean", "c:x")}, "gb": [], "slots": ["x", "s", "z"]},
    {"id": "P4", "kind": "project", "ops": {}, "gb": ["g"], "slots": ["g", "z"]},
    {"id": "P5", "kind": "project", "ops": {"c": A("sum", "v:2"), "s": A("sum", "c:x")}, "gb": ["g"], "slots": ["g", "x", "c", "s", "z"]},
    {"id": "P6", "kind": "project", "ops": {"c": A("sum", "v:2"), "d": A("max", "v:3")}, "gb": ["g"], "slots": ["g", "c", "z"]},
    {"id": "W1", "kind": "wextend", "ops": {"s": A("sum", "c:x")}, "part": ["g"], "order": [], "rev": [], "slots": ["g", "x", "s", "z"]},
    {"id": "W2", "kind": "wextend", "ops": {"c": A("cumsum", "c:x")}, "part": ["g"], "order": ["y"], "rev": [], "slots": ["g", "x", "y", "c", "z"]},
    {"id": "W3", "kind": "wextend", "ops": {"c": A("cumsum", "c:x")}, "part": [], "order": ["y"], "rev": ["y"], "slots": ["x", "y", "c", "z"]},
    {"id": "W4", "kind": "wextend", "ops": {"n": A("_size")}, "part": ["g"], "order": [], "rev": [], "slots": ["g", "n", "z"]},
    {"id": "W9", "kind": "wextend", "ops": {"r": A("_row_number"), "m": A("cummax", "c:x")}, "part": ["g"], "order": ["y"], "rev": [], "slots": ["g", "y", "r", "m", "z"]},
    # (the output of W5 is a constant column: undoing the sort by it is invisible, so n is not called _data_algebra_orig_index here)
    {"id": "W5", "kind": "wextend", "ops": {"n": A("_size")}, "part": 1, "order": [], "rev": [], "slots": ["n", "z", "x"], "skip": [["n", "_data_algebra_orig_index"]]},
    {"id": "W6", "kind": "wextend", "ops": {"c": A("cumsum", "v:2"), "d": A("cumsum", "c:x")}, "part": ["g"], "order": ["y"], "rev": [], "slots": ["g", "x", "y", "c", "d", "z"]},
    {"id": "W7", "kind": "wextend", "ops": {"m": A("shift", "c:x", "1")}, "part": ["g"], "order": ["y"], "rev": [], "slots": ["g", "x", "y", "m", "z"]},
    {"id": "W8", "kind": "wextend", "ops": {"c": A("cumsum", "c:x"), "r": A("_row_number")}, "part": [], "order": ["y"], "rev": [], "slots": ["x", "y", "c", "r"]},
    {"id": "J1", "kind": "join", "how": "LEFT", "on": ["k"], "slots": ["L:y", "R:w", "B:x"]},
    {"id": "J2", "kind": "join", "how": "FULL", "on": ["k"], "slots": ["L:y", "R:w"]},
    {"id": "J3", "kind": "join", "how": "INNER", "on": ["k"], "slots": ["L:y", "R:w"]},
    {"id": "J4", "kind": "join", "how": "CROSS", "on": [], "slots": ["L:y", "R:w", "L:g"]},
    {"id": "J5", "kind": "join", "how": "LEFT", "on": ["k"], "nulls": True, "slots": ["L:y", "R:w", "B:x"]},
    {"id": "J6", "kind": "join", "how": "FULL", "on": ["k"], "nulls": True, "slots": ["L:y", "R:w"]},
]
def template_frames(t):
    if t["kind"] != "join":
        return dict(LEFT_W), None
    if t.get("nulls"):
        return dict(LEFT_N), dict(RIGHT_N)
    return (dict(LEFT_C), dict(RIGHT_C)) if not t["on"] else (dict(LEFT_J), dict(RIGHT_J))


def run_template(t, slot=None, new=None):
    """the real Pandas step of the template with column `slot` called `new`; result renamed back.  -> (frame | None, error)"""
    from data_algebra.data_ops import TableDescription
    side = "W"
    col = slot
    if slot and ":" in slot:
        side, col = slot.split(":")
    L, R = template_frames(t)

    def ren(d, on):
        return {(new if (on and k == col) else k): v for k, v in d.items()}
    Lr = ren(L, slot is not None and side in ("W", "L", "B"))
    Rr = ren(R, slot is not None and side in ("R", "B")) if R is not None else None
    c = lambda x: new if (slot is not None and side in ("W", "L", "B", "R") and x == col) else x      # noqa: E731

    def etext(a):
        if a["arg"] is None:
            return f"{a['fn']}()"
        kind, v = a["arg"].split(":", 1)
        recv = c(v) if kind == "c" else f"({v})"
        return f"{recv}.{a['fn']}({', '.join(a['extra'])})"
    try:
        td = TableDescription(table_name="d", column_names=list(Lr))
        if t["kind"] == "project":
            ops = td.project({c(k): etext(a) for k, a in t["ops"].items()}, group_by=[c(g) for g in t["gb"]] or None)
        elif t["kind"] == "wextend":
            part = 1 if t["part"] == 1 else ([c(g) for g in t["part"]] or None)
            ops = td.extend({c(k): etext(a) for k, a in t["ops"].items()}, partition_by=part,
                            order_by=[c(g) for g in t["order"]] or None, reverse=[c(g) for g in t["rev"]] or None)
        else:
            ops = td.natural_join(TableDescription(table_name="e", column_names=list(Rr)), on=list(t["on"]), jointype=t["how"])
        frames = {"d": _df(Lr)}
        if Rr is not None:
            frames["e"] = _df(Rr)
        res = ops.eval(frames)
    except Exception as e:             # noqa
        return None, f"{type(e).__name__}: {str(e)[:120]}"
    if slot is not None:
        res = res.rename(columns={new: col})
    return res, None


def template_term(t, slot, new, captured):
    side, col = ("W", slot)
    if slot and ":" in slot:
        side, col = slot.split(":")
    L, R = template_frames(t)
    cl = lambda x: new if (slot is not None and side in ("W", "L", "B") and x == col) else x          # noqa: E731
    cr = lambda x: new if (slot is not None and side in ("R", "B") and x == col) else x               # noqa: E731
    lcols = [cl(x) for x in L]
    rcols = [cr(x) for x in R] if R is not None else []

    def carg(a):
        if a["arg"] is None:
            return "ArgNone"
        kind, v = a["arg"].split(":", 1)
        return f"(ArgCol {cstr(cl(v))})" if kind == "c" else f"(ArgVal {cstr(v)})"
    sl = lambda xs: clist([cstr(x) for x in xs])                      # noqa: E731
    if t["kind"] == "join":
        step = f"(PJoin {cstr(t['how'])} {sl(t['on'])} {cbool(bool(t.get('nulls')))})"       # nulls: both inputs have a row with a null key
    else:
        ops = clist([f"(mksop {cstr(cl(k))} {cstr(a['fn'])} {carg(a)} {sl(a['extra'])})" for k, a in t["ops"].items()])
        if t["kind"] == "project":
            step = f"(PProject {ops} {sl([cl(g) for g in t['gb']])})"
        else:
            part = [] if t["part"] == 1 else [cl(g) for g in t["part"]]
            step = f"(PWExtend {ops} {sl(part)} {sl([cl(g) for g in t['order']])} {sl([cl(g) for g in t['rev']])})"
    return f"mkpc {step} {sl(lcols)} {sl(rcols)} {cbool(captured)}"


def observe_template(t, slot, new, base=None):
    base = base if base is not None else run_template(t)
    res, err = run_template(t, slot, new)
    if base[0] is None:
        return None, "baseline raises: " + str(base[1])
    if res is None:
        return True, "raises: " + err
    why = pipes.frames_equiv(base[0], res)
    return (why is not None), why


PREAMBLE = ("From Coq Require Import List Bool String.\nImport ListNotations.\nOpen Scope string_scope.\n"
            "From DA Require Import Base.PyRT Base.Cases Model.ScratchNames Model.ScratchCases.\nOpen Scope list_scope.\n")


def scratch_prepare(chk, entries, found):
    """Python side of the model-vs-code tie: literal / name cases, one real Pandas run per template x column x name"""
    lits = sorted(found)
    sterms = [f"(SLit {KIND_COQ[k]} {cstr(t)})" for k, t in lits]
    nmeta = []
    for (kind, text), (space, backend, cls) in sorted(RESERVED.items()):
        for nm in ([text] if kind == "exact" else [text + "0", text + "17"] if kind == "prefix" else ["x" + text, "some col" + text]):
            sterms.append(f"(SName (mknc {SPACE_COQ[space]} {cstr(nm)} (Some {cstr(cls)})))"); nmeta.append(nm)
    for nm in ORDINARY + ["extend_x", "extend_", "_data_table_temp_col2", "tmp_right_col"]:
        sterms.append(f"(SName (mknc SColumn {cstr(nm)} None))"); nmeta.append(nm)
    bases = {t["id"]: run_template(t) for t in TEMPLATES}
    # template x slot x name (quick: the names of the template's own step kind and one ordinary name; thorough: all)
    by_kind = {"project": ["_data_table_temp_col", "data_algebra_project_temp_col_0", "data_algebra_project_temp_col_1"],
               "wextend": ["data_algebra_extend_temp_col_0", "data_algebra_extend_temp_col_1", "_data_algebra_orig_index", "_data_algebra_temp_g"],
               "join": ["data_algebra_temp_merge_col", "x_tmp_right_col", "y_tmp_right_col", "k_tmp_right_col", "data_algebra_temp_null_key_col"]}
    for k_ in by_kind:                                        # and the first fallback names ("_" + base; suffix + "_")
        by_kind[k_] = by_kind[k_] + [("_" + n if not n.endswith("_tmp_right_col") else n + "_") for n in by_kind[k_][:2]]
    allnames = [n for v in by_kind.values() for n in v]
    extra = []
    for (k, t) in lits:                                      # names newly found in pandas_base.py join the product
        if any(w.startswith("pandas_base.py") for w in found[(k, t)]):
            cand = t if k == "exact" else t + "0" if k == "prefix" else "x" + t
            if cand not in allnames and cand not in extra and ("x" + t) not in allnames:
                extra.append(cand)

    def names_for(t):
        if chk.tier == "thorough":
            return allnames + extra + ["plain_name"]
        return by_kind[t["kind"]] + extra + ["plain_name"]
    terms, meta = [], []
    dead = [t["id"] for t in TEMPLATES if bases[t["id"]][0] is None]
    if len(dead) * 3 > len(TEMPLATES):           # (a single template the builder now rejects only costs samples)
        chk.corr_break(f"scratch templates {dead} no longer evaluate on Pandas: {bases[dead[0]][1]}", {"templates": dead})
    for t in TEMPLATES:
        if bases[t["id"]][0] is None:
            chk.dist("scratch_template_skipped:" + t["id"])
            continue
        for slot in t["slots"]:
            for new in names_for(t):
                if [slot, new] in t.get("skip", []):
                    continue
                L, R = template_frames(t)
                col = slot.split(":")[-1]
                others = (set(L) | set(R or {}) | set(t.get("ops", {}))) - {col}
                if new in others:
                    continue
                obs, why = observe_template(t, slot, new, bases[t["id"]])
                if obs is None:
                    continue
                terms.append(template_term(t, slot, new, obs))
                meta.append({"template": t["id"], "slot": slot, "name": new, "observed_captured": obs, "why": str(why)[:160]})
                chk.dist("scratch_case_captured" if obs else "scratch_case_clean")
    return {"lits": lits, "sterms": sterms, "nmeta": nmeta, "terms": terms, "meta": meta}


def scratch_evaluate(chk, prep, found, static_res, pcase_res):
    lits, nmeta, meta = prep["lits"], prep["nmeta"], prep["meta"]
    bad, errs, _ = static_res
    for e in errs[:1]:
        chk.corr_break("scratch-name case files failed to compile", e)
    unknown = [lits[i] for i in bad if i < len(lits)]
    miss = [i - 1000 for i in bad if i >= 1000]
    for k, t in unknown:
        chk.corr_break(f"the source uses the string literal {t!r} ({k}) in a column/alias/view-name position and Model/ScratchNames.v `reserved` does not list it "
                       f"(a new or renamed internal name): {found[(k, t)][:3]}", {"literal": t, "kind": k, "where": found[(k, t)]})
    if miss:
        chk.corr_break(f"{len(miss)} entr{'y' if len(miss) == 1 else 'ies'} of Model/ScratchNames.v `reserved` (indices {miss}) no longer occur in the source as name literals",
                       {"missing_indices": miss})
    for i in bad:
        if len(lits) <= i < 1000:
            chk.corr_break(f"the harness and Model/ScratchNames.v classify the name {nmeta[i - len(lits)]!r} differently", {"name": nmeta[i - len(lits)]})
    pbad, perr, nchk = pcase_res
    for e in perr[:1]:
        chk.corr_break("scratch-step case files failed to compile", e)
    disagreements = [meta[i] for i in pbad if i < len(meta)]
    return {"literals": len(lits), "unknown_literals": [list(x) for x in unknown], "reserved_missing": miss, "scratch_cases": len(meta),
            "scratch_checked_in_coq": nchk, "scratch_disagreements": len(disagreements)}, disagreements


# ------------------------------------------------------------------------------------------------ probes for names the model does not list

_PW = {"name": "d1", "spec": [("g", "str"), ("h", "str"), ("x", "float"), ("y", "float"), ("z", "float")],
       "rows": [["b", "u", 40.125, 4.0, 7.5], ["a", "v", 20.25, 5.0, 8.5], ["c", "u", None, 2.0, 9.5], ["a", "v", 10.5, 1.0, 6.5], ["b", "u", 50.0, 3.0, 5.5]]}
_PR = {"name": "d2", "spec": [("g", "str"), ("x", "float"), ("w", "float")], "rows": [["a", 100.5, 7.5], ["b", None, 8.5], ["e", 500.0, 9.5]]}


def probe_scripts():
    t1, t2 = {"op": "table", "name": "d1"}, {"op": "table", "name": "d2"}
    return [
        {"op": "order_rows", "src": t1, "columns": ["x", "y"], "reverse": ["x"], "limit": 3},
        {"op": "select_rows", "src": t1, "expr": "x > 15"},
        {"op": "extend", "src": t1, "ops": {"v": "x + y"}},
        {"op": "extend", "src": t1, "ops": {"s": "x.sum()"}, "partition_by": ["g"]},
        {"op": "extend", "src": t1, "ops": {"c": "x.cumsum()", "r": "_row_number()"}, "partition_by": ["g"], "order_by": ["y"]},
        {"op": "extend", "src": t1, "ops": {"n": "_size()"}, "partition_by": 1},
        {"op": "project", "src": t1, "ops": {"s": "x.sum()", "n": "_size()"}, "group_by": ["g"]},
        {"op": "project", "src": t1, "ops": {"s": "x.mean()"}, "group_by": []},
        {"op": "select_columns", "src": t1, "columns": ["x", "g"]},
        {"op": "drop_columns", "src": t1, "columns": ["z"]},
        {"op": "rename_columns", "src": t1, "map": {"q": "x"}},
        {"op": "map_columns", "src": t1, "map": {"x": "q", "y": "r"}},
        {"op": "natural_join", "src": t1, "b": t2, "on": ["g"], "jointype": "LEFT"},
        {"op": "natural_join", "src": t1, "b": t2, "on": ["g"], "jointype": "FULL"},
        {"op": "concat_rows", "src": t1, "b": {"op": "select_rows", "src": t1, "expr": "y > 2"}, "id_column": "src_name", "a_name": "a", "b_name": "b"},
    ]


def probe_new_names(chk, entries, unknown):
    """a literal in a name position that the model does not list: look for a failing input of the property with that very name"""
    n = 0
    for kind, text in unknown:
        for script in probe_scripts():
            tabs = [_PW, _PR]
            try:
                case = X.Case(script, tabs, pipes.build(script, {t["name"]: t for t in tabs}))
            except Exception:      # noqa
                continue
            cols, _, tnames = case_names(case)
            trials = []
            for c in cols:
                others = [x for x in cols if x != c]
                new = text if kind == "exact" else text + "0" if kind == "prefix" else (others[0] + text)
                for cand in ([new] if kind != "suffix" else [o + text for o in others[:4]]):
                    if cand not in cols:
                        trials.append(({}, {c: cand}))
            for t in tnames:
                new = text if kind == "exact" else text + "0" if kind == "prefix" else ("d" + text)
                trials.append(({t: new}, {}))
                if kind == "prefix":
                    trials.append(({t: text + "1"}, {}))
            for rt, rc in trials:
                for b in BACKENDS:
                    try:
                        eff, detail, _, _ = oracle(case, rt, rc, b)
                    except Exception:      # noqa
                        continue
                    n += 1
                    if eff is not None and case.result(b)[0] is not None:
                        report(chk, case, rt, rc, b, eff, detail, entries, shrink=False)
    chk.dist("probes_for_unlisted_names", n)


# ------------------------------------------------------------------------------------------------ SQL view names

def sql_view_names(ops, dialect="sqlite"):
    import data_algebra.SQLite, data_algebra.PostgreSQL
    model = data_algebra.SQLite.SQLiteModel() if dialect == "sqlite" else data_algebra.PostgreSQL.PostgreSQLModel()
    sql = model.to_sql(ops)
    return re.findall(r'^\s*"([^"]+)" AS \($', sql, re.M), sql


def sql_cases(chk, cases, rng, entries, nmax):
    """table-only renamings to (a) one of the query's own view names, (b) a view-like name the query does not use, (c) a join alias,
    (d) two tables to view-like names of one kind whose numbers differ in digit count"""
    terms, meta = [], []
    for case in cases:
        if len(terms) >= nmax:
            break
        base = case.result("sqlite")
        if base[0] is None:
            continue
        try:
            views, _ = sql_view_names(case.ops)
        except Exception:      # noqa
            continue
        tabs = sorted(case.frames)
        choices = []
        if views:
            choices.append(rng.choice(views))
        choices.append(rng.choice(["extend_7", "project_9", "table_reference_8", "select_rows_11"]))
        choices.append(rng.choice(["join_source_left_0", "join_source_right_0", "join_source_left_1"]))
        if len(tabs) >= 2 and views:
            # two tables named like views whose numbers differ in digit count (9 / 10, 99 / 100, 7 / 12 ...): the numbering must start past the
            # LARGEST number, and the view that would otherwise get the lower of the free numbers is of the kind chosen here
            def vid(v):
                m = re.match(r"^(.*)_(\d+)$", v)
                return (int(m.group(2)), m.group(1)) if m else (10 ** 9, v)
            kind = min(vid(v) for v in views)[1]
            lo = rng.choice([9, 9, 99, 7, 5])
            hi = {9: 10, 99: 100, 7: 12, 5: 10}[lo]
            t1, t2 = rng.sample(tabs, 2)
            choices.append({t1: f"{kind}_{lo}", t2: f"{kind}_{hi}"})
        for new in choices:
            rt = {x: x for x in tabs}
            if isinstance(new, dict):
                if set(new.values()) & set(tabs):
                    continue
                rt.update(new)
                new = "+".join(sorted(new.values()))
            else:
                t = rng.choice(tabs)
                if new in tabs:
                    continue
                rt[t] = new
            eff, detail, c2, r2 = oracle(case, rt, {}, "sqlite", base)
            if eff == "build_rejects":
                continue
            try:
                v2, _ = sql_view_names(c2.ops)
            except Exception:      # noqa
                continue
            captured = eff in ("raises", "wrong_result")
            terms.append(f"mkqc {clist([cstr(v) for v in v2])} {clist([cstr(x) for x in sorted(c2.frames)])} {cbool(captured)}")
            meta.append((case, rt, new, eff, detail, v2))
            chk.dist("sql_table_capture" if captured else "sql_table_clean")
    # (e) fixed two-table templates x every kind of view the query generates x both assignments x digit-count pairs: run on every run
    for case in pair_templates(rng):
        base = case.result("sqlite")
        if base[0] is None:
            continue
        try:
            views, _ = sql_view_names(case.ops)
        except Exception:      # noqa
            continue
        kinds = sorted({m.group(1) for m in (re.match(r"^(.*)_\d+$", v) for v in views) if m})
        tabs = sorted(case.frames)
        if len(tabs) != 2:
            continue
        for kind in kinds:
            for lo, hi in ((9, 10), (99, 100), (3, 12)):
                for t1, t2 in ((tabs[0], tabs[1]), (tabs[1], tabs[0])):
                    rt = {t1: f"{kind}_{lo}", t2: f"{kind}_{hi}"}
                    eff, detail, c2, r2 = oracle(case, rt, {}, "sqlite", base)
                    if eff == "build_rejects":
                        continue
                    try:
                        v2, _ = sql_view_names(c2.ops)
                    except Exception:      # noqa
                        continue
                    captured = eff in ("raises", "wrong_result")
                    terms.append(f"mkqc {clist([cstr(v) for v in v2])} {clist([cstr(x) for x in sorted(c2.frames)])} {cbool(captured)}")
                    meta.append((case, rt, "+".join(sorted(rt.values())), eff, detail, v2))
                    chk.dist("sql_pair_capture" if captured else "sql_pair_clean")
    return terms, meta


def pair_templates(rng):
    """two-table pipelines whose SQL defines views (CTEs) and reads BOTH tables: a view named like one of the tables would capture it"""
    d1 = pipes.gen_table(rng, "d1", ncols=2, colnames=["k", "v"], types=("int",), unique_col=None, nrows=3, null_rate=0.0)
    d2 = pipes.gen_table(rng, "d2", ncols=2, colnames=["k", "v"], types=("int",), unique_col=None, nrows=2, null_rate=0.0)
    T1, T2 = {"op": "table", "name": "d1"}, {"op": "table", "name": "d2"}
    ext = lambda src: {"op": "extend", "src": src, "ops": {"v": "v + 1"}}
    shapes = [
        {"op": "concat_rows", "src": ext(T1), "b": T2, "id_column": None, "a_name": "a", "b_name": "b"},
        {"op": "concat_rows", "src": T1, "b": ext(T2), "id_column": None, "a_name": "a", "b_name": "b"},
        {"op": "concat_rows", "src": ext(T1), "b": ext(ext(T2)), "id_column": "src", "a_name": "a", "b_name": "b"},
        {"op": "natural_join", "src": ext(T1), "b": T2, "on": ["k"], "jointype": "LEFT"},
        {"op": "natural_join", "src": {"op": "project", "src": T1, "ops": {"v": "v.sum()"}, "group_by": ["k"]}, "b": T2, "on": ["k"], "jointype": "INNER"},
        {"op": "concat_rows", "src": {"op": "select_rows", "src": T1, "expr": "v >= 0"}, "b": {"op": "order_rows", "src": T2, "columns": ["k", "v"], "reverse": [], "limit": 5},
         "id_column": None, "a_name": "a", "b_name": "b"},
        {"op": "order_rows", "src": {"op": "concat_rows", "src": ext(T1), "b": T2, "id_column": None, "a_name": "a", "b_name": "b"}, "columns": ["k", "v"], "reverse": [], "limit": None},
    ]
    out = []
    for sc in shapes:
        try:
            out.append(X.Case(sc, [d1, d2], pipes.build(sc, {"d1": d1, "d2": d2})))
        except Exception:      # noqa
            pass
    return out


# ------------------------------------------------------------------------------------------------ run

FEATURES = ["extend", "wextend", "project", "select_rows", "select_columns", "drop_columns", "rename_columns", "map_columns", "order_rows",
            "natural_join", "concat_rows"]


def gen_case(rng, big):
    r = rng.random()
    feats = FEATURES if r < 0.5 else ["project", "wextend", "natural_join", "extend", "select_rows", "order_rows"] if r < 0.85 else ["natural_join", "project", "concat_rows", "rename_columns"]
    return X.gen_case(rng, features=feats, depth=(1, 5 if big else 3), ntables=2, null_rate=0.15, nrows=None if rng.random() < 0.9 else 0)


def load_known_witnesses():
    p = os.path.join(lib.ROOT, "known_findings.d", "C15.json")
    if not os.path.exists(p):
        return []
    return [f for f in json.load(open(p)).get("findings", []) if f.get("witness")]


def replay_witness(w):
    """(effect, detail, case, rt, rc, backend) of a stored witness on the current code"""
    case = X.case_from_json(w["case"])
    eff, detail, _, _ = oracle(case, w.get("rt", {}), w.get("rc", {}), w["backend"])
    return eff, detail, case


def run(chk):
    rng = chk.rng
    big = chk.tier == "thorough"
    T0 = time.time()
    timing = chk.cov.setdefault("timing_s", {})

    def lap(name):
        nonlocal T0
        timing[name] = round(time.time() - T0, 1)
        T0 = time.time()
    chk.prove([], extra_vo=["theories/Model/SemCases.vo", "theories/Model/ScratchCases.vo"])
    lap("prove")
    chk.cov["trusted_base"] = [
        "Coq 8.16.1 kernel + vm_compute",
        "hand model Model/Sem.v (what each backend computes for a pipeline) -- modelled, not verified; compared with every backend's real result on renamed pipelines on every run",
        "hand model Model/ScratchNames.v: name-by-name transcription of the scratch columns of pandas_base._project_step / _extend_step (windowed) / _natural_join_step "
        "(on_a = on_b) with the names _unused_column_name / the join-suffix loop choose (names_in_use kept fixed within one step: the base names differ after their leading "
        "underscores); the library calls (groupby / transform / agg / merge / sort_values) abstract, pandas.merge column naming modelled by hand; WITH-query name resolution "
        "(a CTE name shadows a base table) and the view numbering rule of to_sql -- sampled against the real steps and real generated SQL on every run",
        "the AST scan of harness/props/C15.py (which string literals stand in name positions) and the table `reserved` it is compared with; Polars scratch names are listed, not transcribed",
        "harness/semconv.py, harness/pipes.py, harness/execcorr.py (PostgreSQL-dialect text runs on SQLite 3.40.1; no PostgreSQL server here)"]
    chk.assumptions = ["names containing the identifier quote character are outside the property; columns referred to inside expression SOURCE keep identifier names (the expression grammar)",
                       "a backend that raises before AND after renaming is not counted",
                       "column order is compared only when the pipeline ends in select_columns (elsewhere it can come from set iteration), row order only after a final total order_rows"]
    chk.cov["rule"] = ("random pipelines (execcorr.gen_case, depth 1..3 quick / 1..5 thorough, 2 tables) x random injective renamings of their tables and columns drawn from: every "
                       "internal name collected from the source (scratch columns, <col>+suffix, view names <kind>_<n>, join aliases), ordinary names, odd names the quoting accepts, identity; "
                       "five backends; plus a fixed product of Pandas step templates x column role x scratch name (base names and the first fallback names), the corpus of repaired defects, "
                       "and table-only renamings to the query's own view names on SQLite; "
                       "non-trivial = at least one renamed name is an internal name; distinct by script+tables+renaming")
    found = scan_sources()
    entries = dict(RESERVED)
    for (kind, text), where in found.items():
        if (kind, text) not in entries and text not in ("", "NearSQLContainer", "ViewRepresentation", "coalesce", "op", "op_class", "expr", "data_frame", "default_Polars_model"):
            entries[(kind, text)] = ("table" if any("sql_model" in w or "near_sql" in w or "view_rep" in w for w in where) else "column", "new", "unlisted:" + text)
    prep = scratch_prepare(chk, entries, found)
    lap("scratch_cases_on_pandas")

    # ---- known findings: stored witnesses first (stable KNOWN-FINDING lines), then the corpus
    chk.cov["witness_replays"] = []
    for f in load_known_witnesses():
        try:
            w = f["witness"]
            eff, detail, case = replay_witness(w)
            chk.cov["witness_replays"].append({"id": f["id"], "still_fails": eff is not None})
            if eff is not None:
                report(chk, case, w.get("rt", {}), w.get("rc", {}), w["backend"], eff, detail, entries, shrink=False)
        except Exception as e:      # noqa
            chk.dist("witness_unreadable")
    for fpath in sorted(glob.glob(os.path.join(lib.ROOT, "corpus", "C15", "*.json"))):
        try:
            j = json.load(open(fpath))
            case = X.case_from_json(j["case"])
            for b in ([j["backend"]] if j.get("backend") else j.get("backends") or BACKENDS):
                eff, detail, _, _ = oracle(case, j.get("rt", {}), j.get("rc", {}), b)
                if eff is not None:
                    report(chk, case, j.get("rt", {}), j.get("rc", {}), b, eff, detail, entries, shrink=False)
        except Exception:      # noqa
            chk.dist("corpus_unreadable")
    lap("witnesses_and_corpus")

    # ---- random pipelines x random renamings
    cases = []
    n = N[chk.tier]
    tries = 0
    while len(cases) < n and tries < n * 10:
        tries += 1
        c = gen_case(rng, big)
        if c is not None:
            cases.append(c)
    sem_pairs = []                      # (renamed case, original case, backend, renamed result, original result)
    reported = set()
    nren = 2 if not big else 3
    nsem = 24 if not big else 300
    for ci, case in enumerate(cases):
        for op in pipes.script_ops(case.script):
            chk.dist("op_" + op)
        try:
            views, _ = sql_view_names(case.ops)
        except Exception:      # noqa
            views = []
        for k in range(nren):
            mode = rng.random()
            rt, rc = draw_renaming(rng, case, entries, view_names=views, p_special=0.5 if mode < 0.7 else 0.15,
                                   tables=mode < 0.85, columns=mode > 0.1, odd=rng.random() < 0.5)
            if not moved(rt) and not moved(rc):
                continue
            cls = classify(rt, rc, entries)
            chk.count((case.key(), sorted(rt.items()), sorted(rc.items())), nontrivial=bool(cls))
            for c_ in cls:
                chk.dist("renamed_to:" + c_)
            if odd_kinds(rt, rc):
                chk.dist("renamed_to:odd_name")
            if len(chk.cov["samples"]) < 4 and cls:
                chk.sample({"case": case.json(), "rt": moved(rt), "rc": moved(rc), "classes": cls})
            for b in BACKENDS:
                base = case.result(b)
                try:
                    eff, detail, c2, r2 = oracle(case, rt, rc, b, base)
                except Exception as e:      # noqa
                    chk.dist("oracle_error:" + type(e).__name__)
                    continue
                if base[0] is None:
                    chk.dist(f"{b}_raised_before")
                chk.dist(f"{b}:{eff or 'same'}")
                if eff is None:
                    if r2 is not None and b in ("pandas", "sqlite", "polars") and len(sem_pairs) < nsem and (k == 0 or big):
                        sem_pairs.append((c2, case, b, r2, base[0]))
                    continue
                sig0 = json.dumps(signature(b, eff, rt, rc, entries, case), sort_keys=True)
                if (sig0, ci) in reported:
                    continue
                reported.add((sig0, ci))
                new, sig = report(chk, case, rt, rc, b, eff, detail, entries, shrink=True)
                chk.dist("violation:" + ("NEW:" if new else "known:") + sig["backend"] + ":" + sig["name_class"] + ":" + sig["effect"])
    lap("random_renamings")
    qterms, qmeta = sql_cases(chk, cases, rng, entries, 30 if not big else 300)
    lap("sql_table_renamings")

    # ---- all Coq case files at once: scratch names, scratch steps, SQL view names, Sem on renamed + original pipelines
    from concurrent.futures import ThreadPoolExecutor
    sem_items = [x for (c2, c1, b, r2, r1) in sem_pairs for x in ((c2, b, r2), (c1, b, r1))]
    with ThreadPoolExecutor(max_workers=4) as ex:
        f_static = ex.submit(lib.run_case_files, "C15lit", PREAMBLE, prep["sterms"], "check_static", 900)
        f_pcases = ex.submit(lib.run_case_files, "C15scr", PREAMBLE, prep["terms"], "check_pcases", 100 if not big else 70)
        f_sql = ex.submit(lib.run_case_files, "C15sql", PREAMBLE, qterms, "check_qcases", 200)
        f_sem = ex.submit(X.sem_correspondence, chk, "C15", sem_items, 24 if not big else 40)
        static_res, pcase_res, sql_res, sem_res = f_static.result(), f_pcases.result(), f_sql.result(), f_sem.result()
    lap("coq_case_files")

    cov, disagreements = scratch_evaluate(chk, prep, found, static_res, pcase_res)
    chk.cov["correspondence"] = dict(cov)
    if cov["unknown_literals"]:
        probe_new_names(chk, entries, [tuple(x) for x in cov["unknown_literals"]])
        lap("probes_for_unlisted_names")
    for m in disagreements:
        chk.corr_break(f"Model/ScratchNames.v predicts {'no capture' if m['observed_captured'] else 'a capture'} for step template {m['template']}, column {m['slot']} called {m['name']!r}; "
                       f"the real Pandas step {'changes: ' + m['why'] if m['observed_captured'] else 'is unchanged'}", m)
        if m["observed_captured"]:       # the real step does change: that is a failing input of the property
            rep = {"kind": "impl-violation", "template": m["template"], "slot": m["slot"], "name": m["name"], "why": m["why"], "backend": "pandas"}
            cls = name_class("column", m["name"], entries) or "ordinary"
            chk.impl_violation(f"pandas: calling column {m['slot']} of step template {m['template']} {m['name']!r} changes the result: {m['why']}", rep,
                               {"backend": "pandas", "effect": "raises" if m["why"].startswith("raises") else "wrong_result", "name_class": "column:" + cls, "renamed": "columns",
                                "keyless_join": m["template"] == "J4"})

    # Sem: a disagreement only AFTER renaming is ours (one before renaming as well belongs to C01 / C03 / C16)
    failing, nchecked, errors = sem_res
    fs = set(failing)
    only_after = [i for i in range(0, len(sem_items), 2) if i in fs and (i + 1) not in fs]
    only_before = [i for i in range(0, len(sem_items), 2) if i not in fs and (i + 1) in fs]
    chk.cov["correspondence"].update({"sem_pairs": len(sem_pairs), "sem_checked_in_coq": nchecked, "sem_disagree_before_and_after": sum(1 for i in range(0, len(sem_items), 2) if i in fs and (i + 1) in fs),
                                      "sem_disagree_only_after_renaming": len(only_after), "sem_disagree_only_before_renaming": len(only_before), "errors": errors[:2]})
    chk.cov["traces_validated_against_impl"] = nchecked + cov["scratch_checked_in_coq"] + sql_res[2]
    if errors:
        chk.corr_break("Sem correspondence case files failed to compile", errors[0])
    for i in only_after + only_before:
        c2, b, r2 = sem_items[i]
        chk.corr_break(f"Model/Sem.v agrees with the {b} backend on a pipeline {'before' if i in only_after else 'after'} renaming and disagrees {'after' if i in only_after else 'before'}",
                       X.describe(c2, b, r2, None))

    # SQL view names
    qbad, qerrs, nqchk = sql_res
    for e in qerrs[:1]:
        chk.corr_break("SQL view-name case files failed to compile", e)
    chk.cov["correspondence"].update({"sql_view_cases": len(qterms), "sql_view_checked_in_coq": nqchk, "sql_view_disagreements": len(qbad)})
    for i in qbad:
        if i >= len(qmeta):
            continue
        (case, rt, new, eff, detail, v2) = qmeta[i]
        chk.corr_break(f"the WITH-query name model and SQLite disagree: table renamed to {new!r}, view names {v2}, observed effect {eff}", {"rt": rt, "views": v2, "effect": eff, "case": case.json()})
        if eff in ("raises", "wrong_result"):
            report(chk, case, rt, {}, "sqlite", eff, detail, entries, shrink=False)
    lap("evaluate")


def replay(path):
    r = json.load(open(path))
    if "template" in r:
        t = {x["id"]: x for x in TEMPLATES}[r["template"]]
        obs, why = observe_template(t, r["slot"], r["name"])
        print("captured:" if obs else "unchanged", why)
        return 1 if obs else 0
    if "case" not in r:
        print(json.dumps(r, indent=1)[:3000]); return 1
    case = X.case_from_json(r["case"])
    eff, detail, _, _ = oracle(case, r.get("rt", {}), r.get("rc", {}), r.get("backend", "pandas"))
    print(eff or "ok", detail or "")
    return 1 if eff else 0
