"""C27 -- windowed and ordered window functions are computed per ordered partition.
proof:  Props/C27.v over Model/Sem.v (all flavours): the value sem_wextend writes at a row is the window function over that
        row's OWN partition (null keys group with null) read in the DECLARED order (reversed columns descending) at the row's
        position; that ordered partition is sorted / a permutation of the partition; on a total order without null keys it is
        ONE list for every null-placement convention and every physical row order, so backends whose function-level conventions
        agree write the same value at every row; per-function value theorems; `_refuted` witnesses for the real differences.
tie:    (a) every backend's real result vs sem_gen <flavour> inside Coq (Model/SemCases.v: partitioning, sorting, writing back);
        (b) per ordered partition: the values each backend wrote, read in the declared order, vs win_fn / the hand models of the
            listed deviations (Model/WindowCases.v).
        The reference is driven by the SCRIPT's steps (what the caller declared), never by the built node: a builder that merges
        two adjacent windowed extends with different orders is caught although all backends then agree with each other.
oracle: an independent pure-Python reference of every window function over the ordered partition (written from the property text
        and the Term docstrings), compared per row -- rows are matched through the unique column `uid` -- on every backend that
        supports the function (catalogue column == 'y' for Pandas / SQLite / PostgreSQL text; "does not raise" for Polars), and
        cross-backend agreement on total orders."""
import glob, json, math, os, warnings
import lib, pipes, semconv, execcorr as X
from lib import clist, cstr

warnings.filterwarnings("ignore")

N = {"quick": 55, "thorough": 700}
BACKENDS = ("pandas", "sqlite", "pgtext", "polars", "pllazy")
CATALOG_COL = {"pandas": "Pandas", "sqlite": "SQLiteModel", "pgtext": "PostgreSQLModel"}
SQL = ("sqlite", "pgtext")
PL = ("polars", "pllazy")

ORDERED_FNS = ["cumsum", "cummax", "cummin", "cumprod", "cumcount", "_row_number", "_count", "shift", "rank", "first", "last",
               "bfill", "ffill", "mean", "size", "_size", "median", "nunique"]
UNORDERED_FNS = ["sum", "mean", "min", "max", "count", "size", "_size", "median", "nunique", "std", "var", "rank", "const_sum"]
GROUP_AGGS = {"sum", "mean", "min", "max", "count", "size", "_size", "median", "nunique", "std", "var", "const_sum"}
ORDER_FREE = GROUP_AGGS | {"rank"}                 # value does not depend on the order inside the partition
NO_COQ = {"std"}                                    # sqrt: not a rational
LISTED_DEVIATIONS = {"group_aggregate_running_in_ordered_window", "boundary_null", "null_counted"}   # hand-modelled in Model/WindowSpec.v


# ------------------------------------------------------------------------------------------------ catalogue

_CAT = None


def catalogue():
    """{fn: {backend: flag}} for the windowed classes g / w of data_algebra.op_catalog"""
    global _CAT
    if _CAT is None:
        import data_algebra.op_catalog as oc
        t = oc.methods_table
        _CAT = {}
        for i in range(t.shape[0]):
            if t["op_class"][i] in ("g", "w"):
                _CAT.setdefault(t["op"][i], {}).update({b: t[c][i] for b, c in CATALOG_COL.items()})
    return _CAT


def cat_name(fn):
    return "sum" if fn == "const_sum" else fn


def supported(fn, backend):
    """None = the catalogue has no column for this backend (Polars): supported iff it does not raise"""
    if backend in PL:
        return None
    return catalogue().get(cat_name(fn), {}).get(backend) == "y"


# ------------------------------------------------------------------------------------------------ generation

def gen_window_table(rng, tier, chain=False):
    big = tier == "thorough"
    nrows = rng.choice([0, 1, 2, 3, 4, 5, 6, 7, 8, 10] + ([12, 16] if big else []))
    npart = rng.choice([0, 1, 1, 1, 2, 2, 3])
    nord = rng.choice([0, 0, 1, 1, 1, 2, 2, 3])
    if chain:                                              # two adjacent windowed extends: several order columns, enough rows to tell orders apart
        nrows = rng.choice([3, 4, 5, 6, 7, 8, 10] + ([12, 16] if big else []))
        npart = rng.choice([0, 1, 1, 2])
        nord = rng.choice([2, 2, 3])
    spec, gens = [], []
    for i in range(npart):
        ty = rng.choice(["int", "str"])
        dom = rng.choice([1, 2, 3])
        nr = rng.choice([0.0, 0.2, 0.4])
        spec.append((f"p{i+1}", ty))
        gens.append((lambda ty=ty, dom=dom, nr=nr: None if rng.random() < nr else (rng.randint(0, dom) if ty == "int" else rng.choice(["a", "b", "c"][:dom + 1]))))
    null_order = nord > 0 and rng.random() < 0.1          # null order keys: outside "total order" (correspondence only)
    for i in range(nord):
        ty = rng.choice(["int", "float"])
        dom = rng.choice([1, 2, 4])
        spec.append((f"o{i+1}", ty))
        nr = 0.25 if (null_order and i == 0) else 0.0
        gens.append((lambda ty=ty, dom=dom, nr=nr: None if rng.random() < nr else (rng.randint(-1, dom) if ty == "int" else rng.randint(-2, 2 * dom) / 2.0)))
    for c in ("x", "y"):
        ty = rng.choice(["int", "float"])
        nr = rng.choice([0.0, 0.3, 0.6])
        spec.append((c, ty))
        gens.append((lambda ty=ty, nr=nr: None if rng.random() < nr else (rng.randint(-3, 5) if ty == "int" else rng.randint(-8, 12) / 4.0)))
    rows = []
    for _ in range(nrows):
        if rows and rng.random() < 0.2:
            rows.append(list(rng.choice(rows)))            # duplicate rows (the unique column is added below)
        else:
            rows.append([g() for g in gens])
    # the order is completed either by making the LAST order column a permutation, or by appending uid
    order = [f"o{i+1}" for i in range(nord)]
    if nord > 0 and rng.random() < 0.4:
        j = [c for c, _ in spec].index(order[-1])
        perm = list(range(nrows))
        rng.shuffle(perm)
        ty = spec[j][1]
        for r, p in zip(rows, perm):
            r[j] = p if ty == "int" else p / 2.0
    elif nord > 0:
        order.append("uid")
    spec.append(("uid", "int"))
    perm = list(range(nrows))
    rng.shuffle(perm)
    for r, p in zip(rows, perm):
        r.append(p)
    return {"name": "d", "spec": spec, "rows": rows}, [f"p{i+1}" for i in range(npart)], order


def fn_expr(rng, fn, vals):
    v = rng.choice(vals)
    if fn in ("_row_number", "_count", "_size"):
        return f"{fn}()"
    if fn == "const_sum":
        return "(1).sum()"
    if fn == "shift":
        return f"{v}.shift({rng.choice(['', '1', '2', '-1', '-2'])})"
    return f"{v}.{fn}()"


def make_case(rng, tier):
    tab, part, order = gen_window_table(rng, tier)
    rev = [c for c in order if rng.random() < 0.4]
    fns = ORDERED_FNS if order else UNORDERED_FNS
    src = {"op": "table", "name": "d"}
    vals = ["x", "y"]
    if rng.random() < 0.25:                                  # a plain step in front (SQL: one more sub-query; Pandas: a fresh frame)
        if rng.random() < 0.5:
            src = {"op": "extend", "src": src, "ops": {"z": rng.choice(["x + y", "x * 2", "y - 1"])}}
            vals = ["x", "y", "z"]
        else:
            src = {"op": "select_rows", "src": src, "expr": rng.choice(["uid != 1", "uid >= 1", "uid < 6"])}
    ops, meta = {}, {}
    for i in range(rng.choice([1, 1, 2, 3])):
        fn = rng.choice(fns)
        k = f"w{i}"
        ops[k] = fn_expr(rng, fn, vals)
        meta[k] = fn
    s = {"op": "extend", "src": src, "ops": ops, "partition_by": part if part else 1, "order_by": order, "reverse": rev}
    keep = None
    if rng.random() < 0.2:                                   # keep only some of the window columns: SQL prunes the others
        keep = ["uid"] + [k for k in ops if rng.random() < 0.6] + [c for c in part if rng.random() < 0.5]
        if len(keep) == 1:
            keep.append(next(iter(ops)))
    return {"tab": tab, "src": src, "step": s, "fns": meta, "keep": keep}


def make_chain_case(rng, tier):
    """TWO ADJACENT windowed extends with independent assignments.  The second window is the first one with (a) the same
    order columns in a different sequence, (b) a different reversal, (c) a different partition, or (d) unchanged (the one case
    in which the builder may merge the two steps).  Each step's values are checked against the order DECLARED IN THAT STEP."""
    tab, part, order = gen_window_table(rng, tier, chain=True)
    rev = [c for c in order if rng.random() < 0.4]
    src = {"op": "table", "name": "d"}
    def draw(prefix):
        ops, meta = {}, {}
        for i in range(rng.choice([1, 2, 2])):
            fn = rng.choice(["cumsum", "cummax", "cummin", "cumprod", "cumcount", "_row_number", "_count", "shift", "first", "last", "bfill", "ffill", "rank"])
            ops[f"{prefix}{i}"] = fn_expr(rng, fn, ["x", "y"])
            meta[f"{prefix}{i}"] = fn
        return ops, meta
    ops1, m1 = draw("w")
    ops2, m2 = draw("v")
    part2, order2, rev2 = list(part), list(order), list(rev)
    kind = rng.choice(["permuted_order", "permuted_order", "permuted_order", "other_reverse", "other_partition", "same_window"])
    if kind == "permuted_order":
        while order2 == order:
            rng.shuffle(order2)
    elif kind == "other_reverse":
        c = rng.choice(order)
        rev2 = [x for x in rev if x != c] if c in rev else rev + [c]
    elif kind == "other_partition":
        cols = [c for c, _ in tab["spec"] if c.startswith("p")]
        part2 = part[:-1] if part else cols[:1]
    s1 = {"op": "extend", "src": src, "ops": ops1, "partition_by": part if part else 1, "order_by": order, "reverse": rev}
    s2 = {"op": "extend", "ops": ops2, "partition_by": part2 if part2 else 1, "order_by": order2, "reverse": rev2}
    m1.update(m2)
    return {"tab": tab, "src": src, "step": s1, "step2": s2, "fns": m1, "keep": None, "chain_kind": kind}


class Win:
    """the window one step DECLARES (taken from the script, never from the built node)"""

    def __init__(self, step, index):
        self.index = index
        self.ops = dict(step["ops"])
        self.part = step["partition_by"] if isinstance(step["partition_by"], list) else []
        self.order, self.rev = list(step["order_by"]), list(step["reverse"])


class WCase:
    """one windowed extend with its table; per-backend sub-pipelines keep only the functions the backend supports"""

    def __init__(self, j):
        self.j = j
        self.tab = {"name": j["tab"]["name"], "spec": [tuple(x) for x in j["tab"]["spec"]], "rows": j["tab"]["rows"]}
        self.tabs = [self.tab]
        self.step, self.src, self.fns, self.keep = j["step"], j["src"], dict(j["fns"]), j.get("keep")
        self.step2 = j.get("step2")
        self.steps = [Win(self.step, 0)] + ([Win(self.step2, 1)] if self.step2 else [])
        self.part, self.order, self.rev = self.steps[0].part, self.steps[0].order, self.steps[0].rev
        self._cases = {}
        pipes.build(self.script(list(self.fns)), {"d": self.tab})          # the builder must accept the full step (raises otherwise)
        self._source = None

    def expr(self, k):
        return next(w.ops[k] for w in self.steps if k in w.ops)

    def script(self, keys):
        s = self.src
        for st in (self.step, self.step2):
            if st is not None and any(k in st["ops"] for k in keys):
                s = dict(st, src=s, ops={k: st["ops"][k] for k in keys if k in st["ops"]})
        if self.keep is not None:
            cols = [c for c in self.keep if c in keys or c not in self.fns]
            s = {"op": "select_columns", "src": s, "columns": cols}
        return s

    def sub(self, keys):
        keys = tuple(keys)
        if keys not in self._cases:
            sc = self.script(list(keys))
            self._cases[keys] = X.Case(sc, self.tabs, pipes.build(sc, {"d": self.tab}))
        return self._cases[keys]

    def visible(self, keys):
        return [k for k in keys if self.keep is None or k in self.keep]

    def source_rows(self):
        """the window step's input, materialised independently of every backend: [{col: normalised cell}]"""
        if self._source is None:
            cols = [c for c, _ in self.tab["spec"]]
            rows = [{c: pipes.norm_cell(v) for c, v in zip(cols, r)} for r in self.tab["rows"]]
            s = self.src
            if s["op"] == "extend":
                (k, e), = s["ops"].items()
                a, o, b = e.split()
                for r in rows:
                    u = r[a]
                    v = r[b] if b in r else float(b)
                    r[k] = None if u is None or v is None else {"+": u + v, "-": u - v, "*": u * v}[o]
            elif s["op"] == "select_rows":
                a, o, b = s["expr"].split()
                rows = [r for r in rows if {"!=": r[a] != float(b), ">=": r[a] >= float(b), "<": r[a] < float(b)}[o]]
            self._source = rows
        return self._source

    def json(self):
        return self.j

    def key(self):
        return json.dumps(self.j, sort_keys=True, default=str)


# ------------------------------------------------------------------------------------------------ reference implementation

SKIP = "not-compared"          # sum over a partition without a non-null value: documented destination convention (0 or NULL)


def parse_expr(e):
    """'x.shift(2)' -> ('x', 'shift', [2]);  '_size()' -> (None, '_size', []);  '(1).sum()' -> (1.0, 'sum', [])"""
    if e.startswith("_"):
        return None, e[:-2], []
    if e.startswith("(1)."):
        return 1.0, e[4:-2], []
    col, rest = e.split(".", 1)
    fn, arg = rest[:-1].split("(")
    return col, fn, ([int(arg)] if arg else [])


def ref_agg(fn, vs):
    xs = [v for v in vs if v is not None]
    n = len(xs)
    if fn in ("size", "_size"):
        return float(len(vs))
    if fn == "count":
        return float(n)
    if fn == "nunique":
        return float(len(set(xs)))
    if fn == "sum":
        return SKIP if n == 0 else float(sum(xs))
    if n == 0:
        return None
    if fn == "mean":
        return sum(xs) / n
    if fn == "min":
        return min(xs)
    if fn == "max":
        return max(xs)
    if fn == "median":
        s = sorted(xs)
        return s[n // 2] if n % 2 else (s[n // 2 - 1] + s[n // 2]) / 2.0
    if fn in ("var", "std"):
        if n < 2:
            return None
        m = sum(xs) / n
        v = sum((x - m) ** 2 for x in xs) / (n - 1)
        return v if fn == "var" else math.sqrt(v)
    raise ValueError(fn)


def ref_win(fn, extra, vs, carry=False):
    """the values of window function fn for every position of the ordered partition values vs (reference = the property text;
    where backends have conventions the reference is the Pandas one: null at a null-valued row of a running function;
    carry=True gives the SQL convention instead)"""
    n = len(vs)
    if fn in ("cumsum", "cummax", "cummin", "cumprod"):
        out, acc = [], None
        for v in vs:
            if v is None:
                out.append(acc if carry else None)
            else:
                acc = v if acc is None else {"cumsum": acc + v, "cummax": max(acc, v), "cummin": min(acc, v), "cumprod": acc * v}[fn]
                out.append(acc)
        return out
    if fn in ("_row_number", "_count"):
        return [float(j + 1) for j in range(n)]
    if fn == "cumcount":
        return [float(j) for j in range(n)]
    if fn == "shift":
        k = extra[0] if extra else 1
        return [vs[j - k] if 0 <= j - k < n else None for j in range(n)]
    if fn == "rank":
        xs = [v for v in vs if v is not None]
        return [None if v is None else sum(1 for x in xs if x < v) + (sum(1 for x in xs if x == v) + 1) / 2.0 for v in vs]
    if fn == "first":
        return [next((v for v in vs if v is not None), None)] * n
    if fn == "last":
        return [next((v for v in reversed(vs) if v is not None), None)] * n
    if fn == "ffill":
        out, acc = [], None
        for v in vs:
            acc = acc if v is None else v
            out.append(acc)
        return out
    if fn == "bfill":
        return list(reversed(ref_win("ffill", [], list(reversed(vs)))))
    return [ref_agg(fn, vs)] * n


def part_key(row, part):
    return tuple(row[c] for c in part)


def sort_partition(rows, order, rev):
    """rows in the declared order: lexicographic on `order`, columns in `rev` descending (keys are non-null and total here)"""
    out = list(rows)
    for c in reversed(order):
        out.sort(key=lambda r: r[c], reverse=(c in rev))
    return out


def partitions(wc, win=None):
    """[(key, rows in the order DECLARED by the step `win` | frame order, total?)]"""
    win = win or wc.steps[0]
    groups = {}
    for r in wc.source_rows():
        groups.setdefault(part_key(r, win.part), []).append(r)
    out = []
    for k, rs in groups.items():
        keys = [tuple(r[c] for c in win.order) for r in rs]
        total = all(v is not None for t in keys for v in t) and len(set(keys)) == len(keys)
        out.append((k, sort_partition(rs, win.order, win.rev) if (total and win.order) else rs, total if win.order else False))
    return out


def arg_values(rows, arg):
    return [arg if isinstance(arg, float) else (1.0 if arg is None else r[arg]) for r in rows]


def diagnose(fn, backend, ordered, vs, j, obs):
    """name the cause when a mismatch is one of the understood backend deviations, else 'value'"""
    def close(a, b):
        return b is not SKIP and pipes.cells_close(a, b)
    if backend in SQL and fn in ("cumsum", "cummax", "cummin") and vs[j] is None and close(obs, ref_win(fn, [], vs, carry=True)[j]):
        return "null_value_row"
    if backend in SQL and ordered and fn in GROUP_AGGS and close(obs, ref_agg(cat_name(fn), vs[:j + 1])):
        return "group_aggregate_running_in_ordered_window"
    if backend in PL and fn == "first" and vs and vs[0] is None and obs is None:
        return "boundary_null"
    if backend in PL and fn == "last" and vs and vs[-1] is None and obs is None:
        return "boundary_null"
    if backend in PL and fn == "nunique" and any(v is None for v in vs) and close(obs, ref_agg("nunique", vs) + 1.0):
        return "null_counted"
    return "value"


def oracle(wc, backend, keys, res):
    """compare the backend's result with the reference, per row (through uid).  Returns (violations, wcases, stats) where a
    violation is (why, sig, detail) and a wcase is a function-level correspondence case (dict)."""
    viol, wcases, st = [], [], {"_skip": set()}
    src = wc.source_rows()
    cols = list(res.columns)
    if "uid" not in cols:
        return [("result has no uid column", {"backend": backend, "fn": "*", "cause": "shape"}, {})], [], st
    got = {}
    for r in res.to_numpy(dtype=object):
        d = {c: pipes.norm_cell(v) for c, v in zip(cols, r)}
        got.setdefault(d["uid"], []).append(d)
    if len(res) != len(src) or set(got) != {r["uid"] for r in src} or any(len(v) != 1 for v in got.values()):
        return [(f"{backend}: the windowed extend returned {len(res)} rows for {len(src)} input rows (or lost / repeated a row)",
                 {"backend": backend, "fn": "*", "cause": "row_count"}, {})], [], st
    unobservable_deviation = False
    for win in wc.steps:                               # every step against the window IT declares
        ordered = bool(win.order)
        for key, rows, total in partitions(wc, win):
            for k in [k for k in wc.visible(keys) if k in win.ops]:
                fn = wc.fns[k]
                arg, _, extra = parse_expr(wc.expr(k))
                if ordered and not total and fn not in ORDER_FREE:
                    st["partition_not_total_skipped"] = st.get("partition_not_total_skipped", 0) + 1
                    if backend in PL and fn in ("first", "last") and any(v is None for v in arg_values(rows, arg)):
                        unobservable_deviation = True           # the listed Polars deviation may show where the oracle cannot look
                    continue
                if not ordered and fn not in ORDER_FREE:
                    continue
                if ordered and not total and backend in SQL and fn in GROUP_AGGS:
                    # outside the property's "total order", and SQL's running aggregate (the listed deviation) then depends on
                    # SQL's own placement of the null / tied keys: nothing to compare per row
                    st["sql_group_aggregate_on_non_total_order_skipped"] = st.get("sql_group_aggregate_on_non_total_order_skipped", 0) + 1
                    unobservable_deviation = True
                    continue
                vs = arg_values(rows, arg)
                exp = ref_win(cat_name(fn), extra, vs)
                obs = [got[r["uid"]][0].get(k) for r in rows]
                st["rows_compared"] = st.get("rows_compared", 0) + len(rows)
                causes = set()
                for j, (o, e) in enumerate(zip(obs, exp)):
                    if e is SKIP:
                        st["sum_of_nothing_not_compared"] = st.get("sum_of_nothing_not_compared", 0) + 1
                        st["_skip"].add((k, rows[j]["uid"]))
                        continue
                    if not pipes.cells_close(o, e):
                        cause = diagnose(fn, backend, ordered, vs, j, o)
                        causes.add(cause)
                        why = (f"{backend}: {wc.expr(k)} over partition {dict(zip(win.part, key))} ordered by {win.order} reverse {win.rev} (as declared in step {win.index + 1}): "
                               f"row uid={rows[j]['uid']} (position {j}) got {o!r}, the window function over its ordered partition gives {e!r}")
                        viol.append((why, {"backend": backend, "fn": fn, "cause": cause},
                                     {"column": k, "partition": list(key), "ordered_values": vs, "expected": [None if x is SKIP else x for x in exp], "observed": obs}))
                        break
                if (total or not ordered) and fn not in NO_COQ and len(rows) > 0:
                    variant = "WSem"                      # the hand model of a listed deviation only where the deviation shows
                    dev = causes - {"null_value_row"}     # (f_running_carry models that one inside win_fn)
                    if dev == {"group_aggregate_running_in_ordered_window"}:
                        variant = "WSqlOrderedAgg"
                    elif dev == {"boundary_null"}:
                        variant = "WPolarsFirst" if fn == "first" else "WPolarsLast"
                    elif dev == {"null_counted"}:
                        variant = "WPolarsNunique"
                    # any other mismatch stays a WSem case: the model then disagrees as well, which is reported beside the oracle's finding
                    if SKIP in exp and backend in PL:
                        variant = None                      # Polars window sum of nothing is 0, its project sum is null: one flavour field cannot say both
                    if variant is not None and (ordered or fn in ORDER_FREE):
                        wcases.append({"fl": X.FLAVOR[backend], "variant": variant, "op": cat_name(fn), "extra": extra, "vs": vs, "obs": obs,
                                       "backend": backend, "expr": wc.expr(k)})
    st["_unobservable_deviation"] = unobservable_deviation
    return viol, wcases, st


# ------------------------------------------------------------------------------------------------ evaluation

def eval_backend(wc, backend):
    """{frozenset(keys): (keys, result frame)} for the functions this backend supports; raising functions are dropped one by one"""
    keys = [k for k, fn in wc.fns.items() if supported(fn, backend) is not False]
    skipped = [k for k in wc.fns if k not in keys]
    out, raised = [], []
    if keys:
        c = wc.sub(keys)
        res, err = c.result(backend)
        if res is not None:
            out.append((keys, c, res))
        elif len(keys) > 1:
            for k in keys:
                c1 = wc.sub([k])
                r1, e1 = c1.result(backend)
                if r1 is not None:
                    out.append(([k], c1, r1))
                else:
                    raised.append((k, e1))
        else:
            raised.append((keys[0], err))
    return out, raised, skipped


def wcase_term(w):
    vals = lambda l: clist([semconv.cval(v) for v in l])
    return "mkw %s %s %s %s %s %s" % (w["fl"], w["variant"], cstr(w["op"]), vals([float(x) for x in w["extra"]]), vals(w["vs"]), vals(w["obs"]))


WPREAMBLE = ("From Coq Require Import List Bool ZArith QArith String.\nImport ListNotations.\nOpen Scope string_scope.\n"
             "From DA Require Import Base.PyRT Base.Cases Base.Val Model.Sem Model.SemCases Model.WindowSpec Model.WindowCases.\nOpen Scope list_scope.\n")


def shrink(wc, backend, k, sig):
    """fewer rows with the same kind of failure of the same function on the same backend; a chain of two windowed extends is
    kept whole (the failure may need the neighbouring step), a single step is reduced to the failing assignment"""
    def reduced(rows):
        if wc.step2 is not None:
            return dict(wc.j, tab=dict(wc.j["tab"], rows=rows))
        return dict(wc.j, tab=dict(wc.j["tab"], rows=rows), fns={k: wc.fns[k]}, step=dict(wc.step, ops={k: wc.step["ops"][k]}), keep=None)

    def fails(rows):
        try:
            w2 = WCase(reduced(rows))
            out, _, _ = eval_backend(w2, backend)
        except Exception:
            return False
        for keys, c, res in out:
            v, _, _ = oracle(w2, backend, keys, res)
            if any(s_["cause"] == sig["cause"] and s_["fn"] == sig["fn"] and d_.get("column") == k for _, s_, d_ in v):
                return True
        return False
    return reduced(lib.shrink_list(wc.j["tab"]["rows"], fails, max_steps=80))


def check_case(chk, wc, items, wcases, from_corpus=False):
    ordered = bool(wc.order)
    parts = partitions(wc)
    total_all = all(t for w in wc.steps if w.order for _, _, t in partitions(wc, w))
    null_pkey = any(v is None for k, _, _ in parts for v in k)
    if wc.step2 is not None:
        chk.dist("two_adjacent_windowed_extends:" + wc.j.get("chain_kind", "?"))
    chk.count(wc.key(), nontrivial=(len(wc.source_rows()) >= 2))
    chk.dist(f"partition_cols_{len(wc.part)}")
    chk.dist(f"order_cols_{len(wc.order)}" + ("_reversed" if wc.rev else ""))
    chk.dist("rows_%d" % min(len(wc.source_rows()), 12))
    if null_pkey:
        chk.dist("null_partition_key")
    if ordered and not total_all:
        chk.dist("order_not_total_or_null_key")
    if any(len(rs) == 1 for _, rs, _ in parts):
        chk.dist("single_row_partition")
    for fn in wc.fns.values():
        chk.dist("fn:" + fn)
    if len(chk.cov["samples"]) < 3 and not from_corpus:
        chk.sample({"case": wc.json()})
    values = {}                                        # (column, uid) -> {backend: value}   for the cross-backend comparison
    flagged, skipcells = set(), set()
    for b in BACKENDS:
        try:
            out, raised, skipped = eval_backend(wc, b)
        except Exception as e:                          # building a sub-step failed: the builder's business (C26), not counted here
            chk.dist(f"{b}_substep_rejected")
            continue
        for k, e in raised:
            chk.dist(f"{b}_raised:{wc.fns[k]}")
        for k in skipped:
            chk.dist(f"{b}_not_catalogued:{wc.fns[k]}")
        for keys, c, res in out:
            viol, wcs, st = oracle(wc, b, keys, res)
            skipcells |= st.pop("_skip")
            unobservable_deviation = st.pop("_unobservable_deviation")
            for s, n in st.items():
                chk.dist(s, n)
            chk.dist(f"{b}_evaluated")
            deviates = False
            for why, sig, detail in viol:
                col = detail.get("column")
                flagged.add((b, col))
                known = any(lib.match_sig(f.get("signature", {}), sig) for f in chk.known)
                if sig["cause"] in LISTED_DEVIATIONS:
                    deviates = True                    # Model/Sem.v does not model this listed deviation: not a pipeline correspondence case
                rep = {"kind": "impl-violation", "case": wc.json(), "backend": b, "column": col, "why": why, "detail": detail, "signature": sig}
                if not known and col is not None and not from_corpus:
                    try:
                        small = shrink(wc, b, col, sig)
                        rep["case"] = small
                    except Exception:
                        pass
                chk.dist("deviation:%s:%s:%s" % (sig["backend"], sig["fn"], sig["cause"]))
                chk.impl_violation(why, rep, sig)
            excluded = deviates or unobservable_deviation or (b in PL and sum_of_nothing(wc, keys))
            if not excluded:
                items.append((c, b, res))
            else:
                chk.dist(f"{b}_not_in_pipeline_correspondence")
            wcases.extend(wcs)
            got = {pipes.norm_cell(r[list(res.columns).index("uid")]): r for r in res.to_numpy(dtype=object)} if "uid" in res.columns else {}
            for k in wc.visible(keys):
                ci = list(res.columns).index(k)
                for u, r in got.items():
                    values.setdefault((k, u), {})[b] = pipes.norm_cell(r[ci])
    # cross-backend agreement on total orders: every backend that returned a value for a row returned the same one, unless the
    # difference is one of the per-backend deviations already reported above
    if total_all:
        for (k, u), d in values.items():
            if len(d) < 2:
                continue
            chk.dist("cross_backend_cells")
            if (k, u) in skipcells:
                continue
            clean = {b: v for b, v in d.items() if (b, k) not in flagged and (b, None) not in flagged}
            if len(clean) >= 2:
                b0, ref = next(iter(clean.items()))
                for b, v in clean.items():
                    if not pipes.cells_close(v, ref):
                        why = f"{b0} and {b} write different values ({ref!r} / {v!r}) for {wc.expr(k)} at row uid={u} although the window order is total"
                        chk.impl_violation(why, {"kind": "impl-violation", "case": wc.json(), "backend": b, "column": k, "why": why},
                                           {"backend": b, "fn": wc.fns[k], "cause": "cross_backend"})
                        break


def sum_of_nothing(wc, keys):
    for k in keys:
        if cat_name(wc.fns[k]) == "sum":
            arg, _, _ = parse_expr(wc.expr(k))
            for _, rows, _ in partitions(wc, next(w for w in wc.steps if k in w.ops)):
                if all(v is None for v in arg_values(rows, arg)):
                    return True
    return False


def run(chk):
    rng = chk.rng
    chk.prove([], extra_vo=["theories/Model/SemCases.vo", "theories/Model/WindowCases.vo"])
    chk.cov["trusted_base"] = [
        "Coq 8.16.1 kernel + vm_compute",
        "hand model Model/Sem.v (sem_wextend, win_fn, flavours) -- modelled, not verified; compared with every backend's real result on every run",
        "hand models of the listed deviations in Model/WindowSpec.v (sql_ordered_agg, polars_first/last/nunique), compared per ordered partition on every run",
        "harness/props/C27.py (generator, reference implementation, per-partition sorting), harness/semconv.py, harness/pipes.py, harness/execcorr.py "
        "(PostgreSQL-dialect text runs on SQLite 3.40.1; no PostgreSQL server here)"]
    chk.assumptions = ["a backend that raises on a function does not 'support' it (counted, not compared); Pandas / SQLite / PostgreSQL support = catalogue flag 'y'",
                       "order-dependent functions are compared only on partitions whose order keys are pairwise distinct and non-null (the property's 'total order'); "
                       "partitions with null order keys or ties are covered by the model correspondence only",
                       "sum over a partition with no non-null value is a documented destination convention (0 or NULL) and is not compared",
                       "std is compared by the oracle only (square roots are not rationals)"]
    chk.cov["rule"] = ("one windowed extend per case over a generated table: 0..3 partition columns (int / str, null keys up to 40%), 0..3 order columns with "
                       "independent reversal, the order completed by a permuted last column or by uid (10%: nulls in the first order column), value columns with "
                       "0 / 30 / 60% nulls, 0..10 rows (thorough: ..16) with duplicates; 1..3 functions drawn from every catalogued g / w method; 25% a plain "
                       "extend / select_rows in front, 20% a select_columns behind; 30% of the cases are TWO ADJACENT windowed extends with independent assignments "
                       "(2..3 order columns; second window = the first with the order columns permuted / another reversal / another partition / unchanged), each step "
                       "checked against the order declared in the script's step, not in the built node; five backends; non-trivial = at least two input rows; distinct by case text")
    cases = []
    for f in sorted(glob.glob(os.path.join(lib.ROOT, "corpus", "C27", "*.json"))):
        try:
            cases.append((WCase(json.load(open(f))["case"]), True))
        except Exception as e:
            chk.dist("corpus_unusable")                 # e.g. the builder now rejects the step (a fixed finding)
    n = N[chk.tier]
    tries = 0
    while len([1 for _, fc in cases if not fc]) < n and tries < n * 30:
        tries += 1
        try:
            cases.append((WCase(make_chain_case(rng, chk.tier) if rng.random() < 0.3 else make_case(rng, chk.tier)), False))
        except Exception:
            chk.dist("builder_rejected_step")
    items, wcases = [], []
    import time
    t1 = time.time()
    for wc, fc in cases:
        check_case(chk, wc, items, wcases, from_corpus=fc)
    t2 = time.time()
    # (a) whole-pipeline correspondence with Model/Sem.v
    failing, nchecked, errors = X.sem_correspondence(chk, "C27", items)
    # (b) per ordered partition
    wcap = 420 if chk.tier == "quick" else 6000
    wsel = wcases if len(wcases) <= wcap else rng.sample(wcases, wcap)
    wfail, werr, wn = lib.run_case_files("C27w", WPREAMBLE, [wcase_term(w) for w in wsel], "check_wcases", per_file=150, timeout=1500) if wsel else ([], [], 0)
    chk.cov["correspondence"] = {"pipeline_cases": len(items), "pipeline_checked_in_coq": nchecked, "pipeline_disagreements": len(failing),
                                 "partition_cases": len(wsel), "partition_checked_in_coq": wn, "partition_disagreements": len(wfail),
                                 "errors": (errors + werr)[:2]}
    chk.cov["traces_validated_against_impl"] = nchecked + wn
    chk.cov["phase_s"] = {"build_and_audit": round(t1 - chk.t0, 1), "backends_and_oracle": round(t2 - t1, 1), "coq_correspondence": round(time.time() - t2, 1)}
    for w in wsel:
        chk.dist("wcase:" + w["variant"])
    if errors or werr:
        chk.corr_break("correspondence case files failed to compile", (errors + werr)[0])
    for i in failing:
        c, b, res = items[i]
        chk.corr_break(f"Model/Sem.v and the {b} backend disagree on a windowed extend", X.describe(c, b, res, None))
    for i in wfail:
        w = wsel[i]
        chk.corr_break(f"Model/Sem.v win_fn ({w['variant']}) and the {w['backend']} backend disagree on {w['expr']} over one ordered partition", w)


def replay(path):
    r = json.load(open(path))
    if "case" not in r or "tab" not in r.get("case", {}):
        print(json.dumps(r, indent=1, default=str)[:3000])
        return 1
    wc = WCase(r["case"])
    b = r.get("backend", "pandas")
    out, raised, skipped = eval_backend(wc, b)
    bad = 0
    for keys, c, res in out:
        viol, _, _ = oracle(wc, b, keys, res)
        for why, sig, detail in viol:
            print(why)
            bad = 1
    for k, e in raised:
        print("backend raised on", wc.fns[k], ":", e)
    print("fails" if bad else "ok")
    return bad
