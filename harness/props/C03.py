"""C03 -- the Polars executor agrees with Pandas whenever it returns a result.
proof:  Props/C03.v over Model/PolarsExec.v (`plexec`: a step-by-step model of PolarsModel._*_step with hand models of the
        Polars primitives) and the Pandas-flavoured reference semantics Model/Sem.v (`sem_gen fl_pandas`): whenever `plexec`
        returns a frame it has exactly the declared columns (no `_da_*` temporary survives), and -- outside the listed known
        findings and the two accepted conventions, i.e. under `agree_guardb` -- the same multiset of rows as the Pandas side.
tie:    every run: `plexec` vs the real Polars result, eager AND lazy, inside Coq (a predicted raise must be a raise; a frame
        must be the same frame, columns in order); the guard components (`failed_causes`) are evaluated in Coq on every case
        and on every shrunk difference, so real differences are classified by the very predicate the theorem carries; the
        theorem's conclusion is also checked on the table the real Pandas executor returned (bit 64).
oracle: on the real code, straight from the property text: whenever Polars (eager or lazy) returns a frame and Pandas returns
        one, same column set and same multiset of rows (float 1e-8 rule, null = NaN; row order after a final total order_rows);
        eager and lazy agree.  Every difference is shrunk, classified, and is either a listed known finding or a VIOLATION."""
import glob, json, os, re, subprocess, time
import numpy as np
import pandas as pd
import lib, pipes, semconv, execcorr as X
from lib import clist, cstr, cbool

N = {"quick": 110, "thorough": 1500}

# guard components of Model/PolarsExec.v (cause_bit in Model/PolarsExecCases.v)
CAUSES = [(256, "vocab"), (512, "columns_missing"), (1024, "cmp_null"), (2048, "logic_null"),
          (16384, "join_no_keys"), (65536, "sort_nulls"), (131072, "empty_project"), (262144, "sort_ties"), (524288, "group_key_repr")]
# causes that describe a documented difference (known finding or accepted convention); the others only bound the theorem
EXPLAINING = ["sort_ties", "cmp_null", "logic_null", "sort_nulls", "empty_project"]
# "sum/count over groups with no non-null values": accepted by the property text itself; ties under a limit / an ordered window:
# which rows are kept is not determined by the pipeline (DESIGN 3.3), the two sort routines may break ties differently
ACCEPTED = {"empty_project", "sort_ties"}


# ------------------------------------------------------------------------------------------------ Coq terms
def cval(v):
    return semconv.cval(v)


def cexpr(t):
    """like semconv.cexpr but without a vocabulary: methods outside the model come back as `Unmodelled`"""
    import data_algebra.expr_rep as er
    if isinstance(t, er.ColumnReference):
        return "(ECol %s)" % cstr(t.column_name)
    if isinstance(t, er.Value):
        return "(EConst %s)" % cval(t.value)
    if isinstance(t, er.Expression):
        return "(EOp %s %s)" % (cstr(t.op), clist([cexpr(a) for a in t.args]))
    raise semconv.Unsupported("term " + type(t).__name__)


def cop(node):
    name = node.node_name
    sl = semconv.sl
    if name == "TableDescription":
        return "(OTable %s %s)" % (cstr(node.table_name), sl(node.column_names))
    src = [cop(s) for s in node.sources]
    if name == "ExtendNode":
        wd = bool(node.windowed_situation)
        ops = clist(["(%s, %s)" % (cstr(k), cexpr(v)) for k, v in node.ops.items()])
        part = node.partition_by if isinstance(node.partition_by, list) else []
        return "(OExtend %s %s %s (mkwin %s %s %s))" % (src[0], ops, cbool(wd), sl(part), sl(node.order_by), sl(node.reverse))
    if name == "ProjectNode":
        ops = clist(["(%s, %s)" % (cstr(k), cexpr(v)) for k, v in node.ops.items()])
        return "(OProject %s %s %s)" % (src[0], ops, sl(node.group_by))
    if name == "SelectRowsNode":
        return "(OSelectRows %s %s)" % (src[0], cexpr(node.expr))
    if name == "NaturalJoinNode" and node.jointype not in ("INNER", "LEFT", "RIGHT", "FULL") and not (node.jointype == "CROSS" and not node.on_a):
        raise semconv.Unsupported("join type " + node.jointype)
    return _cop_rest(node, src)


def _cop_rest(node, src):
    name, sl = node.node_name, semconv.sl
    if name == "SelectColumnsNode":
        return "(OSelectCols %s %s)" % (src[0], sl(node.column_selection))
    if name == "DropColumnsNode":
        return "(ODropCols %s %s)" % (src[0], sl(node.column_deletions))
    if name == "RenameColumnsNode":
        return "(ORename %s %s)" % (src[0], clist(["(%s, %s)" % (cstr(n), cstr(o)) for n, o in node.column_remapping.items()]))
    if name == "MapColumnsNode":
        return "(OMapCols %s %s %s)" % (src[0], clist(["(%s, %s)" % (cstr(n), cstr(o)) for o, n in node.column_remapping.items()]), sl(node.column_deletions or []))
    if name == "OrderRowsNode":
        lim = "None" if node.limit is None else "(Some %d%%nat)" % node.limit
        return "(OOrder %s %s %s %s)" % (src[0], sl(node.order_columns), sl(node.reverse), lim)
    if name == "NaturalJoinNode":
        jt = {"INNER": "JInner", "LEFT": "JLeft", "RIGHT": "JRight", "FULL": "JFull", "CROSS": "JInner"}[node.jointype]
        return "(OJoin %s %s %s %s %s)" % (src[0], src[1], sl(node.on_a), sl(node.on_b), jt)
    if name == "ConcatRowsNode":
        idc = "None" if node.id_column is None else "(Some %s)" % cstr(node.id_column)
        return "(OConcat %s %s %s %s %s)" % (src[0], src[1], idc, cstr(node.a_name), cstr(node.b_name))
    raise semconv.Unsupported("node " + name)


def copt_table(df):
    return "None" if df is None else "(Some %s)" % semconv.ctable(df)


def case_term(c):
    eager, lazy, pand = c.result("polars")[0], c.result("pllazy")[0], c.result("pandas")[0]
    ref = eager if eager is not None else pand
    ordered = X.order_is_total(c.script, ref) and all(X.order_is_total(c.script, r) for r in (eager, lazy, pand) if r is not None)
    te, tl, tp = copt_table(eager), copt_table(lazy), copt_table(pand)
    # identical literals are written once (parsing the literals dominates the cost of a case file)
    return "(let te := %s in let tl := %s in let tp := %s in mkpcase %s %s te tl tp %s %s)" % (
        te, "te" if tl == te else tl, "te" if tp == te else ("tl" if tp == tl else tp), cop(c.ops), semconv.cenv(c.frames),
        cbool(ordered), cbool(X.defines_column_order(c.script)))


PREAMBLE = ("From Coq Require Import List Bool ZArith NArith QArith String.\nImport ListNotations.\nOpen Scope string_scope.\n"
            "From DA Require Import Base.PyRT Base.Cases Base.Val Model.Sem Model.SemCases Model.PolarsExec Model.PolarsExecCases.\nOpen Scope list_scope.\n")


def run_codes(name, terms, per_file=12, timeout=3000):
    """compile case files in parallel; returns ([code per case] with None where a file failed, [error texts])"""
    cdir = os.path.join(lib.COQ, "cases")
    os.makedirs(cdir, exist_ok=True)
    files = []
    for k in range(0, max(1, (len(terms) + per_file - 1) // per_file)):
        chunk = terms[k * per_file:(k + 1) * per_file]
        fn = os.path.join(cdir, f"{name}_p{os.getpid()}_{k}.v")
        with open(fn, "w") as f:
            f.write(PREAMBLE + "\nDefinition cases : list pcase := [\n" + ";\n".join(chunk) + "\n].\nEval vm_compute in case_codes cases.\n")
        files.append((fn, len(chunk)))
    t0 = time.time()
    pending, running, results = list(range(len(files))), {}, [None] * len(files)
    while pending or running:
        while pending and len(running) < lib.NPROC:
            i = pending.pop(0)
            running[i] = subprocess.Popen(["coqc", "-Q", "theories", "DA", "-Q", "cases", "DAcases", os.path.relpath(files[i][0], lib.COQ)],
                                          cwd=lib.COQ, stdout=subprocess.PIPE, stderr=subprocess.STDOUT, text=True, env=lib.ENV)
        for i, p in list(running.items()):
            try:
                out, _ = p.communicate(timeout=0.2)
                results[i] = (p.returncode, out)
                del running[i]
            except subprocess.TimeoutExpired:
                if time.time() - t0 > timeout:
                    p.kill()
                    results[i] = (124, "TIMEOUT")
                    del running[i]
    codes, errors = [], []
    for (fn, n), (rc, out) in zip(files, results):
        out = "\n".join(l for l in out.splitlines() if "conda" not in l.lower())
        flat = " ".join(out.split())
        m = re.search(r"= (\[[^\]]*\]|nil)\s*: list N", flat)
        if rc != 0 or not m:
            errors.append(f"{os.path.basename(fn)}: rc={rc}\n{out[-1500:]}")
            codes += [None] * n
        else:
            got = [int(x) for x in re.findall(r"\d+", m.group(1).replace("%N", ""))]
            codes += got if len(got) == n else [None] * n
            if len(got) != n:
                errors.append(f"{os.path.basename(fn)}: {len(got)} codes for {n} cases")
        for ext in (".v", ".vo", ".vok", ".vos", ".glob"):
            try:
                os.remove(fn[:-2] + ext)
            except OSError:
                pass
        try:
            os.remove(os.path.join(cdir, "." + os.path.basename(fn)[:-2] + ".aux"))
        except OSError:
            pass
    return codes, errors


def causes_of(code):
    return [n for b, n in CAUSES if code & b]


# ------------------------------------------------------------------------------------------------ cases
def table(rng, name, spec, nrows=None, null_rate=0.25, uid=True):
    """spec: [(col, type, domain or None)]"""
    nrows = rng.choice([0, 1, 2, 3, 4, 5, 6]) if nrows is None else nrows
    rows = []
    for i in range(nrows):
        if rows and rng.random() < 0.2:
            rows.append(list(rng.choice(rows)))
            continue
        r = []
        for c, ty, dom in spec:
            if rng.random() < null_rate:
                r.append(None)
            elif dom is not None:
                r.append(rng.choice(dom))
            else:
                r.append(pipes.gen_value(rng, ty, 0.0))
        rows.append(r)
    sp = [(c, ty) for c, ty, _ in spec]
    if uid:
        sp.append(("uid", "int"))
        perm = list(range(nrows))
        rng.shuffle(perm)
        for i, r in enumerate(rows):
            r.append(perm[i])
    return {"name": name, "spec": sp, "rows": rows}


T1 = {"op": "table", "name": "d1"}
T2 = {"op": "table", "name": "d2"}


def shaped_case(rng):
    """the corners named for C03: joins with null / duplicate keys and shared columns, concat with an id column, projects on empty
    inputs, windows with and without order, logic and comparisons on nullable columns, horizontal max/min with nulls, ..."""
    nr = rng.choice([0.0, 0.2, 0.4])
    d1 = table(rng, "d1", [("k", "int", [1, 2, 3]), ("a", "float", None), ("b", "int", None), ("s", "str", None)], null_rate=nr,
               nrows=0 if rng.random() < 0.1 else None)
    d2 = table(rng, "d2", [("k", "int", [1, 2, 3, 4]), ("a", "float", None), ("z", "float", None)], null_rate=nr)
    kind = rng.choice(["join", "join", "join2", "joinnames", "joinnames", "nokeys", "nokeys", "join_fill", "join_fill", "ordered_fl", "ordered_fl", "concat", "project_empty", "project", "window", "shift", "logic", "cmp", "filter",
                       "minmax", "ifelse", "nulltests", "strings", "arith", "order", "reserved", "count"])
    num = lambda: rng.choice(["a", "b", "a", "k"])
    cmpop = lambda: rng.choice(["<", "<=", ">", ">=", "==", "!="])
    lit = lambda: str(rng.choice([0, 1, 2, 2.5]))
    s = None
    if kind == "join":
        s = {"op": "natural_join", "src": T1, "b": T2, "on": ["k"], "jointype": rng.choice(["INNER", "LEFT", "RIGHT", "FULL"])}
    elif kind == "join2":
        s = {"op": "natural_join", "src": T1, "b": {"op": "select_columns", "src": T2, "columns": rng.choice([["k", "a"], ["k", "a", "z"], ["k", "z"]])},
             "on": rng.choice([["k"], ["k", "a"]]), "jointype": rng.choice(["INNER", "LEFT", "RIGHT", "FULL"])}
        if "a" in s["on"] and "a" not in s["b"]["columns"]:
            s["on"] = ["k"]
    elif kind == "joinnames":
        if rng.random() < 0.5:
            b = {"op": "rename_columns", "src": {"op": "select_columns", "src": T2, "columns": ["k", "z"]}, "map": {"j": "k"}}
        else:       # overlap: the left key name k is also a non-key column of the right side
            b = {"op": "rename_columns", "src": {"op": "select_columns", "src": T2, "columns": ["k", "a", "z"]}, "map": {"j": "k", "k": "a"}}
        s = {"op": "natural_join", "src": {"op": "select_columns", "src": T1, "columns": ["k", "a", "uid"]}, "b": b, "on": [["k", "j"]],
             "jointype": rng.choice(["INNER", "LEFT", "RIGHT", "FULL"])}
    elif kind == "nokeys":
        # joins without keys (CROSS, and the other types with on=[]): the constant scratch key column
        # half of the time exactly one side keeps no row (k <= 4 everywhere): LEFT / RIGHT / FULL must keep the other side's rows
        empty_side = rng.choice([None, None, "a", "b"])
        src_a = {"op": "select_rows", "src": T1, "expr": "k > 100"} if empty_side == "a" else T1
        src_b = {"op": "select_rows", "src": T2, "expr": "k > 100"} if empty_side == "b" else T2
        b = {"op": "select_columns", "src": src_b, "columns": rng.choice([["z"], ["a", "z"], ["k", "z"]])}
        s = {"op": "natural_join", "src": {"op": "select_columns", "src": src_a, "columns": ["k", "a", "uid"]}, "b": b, "on": [],
             "jointype": rng.choice(["CROSS", "INNER", "LEFT", "RIGHT", "FULL", "LEFT", "RIGHT", "FULL"])}
    elif kind == "join_fill":
        # every join type with a shared NON-KEY column that is null on matched left rows and non-null on the right (and the
        # other way round), non-null keys: the left-first fill-in of natural_join must happen for matched rows too
        f = lambda: rng.randint(-8, 12) / 2.0
        lrows = [[1, None, 1], [2, f(), 2], [3, None, 3], [2, None, 4]] + ([[5, f(), 5]] if rng.random() < 0.5 else [])
        rrows = [[1, f(), f()], [2, f(), None], [4, f(), f()]] + ([[3, None, f()]] if rng.random() < 0.5 else [])
        rng.shuffle(lrows); rng.shuffle(rrows)
        d1 = {"name": "d1", "spec": [("k", "int"), ("v", "float"), ("uid", "int")], "rows": lrows}
        d2 = {"name": "d2", "spec": [("k", "int"), ("v", "float"), ("z", "float")], "rows": rrows}
        s = {"op": "natural_join", "src": T1, "b": T2, "on": ["k"], "jointype": rng.choice(["INNER", "INNER", "LEFT", "RIGHT", "FULL"])}
    elif kind == "ordered_fl":
        # ordered windows whose terms are ONLY first / last / ffill / bfill (Polars 1.44 has them), rows stored in shuffled order,
        # total order (uid is a random permutation)
        part = rng.choice([[], ["k"], ["k"]])
        ob = rng.choice([["uid"], ["uid"], ["b", "uid"]])
        fns = rng.sample(["first", "last", "ffill", "bfill"], rng.randint(1, 2))
        ops = {f"w{i}": f"{rng.choice(['a', 'a', 'b'])}.{fn}()" for i, fn in enumerate(fns)}
        s = {"op": "extend", "src": T1, "ops": ops, "partition_by": part, "order_by": ob, "reverse": [c for c in ob if rng.random() < 0.3]}
    elif kind == "concat":
        b = T1 if rng.random() < 0.4 else {"op": "select_rows", "src": T1, "expr": f"b {cmpop()} {lit()}"}
        s = {"op": "concat_rows", "src": T1, "b": b, "id_column": rng.choice([None, "src", "src"]), "a_name": "left", "b_name": "right"}
    elif kind in ("project_empty", "project"):
        src = T1 if kind == "project" else {"op": "select_rows", "src": T1, "expr": "b > 100"}
        fns = ["mean", "min", "max"] if (kind == "project_empty" and rng.random() < 0.6) else pipes.AGGS
        gb = rng.choice([[], [], ["k"], ["k", "s"]]) if kind == "project" else rng.choice([[], [], ["k"]])
        ops = {}
        for i in range(rng.randint(0 if gb else 1, 3)):
            fn = rng.choice(fns)
            ops[f"o{i}"] = "_size()" if fn == "size" else f"{rng.choice(['a', 'b'])}.{fn}()"
        s = {"op": "project", "src": src, "ops": ops, "group_by": gb}
    elif kind == "window":
        part = rng.choice([[], ["k"], ["k", "s"], 1])
        ops = {}
        for i in range(rng.randint(1, 2)):
            fn = rng.choice(pipes.WINDOW_UNORDERED)
            ops[f"w{i}"] = "_size()" if fn == "size" else (f"{rng.choice(['a', 'b'])}.{fn}()" if rng.random() < 0.85 else f"(1).{rng.choice(['sum', 'max'])}()")
        s = {"op": "extend", "src": T1, "ops": ops, "partition_by": part}
        if rng.random() < 0.3:
            s["order_by"] = ["uid"]
    elif kind == "shift":
        part = rng.choice([[], ["k"]])
        ob = rng.choice([["uid"], ["b", "uid"], ["a", "uid"]])
        ops = {"w0": f"{rng.choice(['a', 'b'])}.shift({rng.choice(['', '1', '2', '-1'])})"}
        if rng.random() < 0.3:
            ops["w1"] = rng.choice(["a.cumsum()", "_row_number()", "a.cummax()", "b.cummin()"])
        s = {"op": "extend", "src": T1, "ops": ops, "partition_by": part, "order_by": ob, "reverse": [c for c in ob if rng.random() < 0.3]}
    elif kind == "logic":
        c1, c2 = f"({num()} {cmpop()} {lit()})", f"({num()} {cmpop()} {num()})"
        e = f"{c1} {rng.choice(['and', 'or'])} {c2}"
        s = {"op": "extend", "src": T1, "ops": {"x": e}} if rng.random() < 0.5 else {"op": "select_rows", "src": T1, "expr": e}
    elif kind == "cmp":
        s = {"op": "extend", "src": T1, "ops": {"x": f"{num()} {cmpop()} {rng.choice([num(), lit()])}", "y": f"s {rng.choice(['==', '!='])} '{rng.choice(['a', 'b'])}'"}}
    elif kind == "filter":
        s = {"op": "select_rows", "src": T1, "expr": rng.choice([f"{num()} {cmpop()} {lit()}", f"s {rng.choice(['==', '!='])} 'a'", "a.is_null()", f"({num()} {cmpop()} {num()})"])}
    elif kind == "minmax":
        f = rng.choice(["maximum", "minimum", "fmax", "fmin"])
        s = {"op": "extend", "src": T1, "ops": {"x": f"{num()}.{f}({rng.choice([num(), lit()])})", "y": f"a.{rng.choice(['fmax', 'fmin'])}(b)"}}
    elif kind == "ifelse":
        c = rng.choice([f"({num()} {cmpop()} {lit()})", "(a.is_null())", "(s == 'a')"])
        f = rng.choice(["if_else", "if_else", "where"])
        s = {"op": "extend", "src": T1, "ops": {"x": f"{c}.{f}({rng.choice([num(), lit()])}, {rng.choice([num(), lit()])})", "y": f"a.coalesce({rng.choice([lit(), 'b'])})"}}
    elif kind == "nulltests":
        s = {"op": "extend", "src": T1, "ops": {"x": f"{num()}.is_null()", "y": f"{num()}.is_bad()", "z": "s.is_null()", "w": f"{num()}.coalesce(0)"}}
    elif kind == "strings":
        s = {"op": "select_rows" if rng.random() < 0.5 else "extend", "src": T1}
        e = f"s {rng.choice(['==', '!='])} '{rng.choice(['a', 'b', 'zz'])}'"
        s.update({"expr": e} if s["op"] == "select_rows" else {"ops": {"x": e, "y": "s"}})
    elif kind == "arith":
        e1 = f"({num()} {rng.choice('+-*')} {num()}) {rng.choice('+-*')} {rng.choice([lit(), num()])}"
        s = {"op": "extend", "src": T1, "ops": {"x": e1, "y": f"(-{num()}) + ({num()}).abs()", "b": "b * 0.5 + k"}}
    elif kind == "order":
        ks = rng.choice([["k"], ["a"], ["k", "uid"], ["s", "uid"], ["a", "b"], ["uid"]])
        lim = rng.choice([None, 1, 2, 3])
        if lim is not None and "uid" not in ks and rng.random() < 0.85:
            ks = ks + ["uid"]            # a limit under ties keeps rows the pipeline does not determine
        s = {"op": "order_rows", "src": T1, "columns": ks, "reverse": [c for c in ks if rng.random() < 0.4], "limit": lim}
    elif kind == "reserved":
        col = rng.choice(["_da_temp_one_column", "_da_extend_temp_partition_column", "a_da_right_tmp"])
        d1 = dict(d1, spec=[(col if c == "s" else c, "float" if c == "s" else ty) for c, ty in d1["spec"]],
                  rows=[[(None if r[j] is None else 7.5) if d1["spec"][j][0] == "s" else r[j] for j in range(len(r))] for r in d1["rows"]])
        s = rng.choice([{"op": "extend", "src": T1, "ops": {"x": "_size()"}, "partition_by": ["k"]},
                        {"op": "extend", "src": T1, "ops": {"x": "a.sum()"}, "partition_by": 1},
                        {"op": "project", "src": T1, "ops": {"x": "_size()"}, "group_by": ["k"]},
                        {"op": "natural_join", "src": T1, "b": T2, "on": ["k"], "jointype": "LEFT"}])
    elif kind == "count":
        s = {"op": "project", "src": T1, "ops": {"c": f"{rng.choice(['a', 'b', 'k'])}.count()", "n": "_size()"}, "group_by": rng.choice([[], ["k"]])}
    tabs = [d1, d2]
    # 0..2 further generic steps on top (so that the corner is also seen through later steps)
    if rng.random() < 0.4 and s["op"] not in ("order_rows",):
        colty = {}
        try:
            ops0 = pipes.build(s, {t["name"]: t for t in tabs})
            res0 = ops0.eval({t["name"]: pipes.table_frame(t) for t in tabs if t["name"] in pipes.script_tables(s)})
            for c in ops0.column_names:
                kind_ = res0[c].dtype.kind
                colty[c] = "str" if kind_ == "O" and c in ("s", "src") else ("float" if kind_ in "fiu" else ("bool" if kind_ == "b" else None))   # booleans are not numbers: no arithmetic on them
            if all(v is not None for v in colty.values()):
                g = pipes.Gen(rng, tabs, features=["extend", "select_rows", "select_columns", "drop_columns", "rename_columns", "order_rows", "project"])
                order = list(ops0.column_names)
                for _ in range(rng.randint(1, 2)):
                    r = g.step(s, colty, order)
                    if r is not None:
                        s, colty, order = r
        except Exception:
            pass
    try:
        ops = pipes.build(s, {t["name"]: t for t in tabs})
    except Exception:
        return None
    c = X.Case(s, tabs, ops)
    c.kind = kind
    return c


def corner_cases(rng):
    """run on every run: the joins without keys, every join type, with the left / the right / both operands keeping no row at run
    time (the preserved side of LEFT / RIGHT / FULL must survive), and with both non-empty"""
    out = []
    d1 = table(rng, "d1", [("k", "int", [1, 2, 3]), ("a", "float", None), ("b", "int", None), ("s", "str", None)], null_rate=0.2, nrows=3)
    d2 = table(rng, "d2", [("k", "int", [1, 2, 3, 4]), ("a", "float", None), ("z", "float", None)], null_rate=0.2, nrows=2)
    tabs = [d1, d2]
    for jt in ("INNER", "LEFT", "RIGHT", "FULL", "CROSS"):
        for empty in ("", "a", "b", "ab"):
            a = {"op": "select_rows", "src": T1, "expr": "k > 100"} if "a" in empty else T1
            b = {"op": "select_rows", "src": T2, "expr": "k > 100"} if "b" in empty else T2
            s = {"op": "natural_join", "src": {"op": "select_columns", "src": a, "columns": ["k", "a", "uid"]},
                 "b": {"op": "select_columns", "src": b, "columns": ["a", "z"]}, "on": [], "jointype": jt}
            try:
                c = X.Case(s, tabs, pipes.build(s, {t["name"]: t for t in tabs}))
            except Exception:
                continue
            c.kind = f"corner:nokeys:{jt}:empty={empty or 'none'}"
            out.append(c)
    return out


def random_case(rng, deep=False):
    c = X.gen_case(rng, depth=(1, 5 if deep else 4), ntables=2, null_rate=rng.choice([0.0, 0.15, 0.3]))
    if c is not None:
        c.kind = "random"
    return c


# ------------------------------------------------------------------------------------------------ the oracle (property text)
def compare(c, backend):
    """None | reason: the Polars result (when one came back) against the Pandas result"""
    res, err = c.result(backend)
    ref, rerr = c.result("pandas")
    if res is None or ref is None:
        return None
    ordered = X.order_is_total(c.script, ref) and X.order_is_total(c.script, res)
    return pipes.frames_equiv(res, ref, check_col_order=X.defines_column_order(c.script), check_row_order=ordered)


def differs(c):
    for b in ("polars", "pllazy"):
        why = compare(c, b)
        if why:
            return f"{b} vs pandas: {why}"
    return None


def eager_lazy(c):
    a, b = c.result("polars")[0], c.result("pllazy")[0]
    if a is None or b is None:
        return ("one of eager / lazy raised and the other returned a frame" if (a is None) != (b is None) else None)
    return pipes.frames_equiv(a, b, check_col_order=True, check_row_order=X.order_is_total(c.script, a) and X.order_is_total(c.script, b))


def replay_dict(c, why):
    d = c.json()
    d = {"kind": "impl-violation", "case": d, "why": why}
    for b in ("pandas", "polars", "pllazy"):
        r, e = c.result(b)
        d[b] = pipes.frame_to_json(r) if r is not None else {"raised": e}
    return d


def run(chk):
    rng = chk.rng
    chk.prove([], extra_vo=["theories/Model/PolarsExecCases.vo"])
    chk.cov["trusted_base"] = [
        "Coq 8.16.1 kernel + vm_compute",
        "hand model Model/PolarsExec.v: the data_algebra glue of polars_model.py transcribed step by step; the Polars 1.44.2 primitives it calls "
        "(select, with_columns, over, sort, filter, group_by().agg, join(coalesce=True), concat, expression methods and their null behaviour) "
        "are modelled by hand, not verified; compared with the real eager and lazy executor on every run",
        "Model/Sem.v `sem_gen fl_pandas` as the meaning of the Pandas executor (hand model, tied by the C01/C08/C09 correspondences and by bit 64 here)",
        "harness/semconv.py, harness/pipes.py, harness/execcorr.py; dtype errors of Polars (str vs number, is_nan on strings) are not modelled: "
        "a real raise where the model returns a frame is recorded, not compared"]
    chk.assumptions = ["pipelines are well typed (the generator is typed); values are null, booleans, exact rationals, strings; NaN = null",
                       "a Polars run that raises is outside the property (raising is not disagreeing)",
                       "sum / count / size of an ungrouped project over an empty input are the accepted destination convention (Pandas 0, Polars null)",
                       "row order is compared only after a final order_rows whose keys are total on the data"]
    chk.cov["rule"] = ("60% shaped cases (joins of every type with null and duplicate keys and a shared non-key column, differently named keys, concat with "
                       "id column, projects on empty inputs, windows with/without order incl. shift and the removed cum* methods, and/or and comparisons "
                       "on nullable columns stored and filtered, maximum/minimum/fmax/fmin, if_else/where/coalesce, is_null/is_bad, string equality, "
                       "int/float arithmetic, order_rows with limit, reserved `_da_` column names), 40% of them continued by 1-2 random steps; 40% random "
                       "pipelines of execcorr.gen_case (depth 1..4, quick / 1..5 thorough); Pandas, Polars eager, Polars lazy; non-trivial = Polars returned a frame")
    cases = []
    for f in sorted(glob.glob(os.path.join(lib.ROOT, "corpus", "C03", "*.json"))):
        try:
            c = X.case_from_json(json.load(open(f))["case"])
            c.kind = "corpus:" + os.path.basename(f)[:-5]
            cases.append(c)
        except Exception:
            chk.dist("corpus_unreadable")
    cases += corner_cases(rng)
    n, tries = N[chk.tier] + len(cases), 0
    while len(cases) < n and tries < n * 20:
        tries += 1
        c = shaped_case(rng) if rng.random() < 0.6 else random_case(rng, chk.tier == "thorough")
        if c is not None:
            cases.append(c)
    # ---- run the real executors, oracle
    todo = []          # (case, origin index, is_shrunk)
    diffs = {}
    for i, c in enumerate(cases):
        for b in ("pandas", "polars", "pllazy"):
            r, e = c.result(b)
            if r is None:
                chk.dist(f"{b}_raised")
                chk.dist(f"{b}_raised:" + (e or "").split(":")[0])
        returned = c.result("polars")[0] is not None or c.result("pllazy")[0] is not None
        chk.count(c.key(), nontrivial=returned)
        chk.dist("kind:" + c.kind.split(":")[0])
        for o in set(pipes.script_ops(c.script)):
            chk.dist("op:" + o)
        if len(chk.cov["samples"]) < 4 and returned:
            chk.sample({"case": c.json(), "polars": pipes.frame_to_json(c.result("polars")[0]) if c.result("polars")[0] is not None else None})
        try:
            term = case_term(c)
        except semconv.Unsupported as u:
            chk.dist("unsupported:" + str(u).split()[0])
            term = None
        why_el = eager_lazy(c)
        if why_el:
            chk.impl_violation("eager and lazy Polars evaluation differ: " + why_el, replay_dict(c, why_el), {"cause": "eager_vs_lazy"})
        why = differs(c)
        if why:
            chk.dist("polars_pandas_difference")
            small = X.shrink_case(c, lambda cc: differs(cc) is not None)
            small.kind = c.kind
            diffs[i] = (small, differs(small) or why)
        if term is not None:
            todo.append((c, i, False, term))
    for i, (small, why) in diffs.items():
        try:
            todo.append((small, i, True, case_term(small)))
        except semconv.Unsupported as u:
            chk.impl_violation(why, replay_dict(small, why), {"cause": "unclassifiable:" + str(u).split()[0]})
    # ---- Coq: model vs real Polars, guard components, theorem instance
    codes, errors = run_codes("C03", [t[3] for t in todo])
    nchecked = sum(1 for x in codes if x is not None)
    ndis = 0
    if errors:
        chk.corr_break("correspondence case files failed to compile", errors[0])
    for (c, i, shrunk, _), code in zip(todo, codes):
        if code is None:
            continue
        if not shrunk:
            for b, nme in ((4, "model_frame_real_raise"), (8, "unmodelled"), (16, "model_predicts_raise")):
                if code & b:
                    chk.dist(nme)
            if not (code & (8 | 16)) and not (code & 4):
                chk.dist("compared_frames")
            for cn in causes_of(code):
                chk.dist("guard_fails:" + cn)
            if not causes_of(code) and not (code & (8 | 16)):
                chk.dist("inside_theorem")
            if code & 3 and "sort_ties" in causes_of(code):
                chk.dist("model_vs_real_undetermined_ties")          # Polars' sort is not stable: which tied rows a limit keeps is not modelled
            elif code & 3:
                ndis += 1
                if os.environ.get("C03_DUMP"):
                    os.makedirs(os.environ["C03_DUMP"], exist_ok=True)
                    json.dump({"case": c.json(), "code": code}, open(os.path.join(os.environ["C03_DUMP"], f"dis_{chk.seed}_{i}.json"), "w"), default=str)
                chk.corr_break("Model/PolarsExec.v and the real Polars executor disagree (%s)" % ("eager" if code & 1 else "lazy"), X.describe(c, "polars", c.result("polars")[0], c.result("polars")[1]))
                if i not in diffs:
                    chk.dist("model_disagrees_without_pandas_difference")
            if code & 32:
                chk.corr_break("plexec returned columns other than column_names", X.describe(c, "polars", c.result("polars")[0], None))
            if code & 64 and i not in diffs:
                chk.corr_break("the agreement theorem's conclusion fails on the real Pandas table although the oracle sees no difference "
                               "(Model/Sem.v fl_pandas or the comparators disagree)", X.describe(c, "pandas", c.result("pandas")[0], None))
        else:
            why = diffs[i][1]
            cs = causes_of(code)
            expl = [x for x in EXPLAINING if x in cs]
            if "sort_ties" in cs:
                sig = {"cause": "sort_ties"}
            elif code & 3:
                sig = {"cause": "polars_differs_from_model"}      # the real executor is not the modelled one: never a listed finding
            elif code & (8 | 16):
                sig = {"cause": "unmodelled_method_returns_different_table"}
            elif expl:
                sig = {"cause": expl[0]}
            else:
                sig = {"cause": "unexplained", "outside": cs}
            chk.dist("difference:" + sig["cause"])
            if os.environ.get("C03_DUMP") and sig["cause"] not in EXPLAINING:
                os.makedirs(os.environ["C03_DUMP"], exist_ok=True)
                json.dump({"case": c.json(), "sig": sig, "why": why, "code": code}, open(os.path.join(os.environ["C03_DUMP"], f"diff_{chk.seed}_{i}.json"), "w"), default=str)
            if sig["cause"] in ACCEPTED:
                continue
            chk.impl_violation(f"Polars returns a table that differs from the Pandas result ({sig['cause']}): {why}", replay_dict(c, why), sig)
    chk.cov["correspondence"] = {"cases": len(cases), "checked_in_coq": nchecked, "disagreements": ndis, "errors": errors[:2],
                                 "differences_polars_vs_pandas": len(diffs)}
    chk.cov["traces_validated_against_impl"] = nchecked
    # ---- Model/Sem.v under the Polars flavour vs the real executor (statistics; Sem.v is not this property's model)
    items = [(c, "polars", c.result("polars")[0]) for c in cases[: (30 if chk.tier == "quick" else 300)] if c.result("polars")[0] is not None]
    try:
        failing, nsem, serr = X.sem_correspondence(chk, "C03sem", items)
        chk.cov["correspondence"]["sem_fl_polars"] = {"checked": nsem, "disagreements": len(failing), "errors": serr[:1]}
    except Exception as ex:       # noqa
        chk.cov["correspondence"]["sem_fl_polars"] = {"error": str(ex)[:200]}


def replay(path):
    r = json.load(open(path))
    if "case" not in r:
        print(json.dumps(r, indent=1)[:3000])
        return 1
    c = X.case_from_json(r["case"])
    for b in ("pandas", "polars", "pllazy"):
        res, err = c.result(b)
        print(b, "->", err if res is None else pipes.frame_to_json(res))
    why = differs(c) or eager_lazy(c)
    print(why or "ok: Polars agrees with Pandas (or raises)")
    return 1 if why else 0
