"""C18 -- results ignore input row order, and order_rows orders and limits.
proof:  Props/C18.v over Model/Sem.v (every flavour): with window orders strict inside each partition and limits taken under a
        total order, permuting the rows of the input tables gives the same columns and a permutation of the result rows
        (induction over the pipeline; aggregates are permutation-invariant over Q, a strictly ordered partition sorts to one list);
        a pipeline ending in order_rows returns rows sorted by the given columns with the given reversals, a permutation of its
        input, and with a limit exactly the first `limit` rows of that order; the Pandas executor model Model/PandasIndex.v returns
        range labels from every step, so neither result nor data depends on the caller's index.
tie:    every backend's real result on ORIGINAL and PERMUTED inputs vs sem_gen <flavour> inside Coq; the theorem's premise
        (Model/PermGuard.perm_guard_b) evaluated inside Coq on every case; the labels of the frame returned by every node of the real
        Pandas executor on re-indexed inputs vs Model/PandasIndex.px_trace inside Coq.
oracle: on the real code, per backend: result(permuted input) == result(input) as a multiset (row for row when the pipeline ends
        in a total order_rows); pipeline ends in order_rows: every pair of result rows is in the given order (pairs whose deciding
        key is null are skipped: null placement is a backend convention -- last on Pandas, first on SQLite ascending); with a limit:
        the result is the first `limit` rows of the same pipeline without the limit (when the order is total on non-null keys),
        and always has min(limit, n) rows drawn from it; Pandas with shuffled / string / duplicate / MultiIndex labels: same result,
        range labels."""
import copy, glob, json, os, random
import numpy as np
import pandas as pd
import lib, pipes, semconv, execcorr as X

N = {"quick": 22, "thorough": 300}
BACKENDS = ("pandas", "sqlite", "pgtext", "polars", "pllazy")
INDEX_KINDS = ("shuffled", "strings", "duplicates", "multi", "offset_range", "step_range")
GUARD_FLAVORS = ("fl_pandas", "fl_sqlite", "fl_polars")


# ------------------------------------------------------------------------------------------------ cases and variants

def make_case(rng, deep=False):
    """prefix (0..2 steps) -> [windowed extend, 55%] -> suffix (0..2, thorough 0..3 steps) -> [final order_rows, 45%]"""
    tabs = [pipes.gen_table(rng, f"d{i+1}", null_rate=rng.choice([0.0, 0.15, 0.3]), nrows=rng.choice([2, 3, 4, 5, 6, 8]) if rng.random() < 0.85 else None,
                            types=("int", "float", "str"), unique_col="uid") for i in range(2)]
    g = pipes.Gen(rng, tabs, total_orders=True)
    feats = set(g.features)
    s, colty, order = g.pipeline(rng.randint(0, 2))

    def steps(k, only=None):
        nonlocal s, colty, order
        g.features = set(only) if only else feats
        done = tries = 0
        while done < k and tries < 8 * k:
            tries += 1
            r = g.step(s, colty, order)
            if r is not None:
                s, colty, order = r
                done += 1
        g.features = feats
    if rng.random() < 0.55:
        steps(1, only=["wextend"])
    steps(rng.randint(0, 3 if deep else 2))
    if s["op"] == "table":
        steps(1)
    if s["op"] == "table":
        return None
    if s["op"] != "order_rows" and rng.random() < 0.45:
        cs = rng.sample(order, rng.randint(1, min(3, len(order))))
        total = g.totalise(s, order, cs)
        rev = [c for c in cs if rng.random() < 0.4]
        lim = rng.choice([None, 1, 2, 3, 5]) if total else None
        s = {"op": "order_rows", "src": s, "columns": cs, "reverse": rev, "limit": lim}
    try:
        ops = pipes.build(s, {t["name"]: t for t in tabs})
    except Exception:
        return None
    return X.Case(s, tabs, ops)


def make_limit_null_case(rng):
    """order_rows with a limit whose leading key has NULLS (completed by the unique column): the backend's own placement of
    nulls must be the same with and without the limit"""
    t = pipes.gen_table(rng, "d1", null_rate=0.4, nrows=rng.choice([4, 5, 6, 8]), types=("int", "float", "str"), unique_col="uid")
    nullable = [c for j, (c, _) in enumerate(t["spec"]) if c != "uid" and any(r[j] is None for r in t["rows"]) and any(r[j] is not None for r in t["rows"])]
    if not nullable:
        return None
    k = rng.choice(nullable)
    s = {"op": "table", "name": "d1"}
    if rng.random() < 0.3:
        s = {"op": "extend", "src": s, "ops": {"zz": "uid + 1"}}
    cs = [k, "uid"]
    rev = [c for c in cs if rng.random() < 0.4]
    s = {"op": "order_rows", "src": s, "columns": cs, "reverse": rev, "limit": rng.choice([1, 2, 3])}
    try:
        return X.Case(s, [t], pipes.build(s, {"d1": t}))
    except Exception:
        return None


def perm_of(kind, n):
    """a permutation of range(n) that is a function of (kind, n) only, so that replays and shrunk cases can rebuild it"""
    idx = list(range(n))
    if kind == "reverse":
        return idx[::-1]
    if kind == "rotate":
        return idx[1:] + idx[:1]
    random.Random(f"{kind}/{n}").shuffle(idx)
    return idx


def index_of(kind, n):
    if kind == "shuffled":
        p = perm_of("ix", n)
        return pd.Index([int(x) + 3 for x in p]) if n else pd.Index([], dtype="int64")
    if kind == "strings":
        return pd.Index(["r%d" % ((7 * i) % max(n, 1)) for i in range(n)], dtype=object)
    if kind == "duplicates":
        return pd.Index([i // 2 for i in range(n)], dtype="int64")
    if kind == "offset_range":          # a RangeIndex that is NOT 0..n-1 (a slice of a bigger frame)
        return pd.RangeIndex(10, 10 + n)
    if kind == "step_range":
        return pd.RangeIndex(1, 1 + 2 * n, 2)
    if kind == "multi":
        return pd.MultiIndex.from_arrays([[i % 2 for i in range(n)], ["k%d" % (n - i) for i in range(n)]], names=["u", "v"])
    raise ValueError(kind)


def variant_frames(case, variant):
    """variant = {"perm": kind|None, "index": kind|None}"""
    out = {}
    for k, df in case.frames.items():
        d = df
        if variant.get("perm"):
            p = perm_of(variant["perm"] + "/" + k, len(d)) if variant["perm"] not in ("reverse", "rotate") else perm_of(variant["perm"], len(d))
            d = d.iloc[p].reset_index(drop=True)
        if variant.get("index"):
            d = d.copy()
            d.index = index_of(variant["index"], len(d))
        out[k] = d
    return out


class VCase:
    """a case evaluated on variant inputs (what execcorr.sem_correspondence needs: ops, frames, script)"""

    def __init__(self, case, variant):
        self.base, self.variant = case, variant
        self.ops, self.script, self.tabs, self.tables = case.ops, case.script, case.tabs, case.tables
        self.frames = variant_frames(case, variant)
        self._res = {}

    def json(self):
        d = self.base.json()
        d["variant"] = self.variant
        return d

    def result(self, backend):
        if backend not in self._res:
            try:
                self._res[backend] = (X.eval_backend(self.ops, self.frames, backend), None)
            except Exception as e:            # noqa
                self._res[backend] = (None, f"{type(e).__name__}: {str(e)[:160]}")
        return self._res[backend]


# ------------------------------------------------------------------------------------------------ oracles (property text -> real code)

def cmp_cells(a, b):
    """-1 / 0 / 1 on non-null normalised cells"""
    return (a > b) - (a < b)


def sorted_oracle(script, res):
    """every pair of rows i < j is in the given order; a pair whose first differing key is null on either side is skipped"""
    fo = X.final_order(script)
    if fo is None:
        return None
    cs, rev, _ = fo
    if any(c not in res.columns for c in cs):
        return f"order column missing from the result: {cs} vs {list(res.columns)}"
    keys = [[pipes.norm_cell(v) for v in r] for r in res[cs].to_numpy(dtype=object)] if len(res) else []
    for i in range(len(keys)):
        for j in range(i + 1, len(keys)):
            for c, a, b in zip(cs, keys[i], keys[j]):
                if a is None and b is None:
                    continue
                if a is None or b is None:
                    break                                  # null placement: backend convention
                if type(a) is not type(b):
                    break
                d = cmp_cells(a, b)
                if d == 0:
                    continue
                if (d > 0) != (c in rev):
                    return f"rows {i} and {j} are out of order on column {c!r} ({'descending' if c in rev else 'ascending'}): {a!r} before {b!r}"
                break
    return None


def keys_total_nonnull(script, frame):
    return X.order_is_total(script, frame)


def keys_distinct(script, frame):
    """the final order_rows keys are pairwise distinct in `frame`, a null counting as a value: the backend's own order of the
    unlimited result is then determined, whatever its null placement, so `limit` must be its prefix ON THE SAME BACKEND"""
    fo = X.final_order(script)
    if fo is None or frame is None or any(c not in frame.columns for c in fo[0]):
        return False
    keys = [tuple(pipes.norm_cell(v) for v in r) for r in frame[fo[0]].to_numpy(dtype=object)]
    return len(set(keys)) == len(keys)


def limit_oracle(case_like, backend, res):
    """result with limit == first `limit` rows of the same pipeline without the limit"""
    fo = X.final_order(case_like.script)
    if fo is None or fo[2] is None:
        return None, None
    lim = fo[2]
    s2 = dict(case_like.script, limit=None)
    try:
        ops2 = pipes.build(s2, case_like.tables)
        full = X.eval_backend(ops2, case_like.frames, backend)
    except Exception as e:          # noqa
        return None, "unlimited_raised"
    want_n = min(lim, len(full))
    if len(res) != want_n:
        return f"limit={lim}: {len(res)} rows returned, the unlimited result has {len(full)}", None
    if not keys_distinct(s2, full):
        # ties: only "drawn from the unlimited result"
        _, fr = pipes.canon(full)
        _, rr = pipes.canon(res)
        pool = list(fr)
        for r in rr:
            hit = next((k for k, x in enumerate(pool) if all(pipes.cells_close(u, v) for u, v in zip(r, x))), None)
            if hit is None:
                return f"limit={lim}: a returned row is not a row of the unlimited result: {r}", None
            pool.pop(hit)
        return None, "limit_not_total"
    why = pipes.frames_equiv(res, full.iloc[:lim], check_col_order=False, check_row_order=True)
    return (f"limit={lim}: not the first {lim} rows of the unlimited result ({why})" if why else None), None


def same_result_oracle(script, r0, r1):
    exact = keys_total_nonnull(script, r0)
    why = pipes.frames_equiv(r0, r1, check_col_order=False, check_row_order=exact)
    return (("row for row: " if exact else "as a multiset: ") + why) if why else None, exact


def labels_of(df):
    return [x for x in df.index.tolist()]


def is_range_labels(df):
    return labels_of(df) == list(range(len(df)))


# ------------------------------------------------------------------------------------------------ the real Pandas executor, node by node

def traced_pandas(ops, frames):
    """(result, [(node_name, labels of the returned frame)]) in the executor's evaluation order"""
    import data_algebra.pandas_model
    dm = data_algebra.pandas_model.PandasModel()
    trace = []

    def wrap(name, f):
        def g(*a, **k):
            r = f(*a, **k)
            trace.append((name, labels_of(r)))
            return r
        return g
    dm._method_dispatch_table = {k: wrap(k, f) for k, f in dm._method_dispatch_table.items()}
    res = ops.eval({k: v.copy() for k, v in frames.items()}, data_model=dm)
    return res, trace


def clabel(x):
    if isinstance(x, tuple):
        return "(" + " ++ ".join(clabel(y) for y in x) + ")"
    if isinstance(x, (bool, np.bool_)):
        return "(LV %s)" % semconv.cval(bool(x))
    if isinstance(x, (int, np.integer)):
        return "(LI (%d))" % int(x)
    if isinstance(x, str):
        return "(LS %s)" % lib.cstr(x)
    if isinstance(x, (float, np.floating)):
        try:
            return "(LV %s)" % semconv.cval(float(x))
        except Exception:
            pass
    return "(LS %s)" % lib.cstr(repr(x))


def clabels(ls):
    if ls == list(range(len(ls))) and not any(isinstance(x, (bool, np.bool_)) for x in ls):
        return "(RNG %d)" % len(ls)
    return lib.clist([clabel(x) for x in ls])


def icase_term(ops, frames, trace):
    env = lib.clist(["(%s, mkif %s %s)" % (lib.cstr(k), clabels(labels_of(v)), semconv.ctable(v)) for k, v in frames.items()])
    return "mkicase %s %s %s" % (semconv.cop(ops), env, lib.clist([clabels(l) for _, l in trace]))


I_PREAMBLE = semconv.PREAMBLE.replace("Model.SemCases.", "Model.SemCases Model.PandasIndex Model.PandasIndexCases.")
G_PREAMBLE = semconv.PREAMBLE.replace("Model.SemCases.", "Model.SemCases Model.PermGuard Model.PermGuardCases.")


# ------------------------------------------------------------------------------------------------ one case through every oracle

def check_variant(case, base_res, vc, backend, label):
    """oracle of one variant against the base result: list of (what, oracle-name)"""
    out = []
    r0, e0 = base_res
    r1, e1 = vc.result(backend)
    if r0 is None or r1 is None:
        if (r0 is None) != (r1 is None):
            out.append((f"{backend}: {label}: one evaluation raised and the other did not ({e0 or e1})", "raise_mismatch"))
        return out
    why, exact = same_result_oracle(case.script, r0, r1)
    if why:
        out.append((f"{backend}: result on {label} input differs from the result on the original input {why}", "same_exact" if exact else "same_multiset"))
    return out


def order_oracles(case_like, backend, res):
    out = []
    why = sorted_oracle(case_like.script, res)
    if why:
        out.append((f"{backend}: pipeline ends in order_rows but {why}", "sorted"))
    why, note = limit_oracle(case_like, backend, res)
    if why:
        out.append((f"{backend}: {why}", "limit"))
    return out, note


def sig_of(case, backend, oracle, variant, premise):
    return {"backend": "sqlite" if backend == "pgtext" else backend, "oracle": oracle,
            "variant": "index" if variant.get("index") else ("perm" if variant.get("perm") else "base"),
            "premise": premise, "final": case.script["op"]}


def violations_of(case, variants, backends=BACKENDS):
    """[(what, oracle, backend, variant)] for one case over the given variants (used by run, shrink and replay)"""
    out = []
    for b in backends:
        base = case.result(b)
        if base[0] is not None:
            o, _ = order_oracles(case, b, base[0])
            out += [(w, k, b, {}) for w, k in o]
        for v in variants:
            if v.get("index") and b != "pandas":
                continue
            vc = VCase(case, v)
            label = " + ".join(x for x in ("row-permuted" if v.get("perm") else "", f"{v['index']}-indexed" if v.get("index") else "") if x)
            out += [(w, k, b, v) for w, k in check_variant(case, base, vc, b, label)]
            r1 = vc.result(b)[0]
            if r1 is not None:
                o, _ = order_oracles(vc, b, r1)
                out += [(w, k, b, v) for w, k in o]
                if v.get("index") and not is_range_labels(r1):
                    out.append((f"pandas: result on {label} input carries labels {labels_of(r1)[:6]} instead of 0..{len(r1)-1}", "result_labels", b, v))
    return out


def variants_for(tier):
    vs = [{"perm": "reverse"}, {"perm": "shuffle1"}]
    if tier == "thorough":
        vs += [{"perm": "rotate"}, {"perm": "shuffle2"}]
    vs += [{"index": k} for k in INDEX_KINDS]
    vs += [{"perm": "shuffle3", "index": "strings"}]
    return vs


def run(chk):
    import time
    rng = chk.rng
    T = {"t0": time.time()}
    chk.prove([], extra_vo=["theories/Model/SemCases.vo", "theories/Model/PermGuardCases.vo", "theories/Model/PandasIndexCases.vo"])
    chk.cov["trusted_base"] = [
        "Coq 8.16.1 kernel + vm_compute",
        "hand model Model/Sem.v: what each backend computes for a pipeline (sem_gen <flavour>) -- modelled, not verified; compared with every backend's real result on original and permuted inputs on every run",
        "hand model Model/PandasIndex.v: where pandas_base.py keeps / filters / resets row labels, and Pandas' label-aligned column assignment -- modelled, not verified; the labels returned by every node of the real executor are compared with it on every run",
        "harness/semconv.py, harness/pipes.py, harness/execcorr.py (PostgreSQL-dialect text runs on SQLite 3.40.1; no PostgreSQL server here)"]
    chk.assumptions = [
        "premise of the row-order theorem (checked inside Coq on every case, Model/PermGuard.perm_guard_b): windows running anything but a plain group aggregate order each partition strictly; order_rows with a limit is total; one representation per group-key value",
        "null placement inside an ordering is a backend convention (Pandas last; SQLite first when ascending): the sortedness oracle skips pairs decided by a null key and the limit oracle compares the limited result row for row with the prefix of the unlimited result OF THE SAME BACKEND whenever the keys are pairwise distinct (a null counting as a value); cross-backend differences belong to C01",
        "a backend that raises on the original AND on the varied input is not counted"]
    chk.cov["rule"] = ("random pipelines (depth 1..4 quick / 1..5 thorough) over two random tables with a unique column `uid` (generator completes window and limit orders "
                       "with a column that is still unique at that point), 45% end in an extra order_rows (random reversals, limit 1/2/3/5 when total); each evaluated on "
                       "Pandas, SQLite, PostgreSQL-text-on-SQLite, Polars eager and lazy on the original input, on 2 (thorough 4) row permutations of every input table, and "
                       "on Pandas with shuffled-int / string / duplicate / MultiIndex / offset-RangeIndex / stepped-RangeIndex labels and permuted+string labels; plus 6 (thorough 60) order_rows-with-limit cases whose leading key has nulls; non-trivial = contains an ordered window, a limit, a project, a join or a final order_rows; distinct by script+tables")
    T["prove"] = time.time()
    variants = variants_for(chk.tier)
    cases = []
    for f in sorted(glob.glob(os.path.join(lib.ROOT, "corpus", "C18", "*.json"))):
        try:
            cases.append(X.case_from_json(json.load(open(f))["case"]))
        except Exception:
            chk.dist("corpus_unreadable")
    for _ in range(6 if chk.tier == "quick" else 60):
        c = make_limit_null_case(rng)
        if c is not None:
            cases.append(c)
    n = N[chk.tier] + len(cases)
    tries = 0
    while len(cases) < n and tries < n * 30:
        tries += 1
        c = make_case(rng, chk.tier == "thorough")
        if c is not None:
            cases.append(c)
    sem_items, gterms, gindex, iterms, iindex = [], [], [], [], []
    candidates = []                      # (case index, what, oracle, backend, variant)
    for ci, c in enumerate(cases):
        kinds = pipes.script_ops(c.script)
        nontrivial = any(k in ("wextend", "project", "natural_join") for k in kinds) or X.final_order(c.script) is not None
        chk.count(c.key(), nontrivial=nontrivial)
        for k in set(kinds):
            chk.dist("op_" + k)
        fo = X.final_order(c.script)
        chk.dist("final_order_rows" + ("_limit" if fo and fo[2] is not None else "") if fo else "final_other")
        chk.dist("input_rows_%d" % min(max(len(f) for f in c.frames.values()), 9))
        if len(chk.cov["samples"]) < 3:
            chk.sample({"case": c.json()})
        for what, oracle, b, v in violations_of(c, variants):
            candidates.append((ci, what, oracle, b, v))
        for b in BACKENDS:
            r, err = c.result(b)
            if r is None:
                chk.dist(f"{b}_raised")
            else:
                sem_items.append((c, b, r))
            if b in ("pandas", "sqlite", "polars") or chk.tier == "thorough":
                vc = VCase(c, variants[1] if (ci % 2) else variants[0])      # one permuted variant per case goes to Coq as well
                r1, _ = vc.result(b)
                if r1 is not None:
                    sem_items.append((vc, b, r1))
        # premise, per flavour
        for fl in GUARD_FLAVORS:
            try:
                gterms.append("mkgcase %s %s %s" % (fl, semconv.cop(c.ops), semconv.cenv(c.frames)))
                gindex.append((ci, fl))
            except semconv.Unsupported as u:
                chk.dist("guard_unsupported:" + str(u).split()[0])
        # labels, node by node, on re-indexed inputs
        ivs = [x for x in variants if x.get("index")]
        if chk.tier == "quick":
            ivs = [ivs[(ci + k) % len(ivs)] for k in range(3)]
        for v in ivs:
            try:
                fr = variant_frames(c, v)
                res, trace = traced_pandas(c.ops, fr)
                iterms.append(icase_term(c.ops, fr, trace))
                iindex.append((ci, v, trace))
                for name, ls in trace:
                    chk.dist("node_labels_range" if ls == list(range(len(ls))) else "node_labels_OTHER:" + name)
            except semconv.Unsupported as u:
                chk.dist("index_unsupported:" + str(u).split()[0])
            except Exception as e:      # noqa
                chk.dist("traced_pandas_raised")
    T["python"] = time.time()
    # ---- Coq: the three batches (premise, backends vs reference semantics, labels) run side by side
    import threading
    box = {}

    def bg(key, f):
        def run_():
            try:
                box[key] = f()
            except Exception as e:          # noqa
                box[key] = ([], [f"{type(e).__name__}: {e}"], 0)
        t = threading.Thread(target=run_)
        t.start()
        return t
    per = 20 if chk.tier == "quick" else 60
    th = [bg("g", lambda: lib.run_case_files("C18g", G_PREAMBLE, gterms, "guard_fails", per_file=per, timeout=1500) if gterms else ([], [], 0)),
          bg("s", lambda: (lambda r: (r[0], r[2], r[1]))(X.sem_correspondence(chk, "C18", sem_items, per_file=per))),
          bg("i", lambda: lib.run_case_files("C18i", I_PREAMBLE, iterms, "check_icases", per_file=per, timeout=1500) if iterms else ([], [], 0))]
    for t in th:
        t.join()
    gfail, gerrors, gchecked = box["g"]
    outside = {gindex[k] for k in gfail if k < len(gindex)}
    chk.cov["premise"] = {"evaluated_in_coq": gchecked, "outside_premise": len(outside), "errors": gerrors[:2]}
    if gerrors:
        chk.corr_break("premise case files failed to compile", gerrors[0])
    T["coq_cases"] = time.time()
    # ---- classify oracle candidates
    seen = set()
    for ci, what, oracle, b, v in candidates:
        c = cases[ci]
        premise = (ci, X.FLAVOR[b]) not in outside
        if oracle in ("same_multiset", "same_exact", "raise_mismatch") and v.get("perm") and not premise:
            chk.dist("outside_premise_" + b)                 # an order with ties somewhere: the property does not speak about this case
            continue
        if (ci, oracle, b) in seen:
            continue
        seen.add((ci, oracle, b))

        def fails(cc, oracle=oracle, b=b, v=v):
            return any(k == oracle and bb == b for _, k, bb, _ in violations_of(cc, [v] if v else [], backends=(b,)))
        small = c
        try:
            small = X.shrink_case(c, fails)
            if not fails(small):
                small = c
        except Exception:
            small = c
        w2 = next((w for w, k, bb, _ in violations_of(small, [v] if v else [], backends=(b,)) if k == oracle and bb == b), what)
        rep = {"kind": "impl-violation", "case": small.json(), "variant": v, "backend": b, "oracle": oracle, "why": w2, "premise_holds_in_model": premise}
        chk.impl_violation(w2, rep, sig_of(small, b, oracle, v, premise))
    # ---- Coq: every backend vs the reference semantics, original and permuted inputs
    failing, errors, nchecked = box["s"]
    chk.cov["correspondence"] = {"cases": len(sem_items), "checked_in_coq": nchecked, "disagreements": len(failing), "errors": errors[:2]}
    if errors:
        chk.corr_break("correspondence case files failed to compile", errors[0])
    for i in failing:
        c, b, res = sem_items[i]
        base = c.base if isinstance(c, VCase) else c
        # a disagreement on values that is the same on original and permuted input and keeps every oracle of this property is C01/C03's business
        bad = [w for w, k, bb, _ in violations_of(base, variants, backends=(b,))]
        if not bad:
            chk.dist(f"value_only_disagreement_{b}")
            continue
        chk.corr_break(f"Model/Sem.v and the {b} backend disagree on a case where an oracle of C18 fails", X.describe(base, b, res, None))
    # ---- Coq: labels
    ifail, ierrors, ichecked = box["i"]
    chk.cov["label_correspondence"] = {"cases": len(iterms), "checked_in_coq": ichecked, "disagreements": len(ifail), "errors": ierrors[:2]}
    T["classify"] = time.time()
    ks = list(T)
    chk.cov["timing_s"] = {ks[i]: round(T[ks[i]] - T[ks[i - 1]], 1) for i in range(1, len(ks))}
    chk.cov["traces_validated_against_impl"] = nchecked + ichecked
    if ierrors:
        chk.corr_break("label case files failed to compile", ierrors[0])
    for k in ifail:
        if k >= len(iindex):
            continue
        ci, v, trace = iindex[k]
        odd = [(name, ls[:6]) for name, ls in trace if ls != list(range(len(ls)))]
        if not odd:
            chk.dist("label_disagreement_row_count_only")      # every observed label list is a range: the models differ on DATA (C01's business)
            continue
        c = cases[ci]
        chk.corr_break(f"Model/PandasIndex.v and the Pandas executor disagree on the labels returned by {odd[0][0]}",
                       {"case": c.json(), "variant": v, "observed_non_range_labels": odd[:4]})
        # search: does the leak change a result?  (the oracle above already ran on this case; run a larger search on fresh cases)
    if getattr(chk, "pending_breaks", None) and not chk.violations:
        search(chk, rng, variants)


def search(chk, rng, variants, budget=150):
    """after a break without a failing input: a larger random search with the oracles alone"""
    for _ in range(budget):
        c = make_case(rng, True)
        if c is None:
            continue
        for what, oracle, b, v in violations_of(c, variants, backends=("pandas", "sqlite")):
            # the premise is not re-evaluated in Coq here: the generator's bookkeeping makes every window / limit order total
            rep = {"kind": "impl-violation", "case": c.json(), "variant": v, "backend": b, "oracle": oracle, "why": what, "found_by": "search after a break"}
            if chk.impl_violation(what, rep, sig_of(c, b, oracle, v, None)):
                return True
    return False


def replay(path):
    r = json.load(open(path))
    if "case" not in r or "oracle" not in r:
        print(json.dumps(r, indent=1)[:3000]); return 1
    c = X.case_from_json(r["case"])
    v = r.get("variant") or {}
    hits = [w for w, k, b, _ in violations_of(c, [v] if v else [], backends=(r["backend"],)) if k == r["oracle"]]
    print(hits[0] if hits else "ok")
    return 1 if hits else 0
