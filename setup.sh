#!/bin/bash
# Build the Coq development from clean (full .vo build), offline.
set -e
cd "$(dirname "$0")"
exec /venv/bin/python harness/setup.py "$@"
