(* Values and tables shared by the pipeline models. *)
From Coq Require Import List Bool Arith ZArith QArith String.
Import ListNotations.
From DA Require Import Base.PyRT.

Inductive val := VNull | VBool (b : bool) | VInt (z : Z) | VNum (q : Q) | VStr (s : string).

#[global] Instance positive_EqDec : EqDec positive := Pos.eq_dec.
#[global] Instance Q_EqDec : EqDec Q.
Proof. intros [a b] [c d]. destruct (eq_dec a c); [|right; congruence]. destruct (eq_dec b d); [left|right]; congruence. Defined.
#[global] Instance val_EqDec : EqDec val.
Proof. intros x y. destruct x, y; try (right; congruence); try (left; reflexivity).
  - destruct (eq_dec b b0); [left|right]; congruence.
  - destruct (eq_dec z z0); [left|right]; congruence.
  - destruct (eq_dec q q0); [left|right]; congruence.
  - destruct (eq_dec s s0); [left|right]; congruence. Defined.

(* a table: named columns, rows as lists of cells in column order *)
Record table := mktable { cols : list string; rows : list (list val) }.

Fixpoint index_of (c : string) (cs : list string) : option nat :=
  match cs with [] => None | x :: t => if eq_dec c x then Some 0%nat else option_map S (index_of c t) end.

(* cell of a row by column name; absent column -> VNull (reads are always guarded by validation) *)
Definition get (cs : list string) (r : list val) (c : string) : val :=
  match index_of c cs with Some i => nth i r VNull | None => VNull end.

(* functional update of a named cell, appending a new column when absent *)
Fixpoint set_nth (i : nat) (v : val) (r : list val) : list val :=
  match i, r with
  | _, [] => []
  | O, _ :: t => v :: t
  | S j, x :: t => x :: set_nth j v t
  end.

Definition wf_table (t : table) : Prop :=
  NoDup (cols t) /\ Forall (fun r => List.length r = List.length (cols t)) (rows t).

Definition getcol (t : table) (c : string) : list val := map (fun r => get (cols t) r c) (rows t).
