(* Values and tables shared by the pipeline models. *)
From Coq Require Import List Bool Arith ZArith QArith String.
Import ListNotations.
From DA Require Import Base.PyRT.

Inductive val := VNull | VBool (b : bool) | VInt (z : Z) | VNum (q : Q) | VStr (s : string).

#[global] Instance positive_EqDec : EqDec positive := Pos.eq_dec.
#[global] Instance Q_EqDec : EqDec Q.
Proof. intros [a b] [c d]. destruct (eq_dec a c); [|right; congruence]. destruct (eq_dec b d); [left|right]; congruence. Defined.
#[global] Instance val_EqDec : EqDec val.
Proof. intros x y. destruct x, y; try (right; congruence); try (left; reflexivity).
  - destruct (eq_dec b b0); [left|right]; congruence.
  - destruct (eq_dec z z0); [left|right]; congruence.
  - destruct (eq_dec q q0); [left|right]; congruence.
  - destruct (eq_dec s s0); [left|right]; congruence. Defined.

(* a table: named columns, rows as lists of cells in column order *)
Record table := mktable { cols : list string; rows : list (list val) }.

Fixpoint index_of (c : string) (cs : list string) : option nat :=
  match cs with [] => None | x :: t => if eq_dec c x then Some 0%nat else option_map S (index_of c t) end.

(* cell of a row by column name; absent column -> VNull (reads are always guarded by validation) *)
Definition get (cs : list string) (r : list val) (c : string) : val :=
  match index_of c cs with Some i => nth i r VNull | None => VNull end.

(* functional update of a named cell, appending a new column when absent *)
Fixpoint set_nth (i : nat) (v : val) (r : list val) : list val :=
  match i, r with
  | _, [] => []
  | O, _ :: t => v :: t
  | S j, x :: t => x :: set_nth j v t
  end.

Definition wf_table (t : table) : Prop :=
  NoDup (cols t) /\ Forall (fun r => List.length r = List.length (cols t)) (rows t).

Definition getcol (t : table) (c : string) : list val := map (fun r => get (cols t) r c) (rows t).

(* ------------------------------------------------------------------ *)
(* index_of / get / set_nth lemmas *)
Section IndexLemmas.
  Lemma index_of_None c cs : index_of c cs = None <-> mem c cs = false.
  Proof. induction cs as [|x t IH]; simpl; [tauto|].
    destruct (eq_dec c x); [split; discriminate|].
    destruct (index_of c t); simpl; split; intros E; try discriminate; try reflexivity.
    - apply IH in E. discriminate.
    - apply IH. reflexivity. Qed.

  Lemma index_of_Some_mem c cs i : index_of c cs = Some i -> mem c cs = true.
  Proof. intros E. destruct (mem c cs) eqn:M; [reflexivity|]. apply index_of_None in M. congruence. Qed.

  Lemma index_of_nth_error c cs i : index_of c cs = Some i -> nth_error cs i = Some c.
  Proof. revert i. induction cs as [|x t IH]; simpl; intros i E; [discriminate|].
    destruct (eq_dec c x) as [->|n]; [inversion E; reflexivity|].
    destruct (index_of c t) as [j|]; simpl in E; [|discriminate]. inversion E; subst. simpl. apply IH. reflexivity. Qed.

  Lemma index_of_lt c cs i : index_of c cs = Some i -> (i < List.length cs)%nat.
  Proof. intros E. apply index_of_nth_error in E. apply nth_error_Some. congruence. Qed.

  Lemma index_of_In c cs : In c cs -> exists i, index_of c cs = Some i.
  Proof. intros I. destruct (index_of c cs) as [i|] eqn:E; [exists i; reflexivity|].
    apply index_of_None in E. apply mem_false in E. contradiction. Qed.

  Lemma index_of_app_l c cs ds i : index_of c cs = Some i -> index_of c (cs ++ ds) = Some i.
  Proof. revert i. induction cs as [|x t IH]; simpl; intros i E; [discriminate|].
    destruct (eq_dec c x); [exact E|].
    destruct (index_of c t) as [j|]; simpl in E; [|discriminate]. rewrite (IH j eq_refl). exact E. Qed.

  Lemma set_nth_length i v r : List.length (set_nth i v r) = List.length r.
  Proof. revert i. induction r as [|x t IH]; intros [|i]; simpl; try reflexivity. rewrite IH. reflexivity. Qed.

  Lemma nth_set_nth_other i j v r d : i <> j -> nth j (set_nth i v r) d = nth j r d.
  Proof. revert i j. induction r as [|x t IH]; intros [|i] [|j] N; simpl; try reflexivity; try congruence.
    apply IH. congruence. Qed.

  Lemma nth_set_nth_same i v r d : (i < List.length r)%nat -> nth i (set_nth i v r) d = v.
  Proof. revert i. induction r as [|x t IH]; intros [|i] L; simpl in *; try reflexivity; try (exfalso; inversion L; fail).
    apply IH. apply Nat.succ_lt_mono. exact L. Qed.
End IndexLemmas.
