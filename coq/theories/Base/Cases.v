(* helpers for correspondence case files: comparison is done inside Coq, only failing indices are printed *)
From Coq Require Import List Bool Arith NArith String Ascii.
Import ListNotations.

Fixpoint failing_from {A} (ok : A -> bool) (i : nat) (l : list A) : list nat :=
  match l with [] => [] | x :: t => if ok x then failing_from ok (S i) t else i :: failing_from ok (S i) t end.
Definition failing_idx {A} (ok : A -> bool) (l : list A) : list nat := failing_from ok 0 l.

(* strings given as UTF-8 byte lists, so case files need no escaping *)
Definition bs (l : list N) : string :=
  fold_right (fun n s => String (ascii_of_N n) s) EmptyString l.

Lemma failing_idx_nil_all {A} (ok : A -> bool) l : failing_idx ok l = [] -> forall x, In x l -> ok x = true.
Proof. unfold failing_idx. generalize 0. induction l as [|a t IH]; intros n E x Hx; [destruct Hx|].
  simpl in E. destruct (ok a) eqn:Oa; [|discriminate]. destruct Hx as [<-|Hx]; [exact Oa|]. eapply IH; eauto. Qed.
