(* Python str operations used by translated code (strings are byte strings: UTF-8 encoded). *)
From Coq Require Import List Bool Arith Ascii String.
Import ListNotations.
Local Open Scope string_scope.

(* if p is a prefix of s: the rest of s after p *)
Fixpoint strip_prefix (p s : string) : option string :=
  match p, s with
  | EmptyString, _ => Some s
  | String a p', String b s' => if Ascii.eqb a b then strip_prefix p' s' else None
  | String _ _, EmptyString => None
  end.

(* `sub in s` *)
Fixpoint str_contains (sub s : string) : bool :=
  match strip_prefix sub s with
  | Some _ => true
  | None => match s with EmptyString => false | String _ s' => str_contains sub s' end
  end.

(* s.replace(old, new) / re.sub(<literal old>, new, s): leftmost non-overlapping occurrences; old must be non-empty.
   fuel = length s + 1 always suffices. *)
Fixpoint str_replace_fuel (fuel : nat) (old new s : string) : string :=
  match fuel with
  | O => s
  | S f =>
    match s with
    | EmptyString => EmptyString
    | String c s' =>
      match strip_prefix old s with
      | Some rest => match old with
                     | EmptyString => s                                  (* not used: old is never empty *)
                     | _ => new ++ str_replace_fuel f old new rest
                     end
      | None => String c (str_replace_fuel f old new s')
      end
    end
  end.
Definition str_replace (old new s : string) : string := str_replace_fuel (S (String.length s)) old new s.

(* ASCII whitespace as matched by Python's \s on str and removed by str.strip():  \t \n \v \f \r FS GS RS US space.
   (Unicode whitespace such as U+0085, U+00A0, U+2028 is multi-byte in UTF-8 and is NOT treated here: the
   correspondence harness keeps such characters out of annotation strings and the evidence says so.) *)
Definition is_ws (c : ascii) : bool :=
  let n := nat_of_ascii c in (Nat.leb 9 n && Nat.leb n 13) || (Nat.leb 28 n && Nat.leb n 32).

Fixpoint lstrip (s : string) : string :=
  match s with String c s' => if is_ws c then lstrip s' else s | EmptyString => EmptyString end.
(* drop trailing whitespace: keep a character iff something non-whitespace follows or it is itself non-whitespace *)
Fixpoint all_ws (s : string) : bool :=
  match s with EmptyString => true | String c s' => is_ws c && all_ws s' end.
Fixpoint rstrip (s : string) : string :=
  match s with EmptyString => EmptyString | String c s' => if all_ws s then EmptyString else String c (rstrip s') end.
Definition str_strip (s : string) : string := rstrip (lstrip s).

(* re.sub(r"(\s|\r|\n)+", rep, s): every maximal run of whitespace becomes rep *)
Fixpoint re_sub_ws_plus_aux (in_run : bool) (rep s : string) : string :=
  match s with
  | EmptyString => EmptyString
  | String c s' => if is_ws c then (if in_run then re_sub_ws_plus_aux true rep s' else rep ++ re_sub_ws_plus_aux true rep s')
                   else String c (re_sub_ws_plus_aux false rep s')
  end.
Definition re_sub_ws_plus (rep s : string) : string := re_sub_ws_plus_aux false rep s.

(* ------------------------------------------------------------------------------------------------------------------ *)
(* Lemmas (appended): append associativity, fuel-independent characterisation of single-character replacement.          *)
From Coq Require Import Lia.

Section AppendLemmas.
Lemma str_append_assoc (a b c : string) : (a ++ b) ++ c = a ++ (b ++ c).
Proof. induction a as [|x a IH]; simpl; [reflexivity | now rewrite IH]. Qed.

Lemma str_append_nil_r (a : string) : a ++ "" = a.
Proof. induction a as [|x a IH]; simpl; [reflexivity | now rewrite IH]. Qed.
End AppendLemmas.

Section ReplaceChar.
(* every occurrence of the character q becomes `new` *)
Fixpoint replace_char (q : ascii) (new s : string) : string :=
  match s with
  | EmptyString => EmptyString
  | String c s' => if Ascii.eqb q c then new ++ replace_char q new s' else String c (replace_char q new s')
  end.

Lemma strip_prefix_char (q c : ascii) (s : string) :
  strip_prefix (String q EmptyString) (String c s) = if Ascii.eqb q c then Some s else None.
Proof. reflexivity. Qed.

Lemma str_replace_fuel_char (q : ascii) (new s : string) :
  forall fuel, String.length s < fuel ->
  str_replace_fuel fuel (String q EmptyString) new s = replace_char q new s.
Proof.
  induction s as [|c s IH]; intros fuel H.
  - destruct fuel; reflexivity.
  - destruct fuel as [|f]; [inversion H|].
    simpl in H.
    cbn [str_replace_fuel replace_char]. rewrite strip_prefix_char.
    destruct (Ascii.eqb q c); rewrite IH by lia; reflexivity.
Qed.

Lemma str_replace_char (q : ascii) (new s : string) :
  str_replace (String q EmptyString) new s = replace_char q new s.
Proof. unfold str_replace. apply str_replace_fuel_char. lia. Qed.
End ReplaceChar.
