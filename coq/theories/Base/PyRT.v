(* PyRT: runtime library for Python code translated by tools/py2v.
   Python sets and insertion-ordered dicts are duplicate-free lists; every
   specification lemma is stated at membership level, so Python's unspecified
   set iteration order is never relied upon. *)
From Coq Require Import List Bool Arith String Ascii ZArith Lia.
Import ListNotations.

Class EqDec (A : Type) := eq_dec : forall x y : A, {x = y} + {x <> y}.
#[global] Instance string_EqDec : EqDec string := string_dec.
#[global] Instance nat_EqDec : EqDec nat := Nat.eq_dec.
#[global] Instance Z_EqDec : EqDec Z := Z.eq_dec.
#[global] Instance N_EqDec : EqDec N := N.eq_dec.
#[global] Instance unit_EqDec : EqDec unit.
Proof. intros [] []. left. reflexivity. Defined.
#[global] Instance bool_EqDec : EqDec bool := Bool.bool_dec.
#[global] Instance pair_EqDec {A B} `{EqDec A} `{EqDec B} : EqDec (A * B).
Proof. intros [a b] [c d]. destruct (eq_dec a c); [|right; congruence].
  destruct (eq_dec b d); [left|right]; congruence. Defined.
#[global] Instance list_EqDec {A} `{EqDec A} : EqDec (list A).
Proof. intros x y. apply list_eq_dec. exact eq_dec. Defined.
#[global] Instance option_EqDec {A} `{EqDec A} : EqDec (option A).
Proof. intros [x|] [y|]; try (right; congruence); [|left; reflexivity].
  destruct (eq_dec x y); [left|right]; congruence. Defined.

Definition eqb {A} `{EqDec A} (x y : A) : bool := if eq_dec x y then true else false.

Section Sets.
  Context {A : Type} `{EqDec A}.

  Fixpoint mem (x : A) (l : list A) : bool :=
    match l with [] => false | y :: t => if eq_dec x y then true else mem x t end.

  (* append if absent: what OrderedDict[k] = v / set.add do to the key order *)
  Definition add_end (l : list A) (x : A) : list A := if mem x l then l else l ++ [x].

  Definition py_set (l : list A) : list A := fold_left add_end l [].
  Definition set_inter (a b : list A) : list A := filter (fun x => mem x b) a.
  Definition set_diff (a b : list A) : list A := filter (fun x => negb (mem x b)) a.
  Definition set_union (a b : list A) : list A := fold_left add_end b a.
  Definition remove_elem (x : A) (l : list A) : list A := filter (fun y => negb (eqb x y)) l.
  Definition subset (a b : list A) : bool := forallb (fun x => mem x b) a.
  Definition set_eqb (a b : list A) : bool := subset a b && subset b a.
  Definition disjointb (a b : list A) : bool := forallb (fun x => negb (mem x b)) a.
End Sets.

Section Dicts.
  Context {K V : Type} `{EqDec K}.
  Definition pydict := list (K * V).

  Fixpoint dict_get (d : pydict) (k : K) : option V :=
    match d with [] => None | (k', v) :: t => if eq_dec k k' then Some v else dict_get t k end.
  Definition dict_has (d : pydict) (k : K) : bool := mem k (map fst d).
  Fixpoint dict_set (d : pydict) (k : K) (v : V) : pydict :=
    match d with
    | [] => [(k, v)]
    | (k', v') :: t => if eq_dec k k' then (k', v) :: t else (k', v') :: dict_set t k v
    end.
  Definition dict_keys (d : pydict) : list K := map fst d.
  Definition dict_values (d : pydict) : list V := map snd d.
  Definition dict_update (d d2 : pydict) : pydict :=
    fold_left (fun acc kv => dict_set acc (fst kv) (snd kv)) d2 d.
  Definition dict_pop (d : pydict) (k : K) : pydict :=
    filter (fun kv => negb (eqb k (fst kv))) d.
  Definition dict_of_list (l : list (K * V)) : pydict := dict_update [] l.
End Dicts.
Arguments pydict : clear implicits.

(* ------------------------------------------------------------------ *)
(* Lemmas *)

Section SetLemmas.
  Context {A : Type} `{EqDec A}.

  Lemma mem_In (x : A) l : mem x l = true <-> In x l.
  Proof. induction l as [|y t IH]; simpl; [split; [discriminate|tauto]|].
    destruct (eq_dec x y) as [ ->|n]; [tauto|]. rewrite IH. split; [tauto|]. intros [e|i]; [congruence|exact i]. Qed.

  Lemma mem_false (x : A) l : mem x l = false <-> ~ In x l.
  Proof. rewrite <- mem_In. destruct (mem x l); split; congruence. Qed.

  Lemma eqb_true (x y : A) : eqb x y = true <-> x = y.
  Proof. unfold eqb. destruct (eq_dec x y); split; congruence. Qed.
  Lemma eqb_refl (x : A) : eqb x x = true.
  Proof. apply eqb_true. reflexivity. Qed.

  Lemma mem_app (x : A) a b : mem x (a ++ b) = mem x a || mem x b.
  Proof. induction a as [|y t IH]; simpl; [reflexivity|]. destruct (eq_dec x y); [reflexivity|exact IH]. Qed.

  Lemma In_add_end (l : list A) x y : In y (add_end l x) <-> In y l \/ y = x.
  Proof. unfold add_end. destruct (mem x l) eqn:E.
    - apply mem_In in E. split; [tauto|]. intros [i| ->]; assumption.
    - rewrite in_app_iff. simpl. split; intros [i|i]; try tauto; [destruct i; [subst; tauto|tauto]| subst; tauto]. Qed.

  Lemma NoDup_snoc (l : list A) x : NoDup l -> ~ In x l -> NoDup (l ++ [x]).
  Proof. induction 1 as [|y l Hy N IH]; simpl; intros Hx; [repeat constructor; simpl; tauto|].
    constructor; [rewrite in_app_iff; simpl; intuition congruence | apply IH; tauto]. Qed.

  Lemma NoDup_add_end (l : list A) x : NoDup l -> NoDup (add_end l x).
  Proof. intros N. unfold add_end. destruct (mem x l) eqn:E; [exact N|].
    apply mem_false in E. apply NoDup_snoc; assumption. Qed.

  Lemma In_fold_add_end (l acc : list A) y : In y (fold_left add_end l acc) <-> In y acc \/ In y l.
  Proof. revert acc. induction l as [|x t IH]; intros acc; simpl; [tauto|].
    rewrite IH, In_add_end. split; intros; intuition (subst; auto). Qed.

  Lemma NoDup_fold_add_end (l acc : list A) : NoDup acc -> NoDup (fold_left add_end l acc).
  Proof. revert acc. induction l as [|x t IH]; intros acc N; simpl; [exact N|]. apply IH, NoDup_add_end, N. Qed.

  Lemma In_py_set (l : list A) y : In y (py_set l) <-> In y l.
  Proof. unfold py_set. rewrite In_fold_add_end. simpl. tauto. Qed.
  Lemma NoDup_py_set (l : list A) : NoDup (py_set l).
  Proof. apply NoDup_fold_add_end. constructor. Qed.

  Lemma In_set_inter (a b : list A) y : In y (set_inter a b) <-> In y a /\ In y b.
  Proof. unfold set_inter. rewrite filter_In, mem_In. tauto. Qed.
  Lemma In_set_diff (a b : list A) y : In y (set_diff a b) <-> In y a /\ ~ In y b.
  Proof. unfold set_diff. rewrite filter_In, negb_true_iff, mem_false. tauto. Qed.
  Lemma In_set_union (a b : list A) y : In y (set_union a b) <-> In y a \/ In y b.
  Proof. unfold set_union. apply In_fold_add_end. Qed.
  Lemma In_remove_elem (x : A) l y : In y (remove_elem x l) <-> In y l /\ y <> x.
  Proof. unfold remove_elem. rewrite filter_In, negb_true_iff. unfold eqb.
    destruct (eq_dec x y); split; intros [? ?]; split; auto; congruence. Qed.
  Lemma NoDup_filter (f : A -> bool) l : NoDup l -> NoDup (filter f l).
  Proof. induction 1 as [|x l Hx N IH]; simpl; [constructor|]. destruct (f x); [constructor|]; auto.
    rewrite filter_In. tauto. Qed.

  Lemma subset_spec (a b : list A) : subset a b = true <-> (forall x, In x a -> In x b).
  Proof. unfold subset. rewrite forallb_forall. split; intros S x Hx; [apply mem_In|apply mem_In]; auto. Qed.
  Lemma disjointb_spec (a b : list A) : disjointb a b = true <-> (forall x, In x a -> ~ In x b).
  Proof. unfold disjointb. rewrite forallb_forall. split; intros S x Hx.
    - apply mem_false. specialize (S x Hx). now apply negb_true_iff in S.
    - apply negb_true_iff, mem_false. auto. Qed.

  Lemma length_zero_iff_nil_b (l : list A) : Nat.ltb 0 (List.length l) = false <-> l = [].
  Proof. destruct l; simpl; split; intros; try reflexivity; try discriminate. Qed.

  Lemma inter_empty_disjoint (a b : list A) :
    Nat.ltb 0 (List.length (set_inter a b)) = false <-> (forall x, In x a -> ~ In x b).
  Proof. rewrite length_zero_iff_nil_b. split.
    - intros E x Ha Hb. assert (In x (set_inter a b)) by (apply In_set_inter; tauto). rewrite E in *. contradiction.
    - intros D. destruct (set_inter a b) as [|y t] eqn:E; [reflexivity|].
      assert (In y (set_inter a b)) as Hy by (rewrite E; left; reflexivity).
      apply In_set_inter in Hy. destruct Hy as [Hya Hyb]. exfalso. exact (D y Hya Hyb). Qed.
End SetLemmas.

Section DictLemmas.
  Context {K V : Type} `{EqDec K}.
  Implicit Types d : pydict K V.

  Lemma dict_get_set_same d k v : dict_get (dict_set d k v) k = Some v.
  Proof. induction d as [|[k' v'] t IH]; simpl.
    - destruct (eq_dec k k); congruence.
    - destruct (eq_dec k k') as [ ->|n]; simpl.
      + destruct (eq_dec k' k'); congruence.
      + destruct (eq_dec k k'); [congruence|exact IH]. Qed.

  Lemma dict_get_set_other d k k2 v : k2 <> k -> dict_get (dict_set d k v) k2 = dict_get d k2.
  Proof. intros n. induction d as [|[k' v'] t IH]; simpl.
    - destruct (eq_dec k2 k); congruence.
    - destruct (eq_dec k k') as [ ->|n2]; simpl.
      + destruct (eq_dec k2 k'); congruence.
      + destruct (eq_dec k2 k'); [reflexivity|exact IH]. Qed.

  Lemma dict_keys_set d k v : dict_keys (dict_set d k v) = add_end (dict_keys d) k.
  Proof. unfold dict_keys, add_end. induction d as [|[k' v'] t IH]; simpl; [reflexivity|].
    destruct (eq_dec k k') as [ ->|n]; simpl; [reflexivity|].
    rewrite IH. destruct (mem k (map fst t)); reflexivity. Qed.

  Lemma dict_get_In d k v : dict_get d k = Some v -> In (k, v) d.
  Proof. induction d as [|[k' v'] t IH]; simpl; [discriminate|].
    destruct (eq_dec k k') as [ ->|n]; [intros [= ->]; tauto | auto]. Qed.

  Lemma dict_get_None d k : dict_get d k = None <-> ~ In k (dict_keys d).
  Proof. unfold dict_keys. induction d as [|[k' v'] t IH]; simpl; [tauto|].
    destruct (eq_dec k k') as [ ->|n]; [split; [discriminate|tauto]|]. rewrite IH. split; [intros ? [?|?]; [congruence|tauto] | tauto]. Qed.

  Lemma dict_get_Some_keys d k v : dict_get d k = Some v -> In k (dict_keys d).
  Proof. intros E. destruct (in_dec eq_dec k (dict_keys d)) as [i|n]; [exact i|].
    apply dict_get_None in n. congruence. Qed.

  Lemma dict_get_update d d2 k :
    dict_get (dict_update d d2) k = match dict_get (rev d2) k with Some v => Some v | None => dict_get d k end.
  Proof. unfold dict_update. revert d. induction d2 as [|[k2 v2] t IH]; intros d; simpl; [reflexivity|].
    rewrite IH. clear IH.
    assert (forall (l : pydict K V) k0 v0, dict_get (l ++ [(k0, v0)]) k =
                            match dict_get l k with Some v => Some v | None => if eq_dec k k0 then Some v0 else None end) as A.
    { induction l as [|[a b] l IHl]; intros; simpl; [reflexivity|]. destruct (eq_dec k a); [reflexivity|apply IHl]. }
    rewrite A. destruct (dict_get (rev t) k); [reflexivity|].
    destruct (eq_dec k k2) as [ ->|n]; [apply dict_get_set_same | apply dict_get_set_other, n]. Qed.

  Lemma NoDup_dict_keys_set d k v : NoDup (dict_keys d) -> NoDup (dict_keys (dict_set d k v)).
  Proof. rewrite dict_keys_set. apply NoDup_add_end. Qed.
End DictLemmas.

(* ------------------------------------------------------------------ *)
(* Further dict lemmas (duplicate-free second argument of update, key sets, value maps) *)
Section DictLemmas2.
  Context {K V : Type} `{EqDec K}.
  Implicit Types d : pydict K V.

  Lemma dict_get_app d1 d2 k :
    dict_get (d1 ++ d2) k = match dict_get d1 k with Some v => Some v | None => dict_get d2 k end.
  Proof. induction d1 as [|[a b] t IH]; simpl; [reflexivity|]. destruct (eq_dec k a); [reflexivity|exact IH]. Qed.

  Lemma dict_get_rev d k : NoDup (dict_keys d) -> dict_get (rev d) k = dict_get d k.
  Proof. induction d as [|[a b] t IH]; simpl; intros N; [reflexivity|].
    inversion N as [|x l Hx N']; subst. rewrite dict_get_app, IH by assumption. simpl.
    destruct (eq_dec k a) as [ ->|n].
    - destruct (dict_get t a) eqn:E; [|reflexivity]. apply dict_get_Some_keys in E. contradiction.
    - destruct (dict_get t k); reflexivity. Qed.

  Lemma dict_get_update_nodup d d2 k : NoDup (dict_keys d2) ->
    dict_get (dict_update d d2) k = match dict_get d2 k with Some v => Some v | None => dict_get d k end.
  Proof. intros N. rewrite dict_get_update, dict_get_rev by assumption. reflexivity. Qed.

  Lemma dict_keys_update d d2 : dict_keys (dict_update d d2) = fold_left add_end (dict_keys d2) (dict_keys d).
  Proof. unfold dict_update. revert d. induction d2 as [|[a b] t IH]; intros d; simpl; [reflexivity|].
    rewrite IH, dict_keys_set. reflexivity. Qed.

  Lemma In_dict_keys_update d d2 k :
    In k (dict_keys (dict_update d d2)) <-> In k (dict_keys d) \/ In k (dict_keys d2).
  Proof. rewrite dict_keys_update. apply In_fold_add_end. Qed.

  Lemma NoDup_dict_keys_update d d2 : NoDup (dict_keys d) -> NoDup (dict_keys (dict_update d d2)).
  Proof. rewrite dict_keys_update. apply NoDup_fold_add_end. Qed.

  Lemma In_dict_values d k v : dict_get d k = Some v -> In v (dict_values d).
  Proof. intros E. apply dict_get_In in E. unfold dict_values. apply in_map_iff. exists (k, v). split; [reflexivity|exact E]. Qed.

  Lemma dict_get_map_val {V2 : Type} (g : V -> V2) d k :
    dict_get (map (fun kv => (fst kv, g (snd kv))) d) k = option_map g (dict_get d k).
  Proof. induction d as [|[a b] t IH]; simpl; [reflexivity|]. destruct (eq_dec k a); [reflexivity|exact IH]. Qed.

  Lemma dict_keys_map_val {V2 : Type} (g : V -> V2) d :
    dict_keys (map (fun kv => (fst kv, g (snd kv))) d) = dict_keys d.
  Proof. unfold dict_keys. rewrite map_map. reflexivity. Qed.

  (* the comprehension {k: d[k] for k in ks} (a missing key omits the entry) *)
  Local Notation dict_restrict_list d ks :=
    (flat_map (fun k => match dict_get d k with Some v => [(k, v)] | None => [] end) ks).

  Lemma dict_get_restrict_list d ks k :
    dict_get (dict_restrict_list d ks) k = if mem k ks then dict_get d k else None.
  Proof. induction ks as [|a t IH]; simpl; [reflexivity|].
    rewrite dict_get_app, IH. destruct (eq_dec k a) as [ ->|n].
    - destruct (dict_get d a) eqn:E; simpl.
      + destruct (eq_dec a a); congruence.
      + destruct (mem a t); reflexivity.
    - destruct (dict_get d a) eqn:E; simpl; [|reflexivity]. destruct (eq_dec k a); [congruence|reflexivity]. Qed.

  Lemma In_keys_restrict_list d ks k :
    In k (dict_keys (dict_restrict_list d ks)) <-> In k ks /\ In k (dict_keys d).
  Proof. unfold dict_keys. induction ks as [|a t IH]; simpl; [tauto|].
    rewrite map_app, in_app_iff, IH. destruct (dict_get d a) eqn:E; simpl.
    - apply dict_get_Some_keys in E. unfold dict_keys in E. split.
      + intros [[->|[]]|[? ?]]; tauto.
      + intros [[->|?] ?]; tauto.
    - apply dict_get_None in E. unfold dict_keys in E. split.
      + intros [[]|[? ?]]; tauto.
      + intros [[->|?] ?]; tauto. Qed.

  Lemma NoDup_keys_restrict_list d ks : NoDup ks -> NoDup (dict_keys (dict_restrict_list d ks)).
  Proof. induction 1 as [|a t Ha N IH]; simpl; [constructor|].
    unfold dict_keys in *. simpl. rewrite map_app.
    destruct (dict_get d a) eqn:E; simpl; [|exact IH]. constructor; [|exact IH].
    intros I. apply (In_keys_restrict_list d t a) in I. tauto. Qed.

  Lemma dict_get_of_list (l : list (K * V)) k : NoDup (dict_keys l) -> dict_get (dict_of_list l) k = dict_get l k.
  Proof. intros N. unfold dict_of_list. rewrite dict_get_update_nodup by assumption. simpl. destruct (dict_get l k); reflexivity. Qed.

  Lemma In_dict_keys_of_list (l : list (K * V)) k : In k (dict_keys (dict_of_list l)) <-> In k (dict_keys l).
  Proof. unfold dict_of_list. rewrite In_dict_keys_update. simpl. tauto. Qed.

  Lemma NoDup_dict_keys_of_list (l : list (K * V)) : NoDup (dict_keys (dict_of_list l)).
  Proof. unfold dict_of_list. apply NoDup_dict_keys_update. constructor. Qed.
End DictLemmas2.

(* ------------------------------------------------------------------ *)
(* dict_pop / dict_has lemmas *)
Section DictPopLemmas.
  Context {K V : Type} `{EqDec K}.
  Implicit Types d : pydict K V.

  Lemma dict_has_true d k : dict_has d k = true <-> In k (dict_keys d).
  Proof. unfold dict_has, dict_keys. apply mem_In. Qed.
  Lemma dict_has_false d k : dict_has d k = false <-> ~ In k (dict_keys d).
  Proof. unfold dict_has, dict_keys. apply mem_false. Qed.

  Lemma dict_get_pop d k k2 : dict_get (dict_pop d k) k2 = if eq_dec k2 k then None else dict_get d k2.
  Proof. unfold dict_pop. induction d as [|[a b] t IH]; simpl.
    - destruct (eq_dec k2 k); reflexivity.
    - unfold eqb at 1. destruct (eq_dec k a) as [<-|n]; simpl.
      + rewrite IH. destruct (eq_dec k2 k); reflexivity.
      + rewrite IH. destruct (eq_dec k2 a) as [->|n2]; [|reflexivity].
        destruct (eq_dec a k); [congruence|reflexivity]. Qed.

  Lemma dict_keys_pop d k : dict_keys (dict_pop d k) = remove_elem k (dict_keys d).
  Proof. unfold dict_keys, dict_pop, remove_elem. induction d as [|[a b] t IH]; simpl; [reflexivity|].
    destruct (negb (eqb k a)); simpl; rewrite IH; reflexivity. Qed.

  Lemma In_dict_keys_pop d k k2 : In k2 (dict_keys (dict_pop d k)) <-> In k2 (dict_keys d) /\ k2 <> k.
  Proof. rewrite dict_keys_pop. apply In_remove_elem. Qed.

  Lemma NoDup_dict_keys_pop d k : NoDup (dict_keys d) -> NoDup (dict_keys (dict_pop d k)).
  Proof. rewrite dict_keys_pop. apply NoDup_filter. Qed.

  Lemma dict_pop_absent d k : ~ In k (dict_keys d) -> dict_pop d k = d.
  Proof. unfold dict_pop, dict_keys. induction d as [|[a b] t IH]; simpl; intros N; [reflexivity|].
    unfold eqb at 1. destruct (eq_dec k a) as [->|n]; [tauto|]. simpl. rewrite IH; [reflexivity|tauto]. Qed.
End DictPopLemmas.

(* ------------------------------------------------------------------ *)
(* forallb refutation witnesses; dict_get on duplicate-free association lists *)
Section ForallbDictLemmas.
  Context {K V : Type} `{EqDec K}.
  Implicit Types d : pydict K V.

  Lemma forallb_false {A : Type} (f : A -> bool) (l : list A) :
    forallb f l = false <-> exists x, In x l /\ f x = false.
  Proof. induction l as [|y t IH]; simpl.
    - split; [discriminate|intros [x [[] _]]].
    - rewrite andb_false_iff, IH. split.
      + intros [E|[x [I E]]]; [exists y; auto|exists x; auto].
      + intros [x [[->|I] E]]; [left; exact E|right; exists x; auto]. Qed.

  Lemma dict_get_NoDup_In d k v : NoDup (dict_keys d) -> In (k, v) d -> dict_get d k = Some v.
  Proof. unfold dict_keys. induction d as [|[a b] t IH]; simpl; intros N I; [contradiction|].
    inversion N as [|x l Hx N']; subst. destruct I as [E|I].
    - inversion E; subst. destruct (eq_dec k k); congruence.
    - destruct (eq_dec k a) as [->|n]; [|apply IH; assumption].
      exfalso. apply Hx. apply in_map_iff. exists (a, v). split; [reflexivity|exact I]. Qed.

  Lemma dict_get_NoDup_iff d k v : NoDup (dict_keys d) -> (dict_get d k = Some v <-> In (k, v) d).
  Proof. intros N. split; [apply dict_get_In|apply dict_get_NoDup_In; exact N]. Qed.

  Lemma mem_keys_dict_get d k : mem k (map fst d) = true <-> dict_get d k <> None.
  Proof. rewrite mem_In. split.
    - intros I E. apply dict_get_None in E. exact (E I).
    - intros N. destruct (dict_get d k) as [v|] eqn:E; [|congruence]. exact (dict_get_Some_keys d k v E). Qed.

  Lemma mem_keys_false_dict_get d k : mem k (map fst d) = false <-> dict_get d k = None.
  Proof. rewrite mem_false, dict_get_None. reflexivity. Qed.
End ForallbDictLemmas.
