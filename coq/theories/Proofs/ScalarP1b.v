(* C05 -- SQL templates compute the documented value, continued *)
From Coq Require Import List Bool ZArith QArith Qround Qabs String Ascii Lia Lqa.
Import ListNotations.
From DA Require Import Model.Scalar Model.SqlTemplates Model.ScalarBackends Model.ScalarCatalog Model.ScalarIndex Proofs.ScalarP0 Proofs.ScalarP1.
Local Open Scope string_scope.

Section SQL.
Variable mf : string -> Q -> option Q.
Variable mf2 : string -> Q -> Q -> option Q.
Notation documented_sql := (documented_sql mf mf2).

Lemma fnn1 v : first_non_null [v] = v.
Proof. destruct v; reflexivity. Qed.
Lemma sql_coalesce vr d lits : documented_sql vr d "coalesce" lits anyargs.
Proof. intros args r _ H. change (spec_method mf mf2 "coalesce") with spec_coalesce in H. arity2 H args.
  assert (sql_eval mf mf2 vr d "coalesce" lits [a; b] = Some (first_non_null [enc d a; enc d b])) as E by reflexivity.
  rewrite E. clear E.
  destruct a; cbn in H; try discriminate H; inversion H; subst; clear H.
  - replace (enc d SNull) with SNull by (destruct d; reflexivity).
    change (first_non_null [SNull; enc d r]) with (first_non_null [enc d r]). rewrite fnn1. finish.
  - destruct d, b0; cbn; finish.
  - destruct d; cbn; finish.
  - destruct d; cbn; finish.
  - destruct d; cbn; finish.
  - destruct d; cbn; finish. Qed.

(* ---------------------------------------------------------------- is_null / is_nan / is_inf / is_bad *)
Lemma sql_is_null vr d lits : documented_sql vr d "is_null" lits anyargs.
Proof. intros args r _ H. change (spec_method mf mf2 "is_null") with spec_is_null in H. arity1 H args.
  destruct d, a; try destruct b; solve_val H. Qed.
Lemma sql_is_nan_sqlite vr lits : documented_sql vr DSqlite "is_nan" lits anyargs.
Proof. intros args r _ H. change (spec_method mf mf2 "is_nan") with spec_is_nan in H. arity1 H args.
  destruct a; solve_val H. Qed.
(* PostgreSQL: the generic template answers FALSE for NULL, and an uploaded NaN is NULL: claimed for arguments other than
   a distinguishable NaN *)
Lemma sql_is_nan_pg vr lits : documented_sql vr DPg "is_nan" lits no_nan.
Proof. intros args r G H. change (spec_method mf mf2 "is_nan") with spec_is_nan in H. arity1 H args.
  destruct a; cbn in G; try discriminate G; solve_val H. Qed.
Lemma sql_is_inf vr d lits : documented_sql vr d "is_inf" lits anyargs.
Proof. intros args r _ H. change (spec_method mf mf2 "is_inf") with spec_is_inf in H. arity1 H args.
  destruct d, a; solve_val H. Qed.
Lemma sql_is_bad vr d lits : documented_sql vr d "is_bad" lits anyargs.
Proof. intros args r _ H. change (spec_method mf mf2 "is_bad") with spec_is_bad in H. arity1 H args.
  destruct d, a; solve_val H. Qed.

(* ---------------------------------------------------------------- strings, casts *)
Lemma sql_concat vr d lits : documented_sql vr d "concat" lits anyargs.
Proof. intros args r _ H. change (spec_method mf mf2 "concat") with spec_concat in H. arity2 H args.
  destruct a, b; try discriminate H. inversion H; subst. destruct d; cbn; finish. Qed.
Lemma sql_as_str vr d lits : documented_sql vr d "as_str" lits anyargs.
Proof. intros args r _ H. change (spec_method mf mf2 "as_str") with spec_as_str in H. arity1 H args.
  destruct a; try discriminate H; inversion H; subst; destruct d; cbn; finish. Qed.
Lemma sql_as_int64 vr d lits : documented_sql vr d "as_int64" lits anyargs.
Proof. intros args r _ H. change (spec_method mf mf2 "as_int64") with spec_as_int64 in H. arity1 H args.
  destruct a as [ | | |q| | | ]; try discriminate H. cbn in H. destruct (Qis_int q) eqn:I; [|discriminate H].
  inversion H; subst; clear H. destruct d; cbn; (eexists; split; [reflexivity|]); apply sv_eqv_num.
  - apply qtrunc_int. exact I.
  - assert (qtie q = false) as T.
    { unfold qtie, qfloor. apply Qis_int_eq in I. destruct (Qeq_bool (q - inject_Z (Qfloor q)) (1 # 2)) eqn:E; [|reflexivity].
      exfalso. q_props. lra. }
    rewrite (round_half_even_nearest _ T). unfold qround_nearest, qfloor.
    apply Qis_int_eq in I. rewrite I at 2. apply inject_Z_injective.
    apply Qfloor_unique; [rewrite <- I; lra | rewrite inject_Z_succ, <- I; lra]. Qed.
End SQL.
