(* C11, part 6: the witnesses.  For the code as found (q_unchanged) each forgotten field yields two pipelines that compare
   equal although a field read by executors / SQL generation differs; two of them also differ in the reference semantics,
   and a nan constant breaks reflexivity.  With the repaired flags (q_fixed) every witness pair compares unequal.
   Plus: the erased fields (core) are invisible to the reference semantics. *)
From Coq Require Import List Bool Arith ZArith QArith String Lia.
Import ListNotations.
From DA Require Import Base.PyRT Base.Val Model.Sem Model.Equiv Proofs.EquivP1 Proofs.EquivP2 Proofs.EquivP4 Proofs.EquivP5.
Local Open Scope string_scope.
Local Open Scope list_scope.

Definition w_tab := ETable "d" ["a"; "b"; "c"] [].
Definition w_env : env := [("d", mktable ["a"; "b"; "c"; "z"] [[VNum 1; VNum 2; VNum 3; VNum 4]])].

(* 1. TableDescription.__eq__ compares only the key *)
Definition w_table_a := ETable "d" ["a"; "b"] [].
Definition w_table_b := ETable "d" ["a"; "z"] [].
Lemma refuted_table_columns :
  exists a b sa sb fl env, wfb a = true /\ wfb b = true /\ eop_eqb q_unchanged a b = true /\
    to_sem a = Some sa /\ to_sem b = Some sb /\ sem_gen fl sa env <> sem_gen fl sb env /\ eop_eqb q_fixed a b = false.
Proof. exists w_table_a, w_table_b, (OTable "d" ["a"; "b"]), (OTable "d" ["a"; "z"]), fl_spec, w_env.
  repeat split; try reflexivity. intros H. vm_compute in H. discriminate. Qed.

(* 2. extend assignments compared as an unordered mapping: same result, but the assignments (the SELECT list) come in a
      different order *)
Definition ext_keys (p : eop) : list string := match p with EExtend _ ops _ _ _ _ => map fst ops | _ => [] end.
Definition e_plus (c : string) (k : Z) : pexpr := POp "+" true false [PCol c; PVal (KInt k)].
Definition w_order_a := EExtend w_tab [("a", e_plus "b" 1); ("c", e_plus "b" 2)] [] [] [] false.
Definition w_order_b := EExtend w_tab [("c", e_plus "b" 2); ("a", e_plus "b" 1)] [] [] [] false.
Lemma refuted_assignment_order :
  exists a b, wfb a = true /\ wfb b = true /\ eop_eqb q_unchanged a b = true /\ ext_keys a <> ext_keys b /\ core a <> core b /\
    (forall sa sb, to_sem a = Some sa -> to_sem b = Some sb -> forall fl env, sem_gen fl sa env = sem_gen fl sb env) /\
    eop_eqb q_fixed a b = false.
Proof. exists w_order_a, w_order_b. repeat split; try reflexivity; try (intros H; vm_compute in H; discriminate).
  intros sa sb Ta Tb. apply (eop_sound q_unchanged w_order_a w_order_b sa sb); try assumption; reflexivity. Qed.

(* 3. Value.is_equal is Python ==: 1 = True (the SQL prints 1 / TRUE; the reference semantics has a number / a boolean) *)
Definition w_const_a := EExtend w_tab [("x", PVal (KInt 1))] [] [] [] false.
Definition w_const_b := EExtend w_tab [("x", PVal (KBool true))] [] [] [] false.
Lemma refuted_constant_type :
  exists a b sa sb fl env, wfb a = true /\ wfb b = true /\ eop_eqb q_unchanged a b = true /\ core a <> core b /\
    to_sem a = Some sa /\ to_sem b = Some sb /\ sem_gen fl sa env <> sem_gen fl sb env /\ eop_eqb q_fixed a b = false.
Proof. exists w_const_a, w_const_b.
  exists (OExtend (OTable "d" ["a"; "b"; "c"]) [("x", EConst (VNum 1))] false (mkwin [] [] [])),
         (OExtend (OTable "d" ["a"; "b"; "c"]) [("x", EConst (VBool true))] false (mkwin [] [] [])), fl_spec, w_env.
  repeat split; try reflexivity; intros H; vm_compute in H; discriminate. Qed.
(* ... and 1 = 1.0: same meaning, different SQL text *)
Definition w_float_b := EExtend w_tab [("x", PVal (KFloat 1))] [] [] [] false.
Lemma refuted_constant_int_float :
  exists a b, wfb a = true /\ wfb b = true /\ eop_eqb q_unchanged a b = true /\ core a <> core b /\ eop_eqb q_fixed a b = false.
Proof. exists w_const_a, w_float_b. repeat split; try reflexivity; intros H; vm_compute in H; discriminate. Qed.

(* 4. nan <> nan: a pipeline holding a nan constant is not equal to itself *)
Definition w_nan := EExtend w_tab [("x", PVal KNaN)] [] [] [] false.
Lemma refuted_reflexive : exists a, wfb a = true /\ eop_eqb q_unchanged a a = false /\ eop_eqb q_fixed a a = true.
Proof. exists w_nan. repeat split; reflexivity. Qed.

(* 5. ListTerm.is_equal on parsed list literals only compares the length *)
Definition e_is_in (xs : list pyconst) : pexpr := POp "is_in" false true [PCol "a"; PList true xs].
Definition w_list_a := ESelectRows w_tab (e_is_in [KInt 1; KInt 2]).
Definition w_list_b := ESelectRows w_tab (e_is_in [KInt 1; KInt 3]).
Lemma refuted_list_items :
  exists a b, wfb a = true /\ wfb b = true /\ eop_eqb q_unchanged a b = true /\ core a <> core b /\ eop_eqb q_fixed a b = false.
Proof. exists w_list_a, w_list_b. repeat split; try reflexivity; intros H; vm_compute in H; discriminate. Qed.

(* 6. RecordMap.__eq__ skips blocks_out when blocks_in is None: two different unpivot layouts *)
Definition w_rs (v1 v2 : string) : recspec :=
  mkrs ["id"] [("measure", [KStr "m1"; KStr "m2"]); ("value", [KStr v1; KStr v2])] ["measure"] true.
Definition w_wide := ETable "w" ["id"; "v1"; "v2"] [].
Definition w_recmap_a := EConvert w_wide (mkrm None (Some (w_rs "v1" "v2")) true).
Definition w_recmap_b := EConvert w_wide (mkrm None (Some (w_rs "v2" "v1")) true).
Lemma refuted_recmap_blocks_out :
  exists a b, wfb a = true /\ wfb b = true /\ eop_eqb q_unchanged a b = true /\ core a <> core b /\ eop_eqb q_fixed a b = false.
Proof. exists w_recmap_a, w_recmap_b. repeat split; try reflexivity; intros H; vm_compute in H; discriminate. Qed.

(* 7. rename maps compared with dict ==: same meaning, but the renamed columns are printed in the dict's order *)
Definition rename_entries (p : eop) : list (string * string) := match p with ERename _ m => m | EMapCols _ m _ => m | _ => [] end.
Definition w_rename_a := ERename w_tab [("x", "a"); ("y", "b")].
Definition w_rename_b := ERename w_tab [("y", "b"); ("x", "a")].
Lemma refuted_rename_map_order :
  exists a b, wfb a = true /\ wfb b = true /\ eop_eqb q_unchanged a b = true /\ rename_entries a <> rename_entries b /\ core a <> core b /\
    (forall sa sb, to_sem a = Some sa -> to_sem b = Some sb -> forall fl env, sem_gen fl sa env = sem_gen fl sb env) /\
    eop_eqb q_fixed a b = false.
Proof. exists w_rename_a, w_rename_b. repeat split; try reflexivity; try (intros H; vm_compute in H; discriminate).
  intros sa sb Ta Tb. apply (eop_sound q_unchanged w_rename_a w_rename_b sa sb); try assumption; reflexivity. Qed.

(* ------------------------------------------------------------------ corollaries for the repaired flags *)
Lemma eop_eqb_refl_fixed a : eop_eqb q_fixed a a = true.
Proof. apply eop_eqb_refl. intros Q. discriminate Q. Qed.

Lemma eop_sound_fixed a b sa sb : wfb a = true -> wfb b = true -> eop_eqb q_fixed a b = true ->
  to_sem a = Some sa -> to_sem b = Some sb -> forall fl env, sem_gen fl sa env = sem_gen fl sb env.
Proof. intros Wa Wb E. apply (eop_sound q_fixed a b sa sb Wa Wb E). apply ragree_fixed. Qed.

(* whatever reads only the core fields (an executor, a SQL generator for any dialect) cannot tell equal pipelines apart *)
Lemma any_reader q a b (X : Type) (f : eop -> X) : (forall x y, core x = core y -> f x = f y) ->
  wfb a = true -> eop_eqb q a b = true -> agree q a b = true -> f a = f b.
Proof. intros R W E G. apply R. apply (eop_same_core q a b W E G). Qed.
Lemma any_reader_fixed a b (X : Type) (f : eop -> X) : (forall x y, core x = core y -> f x = f y) ->
  wfb a = true -> eop_eqb q_fixed a b = true -> f a = f b.
Proof. intros R W E. apply R. apply (eop_same_core_fixed a b W E). Qed.

(* ------------------------------------------------------------------ the erased fields are invisible to the reference semantics *)
Lemma ops_sem_core ops : ops_sem (core_ops ops) = ops_sem ops.
Proof. unfold core_ops. induction ops as [|[k e] t IH]; simpl; [reflexivity|]. rewrite expr_sem_core, IH. reflexivity. Qed.
Lemma core_ops_keys ops : map fst (core_ops ops) = map fst ops.
Proof. unfold core_ops. rewrite map_map. reflexivity. Qed.
Lemma ecolumn_names_core a : ecolumn_names (core a) = ecolumn_names a.
Proof. induction a; cbn [core ecolumn_names]; rewrite ?core_ops_keys, ?IHa, ?IHa1, ?IHa2; reflexivity. Qed.
Lemma to_sem_core a : to_sem (core a) = to_sem a.
Proof. induction a; cbn [core to_sem]; rewrite ?core_ops_keys, ?ops_sem_core, ?expr_sem_core, ?ecolumn_names_core, ?IHa, ?IHa1, ?IHa2; reflexivity. Qed.

(* ------------------------------------------------------------------ the code as it is now (pipeline_eqb = eop_eqb q_fixed) *)
Lemma pipeline_eqb_refl a : pipeline_eqb a a = true.
Proof. exact (eop_eqb_refl_fixed a). Qed.
Lemma pipeline_eqb_sym a b : pipeline_eqb a b = pipeline_eqb b a.
Proof. exact (eop_eqb_sym q_fixed a b). Qed.
Lemma pipeline_same_core a b : wfb a = true -> pipeline_eqb a b = true -> core a = core b.
Proof. exact (eop_same_core_fixed a b). Qed.
Lemma pipeline_any_reader a b (X : Type) (f : eop -> X) : (forall x y, core x = core y -> f x = f y) ->
  wfb a = true -> pipeline_eqb a b = true -> f a = f b.
Proof. exact (any_reader_fixed a b X f). Qed.
Lemma pipeline_sound a b sa sb : wfb a = true -> wfb b = true -> pipeline_eqb a b = true ->
  to_sem a = Some sa -> to_sem b = Some sb -> forall fl env, sem_gen fl sa env = sem_gen fl sb env.
Proof. exact (eop_sound_fixed a b sa sb). Qed.

(* the witnesses of the seven repaired defects: the code as it is now tells every pair apart, and the nan pipeline equals itself *)
Lemma repaired_witnesses_distinguished :
  pipeline_eqb w_table_a w_table_b = false /\ pipeline_eqb w_order_a w_order_b = false /\ pipeline_eqb w_const_a w_const_b = false /\
  pipeline_eqb w_const_a w_float_b = false /\ pipeline_eqb w_nan w_nan = true /\ pipeline_eqb w_list_a w_list_b = false /\
  pipeline_eqb w_recmap_a w_recmap_b = false /\ pipeline_eqb w_rename_a w_rename_b = false.
Proof. repeat split; reflexivity. Qed.
