(* The decidable condition cache_sound_dec (Model/CacheSound.v) implies cache_sound for EVERY engine, hence CTE elimination
   denotes the same table on every query that passes it. *)
From Coq Require Import List Bool Arith String Ascii Lia.
Import ListNotations.
From DA Require Import Base.PyRT Model.NearSql Model.WithForm Model.CacheSound Proofs.WithFormP1 Proofs.WithFormP2.

Lemma leqb_eq {A} (e : A -> A -> bool) : (forall x y, e x y = true -> x = y) -> forall a b, leqb e a b = true -> a = b.
Proof. intros He. induction a as [|x s IH]; intros [|y t] H; simpl in H; try discriminate; [reflexivity|].
  apply andb_true_iff in H. destruct H as [H1 H2]. f_equal; [apply He, H1|apply IH, H2]. Qed.
Lemma oeqb_eq {A} (e : A -> A -> bool) : (forall x y, e x y = true -> x = y) -> forall a b, oeqb e a b = true -> a = b.
Proof. intros He [x|] [y|] H; simpl in H; try discriminate; [f_equal; apply He, H|reflexivity]. Qed.
Lemma peqb_eq {A B} (e : A -> A -> bool) (f : B -> B -> bool) :
  (forall x y, e x y = true -> x = y) -> (forall x y, f x y = true -> x = y) -> forall a b, peqb e f a b = true -> a = b.
Proof. intros He Hf [a1 a2] [b1 b2] H. unfold peqb in H. simpl in H. apply andb_true_iff in H. destruct H as [H1 H2].
  f_equal; [apply He, H1|apply Hf, H2]. Qed.
Lemma seqb_eq x y : seqb x y = true -> x = y.
Proof. apply String.eqb_eq. Qed.
Lemma terms_eqb_eq a b : terms_eqb a b = true -> a = b.
Proof. apply oeqb_eq, leqb_eq, peqb_eq; [exact seqb_eq|apply oeqb_eq, seqb_eq]. Qed.
Lemma lseqb_eq a b : lseqb a b = true -> a = b.
Proof. apply leqb_eq, seqb_eq. Qed.
Lemma oseqb_eq a b : oseqb a b = true -> a = b.
Proof. apply oeqb_eq, seqb_eq. Qed.
Lemma ci_eqb_eq a b : ci_eqb a b = true -> a = b.
Proof. destruct a as [c f p], b as [c' f' p']. unfold ci_eqb. simpl. rewrite !andb_true_iff. intros [[H1 H2] H3].
  apply (oeqb_eq _ lseqb_eq) in H1. apply Bool.eqb_prop in H2. apply oseqb_eq in H3. subst. reflexivity. Qed.

Ltac split_andb H := repeat (let H' := fresh H in apply andb_true_iff in H; destruct H as [H H']).

Lemma same_table a b : same_mod_names a b = true ->
  is_table a = is_table b /\ ops_key a = ops_key b /\ (is_table a = true -> qname a = qname b).
Proof. destruct a, b; simpl; intros H; try discriminate; split_andb H;
  repeat match goal with
  | H : seqb _ _ = true |- _ => apply seqb_eq in H
  | H : oseqb _ _ = true |- _ => apply oseqb_eq in H
  end; subst; repeat split; try reflexivity; intros; try discriminate.
Qed.

Lemma ci_same_nontable s a b : is_table s = false -> ci_same s a b = true -> a = b.
Proof. unfold ci_same. intros ->. simpl. apply ci_eqb_eq. Qed.

Section P.
Variable T : Type.
Variable E : engine T.

(* what a step reads from an operand *)
Definition operand (r : env T) (s : nearsql) (ci : cinfo) : T :=
  if by_name s ci then r (qname s) else nsem E r s (ccols ci).

Lemma operand_same r s s' ci ci' :
  same_mod_names s s' = true -> ci_same s ci ci' = true -> (forall cols, nsem E r s cols = nsem E r s' cols) ->
  operand r s ci = operand r s' ci' /\ cpub ci = cpub ci'.
Proof.
  intros Hs Hc IH. destruct (same_table _ _ Hs) as (It & _ & Qn). unfold operand, by_name, ci_same in *. rewrite <- It.
  destruct (is_table s && negb (cforce ci)) eqn:B.
  - apply andb_true_iff in Hc. destruct Hc as [Hf Hp]. apply Bool.eqb_prop in Hf. apply oseqb_eq in Hp.
    rewrite <- Hf, B. apply andb_true_iff in B. destruct B as [Its _]. rewrite (Qn Its). split; [reflexivity|exact Hp].
  - apply ci_eqb_eq in Hc. subst ci'. rewrite B. split; [apply IH|reflexivity].
Qed.

Lemma same_nsem a : forall b, same_mod_names a b = true -> forall (r : env T) cols, nsem E r a cols = nsem E r b cols.
Proof.
  induction a as [n t|n k|n t s IH ci sfx an mg dp k|n t s1 IH1 c1 j s2 IH2 c2 sfx an k|n p sfx an a0 k|n p s IH ci sfx an a0 k];
  intros b H r cols; destruct b; simpl in H; try discriminate; split_andb H.
  - apply seqb_eq in H. apply terms_eqb_eq in H0. subst. reflexivity.
  - apply seqb_eq in H. subst. reflexivity.
  - apply terms_eqb_eq in H. apply lseqb_eq in H1. subst.
    destruct (operand_same r _ _ _ _ H3 H2 (fun c => IH _ H3 r c)) as [Eo _]. simpl. f_equal. exact Eo.
  - apply terms_eqb_eq in H. apply seqb_eq in H4. apply lseqb_eq in H1. subst.
    destruct (operand_same r _ _ _ _ H6 H5 (fun c => IH1 _ H6 r c)) as [Eo1 Ep1].
    destruct (operand_same r _ _ _ _ H3 H2 (fun c => IH2 _ H3 r c)) as [Eo2 Ep2].
    simpl. rewrite Ep1, Ep2. f_equal; assumption.
  - apply lseqb_eq in H. apply lseqb_eq in H2. apply Bool.eqb_prop in H1. subst. reflexivity.
  - apply lseqb_eq in H. apply lseqb_eq in H2. apply Bool.eqb_prop in H1. subst.
    destruct (operand_same r _ _ _ _ H4 H3 (fun c => IH _ H4 r c)) as [Eo _]. simpl. f_equal. exact Eo.
Qed.
End P.

Lemma same_ckeys fl s s' ci ci' :
  same_mod_names s s' = true -> ci_same s ci ci' = true -> desc_keys fl s = desc_keys fl s' -> ckeys fl s ci = ckeys fl s' ci'.
Proof. intros H Hc D. destruct (same_table _ _ H) as (It & Ok & _). unfold ckeys, ckey. simpl. rewrite <- It.
  destruct (is_table s) eqn:Its; [reflexivity|]. rewrite (ci_same_nontable s ci ci' Its Hc), <- Ok, D. reflexivity. Qed.

Lemma same_desc_keys fl a : forall b, same_mod_names a b = true -> desc_keys fl a = desc_keys fl b.
Proof.
  induction a as [n t|n k|n t s IH ci sfx an mg dp k|n t s1 IH1 c1 j s2 IH2 c2 sfx an k|n p sfx an a0 k|n p s IH ci sfx an a0 k];
  intros b H; destruct b; simpl in H; try discriminate; split_andb H; try reflexivity.
  - rewrite !desc_keys_unary. apply same_ckeys; [exact H3|exact H2|apply IH, H3].
  - rewrite !desc_keys_binary. f_equal.
    + apply same_ckeys; [exact H6|exact H5|apply IH1, H6].
    + apply same_ckeys; [exact H3|exact H2|apply IH2, H3].
  - rewrite !desc_keys_raw1. apply same_ckeys; [exact H4|exact H3|apply IH, H4].
Qed.

Lemma conts_nontable q : forall c, In c (conts q) -> is_table (fst c) = false.
Proof. induction q as [n t|n k|n t s IH ci sfx an mg dp k|n t s1 IH1 c1 j s2 IH2 c2 sfx an k|n p sfx an a k|n p s IH ci sfx an a k];
  simpl; intros c I; try contradiction.
  - apply in_app_iff in I. destruct I as [I|I]; [|apply IH, I]. destruct (is_table s) eqn:It; [contradiction|destruct I as [<-|[]]; exact It].
  - rewrite !in_app_iff in I. destruct I as [[I|I]|[I|I]]; [|apply IH1, I| |apply IH2, I].
    + destruct (is_table s1) eqn:It; [contradiction|destruct I as [<-|[]]; exact It].
    + destruct (is_table s2) eqn:It; [contradiction|destruct I as [<-|[]]; exact It].
  - apply in_app_iff in I. destruct I as [I|I]; [|apply IH, I]. destruct (is_table s) eqn:It; [contradiction|destruct I as [<-|[]]; exact It].
Qed.

Theorem cache_sound_dec_sound (T : Type) (E : engine T) fl q : cache_sound_dec fl q = true -> cache_sound E fl q.
Proof.
  intros H c1 c2 k I1 I2 K1 K2. unfold cache_sound_dec in H. rewrite forallb_forall in H. specialize (H c1 I1).
  rewrite forallb_forall in H. specialize (H c2 I2). unfold pair_ok in H. rewrite K1, K2 in H.
  unfold seqb in H. rewrite String.eqb_refl in H. apply andb_true_iff in H. destruct H as [H Hn].
  apply andb_true_iff in H. destruct H as [Hs Hc]. apply (oeqb_eq _ lseqb_eq) in Hc.
  split; [|split].
  - intros r. pose proof (conts_nontable q _ I1) as T1. pose proof (conts_nontable q _ I2) as T2.
    destruct c1 as [s1 i1], c2 as [s2 i2]. cbn [fst snd] in *.
    rewrite (csem_nontable _ E r s1 i1 T1), (csem_nontable _ E r s2 i2 T2), Hc. apply same_nsem, Hs.
  - intros k'. rewrite (same_desc_keys fl _ _ Hs). tauto.
  - apply negb_true_iff, mem_false in Hn. exact Hn.
Qed.

(* CTE elimination denotes the same table on every query that passes the decidable condition, for every engine *)
Theorem cte_elim_preserves_dec (T : Type) (E : engine T) (fl : flags) (q : nearsql) (r : env T) :
  hygienic q = true -> cache_sound_dec fl q = true ->
  nsem_with E r (fst (to_with_form fl (Some []) q)) = nsem E r q None.
Proof. intros H D. apply cte_elim_preserves; [exact H|apply cache_sound_dec_sound, D]. Qed.
