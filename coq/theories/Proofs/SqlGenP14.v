(* SQLGEN, part 14 (stage v): the windowed extend step -- every requested output is a window function evaluated OVER
   (PARTITION BY .. ORDER BY .. [DESC]) of the pruned input; the partition / order columns are requested from the source. *)
From Coq Require Import List Bool Arith ZArith QArith String Lia.
Import ListNotations.
From DA Require Import Base.PyRT Base.Val Model.Sem Proofs.SemBasicP Model.ColumnsUsed Proofs.ColumnsUsedP1 Proofs.ColumnsUsedP2
  Proofs.ColumnsUsedP3 Proofs.ColumnsUsedP4 Proofs.ComposeP Model.SqlGen Model.SqlSem Proofs.SqlGenP1 Proofs.SqlGenP2 Proofs.SqlGenP3
  Proofs.SqlGenP4 Proofs.SqlGenP5 Proofs.SqlGenP10.
Local Open Scope list_scope.

Section Win.
Variable fl : flavor.
Variable e : env.

Definition win_item (t : table) (i : nat) (r : list val) (kt : string * tterm) : val :=
  match snd kt with
  | TmWin ex part okeys => lookup_pos (sql_window_column fl part okeys t ex) i
  | tm => eval_item fl (cols t) r (fst kt) tm
  end.

Lemma select_rows_of_unfold t items rs :
  select_rows_of fl t items rs = map (fun ir => map (win_item t (fst ir) (snd ir)) items) rs.
Proof.
  unfold select_rows_of. apply map_ext. intros [i r]. cbn [fst snd].
  induction items as [|[k tm] it IH]; [reflexivity|]. cbn [map combine]. f_equal; [|exact IH].
  unfold win_item. cbn [fst snd]. destruct tm; reflexivity.
Qed.

Definition no_agg_term (t : tterm) : bool := negb (is_agg_term t).

Lemma sql_select_win tms K A :
  K <> [] -> (forall k, In k K -> is_agg_term (term_of tms k) = false) ->
  sql_select fl true (Some tms) (Some K) SfxNone A
  = Some (mktable K (map (fun ir => map (fun k => win_item A (fst ir) (snd ir) (k, term_of tms k)) K) (tag_from 0 (rows A)))).
Proof.
  intros NE NA. unfold sql_select. rewrite select_keys_some by exact NE.
  assert (existsb (fun kt => is_agg_term (snd kt)) (map (item_of_terms tms) K) = false) as EA by (apply existsb_false_map; intros k Ik; exact (NA k Ik)).
  rewrite EA. f_equal. f_equal. rewrite select_rows_of_unfold. apply map_ext. intros ir. rewrite map_map. reflexivity.
Qed.

Definition win_terms (origcols : list string) (subops : list (string * expr)) (w : window) : terms :=
  pass_terms origcols ++ map (fun ke => (fst ke, TmWin (snd ke) (w_part w) (map (fun c => (c, mem c (w_rev w))) (w_order w)))) subops.

Lemma node_wextend s ops w sub u u1 S nm dp :
  builder_ok (OExtend s ops true w) = true -> sem_gen fl s e = Some S -> NoDup u -> NoDup u1 ->
  incl u u1 -> incl u1 (column_names (OExtend s ops true w)) -> sub_ops u1 ops <> [] ->
  (forall c, In c (w_part w ++ w_order w ++ w_rev w) -> In c u1) ->
  let p := OExtend s ops true w in
  let subops := sub_ops u1 ops in
  let origcols := filter (fun k => negb (mem k (map fst subops))) u1 in
  Delivers fl e sub (cfs1 p u1) S ->
  Delivers fl e (TUnary nm (norm (win_terms origcols subops w)) sub (mk_tci (Some (cfs1 p u1)) false None) SfxNone true dp) u (sem_wextend fl ops w S).
Proof.
  intros BO ES Nu Nu1 Iuu1 Iu1 NSub Hwin p subops origcols D. set (us := cfs1 p u1) in *.
  destruct (bok_extend_full _ _ _ _ BO) as [BOs [Ic Nk]]. destruct (bok_extend _ _ _ _ BO) as [_ Dk].
  pose proof (builder_ok_nodup s BOs) as Ns. pose proof (sem_cols fl s e S ES) as EC.
  pose proof (extend_request s ops true w u1 Dk) as Need. fold p in Need. fold us in Need.
  assert (NoDup us) as Nus. { unfold us, cfs1, p. simpl. destruct (sub_ops u1 ops); [exact Ns|apply NoDup_filter, Ns]. }
  assert (incl us (cols S)) as Ius.
  { rewrite EC. unfold us, cfs1, p. simpl. destruct (sub_ops u1 ops); [apply incl_refl|]. intros c Hc. apply filter_In in Hc. tauto. }
  assert (sem_gen fl p e = Some (sem_wextend fl ops w S)) as ET by (simpl; rewrite ES; reflexivity).
  assert (forall K, incl K u1 -> sel K (sem_wextend fl ops w S) = sel K (sem_wextend fl ops w (sel us S))) as Hpr.
  { intros K IK. destruct (prune_unary fl e p s us u1 K S _ BO eq_refl Iu1 IK ES ET (fun c H => H) Ius) as [T1 [E1 E2]].
    simpl in E1. rewrite ES in E1. simpl in E1. injection E1 as <-. exact E2. }
  set (okeys := map (fun c => (c, mem c (w_rev w))) (w_order w)).
  set (tms := win_terms origcols subops w).
  assert (map fst okeys = w_order w) as EOK by (unfold okeys; rewrite map_map; simpl; apply map_id).
  assert (NoDup (map fst subops)) as Nsub by (apply NoDup_map_fst_filter, Nk).
  assert (map fst (map (fun ke : string * expr => (fst ke, TmWin (snd ke) (w_part w) okeys)) subops) = map fst subops) as EKS by (rewrite map_map; reflexivity).
  assert (forall k, In k u1 -> match last_for k ops with Some ke => term_of tms k = TmWin (snd ke) (w_part w) okeys | None => term_of tms k = TmPass end) as Hterm.
  { intros k Ik. unfold term_of, tms, win_terms. rewrite dict_get_app. fold okeys.
    destruct (last_for k ops) as [ke|] eqn:L.
    - destruct (last_for_In _ _ _ L) as [Ike Ek].
      assert (In ke subops) as Isub by (apply in_sub_ops; [exact Ike|rewrite Ek; exact Ik]).
      assert (dict_get (pass_terms origcols) k = None) as G1.
      { apply dict_get_None. unfold dict_keys. rewrite keys_pass. unfold origcols. intros I. apply filter_In in I. destruct I as [_ I].
        apply negb_true_iff, mem_false in I. apply I. rewrite <- Ek. apply in_map, Isub. }
      rewrite G1.
      assert (dict_get (map (fun ke0 : string * expr => (fst ke0, TmWin (snd ke0) (w_part w) okeys)) subops) k = Some (TmWin (snd ke) (w_part w) okeys)) as G2.
      { apply dict_get_NoDup_In; [unfold dict_keys; rewrite EKS; exact Nsub|]. apply in_map_iff. exists ke. rewrite Ek. tauto. }
      rewrite G2. reflexivity.
    - destruct (dict_get (pass_terms origcols) k) as [t|] eqn:G1.
      + apply dict_get_In in G1. unfold pass_terms in G1. apply in_map_iff in G1. destruct G1 as [x [[= _ <-] _]]. reflexivity.
      + destruct (dict_get (map _ subops) k) as [t|] eqn:G2; [|reflexivity]. exfalso. apply dict_get_Some_keys in G2. unfold dict_keys in G2. rewrite EKS in G2.
        apply (last_for_None _ _ L). apply in_map_iff in G2. destruct G2 as [ke [E1 I1]]. apply filter_In in I1. apply in_map_iff. exists ke. tauto. }
  assert (forall k, In k (map fst tms) <-> In k origcols \/ In k (map fst subops)) as Hkeys.
  { intros k. unfold tms, win_terms. rewrite map_app, keys_pass. fold okeys. rewrite EKS. apply in_app_iff. }
  assert (incl (map fst tms) u1) as Ikeys.
  { intros k Hk. apply Hkeys in Hk. destruct Hk as [Hk|Hk]; [unfold origcols in Hk; apply filter_In in Hk; tauto|].
    apply in_map_iff in Hk. destruct Hk as [ke [<- I]]. apply filter_In in I. destruct I as [_ I]. apply mem_In in I. exact I. }
  assert (forall k, is_agg_term (term_of tms k) = false) as NA.
  { intros k. unfold term_of. destruct (dict_get tms k) as [t|] eqn:G; [|reflexivity]. apply dict_get_In in G. unfold tms, win_terms in G. apply in_app_iff in G.
    destruct G as [G|G]; [unfold pass_terms in G; apply in_map_iff in G; destruct G as [x [[= _ <-] _]]; reflexivity|].
    apply in_map_iff in G. destruct G as [x [[= _ <-] _]]. reflexivity. }
  assert (tms <> []) as NT.
  { unfold tms, win_terms. intros X. apply app_eq_nil in X. destruct X as [_ X]. apply map_eq_nil in X. contradiction. }
  assert (norm tms = Some tms) as ENorm by (destruct tms; [congruence|reflexivity]). rewrite ENorm.
  assert (incl u (map fst tms)) as IuK.
  { intros k Ik. apply Hkeys. destruct (in_dec string_dec k (map fst subops)) as [i|n]; [right; exact i|left].
    unfold origcols. apply filter_In. split; [apply Iuu1, Ik|]. apply negb_true_iff, mem_false, n. }
  (* the cells of a windowed extend *)
  assert (forall A K, width_ok A -> K <> [] -> incl K (map fst tms) ->
            sql_select fl true (Some tms) (Some K) SfxNone A = Some (sel K (sem_wextend fl ops w A))) as Hsel.
  { intros A K WA NK IK. refine (eq_trans (sql_select_win tms K A NK (fun k _ => NA k)) _). f_equal.
    unfold sem_select_cols, sem_wextend. cbn [cols rows]. f_equal. rewrite map_map. apply map_ext_in. intros [i r] Iir. cbn [fst snd].
    apply map_ext_in. intros k Ik.
    assert (List.length r = List.length (cols A)) as L.
    { apply tag_from_In in Iir. simpl in Iir. unfold width_ok in WA. rewrite Forall_forall in WA. apply WA, Iir. }
    rewrite (wextend_get fl ops w A i r k L). pose proof (Hterm k (Ikeys k (IK k Ik))) as HT. unfold win_item. cbn [fst snd].
    destruct (last_for k ops) as [ke|]; rewrite HT; reflexivity. }
  assert (width_ok (sel us S)) as WS1 by apply width_select_cols.
  apply (fresh_unary_cnt fl e (fun A => List.length (rows A)) sub us S nm tms SfxNone true dp u (sem_wextend fl ops w S)); try assumption.
  - unfold tms, win_terms. rewrite map_app, keys_pass. fold okeys. rewrite EKS. apply NoDup_app_intro; [apply NoDup_filter, Nu1|exact Nsub|].
    intros x Hx. unfold origcols in Hx. apply filter_In in Hx. destruct Hx as [_ Hx]. apply negb_true_iff, mem_false in Hx. exact Hx.
  - intros k Ik. simpl. apply in_ext_cols. rewrite EC. specialize (Iu1 k (Iuu1 k Ik)). simpl in Iu1. apply in_ext_cols in Iu1. exact Iu1.
  - intros K NK NDK IK. refine (eq_trans (Hsel (sel us S) K WS1 NK (fun k Ik => IuK k (IK k Ik))) _). f_equal. symmetry. apply Hpr. intros k Ik. apply Iuu1, IK, Ik.
  - intros k Ik c Hc. pose proof (Hterm k (Iuu1 k Ik)) as HT. specialize (Need k (Iuu1 k Ik)).
    destruct (last_for k ops) as [ke|] eqn:L; rewrite HT in Hc; unfold item_cols in Hc; cbn [fst snd] in Hc.
    + rewrite EOK in Hc. destruct (last_for_In _ _ _ L) as [Ike Ek]. apply Need; [exact Hc|].
      apply in_app_iff in Hc. destruct Hc as [Hc|Hc]; [|apply in_app_iff in Hc; destruct Hc as [Hc|Hc]].
      * pose proof BO as BO'. simpl in BO'. rewrite !andb_true_iff in BO'. destruct BO' as [[[[_ B] _] _] _]. exact (proj1 (subset_spec _ _) B c Hc).
      * pose proof BO as BO'. simpl in BO'. rewrite !andb_true_iff in BO'. destruct BO' as [[[_ B] _] _]. exact (proj1 (subset_spec _ _) B c Hc).
      * apply Ic. eapply cols_used_in_ops; eassumption.
    + destruct Hc as [<-|[]]. apply Need. pose proof (Iu1 k (Iuu1 k Ik)) as X. simpl in X. apply in_ext_cols in X. destruct X as [X|X]; [exact X|].
      exfalso. apply (last_for_None _ _ L). exact X.
  - intros x [].
  - intros K A NK IK. eexists. split; [exact (sql_select_win tms K A NK (fun k _ => NA k))|]. cbn [rows]. rewrite map_length. apply tag_from_length.
  - intros A B R. apply (F2_length _ _ _ R).
  - change (List.length (rows (sel us S)) = List.length (rows (sem_wextend fl ops w S))).
    unfold sem_select_cols, sem_wextend. cbn [rows]. rewrite !map_length, tag_from_length. reflexivity.
  - intros K C A R NC ICK IK E1.
    assert (K <> []) as NK by (destruct C as [|c0 C']; [congruence|]; intros X; specialize (ICK c0 (or_introl eq_refl)); rewrite X in ICK; destruct ICK).
    pose proof (eq_trans (eq_sym (sql_select_win tms K A NK (fun k _ => NA k))) E1) as X. injection X as <-.
    refine (eq_trans (sql_select_win tms C A NC (fun k _ => NA k)) _). f_equal. unfold sem_select_cols. cbn [cols rows]. f_equal. rewrite map_map.
    apply map_ext. intros ir. apply map_ext_in. intros k Ik. rewrite get_map_cols. assert (mem k K = true) as M by (apply mem_In, ICK, Ik). rewrite M. reflexivity.
Qed.

Lemma sel_wextend_unused ops w S K :
  width_ok S -> (forall k, In k K -> ~ In k (map fst ops)) -> sel K (sem_wextend fl ops w S) = sel K S.
Proof.
  intros W H. unfold sem_select_cols, sem_wextend. cbn [cols rows]. f_equal. rewrite map_map.
  rewrite <- (map_tag_from (fun r => map (get (cols S) r) K) 0 (rows S)).
  apply map_ext_in. intros [i r] Ir. cbn [fst snd]. apply map_ext_in. intros k Ik.
  assert (List.length r = List.length (cols S)) as L.
  { apply tag_from_In in Ir. simpl in Ir. unfold width_ok in W. rewrite Forall_forall in W. apply W, Ir. }
  rewrite (wextend_get fl ops w S i r k L). rewrite (last_for_not_key k ops (H k Ik)). reflexivity.
Qed.

End Win.

Lemma sub_ops_more u extra ops : (forall k, In k (map fst ops) -> ~ In k extra) ->
  sub_ops (set_union u extra) ops = sub_ops u ops.
Proof.
  intros D. unfold sub_ops. apply filter_ext_in. intros ke I.
  destruct (mem (fst ke) u) eqn:M.
  - apply mem_In. apply In_set_union. left. apply mem_In, M.
  - apply mem_false. intros X. apply In_set_union in X. destruct X as [X|X]; [apply mem_false in M; contradiction|].
    apply (D (fst ke)); [apply in_map, I|exact X].
Qed.
