(* C03, part 6: the windowed extend step (group aggregates over a partition, with or without an order) of the Polars
   executor model against the Pandas-flavoured sem_wextend, up to the order of the rows. *)
From Coq Require Import List Bool Arith ZArith QArith Qreduction String Lia Permutation.
Import ListNotations.
From DA Require Import Base.PyRT Base.PyStr Base.Val Model.Sem Model.PolarsExec Proofs.SemOrderP Proofs.SemBasicP
  Proofs.PolarsP1 Proofs.PolarsP2 Proofs.PolarsP3 Proofs.PolarsP4 Proofs.PolarsP5.
Local Open Scope string_scope.
Local Open Scope list_scope.

(* ------------------------------------------------------------------ the value a window aggregate gives to a row *)
Definition wval (cs : list string) (RS : list (list val)) (part : list string) (e : expr) (r : list val) : val :=
  agg_fn fl_pandas (agg_name e) (map (argval e cs) (filter (fun r0 => keys_eqv (key_of cs part r) (key_of cs part r0)) RS)).
Definition hrow (cs : list string) (RS : list (list val)) (part : list string) (ops : list (string * expr)) (r : list val) : list val :=
  fst (fold_left (fun acc ke => let '(row, ccs) := acc in
                                (set_cell ccs row (fst ke) (wval cs RS part (snd ke) r), add_end ccs (fst ke))) ops (r, cs)).

Lemma wval_perm cs RS RS' part e r : agg_vocab e = true -> Permutation RS RS' -> wval cs RS part e r = wval cs RS' part e r.
Proof.
  intros V P. unfold wval. apply agg_fn_perm; [apply agg_vocab_name; exact V|].
  apply Permutation_map. apply perm_filter. exact P.
Qed.

Lemma hrow_perm cs RS RS' part (ops : list (string * expr)) r : forallb agg_vocab (map snd ops) = true -> Permutation RS RS' ->
  hrow cs RS part ops r = hrow cs RS' part ops r.
Proof.
  intros V P. unfold hrow. generalize (r, cs) as acc. induction ops as [|ke t IH]; intros acc; [reflexivity|].
  cbn [map forallb] in V. apply andb_true_iff in V. destruct V as [V1 V2]. cbn [fold_left].
  rewrite (wval_perm cs RS RS' part (snd ke) r V1 P). apply IH. exact V2.
Qed.

(* ------------------------------------------------------------------ keys *)
Lemma keys_eqv_cong_l a b c : keys_eqv a b = true -> keys_eqv a c = keys_eqv b c.
Proof.
  revert b c. induction a as [|x t IH]; intros [|y u] [|z v]; simpl; intros H; try discriminate; try reflexivity.
  apply andb_true_iff in H. destruct H as [H1 H2]. rewrite (SemOrderP.v_eqv_cong_l x y z H1), (IH u v H2). reflexivity.
Qed.

(* ------------------------------------------------------------------ Model/Sem.v window_column for a group aggregate *)
Lemma find_app {A} (p : A -> bool) l1 l2 : find p (l1 ++ l2) = match find p l1 with Some y => Some y | None => find p l2 end.
Proof. induction l1 as [|x t IH]; simpl; [reflexivity|]. destruct (p x); [reflexivity|exact IH]. Qed.

Lemma combine_map_const {A B} (l : list (nat * A)) (f : nat * A -> B) (a : val) :
  combine (map fst l) (map (fun _ => a) (map f l)) = map (fun ir => (fst ir, a)) l.
Proof. induction l as [|x t IH]; simpl; [reflexivity|]. rewrite IH. reflexivity. Qed.

Lemma find_tag_none {A} (l : list (nat * A)) (a : val) i : (forall ir, In ir l -> fst ir <> i) ->
  find (fun p : nat * val => Nat.eqb (fst p) i) (map (fun ir => (fst ir, a)) l) = None.
Proof.
  induction l as [|x t IH]; simpl; intros H; [reflexivity|].
  destruct (Nat.eqb (fst x) i) eqn:E; [apply Nat.eqb_eq in E; exfalso; apply (H x); auto|]. apply IH. intros ir I. apply H. auto.
Qed.
Lemma find_tag_some {A} (l : list (nat * A)) (a : val) i : (exists ir, In ir l /\ fst ir = i) ->
  find (fun p : nat * val => Nat.eqb (fst p) i) (map (fun ir => (fst ir, a)) l) = Some (i, a).
Proof.
  induction l as [|x t IH]; simpl; intros [ir [I E]]; [destruct I|].
  destruct (Nat.eqb (fst x) i) eqn:Ex; [apply Nat.eqb_eq in Ex; rewrite Ex; reflexivity|].
  apply IH. destruct I as [<-|I]; [apply Nat.eqb_neq in Ex; congruence|]. eauto.
Qed.

Lemma tag_from_unique n rs ir : In ir (tag_from n rs) -> nth_error rs (fst ir - n) = Some (snd ir) /\ (n <= fst ir)%nat.
Proof.
  revert n. induction rs as [|x t IH]; intros n; simpl; [tauto|]. intros [<-|I].
  - cbn [fst snd]. rewrite Nat.sub_diag. split; [reflexivity|lia].
  - destruct (IH _ I) as [A B]. split; [|lia]. replace (fst ir - n)%nat with (S (fst ir - S n)) by lia. exact A.
Qed.

Lemma filter_tag_snd (p : list val -> bool) n l : map snd (filter (fun ir : nat * list val => p (snd ir)) (tag_from n l)) = filter p l.
Proof. revert n. induction l as [|x t IH]; intros n; simpl; [reflexivity|]. destruct (p x); simpl; rewrite IH; reflexivity. Qed.

Lemma in_tag_from n rs i r : nth_error rs i = Some r -> In ((n + i)%nat, r) (tag_from n rs).
Proof. intros N. apply nth_error_In with (n := i). rewrite nth_error_tag_from, N. reflexivity. Qed.

(* the window column of a vocabulary aggregate, written out *)
Lemma window_column_agg w t e : agg_vocab e = true ->
  window_column fl_pandas w t e =
  flat_map (fun k =>
      let S := stable_sort (fun a b => row_le fl_pandas (cols t) (map (fun c => (c, mem c (w_rev w))) (w_order w)) (snd a) (snd b))
                 (filter (fun ir => keys_eqv k (key_of (cols t) (w_part w) (snd ir))) (tag_from 0 (rows t))) in
      map (fun ir => (fst ir, agg_fn fl_pandas (agg_name e) (map (fun ir0 => argval e (cols t) (snd ir0)) S))) S)
    (distinct_keys (map (fun r => key_of (cols t) (w_part w) r) (rows t))).
Proof.
  intros V. unfold window_column. apply flat_map_ext. intros k. cbv zeta.
  destruct e as [c|v|op [|a [|b rest]]]; cbn [agg_vocab] in V; try discriminate.
  - split_mem V; try discriminate; cbn [win_parts win_fn agg_name argval]; apply combine_map_const.
  - apply andb_true_iff in V. destruct V as [V S0]. destruct a as [c| |]; try discriminate.
    split_mem V; try discriminate; cbn [win_parts win_fn agg_name flat_map]; apply combine_map_const.
Qed.

Lemma window_lookup w t e i r : agg_vocab e = true -> nth_error (rows t) i = Some r ->
  lookup_pos (window_column fl_pandas w t e) i = wval (cols t) (rows t) (w_part w) e r.
Proof.
  intros V N. rewrite (window_column_agg w t e V).
  set (cs := cols t). set (part := w_part w).
  set (le := fun a b : nat * list val => row_le fl_pandas cs (map (fun c => (c, mem c (w_rev w))) (w_order w)) (snd a) (snd b)).
  set (tagged := tag_from 0 (rows t)).
  set (SK := fun k => stable_sort le (filter (fun ir => keys_eqv k (key_of cs part (snd ir))) tagged)).
  set (AK := fun k => agg_fn fl_pandas (agg_name e) (map (fun ir0 : nat * list val => argval e cs (snd ir0)) (SK k))).
  change (lookup_pos (flat_map (fun k => map (fun ir => (fst ir, AK k)) (SK k)) (distinct_keys (map (fun r0 => key_of cs part r0) (rows t)))) i
          = wval cs (rows t) part e r).
  assert (forall k ir, In ir (SK k) -> In ir tagged /\ keys_eqv k (key_of cs part (snd ir)) = true) as InS.
  { intros k ir I. unfold SK in I. apply SemBasicP.stable_sort_In in I. apply filter_In in I. exact I. }
  assert (forall ir, In ir tagged -> fst ir = i -> snd ir = r) as Uniq.
  { intros ir I E. destruct (tag_from_unique 0 (rows t) ir I) as [A _]. rewrite Nat.sub_0_r, E, N in A. congruence. }
  assert (In (i, r) tagged) as Iir by (apply (in_tag_from 0 (rows t) i r N)).
  (* the value of the group of r *)
  assert (forall k, keys_eqv k (key_of cs part r) = true -> AK k = wval cs (rows t) part e r) as Val.
  { intros k E. unfold AK, wval, SK.
    apply agg_fn_perm; [apply agg_vocab_name; exact V|].
    rewrite <- (map_map snd (argval e cs)). apply Permutation_map.
    eapply perm_trans; [apply Permutation_map, SemOrderP.stable_sort_perm|].
    rewrite (filter_ext_in' (fun ir : nat * list val => keys_eqv k (key_of cs part (snd ir)))
                            (fun ir => (fun r0 => keys_eqv (key_of cs part r) (key_of cs part r0)) (snd ir))).
    - unfold tagged. rewrite (filter_tag_snd (fun r0 => keys_eqv (key_of cs part r) (key_of cs part r0)) 0 (rows t)). apply Permutation_refl.
    - intros ir _. cbv beta. apply keys_eqv_cong_l. exact E. }
  assert (exists k, In k (distinct_keys (map (fun r0 => key_of cs part r0) (rows t))) /\ keys_eqv k (key_of cs part r) = true) as Ex.
  { apply distinct_keys_complete. apply in_map_iff. exists r. split; [reflexivity|]. eapply nth_error_In; eassumption. }
  revert Ex. generalize (distinct_keys (map (fun r0 => key_of cs part r0) (rows t))) as G.
  induction G as [|k G IH]; intros [k0 [I0 E0]]; [destruct I0|].
  cbn [flat_map]. unfold lookup_pos. rewrite find_app.
  destruct (keys_eqv k (key_of cs part r)) eqn:Ek.
  - rewrite (find_tag_some (SK k) (AK k) i).
    + cbn [snd]. apply Val. exact Ek.
    + exists (i, r). split; [|reflexivity]. unfold SK.
      eapply Permutation_in; [apply Permutation_sym, SemOrderP.stable_sort_perm|]. apply filter_In. split; [exact Iir|exact Ek].
  - rewrite (find_tag_none (SK k) (AK k) i).
    + apply IH. destruct I0 as [->|I0]; [congruence|]. eauto.
    + intros ir I E. destruct (InS k ir I) as [It Ke]. rewrite (Uniq ir It E) in Ke. congruence.
Qed.

Lemma fold_left_map' {A B C} (f : A -> B -> A) (g : C -> B) l a : fold_left f (map g l) a = fold_left (fun acc x => f acc (g x)) l a.
Proof. revert a. induction l as [|x t IH]; intros a; simpl; [reflexivity|]. apply IH. Qed.
Lemma fold_left_ext_in' {A B} (f f' : A -> B -> A) l a : (forall acc x, In x l -> f acc x = f' acc x) -> fold_left f l a = fold_left f' l a.
Proof.
  revert a. induction l as [|x t IH]; intros a H; simpl; [reflexivity|]. rewrite (H a x) by (left; reflexivity).
  apply IH. intros acc y I. apply H. right. exact I.
Qed.

Lemma sem_wextend_rows (ops : list (string * expr)) w t : width_ok t -> forallb agg_vocab (map snd ops) = true ->
  rows (sem_wextend fl_pandas ops w t) = map (hrow (cols t) (rows t) (w_part w) ops) (rows t).
Proof.
  intros W V. unfold sem_wextend. cbn [rows]. apply map_tag_from_rowwise. intros i r N. cbn [fst snd].
  unfold hrow. rewrite fold_left_map'. f_equal. apply fold_left_ext_in'. intros [row0 ccs0] ke Ike. cbn [fst snd].
  rewrite (window_lookup w t (snd ke) i r); [reflexivity| |exact N].
  rewrite forallb_forall in V. apply V. apply in_map. exact Ike.
Qed.

(* ------------------------------------------------------------------ the loop of _extend_step in a windowed situation *)
Definition agg_xe (one : string) (e : expr) : plx := match tr_expr one true e with Ok x => x | _ => PLit VNull end.

Lemma fold_extend_true one pb (ops : list (string * expr)) temps acc names : forallb agg_vocab (map snd ops) = true ->
  fold_left (extend_fold_step one true pb) ops (Ok (temps, acc, names)) =
  Ok (temps, acc ++ map (fun ke => (fst ke, COver (agg_xe one (snd ke)) pb)) ops, names).
Proof.
  revert acc. induction ops as [|ke t IH]; intros acc V; [simpl; rewrite app_nil_r; reflexivity|].
  cbn [map forallb] in V. apply andb_true_iff in V. destruct V as [V1 V2].
  destruct (agg_plx_value one (snd ke) V1) as [x [T _]].
  assert (extend_fold_step one true pb (Ok (temps, acc, names)) ke = Ok (temps, acc ++ [(fst ke, COver x pb)], names)) as S1.
  { unfold extend_fold_step. cbn [rbind]. rewrite (agg_vocab_promote _ _ _ _ V1), T. cbn [rbind].
    destruct (snd ke) as [c|v|op args]; cbn [agg_vocab] in V1; try discriminate. reflexivity. }
  cbn [fold_left map]. rewrite S1, IH by exact V2. rewrite <- app_assoc. cbn [app]. unfold agg_xe at 2. rewrite T. reflexivity.
Qed.

(* ------------------------------------------------------------------ the step *)
Lemma wextend_step_perm declared (ops : list (string * expr)) w t t' t2 :
  good t -> cols t = cols t' -> Permutation (rows t) (rows t') -> width_ok t' ->
  declared = ext_cols (cols t) (map fst ops) ->
  forallb agg_vocab (map snd ops) = true ->
  (forall c, In c (flat_map (fun ke => expr_cols (snd ke)) ops) \/ In c (w_part w) -> In c (cols t)) ->
  pl_extend_step declared ops true w t = Ok t2 ->
  cols t2 = ext_cols (cols t) (map fst ops) /\ Permutation (rows t2) (rows (sem_wextend fl_pandas ops w t')).
Proof.
  intros [ND W] C P W' -> V NR H.
  (* the reference side, on t' and then on t *)
  rewrite (sem_wextend_rows ops w t' W' V). rewrite <- C.
  assert (Permutation (map (hrow (cols t) (rows t) (w_part w) ops) (rows t)) (map (hrow (cols t) (rows t') (w_part w) ops) (rows t'))) as PR.
  { rewrite (map_ext _ _ (fun r => hrow_perm (cols t) (rows t) (rows t') (w_part w) ops r V P)). apply Permutation_map. exact P. }
  cut (cols t2 = ext_cols (cols t) (map fst ops) /\ Permutation (rows t2) (map (hrow (cols t) (rows t) (w_part w) ops) (rows t))).
  { intros [A B]. split; [exact A|]. eapply perm_trans; eassumption. }
  clear PR P W' C t'.
  unfold pl_extend_step in H.
  set (used := ext_cols (cols t) (map fst ops)) in *.
  set (P := fresh extend_part_base used) in *.
  set (pb := match w_part w with [] => [P] | (_ :: _) as p => p end) in *.
  set (names1 := match w_part w with [] => P :: used | _ :: _ => used end) in *.
  set (z := fresh zero_base names1) in *.
  set (o := fresh one_base (z :: names1)) in *.
  set (temps0 := match w_part w with [] => [(P, CPlain (lit_int 1))] | _ :: _ => [] end) in *.
  set (temps := temps0 ++ req_temps z o (map snd ops)) in *.
  destruct (step_temps_ok (w_part w) extend_part_base used (map snd ops) V) as [TO LG].
  fold P names1 z o temps0 temps in TO, LG.
  assert (forall c, In c (cols t) -> In c used) as SubU by (intros c I; unfold used; apply In_ext_cols; left; exact I).
  rewrite fold_extend_true in H by exact V. cbn [rbind app] in H.
  set (produced := map (fun ke => (fst ke, COver (agg_xe o (snd ke)) pb)) ops) in *.
  rewrite (with_columns_if_lits t temps (to_lit _ _ _ _ TO)) in H.
  set (cs1 := ext_cols (cols t) (map fst temps)) in *.
  set (w1 := temps_row t temps) in *.
  set (r2 := match w_order w with
             | [] => mktable cs1 (map w1 (rows t))
             | (_ :: _) as ob => pl_sort (map (fun c => (c, mem c (w_rev w))) ob) (mktable cs1 (map w1 (rows t)))
             end) in *.
  assert (cols r2 = cs1) as C2 by (unfold r2; destruct (w_order w); reflexivity).
  assert (Permutation (rows r2) (map w1 (rows t))) as P2.
  { unfold r2. destruct (w_order w); [apply Permutation_refl|]. cbn [pl_sort rows cols]. apply SemOrderP.stable_sort_perm. }
  set (r3 := pl_with_columns r2 produced) in *.
  assert (map fst produced = map fst ops) as MF by (unfold produced; rewrite map_map; reflexivity).
  set (declared := used) in *.
  assert (NoDup declared) as NDd by (apply NoDup_ext_cols; exact ND).
  (* rows of r2 are rows of t with the temporaries *)
  assert (forall row2, In row2 (rows r2) -> exists r, In r (rows t) /\ row2 = w1 r) as From.
  { intros row2 I. apply (Permutation_in _ P2) in I. apply in_map_iff in I. destruct I as [r [<- I]]. eauto. }
  assert (forall r, In r (rows t) -> List.length (w1 r) = List.length cs1) as L1.
  { intros r I. apply temps_row_len. apply width_row; auto. }
  assert (forall r c, In r (rows t) -> In c used -> get cs1 (w1 r) c = get (cols t) r c) as G1.
  { intros r c I Nc. apply temps_row_get_user; [apply (to_lit _ _ _ _ TO)|apply width_row; auto|apply (temps_user temps used o _ c TO Nc)]. }
  (* the partition key of a row of r2 *)
  assert (forall r r0, In r (rows t) -> In r0 (rows t) ->
            keys_eqv (key_of cs1 pb (w1 r)) (key_of cs1 pb (w1 r0)) = keys_eqv (key_of (cols t) (w_part w) r) (key_of (cols t) (w_part w) r0)) as KP.
  { intros r r0 I I0. unfold pb. destruct (w_part w) as [|p0 pt] eqn:Ep.
    - assert (forall x, In x (rows t) -> key_of cs1 [P] (w1 x) = [qn (inject_Z 1)]) as K1.
      { intros x Ix. unfold key_of. cbn [map]. f_equal. unfold cs1, w1.
        rewrite temps_row_get by (try apply (to_lit _ _ _ _ TO); apply width_row; auto).
        rewrite (LG ltac:(first [reflexivity|exact Ep])). reflexivity. }
      rewrite (K1 r I), (K1 r0 I0). reflexivity.
    - assert (forall x, In x (rows t) -> key_of cs1 (p0 :: pt) (w1 x) = key_of (cols t) (p0 :: pt) x) as K1.
      { intros x Ix. unfold key_of. apply map_ext_in. intros c Ic. apply G1; [exact Ix|]. apply SubU, NR. right. try rewrite Ep. exact Ic. }
      rewrite (K1 r I), (K1 r0 I0). reflexivity. }
  (* a cell computed by .over on r2 *)
  assert (forall i r ke, nth_error (rows r2) i = Some (w1 r) -> In r (rows t) -> In ke ops ->
            col_at r2 (COver (agg_xe o (snd ke)) pb) i = wval (cols t) (rows t) (w_part w) (snd ke) r) as CV.
  { intros i r ke N Ir Ike. cbn [col_at]. rewrite C2. rewrite (nth_error_nth _ _ [] N).
    rewrite (map_nth_filter_seq (fun r' => keys_eqv (key_of cs1 pb (w1 r)) (key_of cs1 pb r')) (rows r2)).
    assert (agg_vocab (snd ke) = true) as Vk by (rewrite forallb_forall in V; apply V; apply in_map; exact Ike).
    set (q := fun r' => keys_eqv (key_of cs1 pb (w1 r)) (key_of cs1 pb r')).
    assert (Permutation (filter q (rows r2)) (map w1 (filter (fun r0 => keys_eqv (key_of (cols t) (w_part w) r) (key_of (cols t) (w_part w) r0)) (rows t)))) as PF.
    { eapply perm_trans; [apply perm_filter, P2|]. rewrite filter_map_commute.
      rewrite (filter_ext_in' (fun x => q (w1 x)) (fun r0 => keys_eqv (key_of (cols t) (w_part w) r) (key_of (cols t) (w_part w) r0)))
        by (intros r0 I0; unfold q; apply KP; assumption).
      apply Permutation_refl. }
    unfold wval.
    transitivity (agg_fn fl_pandas (agg_name (snd ke)) (map (argval (snd ke) cs1) (filter q (rows r2)))).
    - destruct (agg_plx_value o (snd ke) Vk) as [x [T E]]. unfold agg_xe. rewrite T. apply E.
      intros Uo row2 I2. apply filter_In in I2. destruct I2 as [I2 _]. destruct (From row2 I2) as [r0 [I0 ->]].
      apply (temps_one t temps used o _ r0 TO); [|apply width_row; auto].
      eapply needs_one_of_uses; [exact V|apply in_map; exact Ike|exact Uo].
    - rewrite (agg_fn_perm fl_pandas _ _ _ (agg_vocab_name _ Vk) (Permutation_map (argval (snd ke) cs1) PF)).
      f_equal. rewrite map_map. apply map_ext_in. intros r0 I0. apply filter_In in I0. destruct I0 as [I0 _].
      apply (argval_temps t temps used o _ (snd ke) r0 TO Vk); [apply width_row; auto|].
      intros c Ic. apply SubU, NR. left. apply in_flat_map. exists ke. auto. }
  (* the final rows, as a function of the rows of r2 *)
  set (unw := fun row2 : list val => map (get cs1 row2) (cols t)).
  assert (forall r, In r (rows t) -> unw (w1 r) = r) as UW.
  { intros r I. unfold unw. rewrite (map_ext_in (get cs1 (w1 r)) (get (cols t) r)).
    - apply get_map_self; [exact ND|apply width_row; auto].
    - intros c Ic. apply G1; [exact I|]. apply SubU. exact Ic. }
  assert (t2 = sem_select_cols declared r3) as E2.
  { unfold select_if in H. destruct temps eqn:Et.
    - injection H as H'. rewrite <- H'. clear H'. symmetry.
      assert (cols r3 = declared) as C3.
      { unfold r3. rewrite cols_with_columns, C2, MF. unfold cs1. try rewrite Et. reflexivity. }
      rewrite <- C3. apply select_self; [rewrite C3; exact NDd|].
      apply width_with_columns. unfold width_ok. rewrite C2. apply Forall_forall. intros row2 I2.
      destruct (From row2 I2) as [r [I ->]]. apply L1. exact I.
    - apply pl_select_ok in H. tauto. }
  subst t2. split; [reflexivity|].
  rewrite rows_select. unfold r3 at 2. rewrite rows_with_columns, map_map.
  eapply perm_trans; [|rewrite <- (map_ext_in (fun r => hrow (cols t) (rows t) (w_part w) ops (unw (w1 r))) _ (rows t))
                          by (intros r I; rewrite (UW r I); reflexivity);
                        rewrite <- (map_map w1 (fun row2 => hrow (cols t) (rows t) (w_part w) ops (unw row2)));
                        apply Permutation_map, P2].
  rewrite (map_tag_from_rowwise _ (fun row2 => hrow (cols t) (rows t) (w_part w) ops (unw row2))); [apply Permutation_refl|].
  intros i row2 N.
  assert (In row2 (rows r2)) as I2 by (eapply nth_error_In; eassumption).
  destruct (From row2 I2) as [r [Ir ->]]. rewrite (UW r Ir).
  pose proof (width_row _ _ W Ir) as L.
  apply row_ext with (cs := declared); [exact NDd|apply map_length| |].
  - unfold hrow. rewrite (fold_cells_len (fun ke => wval (cols t) (rows t) (w_part w) (snd ke) r)) by exact L. reflexivity.
  - intros c Ic. rewrite (get_map_get _ (get (cols r3) (wc_row r2 produced (i, w1 r)))) by assumption.
    unfold r3. rewrite cols_with_columns.
    rewrite wc_row_get by (rewrite C2; apply L1; exact Ir). rewrite C2.
    unfold hrow, declared, used. rewrite (fold_cells_get_full (fun ke => wval (cols t) (rows t) (w_part w) (snd ke) r)) by exact L.
    unfold produced at 1. rewrite (last_for_map (fun ke => (fst ke, COver (agg_xe o (snd ke)) pb))) by reflexivity.
    destruct (last_for c ops) as [ke|] eqn:Lf; cbn [option_map snd].
    + destruct (last_for_Some _ _ _ Lf) as [_ Ike]. apply CV; assumption.
    + apply G1; [exact Ir|]. exact Ic.
Qed.
