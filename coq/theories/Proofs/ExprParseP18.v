(* Proofs/ExprParseP18.v -- C13, part 3 (end): every expression the walker builds from a source AST is printable
   (under the listed guards); the round-trip theorems. *)
From Coq Require Import List Bool String Ascii ZArith NArith QArith Arith Lia.
Import ListNotations.
From DA Require Import Model.PyExpr Model.ExprPrint Model.ExprParse Model.ExprAst Model.ExprRoundtrip
  Proofs.ExprParseP1 Proofs.ExprParseP2 Proofs.ExprParseP6 Proofs.ExprParseP9 Proofs.ExprParseP10 Proofs.ExprParseP12
  Proofs.ExprParseP13 Proofs.ExprParseP14 Proofs.ExprParseP15 Proofs.ExprParseP16 Proofs.ExprParseP17.
Local Close Scope Q_scope.
Local Open Scope string_scope.
Local Open Scope bool_scope.
Local Open Scope list_scope.

Section Main.
Variables (c : cfg) (dd : list string).
Notation PR := (printable c dd).
Notation W := (walk c dd).

Definition built (d : dtree) : Prop := forall e, W (strip d) = Ok e -> PR e = true.

Lemma args_pr (children : list dtree) : forall args,
  all_ok (map W (map strip children)) = Ok args ->
  (forall ch, In ch children -> built ch) -> forallb PR args = true.
Proof. induction children as [|ch children IH]; intros args H Hb.
  - simpl in H. inversion H. reflexivity.
  - cbn [map all_ok] in H. destruct (W (strip ch)) as [x|] eqn:Wx; [|discriminate H].
    destruct (all_ok (map W (map strip children))) as [xs|] eqn:A; [|discriminate H]. inversion H; subst.
    cbn [forallb].
    rewrite (Hb ch (or_introl eq_refl) x Wx), (IH xs eq_refl (fun y Hy => Hb y (or_intror Hy))). reflexivity. Qed.

Lemma all_ok_length {A} (l : list (res A)) r : all_ok l = Ok r -> List.length r = List.length l.
Proof. revert r. induction l as [|[x|] l IH]; intros r H; simpl in H; try discriminate H.
  - inversion H. reflexivity.
  - destruct (all_ok l) eqn:E; [|discriminate H]. inversion H; subst. simpl. rewrite (IH _ eq_refl). reflexivity. Qed.

Lemma flat_map_snd (l : list (string * ltree)) : flat_map (fun p : string * ltree => [snd p]) l = map snd l.
Proof. induction l as [|p l IH]; [reflexivity|]. simpl. rewrite IH. reflexivity. Qed.

Lemma kops_of_plus_times o : mem_str o ["+"; "*"] = true -> mem_str o kops = true.
Proof. intros H. apply mem_str_In in H. simpl in H. destruct H as [<-|[<-|[]]]; reflexivity. Qed.

(* an n-ary node built by kop_expr *)
Lemma kop_pr op args : mem_str op kops = true -> mem_str op (known c) = true -> 2 <= List.length args ->
  forallb PR args = true -> PR (EOp op true false None args) = true.
Proof. intros Hk Hkn Hl Pa. cbn [printable]. rewrite Pa, Hkn. cbn [andb negb].
  destruct args as [|a [|b more]]; simpl in Hl; try lia. rewrite Hk. reflexivity. Qed.

(* ---- binary levels *)
Lemma built_chain L d0 rest : wfn (DChain L d0 rest) = true -> built d0 -> (forall p, In p rest -> built (snd p)) ->
  built (DChain L d0 rest).
Proof. intros Wf B0 Br e Hw. pose proof Wf as Wf'. simpl in Wf'.
  apply andb_prop in Wf' as [Wf' Hrest]. apply andb_prop in Wf' as [Wf' _]. apply andb_prop in Wf' as [Wf' _].
  apply andb_prop in Wf' as [Hcl Hne]. rewrite forallb_forall in Hrest.
  assert (Hops : forall p, In p rest -> is_binop_at L (fst p) = true).
  { intros p Hp. specialize (Hrest p Hp). apply andb_prop in Hrest as [Hr _]. apply andb_prop in Hr as [Ho _]. exact Ho. }
  set (rest' := map (fun p : string * dtree => (fst p, strip (snd p))) rest).
  assert (Hne' : rest' <> []). { unfold rest'. destruct rest; [discriminate Hne|discriminate]. }
  assert (Hops' : forall p, In p rest' -> is_binop_at L (fst p) = true).
  { intros p Hp. unfold rest' in Hp. apply in_map_iff in Hp as [q [<- Hq]]. exact (Hops q Hq). }
  assert (Hb' : forall p x, In p rest' -> W (snd p) = Ok x -> PR x = true).
  { intros p x Hp. unfold rest' in Hp. apply in_map_iff in Hp as [q [<- Hq]]. exact (Br q Hq x). }
  assert (Hsnd : map snd rest' = map strip (map snd rest)). { unfold rest'. rewrite !map_map. reflexivity. }
  cbn [strip] in Hw. fold rest' in Hw. unfold mk_chain in Hw. destruct rest' as [|p0 rest0] eqn:Er; [congruence|]. rewrite <- Er in *. clear Er p0 rest0.
  (* the n-ary and / or nodes *)
  assert (Hbool : forall nm op, level_name L = nm -> level_keeps L = false ->
            (forall cs rs g a, walk_node c nm cs rs g a =
               if Nat.ltb (List.length cs) 2 then Err
               else match all_ok rs with Ok args => mk_expr c op args true false | Err => Err end) ->
            mem_str op kops = true -> PR e = true).
  { intros nm op Hn Hk Hwn Hkop. rewrite Hn, Hk, flat_map_snd, Hsnd in Hw. rewrite walk_node_eq, Hwn in Hw.
    destruct (Nat.ltb _ 2); [discriminate Hw|].
    change (strip d0 :: map strip (map snd rest)) with (map strip (d0 :: map snd rest)) in Hw.
    destruct (all_ok (map W (map strip (d0 :: map snd rest)))) as [args|] eqn:A; [|discriminate Hw].
    apply mk_expr_inv in Hw as [-> [Hkn _]]. apply kop_pr; [exact Hkop|exact Hkn| |].
    - rewrite (all_ok_length _ _ A), !map_length. destruct rest; [discriminate Hne|simpl; lia].
    - apply (args_pr (d0 :: map snd rest) args A).
      intros ch [<-|Hch]; [exact B0|]. apply in_map_iff in Hch as [q [<- Hq]]. exact (Br q Hq). }
  (* the left-to-right chains *)
  assert (Hchain : In L [3; 8; 9] ->
            chain_fold c (W (strip d0)) (map (fun p => Some (fst p)) rest') (map W (map snd rest')) = Ok e -> PR e = true).
  { intros HL Hc. rewrite map_map in Hc. destruct (W (strip d0)) as [a0|] eqn:W0.
    2:{ destruct rest' as [|p r]; [congruence|]. simpl in Hc. discriminate Hc. }
    apply (chain_pr c dd L HL rest' a0 e Hops' Hc (B0 a0 W0)).
    intros p x Hp Hx. exact (Hb' p x Hp Hx). }
  assert (Hshape : forall nm, level_name L = nm -> level_keeps L = true ->
            W (LNode nm (strip d0 :: inter2 rest')) = Ok e).
  { intros nm Hn Hk. rewrite Hn, Hk in Hw. exact Hw. }
  destruct L as [|[|[|[|[|[|[|[|[|[|L]]]]]]]]]]; simpl in Hcl; try discriminate Hcl.
  - apply (Hbool "or_test" "or" eq_refl eq_refl); [intros; apply wn_or|reflexivity].
  - apply (Hbool "and_test" "and" eq_refl eq_refl); [intros; apply wn_and|reflexivity].
  - (* comparison *)
    pose proof (Hshape "comparison" eq_refl eq_refl) as H3. rewrite walk_node_eq, wn_comparison in H3.
    destruct (Nat.ltb _ 3 || Nat.even _); [discriminate H3|]. destruct (Nat.ltb 3 _); [discriminate H3|].
    rewrite odds_inter2, evens_map, evens_inter2, !map_map in H3. cbn [map nth tok_text] in H3.
    apply Hchain; [simpl; tauto|exact H3].
  - cbn [level_name level_keeps] in Hw. rewrite flat_map_snd in Hw. rewrite walk_node_eq, (wn_bitwise c "expr") in Hw; [discriminate Hw|simpl; tauto].
  - cbn [level_name level_keeps] in Hw. rewrite flat_map_snd in Hw. rewrite walk_node_eq, (wn_bitwise c "xor_expr") in Hw; [discriminate Hw|simpl; tauto].
  - cbn [level_name level_keeps] in Hw. rewrite flat_map_snd in Hw. rewrite walk_node_eq, (wn_bitwise c "and_expr") in Hw; [discriminate Hw|simpl; tauto].
  - pose proof (Hshape "shift_expr" eq_refl eq_refl) as H7. rewrite walk_node_eq, wn_shift in H7. discriminate H7.
  - (* arith_expr *)
    pose proof (Hshape "arith_expr" eq_refl eq_refl) as H8. rewrite walk_node_eq, (wn_arith c "arith_expr") in H8; [|simpl; tauto].
    destruct (Nat.ltb _ 3 || Nat.even _); [discriminate H8|].
    rewrite odds_inter2, evens_map, evens_inter2, !map_map in H8. cbn [map nth tok_text] in H8.
    destruct (kopsel (map (fun x : string * ltree => Some (fst x)) rest')) as [o|] eqn:K.
    + destruct (kopsel_spec _ _ K) as [_ Ho].
      rewrite Hsnd in H8.
      change (W (strip d0) :: map W (map strip (map snd rest))) with (map W (map strip (d0 :: map snd rest))) in H8.
      destruct (all_ok (map W (map strip (d0 :: map snd rest)))) as [args|] eqn:A; [|discriminate H8].
      apply mk_expr_inv in H8 as [-> [Hkn _]]. apply kop_pr; [exact (kops_of_plus_times o Ho)|exact Hkn| |].
      * rewrite (all_ok_length _ _ A), !map_length. destruct rest; [discriminate Hne|simpl; lia].
      * apply (args_pr (d0 :: map snd rest) args A).
        intros ch [<-|Hch]; [exact B0|]. apply in_map_iff in Hch as [q [<- Hq]]. exact (Br q Hq).
    + apply Hchain; [simpl; tauto|exact H8].
  - (* term *)
    pose proof (Hshape "term" eq_refl eq_refl) as H9. rewrite walk_node_eq, (wn_arith c "term") in H9; [|simpl; tauto].
    destruct (Nat.ltb _ 3 || Nat.even _); [discriminate H9|].
    rewrite odds_inter2, evens_map, evens_inter2, !map_map in H9. cbn [map nth tok_text] in H9.
    destruct (kopsel (map (fun x : string * ltree => Some (fst x)) rest')) as [o|] eqn:K.
    + destruct (kopsel_spec _ _ K) as [_ Ho].
      rewrite Hsnd in H9.
      change (W (strip d0) :: map W (map strip (map snd rest))) with (map W (map strip (d0 :: map snd rest))) in H9.
      destruct (all_ok (map W (map strip (d0 :: map snd rest)))) as [args|] eqn:A; [|discriminate H9].
      apply mk_expr_inv in H9 as [-> [Hkn _]]. apply kop_pr; [exact (kops_of_plus_times o Ho)|exact Hkn| |].
      * rewrite (all_ok_length _ _ A), !map_length. destruct rest; [discriminate Hne|simpl; lia].
      * apply (args_pr (d0 :: map snd rest) args A).
        intros ch [<-|Hch]; [exact B0|]. apply in_map_iff in Hch as [q [<- Hq]]. exact (Br q Hq).
    + apply Hchain; [simpl; tauto|exact H9]. Qed.

End Main.
