(* SQLGEN, part 18: the merge invariant and the merged step for NON-AGGREGATE terms (plain expressions or window items):
   MergeInvN / merge_okN restate Proofs/SqlGenP12.v, unary_nonagg_delivers its unary_scalar_delivers, merged_delivers_gen
   Proofs/SqlGenP13.v's merged_delivers (for any outer step, windowed or not), through merge_compose_win. *)
From Coq Require Import List Bool Arith ZArith QArith String Lia.
Import ListNotations.
From DA Require Import Base.PyRT Base.Val Model.Sem Proofs.SemBasicP Model.ColumnsUsed Proofs.ColumnsUsedP1 Proofs.ColumnsUsedP2
  Proofs.ColumnsUsedP4 Model.SqlGen Model.SqlSem Proofs.SqlGenP1 Proofs.SqlGenP2 Proofs.SqlGenP3 Proofs.SqlGenP4 Proofs.SqlGenP5
  Proofs.SqlGenP6 Proofs.SqlGenP10 Proofs.SqlGenP11 Proofs.SqlGenP12 Proofs.SqlGenP13 Proofs.SqlGenP14 Proofs.SqlGenP17.
Local Open Scope list_scope.

Definition merge_okN (l : terms) (dp : depmap) : Prop :=
  l <> [] /\ (forall kt, In kt l -> is_agg_term (snd kt) = false) /\ NoDup (map fst l) /\
  incl (map fst l) (map fst dp) /\ NoDup (map fst dp) /\ deps_describe l dp.
Definition MergeInvN (q : tnear) : Prop :=
  forall n ts s0 ci sfx dp, q = TUnary n ts s0 ci sfx true (Some dp) -> sfx = SfxNone /\ exists l, ts = Some l /\ merge_okN l dp.

Lemma scalar_not_agg t : scalar_term t = true -> is_agg_term t = false.
Proof. destruct t; simpl; intros H; try discriminate; reflexivity. Qed.
Lemma merge_ok_weaken l dp : merge_ok l dp -> merge_okN l dp.
Proof. intros [A [B C]]. split; [exact A|]. split; [intros kt I; apply scalar_not_agg, B, I|exact C]. Qed.
Lemma merge_inv_weaken q : MergeInv q -> MergeInvN q.
Proof. intros M n ts s0 ci sfx dp E. destruct (M n ts s0 ci sfx dp E) as [A [l [B C]]]. split; [exact A|]. exists l. split; [exact B|apply merge_ok_weaken, C]. Qed.

Lemma merge_invN_not_mergeable n ts s0 ci sfx dp : MergeInvN (TUnary n ts s0 ci sfx false dp).
Proof. intros n' ts' s0' ci' sfx' dp' E. discriminate. Qed.
Lemma merge_invN_table n ts : MergeInvN (TTable n ts).
Proof. intros n' ts' s0' ci' sfx' dp' E. discriminate. Qed.
Lemma merge_invN_binary n t s1 c1 j s2 c2 on : MergeInvN (TBinary n t s1 c1 j s2 c2 on).
Proof. intros n' ts' s0' ci' sfx' dp' E. discriminate. Qed.

Lemma merge_invN_restrict q K q' : MergeInvN q -> restrict_terms q K = Some q' -> K <> [] -> NoDup K -> MergeInvN q'.
Proof.
  intros M E NE NK n ts s0 ci sfx dp Eq. subst q'.
  destruct q as [nm tt|nm l s ci0 sfx0 mg dp0|nm l s1 c1 j s2 c2 on]; simpl in E.
  - destruct (subset K _); discriminate.
  - destruct (subset K _) eqn:Sb; [|discriminate]. injection E as E1 E2 E3 E4 E5 E6 E7. subst n ts s0 ci sfx mg dp0.
    destruct (M nm l s ci0 sfx0 dp eq_refl) as [-> [l0 [-> [NL [SC [ND [IK [NDd DD]]]]]]]]. split; [reflexivity|].
    pose proof (proj1 (subset_spec _ _) Sb) as Sb'. cbn in Sb'.
    eexists. split; [reflexivity|]. repeat split.
    + destruct K as [|k0 K']; [congruence|]. cbn [flat_map]. specialize (Sb' k0 (or_introl eq_refl)).
      destruct (dict_get l0 k0) eqn:G; [discriminate|]. apply dict_get_None in G. contradiction.
    + intros kt I. apply in_flat_map in I. destruct I as [k [_ I]]. destruct (dict_get l0 k) as [v|] eqn:G; [|destruct I]. destruct I as [<-|[]].
      apply dict_get_In in G. exact (SC _ G).
    + rewrite (keys_restrict l0 K Sb'). exact NK.
    + rewrite (keys_restrict l0 K Sb'). intros k Ik. apply IK, Sb', Ik.
    + exact NDd.
    + intros k t I. apply in_flat_map in I. destruct I as [k1 [_ I]]. destruct (dict_get l0 k1) as [v|] eqn:G; [|destruct I]. destruct I as [[= <- <-]|[]].
      apply dict_get_In in G. exact (DD _ _ G).
  - destruct (subset K _); discriminate.
Qed.

Lemma merge_invN_empty q : terms_is_none q = true -> MergeInvN q -> MergeInvN (empty_terms q).
Proof.
  intros TN M n ts s0 ci sfx dp Eq. destruct q as [nm tt|nm l s ci0 sfx0 mg dp0|nm l s1 c1 j s2 c2 on]; simpl in Eq; try discriminate.
  injection Eq as E1 E2 E3 E4 E5 E6 E7. subst n ts s0 ci sfx mg dp0. destruct l; [discriminate|].
  destruct (M nm None s ci0 sfx0 dp eq_refl) as [_ [l0 [X _]]]. discriminate.
Qed.

Lemma merge_invN_narrow q K q' : MergeInvN q -> NoDup K ->
  (if terms_is_none q then (match K with [] => Some (empty_terms q) | _ => None end) else narrow_or_first q K) = Some q' -> MergeInvN q'.
Proof.
  intros M NK E. destruct (terms_is_none q) eqn:TN.
  - destruct K; [|discriminate]. injection E as <-. apply merge_invN_empty; assumption.
  - unfold narrow_or_first in E. destruct K as [|k1 K'].
    + destruct (tkeys q) as [|k0 rest] eqn:EK.
      * intros n ts s0 ci sfx dp Eq. subst q'. destruct q as [nm tt|nm l s ci0 sfx0 mg dp0|nm l s1 c1 j s2 c2 on]; simpl in E; try discriminate.
        injection E as E1 E2 E3 E4 E5 E6 E7. subst n ts s0 ci sfx mg dp0. destruct l as [l|]; [|discriminate]. destruct (M nm (Some l) s ci0 sfx0 dp eq_refl) as [_ [l0 [X [NL _]]]].
        injection X as <-. simpl in EK. destruct l; [congruence|discriminate].
      * apply (merge_invN_restrict q [k0] q' M E); [discriminate|]. constructor; [intros []|constructor].
    + assert (restrict_terms q (k1 :: K') = Some q') as E' by (destruct (tkeys q); exact E).
      apply (merge_invN_restrict q (k1 :: K') q' M E'); [discriminate|exact NK].
Qed.

Lemma some_inj18 {A} (a b : A) : Some a = Some b -> a = b.
Proof. intros H. injection H as H. exact H. Qed.

Section DirectN.
Variable fl : flavor.
Variable e : env.

(* a row-wise / windowed SELECT restricted to some of its columns is the SELECT of those columns *)
Lemma sql_select_win_sub tm K C A R :
  (forall k, is_agg_term (term_of tm k) = false) -> C <> [] -> incl C K -> K <> [] ->
  sql_select fl true (Some tm) (Some K) SfxNone A = Some R -> sql_select fl true (Some tm) (Some C) SfxNone A = Some (sel C R).
Proof.
  intros NA NC ICK NK E1.
  pose proof (eq_trans (eq_sym (sql_select_win fl tm K A NK (fun k _ => NA k))) E1) as X. injection X as <-.
  refine (eq_trans (sql_select_win fl tm C A NC (fun k _ => NA k)) _). f_equal. unfold sem_select_cols. cbn [cols rows]. f_equal. rewrite map_map.
  apply map_ext. intros ir. apply map_ext_in. intros k Ik. rewrite get_map_cols. assert (mem k K = true) as M by (apply mem_In, ICK, Ik). rewrite M. reflexivity.
Qed.

Lemma unary_nonagg_delivers n tm s0 ci mg dp X u T :
  csem fl e s0 ci = Some X -> tm <> [] -> NoDup (map fst tm) -> (forall kt, In kt tm -> is_agg_term (snd kt) = false) ->
  incl u (map fst tm) -> incl u (cols T) -> List.length (rows X) = List.length (rows T) ->
  (forall K, K <> [] -> NoDup K -> incl K u -> sql_select fl true (Some tm) (Some K) SfxNone X = Some (sel K T)) ->
  Delivers fl e (TUnary n (Some tm) s0 ci SfxNone mg dp) u T.
Proof.
  intros EX NT ND SC Iu IuT L Exact.
  assert (forall k, is_agg_term (term_of tm k) = false) as NA.
  { intros k. unfold term_of. destruct (dict_get tm k) as [t|] eqn:G; [|reflexivity]. apply dict_get_In in G. apply (SC _ G). }
  assert (forall K, K <> [] -> NoDup K -> incl K (map fst tm) ->
          exists R, sql_select fl true (Some tm) (Some K) SfxNone X = Some R /\ sel [] R = sel [] T /\ (incl K u -> R = sel K T) /\
                    (forall C, NoDup C -> incl C K -> incl C u -> sel C R = sel C T)) as Main.
  { intros K NE NK IK. pose proof (sql_select_win fl tm K X NE (fun k _ => NA k)) as E1. eexists. split; [exact E1|].
    match type of E1 with _ = Some ?r => set (R := r) in * end.
    assert (sel [] R = sel [] T) as ER0.
    { apply sel_nil_length. unfold R. cbn [rows]. rewrite map_length, tag_from_length. exact L. }
    split; [exact ER0|]. split.
    - intros IKu. exact (some_inj18 _ _ (eq_trans (eq_sym E1) (Exact K NE NK IKu))).
    - intros C NC IC ICu. destruct C as [|c0 C']; [exact ER0|].
      pose proof (sql_select_win_sub tm K (c0 :: C') X R NA ltac:(discriminate) IC NE E1) as E4.
      exact (some_inj18 _ _ (eq_trans (eq_sym E4) (Exact (c0 :: C') ltac:(discriminate) NC ICu))). }
  constructor.
  - exact ND.
  - exact Iu.
  - exact IuT.
  - intros K NE NK IK. rewrite qsem_unary, EX. apply Main; assumption.
  - rewrite qsem_unary, EX. rewrite (sql_select_keys_eq fl true (Some tm) (Some []) (Some (map fst tm))) by (apply select_keys_own_nil, NT).
    destruct (Main (map fst tm)) as [R [E1 [E2 _]]]; [destruct tm; [congruence|discriminate]|exact ND|apply incl_refl|].
    exists R. split; assumption.
  - intros n0 ts X0. discriminate.
Qed.

(* extend_to_near_sql returning the merged sub-query, for ANY outer step (terms tms, declared dependencies deps) that, built
   as a fresh step over sub, would deliver T *)
Lemma merged_delivers_gen n ts s0 ci ds su S nm (tms : terms) (deps : depmap) dpx u T :
  let sub := TUnary n (Some ts) s0 ci SfxNone true (Some ds) in
  let our_nt := non_trivial_terms deps tms in
  Delivers fl e sub su S -> merge_okN ts ds -> NoDup su ->
  merge_okN tms deps -> map fst tms = map fst deps ->
  Delivers fl e (TUnary nm (Some tms) sub (mk_tci (Some su) false None) SfxNone true dpx) u T ->
  (forall k, In k u -> incl (item_cols (k, term_of tms k)) su) ->
  u <> [] -> List.length (rows T) = List.length (rows S) ->
  contention our_nt (needs deps our_nt) (non_trivial_terms ds ts) (needs ds (non_trivial_terms ds ts)) = [] ->
  Delivers fl e (TUnary n (Some (merged_terms our_nt tms deps ts)) s0 ci SfxNone true (Some (merged_deps our_nt tms deps ds))) u T
  /\ merge_okN (merged_terms our_nt tms deps ts) (merged_deps our_nt tms deps ds).
Proof.
  intros sub our_nt D [NLs [SCs [NDs [IKs [NDds DDs]]]]] Nsu [NLo [SCo [NDo [IKo [NDdo DDo]]]]] Ekeys DF Hloc NEu LT Hcont.
  assert (NoDup our_nt) as Nour by (apply NoDup_non_trivial, NDdo).
  assert (incl u (map fst tms)) as IuK by (exact (dv_incl _ _ _ _ _ DF)).
  assert (forall k, is_agg_term (term_of ts k) = false) as NAs.
  { intros k. unfold term_of. destruct (dict_get ts k) as [t|] eqn:G; [|reflexivity]. apply dict_get_In in G. apply (SCs _ G). }
  (* the input of both steps *)
  destruct (dv_nil _ _ _ _ _ D) as [R0 [ER0 _]]. unfold sub in ER0. rewrite qsem_unary in ER0.
  destruct (csem fl e s0 ci) as [X|] eqn:EX; [|discriminate]. clear R0 ER0.
  set (su' := if is_nil su then map fst ts else su).
  assert (su' <> []) as NEs'. { unfold su'. destruct (is_nil su) eqn:E0; [|intros X0; rewrite X0 in E0; discriminate]. intros X0. apply NLs. destruct ts; [reflexivity|discriminate]. }
  assert (incl su su') as Isu' by (unfold su'; destruct (is_nil su) eqn:E0; [rewrite (is_nil_true su E0); intros x []|apply incl_refl]).
  assert (incl su' (map fst ts)) as Isuts. { unfold su'. destruct (is_nil su); [apply incl_refl|]. exact (dv_incl _ _ _ _ _ D). }
  assert (qsem fl e sub (Some su) = sql_select fl true (Some ts) (Some su') SfxNone X) as EY.
  { unfold sub. rewrite qsem_unary, EX. unfold su'. destruct (is_nil su) eqn:E0; [rewrite (is_nil_true su E0); apply sql_select_keys_eq, select_keys_own_nil, NLs|reflexivity]. }
  assert (NoDup su') as Nsu' by (unfold su'; destruct (is_nil su); [exact NDs|exact Nsu]).
  pose proof (sql_select_win fl ts su' X NEs' (fun k _ => NAs k)) as ESel.
  match type of ESel with _ = Some ?y => set (Y := y) in * end.
  (* row counts *)
  assert (List.length (rows X) = List.length (rows S)) as LX.
  { destruct (dv_sel _ _ _ _ _ D su' NEs' Nsu' Isuts) as [R [Q1 [Q2 _]]]. unfold sub in Q1. rewrite qsem_unary, EX, ESel in Q1. injection Q1 as <-.
    apply (f_equal (fun t => List.length (rows t))) in Q2. unfold Y in Q2. simpl in Q2. rewrite !map_length, tag_from_length in Q2. exact Q2. }
  (* exactness through the composition *)
  assert (forall K, K <> [] -> NoDup K -> incl K u ->
            sql_select fl true (Some (merged_terms our_nt tms deps ts)) (Some K) SfxNone X = Some (sel K T)) as Exact.
  { intros K NK NDK IK.
    refine (eq_trans (merge_compose_win fl ts tms ds deps su' K X SCs SCo NDds NDdo NDo NDs IKs Ekeys DDo Hcont NEs' Isuts NK
               (fun k Ik => IuK k (IK k Ik)) (fun k Ik c Hc => Isu' c (Hloc k (IK k Ik) c Hc)) Y ESel) _).
    destruct (dv_sel _ _ _ _ _ DF K NK NDK (fun k Ik => IuK k (IK k Ik))) as [R [Q1 [_ [Q3 _]]]].
    rewrite qsem_unary in Q1. unfold csem in Q1. cbn [by_name sub tc_cols] in Q1. change (TUnary n (Some ts) s0 ci SfxNone true (Some ds)) with sub in Q1.
    rewrite EY in Q1. rewrite ESel in Q1. rewrite Q1. f_equal. apply Q3, IK. }
  set (tm := merged_terms our_nt tms deps ts). set (dm := merged_deps our_nt tms deps ds).
  assert (forall k, dict_get tm k = if mem k (map fst tms ++ map fst deps) then (if mem k our_nt then Some (term_of tms k) else dict_get ts k) else None) as Gtm
      by (intros k; apply (dict_get_md (map fst tms ++ map fst deps) our_nt (fun c => term_of tms c) ts k Nour)).
  assert (forall k, dict_get dm k = if mem k (map fst tms ++ map fst deps) then (if mem k our_nt then Some (deps_of deps k) else dict_get ds k) else None) as Gdm
      by (intros k; apply (dict_get_md (map fst tms ++ map fst deps) our_nt (fun c => deps_of deps c) ds k Nour)).
  assert (NoDup (map fst tm)) as NDtm by (apply (nodup_keys_md (map fst tms ++ map fst deps) our_nt (fun c => term_of tms c) ts NDs)).
  assert (NoDup (map fst dm)) as NDdm by (apply (nodup_keys_md (map fst tms ++ map fst deps) our_nt (fun c => deps_of deps c) ds NDds)).
  assert (forall k, In k our_nt -> In k (map fst tms)) as Iour.
  { intros k Ik. destruct (non_trivial_in deps tms k Ik) as [vi [t [_ [G _]]]]. apply dict_get_Some_keys in G. exact G. }
  assert (forall kt, In kt tm -> is_agg_term (snd kt) = false) as SCtm.
  { intros [k t] I. apply (dict_get_NoDup_In tm k t NDtm) in I. rewrite Gtm in I. destruct (mem k _); [|discriminate]. destruct (mem k our_nt).
    - injection I as <-. cbn [snd]. unfold term_of. destruct (dict_get tms k) as [t0|] eqn:G; [|reflexivity]. apply dict_get_In in G. exact (SCo _ G).
    - apply dict_get_In in I. exact (SCs _ I). }
  assert (incl u (map fst tm)) as IuKm.
  { intros k Ik. apply (in_keys_md (map fst tms ++ map fst deps) our_nt (fun c => term_of tms c) ts k Nour). split; [apply in_app_iff; left; apply IuK, Ik|].
    destruct (in_dec string_dec k our_nt) as [i|ni]; [left; exact i|right].
    pose proof (IuK k Ik) as Ikt. rewrite Ekeys in Ikt. apply in_map_iff in Ikt. destruct Ikt as [[k' vi] [Ek Id]]. cbn [fst] in Ek. subst k'.
    destruct (dict_get tms k) as [t|] eqn:G; [|apply dict_get_None in G; destruct (G (IuK k Ik))].
    destruct (non_trivial_not deps tms k vi t Id G ni) as [_ [_ T0]].
    assert (term_of tms k = t) as ET by (unfold term_of; rewrite G; reflexivity).
    pose proof (Hloc k Ik) as HL. rewrite ET in HL. apply Isuts, Isu'. destruct t; try discriminate; apply HL; left; reflexivity. }
  assert (tm <> []) as NLtm.
  { intros X0. destruct u as [|k0 u']; [congruence|]. specialize (IuKm k0 (or_introl eq_refl)). rewrite X0 in IuKm. destruct IuKm. }
  split.
  - apply (unary_nonagg_delivers n tm s0 ci true (Some dm) X u T EX NLtm NDtm SCtm IuKm); [| |exact Exact].
    + exact (dv_cols _ _ _ _ _ DF).
    + rewrite LX. symmetry. exact LT.
  - split; [exact NLtm|]. split; [exact SCtm|]. split; [exact NDtm|]. split; [|split; [exact NDdm|]].
    + intros k Ik. apply (in_keys_md (map fst tms ++ map fst deps) our_nt (fun c => term_of tms c) ts k Nour) in Ik. destruct Ik as [IW Ik].
      apply (in_keys_md (map fst tms ++ map fst deps) our_nt (fun c => deps_of deps c) ds k Nour). split; [exact IW|]. destruct Ik as [Ik|Ik]; [left; exact Ik|right; apply IKs, Ik].
    + intros k t I. apply (dict_get_NoDup_In tm k t NDtm) in I. rewrite Gtm in I. unfold deps_of. rewrite Gdm.
      destruct (mem k (map fst tms ++ map fst deps)); [|discriminate]. destruct (mem k our_nt) eqn:M.
      * injection I as <-. apply mem_In in M. pose proof (Iour k M) as Ikt. unfold term_of.
        destruct (dict_get tms k) as [t0|] eqn:G; [|apply dict_get_None in G; contradiction]. apply dict_get_In in G. exact (DDo k t0 G).
      * apply dict_get_In in I. exact (DDs k t I).
Qed.

End DirectN.
