(* C10, part 3: the per-operator agreement lemmas for select_rows, select_columns, drop_columns, rename_columns,
   map_columns, order_rows, natural_join, concat_rows. *)
From Coq Require Import List Bool Arith ZArith QArith String Lia.
Import ListNotations.
From DA Require Import Base.PyRT Base.Val Model.Sem Proofs.SemBasicP Model.ColumnsUsed Proofs.ColumnsUsedP1 Proofs.ColumnsUsedP2.
Local Open Scope list_scope.

Lemma mem_eq_of_iff (c : string) l l' : (In c l <-> In c l') -> mem c l = mem c l'.
Proof.
  intros H. destruct (mem c l) eqn:M, (mem c l') eqn:M'; try reflexivity.
  - apply mem_In in M. apply H in M. apply mem_false in M'. contradiction.
  - apply mem_In in M'. apply H in M'. apply mem_false in M. contradiction.
Qed.

Lemma guard_get cs r c : (if mem c cs then get cs r c else VNull) = get cs r c.
Proof. destruct (mem c cs) eqn:M; [reflexivity|]. symmetry. apply get_absent. exact M. Qed.

(* ------------------------------------------------------------------ select_rows *)
Lemma agree_select_rows fl e u us S S' :
  agree us S S' ->
  (forall x, In x (cols_used e) -> In x (cols S) -> In x us) ->
  (forall c, In c u -> In c (cols S) -> In c us) ->
  agree u (sem_select_rows fl e S) (sem_select_rows fl e S').
Proof.
  intros [A [B C]] He Hu. unfold agree, sem_select_rows. cbn [cols rows]. split; [exact A|]. split.
  - intros c Hc I. apply B; [apply Hu|]; assumption.
  - eapply F2_weaken.
    + eapply F2_filter; [exact C|]. intros r r' R. cbv beta. f_equal. apply eval_expr_local.
      intros x Hx. apply (src_get us S S'); [exact A|exact R|apply He, Hx].
    + intros r r' R c Hc. apply (src_get us S S'); [exact A|exact R|apply Hu, Hc].
Qed.

(* ------------------------------------------------------------------ select_columns *)
Lemma agree_select_cols cs u us S S' :
  agree us S S' -> (forall c, In c u -> In c cs -> In c (cols S) -> In c us) ->
  agree u (sem_select_cols cs S) (sem_select_cols cs S').
Proof.
  intros [A [B C]] Hu. unfold agree, sem_select_cols. cbn [cols rows]. split; [apply incl_refl|]. split; [tauto|].
  eapply F2_map; [exact C|]. intros r r' R c Hc. rewrite !get_map_cols. destruct (mem c cs) eqn:M; [|reflexivity].
  apply (src_get us S S'); [exact A|exact R|]. apply Hu; [exact Hc|apply mem_In, M].
Qed.

(* ------------------------------------------------------------------ drop_columns *)
Lemma mem_filter (f : string -> bool) c l : mem c (filter f l) = f c && mem c l.
Proof.
  induction l as [|x t IH]; simpl; [rewrite andb_false_r; reflexivity|].
  destruct (f x) eqn:Fx; simpl; destruct (eq_dec c x) as [->|n].
  - rewrite Fx. reflexivity.
  - exact IH.
  - rewrite IH, Fx. reflexivity.
  - exact IH.
Qed.

Lemma agree_drop_cols ds u us S S' :
  agree us S S' -> (forall c, In c u -> ~ In c ds -> In c (cols S) -> In c us) ->
  agree u (sem_drop_cols ds S) (sem_drop_cols ds S').
Proof.
  intros [A [B C]] Hu. unfold agree, sem_drop_cols, sem_select_cols. cbn [cols rows]. split; [|split].
  - intros c Hc. apply filter_In in Hc. apply filter_In. split; [apply A|]; tauto.
  - intros c Hc I. apply filter_In in I. destruct I as [I N]. apply filter_In. split; [|exact N].
    apply B; [|exact I]. apply Hu; [exact Hc| |exact I]. apply negb_true_iff in N. apply mem_false. exact N.
  - eapply F2_map; [exact C|]. intros r r' R c Hc. rewrite !get_map_cols, !mem_filter.
    destruct (mem c ds) eqn:D; simpl; [reflexivity|]. rewrite !guard_get.
    apply (src_get us S S'); [exact A|exact R|]. apply Hu; [exact Hc|apply mem_false, D].
Qed.

(* ------------------------------------------------------------------ rename_columns *)
Definition rename_ok (m : list (string * string)) (cs : list string) : Prop :=
  NoDup (map fst m) /\ NoDup (map snd m) /\ incl (map snd m) cs /\ NoDup (map (rename_col m) cs).

Lemma rename_okb_ok m cs : rename_okb m cs = true -> rename_ok m cs.
Proof.
  unfold rename_okb, rename_ok. rewrite !andb_true_iff. intros [[[H1 H2] H3] H4].
  repeat split; try (apply nodupb_NoDup; assumption). unfold incl. apply (proj1 (subset_spec _ _)). exact H3.
Qed.

Lemma rename_col_spec m x :
  (exists n, In (n, x) m /\ rename_col m x = n) \/ ((forall n, ~ In (n, x) m) /\ rename_col m x = x).
Proof.
  unfold rename_col. destruct (find (fun no => String.eqb (snd no) x) m) as [[n o]|] eqn:F.
  - left. apply find_some in F. destruct F as [I E]. simpl in E. apply String.eqb_eq in E. subst o. exists n. split; [exact I|reflexivity].
  - right. split; [|reflexivity]. intros n I. pose proof (find_none _ _ F _ I) as E. simpl in E. rewrite String.eqb_refl in E. discriminate.
Qed.

Lemma NoDup_snd_unique (m : list (string * string)) a b o : NoDup (map snd m) -> In (a, o) m -> In (b, o) m -> a = b.
Proof.
  induction m as [|[n x] t IH]; simpl; intros N I1 I2; [contradiction|]. inversion N as [|? ? Nx Nt]; subst.
  destruct I1 as [E1|I1], I2 as [E2|I2].
  - congruence.
  - inversion E1; subst. exfalso. apply Nx. apply in_map_iff. exists (b, o). split; [reflexivity|exact I2].
  - inversion E2; subst. exfalso. apply Nx. apply in_map_iff. exists (a, o). split; [reflexivity|exact I1].
  - apply IH; assumption.
Qed.

Lemma old_of_rename m cs x0 : rename_ok m cs -> In x0 cs -> old_of m (rename_col m x0) = x0.
Proof.
  intros [N1 [N2 [I3 N4]]] I0. unfold old_of. destruct (rename_col_spec m x0) as [[n [I E]]|[No E]]; rewrite E.
  - rewrite (dict_get_NoDup_In m n x0 N1 I). reflexivity.
  - destruct (dict_get m x0) as [o|] eqn:G; [|reflexivity]. apply dict_get_In in G.
    assert (In o cs) as Io by (apply I3; apply in_map_iff; exists (x0, o); split; [reflexivity|exact G]).
    assert (rename_col m o = x0) as Eo.
    { destruct (rename_col_spec m o) as [[n' [I' E']]|[No' _]]; [|exfalso; exact (No' _ G)].
      rewrite E'. eapply NoDup_snd_unique; eassumption. }
    assert (o = x0) as <- by (apply (NoDup_map_inj (rename_col m) cs); [exact N4|exact Io|exact I0|congruence]).
    exfalso. exact (No _ G).
Qed.

Lemma get_rename m cs cs' r c :
  rename_ok m cs -> incl cs' cs -> In c (map (rename_col m) cs) ->
  get (map (rename_col m) cs') r c = get cs' r (old_of m c) /\ In (old_of m c) cs /\ rename_col m (old_of m c) = c.
Proof.
  intros OK I Hc. apply in_map_iff in Hc. destruct Hc as [x0 [<- I0]]. rewrite (old_of_rename m cs x0 OK I0).
  split; [|split; [exact I0|reflexivity]]. unfold get. rewrite index_of_map_inj; [reflexivity|].
  intros x Ix E. destruct OK as [_ [_ [_ N4]]]. apply (NoDup_map_inj (rename_col m) cs); [exact N4|apply I, Ix|exact I0|exact E].
Qed.

Lemma agree_rename m u us S S' :
  rename_ok m (cols S) -> incl u (map (rename_col m) (cols S)) ->
  agree us S S' -> (forall c, In c u -> In (old_of m c) us) ->
  agree u (sem_rename m S) (sem_rename m S').
Proof.
  intros OK Iu [A [B C]] Hu. unfold agree, sem_rename. cbn [cols rows]. split; [|split].
  - apply incl_map. exact A.
  - intros c Hc _. destruct (get_rename m (cols S) (cols S) [] c OK (incl_refl _) (Iu c Hc)) as [_ [I0 E0]].
    rewrite <- E0. apply in_map. apply B; [apply Hu, Hc|exact I0].
  - eapply F2_weaken; [exact C|]. intros r r' R c Hc.
    destruct (get_rename m (cols S) (cols S) r c OK (incl_refl _) (Iu c Hc)) as [E1 _].
    destruct (get_rename m (cols S) (cols S') r' c OK A (Iu c Hc)) as [E2 _].
    rewrite E1, E2. apply R. apply Hu, Hc.
Qed.

(* ------------------------------------------------------------------ map_columns = rename, then drop *)
Lemma old_of_dict_of_list m k : NoDup (map fst m) -> old_of (dict_of_list m) k = old_of m k.
Proof. intros N. unfold old_of. rewrite (dict_get_of_list m k N). reflexivity. Qed.

Lemma agree_map_cols m dels u us S S' :
  rename_ok m (cols S) -> incl u (filter (fun c => negb (mem c dels)) (map (rename_col m) (cols S))) ->
  agree us S S' -> (forall c, In c u -> In (old_of m c) us) ->
  agree u (sem_drop_cols dels (sem_rename m S)) (sem_drop_cols dels (sem_rename m S')).
Proof.
  intros OK Iu Ag Hu. apply (agree_drop_cols dels u u); [|tauto].
  apply (agree_rename m u us); try assumption. intros c Hc. apply Iu in Hc. apply filter_In in Hc. tauto.
Qed.

(* ------------------------------------------------------------------ order_rows *)
Lemma agree_order fl cs rev lim u us S S' :
  agree us S S' ->
  (forall x, In x cs -> In x (cols S) -> In x us) ->
  (forall c, In c u -> In c (cols S) -> In c us) ->
  agree u (sem_order fl cs rev lim S) (sem_order fl cs rev lim S').
Proof.
  intros [A [B C]] Hk Hu. unfold agree, sem_order. cbn [cols rows]. split; [exact A|]. split.
  - intros c Hc I. apply B; [apply Hu|]; assumption.
  - assert (Forall2 (rowrel us (cols S) (cols S'))
              (stable_sort (row_le fl (cols S) (map (fun c => (c, mem c rev)) cs)) (rows S))
              (stable_sort (row_le fl (cols S') (map (fun c => (c, mem c rev)) cs)) (rows S'))) as HS.
    { apply F2_stable_sort; [|exact C]. intros a b c d R1 R2. apply row_le_local; intros x I; rewrite map_map in I; simpl in I; rewrite map_id in I.
      - apply (src_get us S S'); [exact A|exact R1|apply Hk, I].
      - apply (src_get us S S'); [exact A|exact R2|apply Hk, I]. }
    eapply F2_weaken.
    + destruct lim as [n|]; [apply F2_firstn|]; exact HS.
    + intros r r' R c Hc. apply (src_get us S S'); [exact A|exact R|apply Hu, Hc].
Qed.

(* ------------------------------------------------------------------ natural_join *)
Definition join_cell (ca cb : list string) (ra rb : option (list val)) (c : string) : val :=
  let va := match ra with Some r => if mem c ca then get ca r c else VNull | None => VNull end in
  let vb := match rb with Some r => if mem c cb then get cb r c else VNull | None => VNull end in
  if is_null va then vb else va.
Definition join_out (ca cb : list string) : list string := ca ++ filter (fun c => negb (mem c ca)) cb.
Definition join_mk (ca cb : list string) (ra rb : option (list val)) : list val := map (join_cell ca cb ra rb) (join_out ca cb).

Lemma sem_join_unfold nm on_a on_b jt a b :
  sem_join nm on_a on_b jt a b =
  let ca := cols a in let cb := cols b in
  mktable (join_out ca cb)
    (flat_map (fun ra => flat_map (fun rb => if keys_match nm (key_of ca on_a ra) (key_of cb on_b rb) then [join_mk ca cb (Some ra) (Some rb)] else []) (rows b)) (rows a)
     ++ (match jt with JLeft | JFull => flat_map (fun ra => if existsb (fun rb => keys_match nm (key_of ca on_a ra) (key_of cb on_b rb)) (rows b) then [] else [join_mk ca cb (Some ra) None]) (rows a) | _ => [] end)
     ++ (match jt with JRight | JFull => flat_map (fun rb => if existsb (fun ra => keys_match nm (key_of ca on_a ra) (key_of cb on_b rb)) (rows a) then [] else [join_mk ca cb None (Some rb)]) (rows b) | _ => [] end)).
Proof. reflexivity. Qed.

Definition orel (R : list val -> list val -> Prop) (o o' : option (list val)) : Prop :=
  match o, o' with Some x, Some y => R x y | None, None => True | _, _ => False end.

Lemma agree_join nm on_a on_b jt u ua ub A A' B B' :
  agree ua A A' -> agree ub B B' ->
  (forall x, In x (u ++ on_a ++ on_b) -> In x (cols A) -> In x ua) ->
  (forall x, In x (u ++ on_a ++ on_b) -> In x (cols B) -> In x ub) ->
  agree u (sem_join nm on_a on_b jt A B) (sem_join nm on_a on_b jt A' B').
Proof.
  intros [Aa [Ba Ca]] [Ab [Bb Cb]] Ha Hb. rewrite !sem_join_unfold. cbv zeta. unfold agree. cbn [cols rows].
  set (ca := cols A) in *. set (cb := cols B) in *. set (ca' := cols A') in *. set (cb' := cols B') in *.
  assert (incl (join_out ca' cb') (join_out ca cb)) as IO.
  { intros c Hc. unfold join_out in *. apply in_app_iff in Hc. apply in_app_iff.
    destruct (in_dec string_dec c ca) as [i|n]; [left; exact i|right].
    destruct Hc as [Hc|Hc]; [exfalso; apply n, Aa, Hc|]. apply filter_In in Hc. apply filter_In. split; [apply Ab; tauto|].
    apply negb_true_iff, mem_false. exact n. }
  assert (forall c, In c u -> In c (join_out ca cb) -> In c (join_out ca' cb')) as PO.
  { intros c Hu Hc. unfold join_out in *. apply in_app_iff in Hc. apply in_app_iff. destruct Hc as [Hc|Hc].
    - left. apply Ba; [|exact Hc]. apply Ha; [apply in_app_iff; left; exact Hu|exact Hc].
    - right. apply filter_In in Hc. destruct Hc as [Hc N]. apply filter_In. split.
      + apply Bb; [|exact Hc]. apply Hb; [apply in_app_iff; left; exact Hu|exact Hc].
      + apply negb_true_iff in N. apply mem_false in N. apply negb_true_iff, mem_false. intros I. apply N, Aa, I. }
  split; [exact IO|]. split; [exact PO|].
  assert (forall ra ra' rb rb', orel (rowrel ua ca ca') ra ra' -> orel (rowrel ub cb cb') rb rb' ->
            rowrel u (join_out ca cb) (join_out ca' cb') (join_mk ca cb ra rb) (join_mk ca' cb' ra' rb')) as MK.
  { intros ra ra' rb rb' Ra Rb c Hc. unfold join_mk. rewrite !get_map_cols.
    rewrite (mem_eq_of_iff c (join_out ca cb) (join_out ca' cb')) by (split; [apply PO, Hc|apply IO]).
    destruct (mem c (join_out ca' cb')); [|reflexivity]. unfold join_cell.
    assert (match ra with Some r => if mem c ca then get ca r c else VNull | None => VNull end
            = match ra' with Some r => if mem c ca' then get ca' r c else VNull | None => VNull end) as Ea.
    { destruct ra as [r|], ra' as [r'|]; simpl in Ra; try contradiction; [|reflexivity]. rewrite !guard_get.
      apply (src_get ua A A'); [exact Aa|exact Ra|]. apply Ha. apply in_app_iff. left. exact Hc. }
    assert (match rb with Some r => if mem c cb then get cb r c else VNull | None => VNull end
            = match rb' with Some r => if mem c cb' then get cb' r c else VNull | None => VNull end) as Eb.
    { destruct rb as [r|], rb' as [r'|]; simpl in Rb; try contradiction; [|reflexivity]. rewrite !guard_get.
      apply (src_get ub B B'); [exact Ab|exact Rb|]. apply Hb. apply in_app_iff. left. exact Hc. }
    rewrite Ea, Eb. reflexivity. }
  assert (forall ra ra' rb rb', rowrel ua ca ca' ra ra' -> rowrel ub cb cb' rb rb' ->
            keys_match nm (key_of ca on_a ra) (key_of cb on_b rb) = keys_match nm (key_of ca' on_a ra') (key_of cb' on_b rb')) as KM.
  { intros ra ra' rb rb' Ra Rb. f_equal; apply key_of_local; intros x I.
    - apply (src_get ua A A'); [exact Aa|exact Ra|]. apply Ha. apply in_app_iff. right. apply in_app_iff. left. exact I.
    - apply (src_get ub B B'); [exact Ab|exact Rb|]. apply Hb. apply in_app_iff. right. apply in_app_iff. right. exact I. }
  apply Forall2_app; [|apply Forall2_app].
  - eapply F2_flat_map; [exact Ca|]. intros ra ra' Ra. eapply F2_flat_map; [exact Cb|]. intros rb rb' Rb.
    rewrite (KM ra ra' rb rb' Ra Rb). destruct (keys_match _ _ _); [|constructor].
    constructor; [|constructor]. apply MK; simpl; assumption.
  - assert (Forall2 (rowrel u (join_out ca cb) (join_out ca' cb'))
              (flat_map (fun ra => if existsb (fun rb => keys_match nm (key_of ca on_a ra) (key_of cb on_b rb)) (rows B) then [] else [join_mk ca cb (Some ra) None]) (rows A))
              (flat_map (fun ra => if existsb (fun rb => keys_match nm (key_of ca' on_a ra) (key_of cb' on_b rb)) (rows B') then [] else [join_mk ca' cb' (Some ra) None]) (rows A'))) as L.
    { eapply F2_flat_map; [exact Ca|]. intros ra ra' Ra.
      rewrite (F2_existsb _ _ (fun rb => keys_match nm (key_of ca' on_a ra') (key_of cb' on_b rb)) _ _ Cb) by (intros rb rb' Rb; apply KM; assumption).
      destruct (existsb _ _); [constructor|]. constructor; [|constructor]. apply MK; simpl; auto. }
    destruct jt; try constructor; exact L.
  - assert (Forall2 (rowrel u (join_out ca cb) (join_out ca' cb'))
              (flat_map (fun rb => if existsb (fun ra => keys_match nm (key_of ca on_a ra) (key_of cb on_b rb)) (rows A) then [] else [join_mk ca cb None (Some rb)]) (rows B))
              (flat_map (fun rb => if existsb (fun ra => keys_match nm (key_of ca' on_a ra) (key_of cb' on_b rb)) (rows A') then [] else [join_mk ca' cb' None (Some rb)]) (rows B'))) as L.
    { eapply F2_flat_map; [exact Cb|]. intros rb rb' Rb.
      rewrite (F2_existsb _ _ (fun ra => keys_match nm (key_of ca' on_a ra) (key_of cb' on_b rb')) _ _ Ca) by (intros ra ra' Ra; apply KM; assumption).
      destruct (existsb _ _); [constructor|]. constructor; [|constructor]. apply MK; simpl; auto. }
    destruct jt; try constructor; exact L.
Qed.

(* ------------------------------------------------------------------ concat_rows *)
Lemma agree_concat idc an bn u ua ub A A' B B' :
  width_ok A -> width_ok A' -> agree ua A A' -> agree ub B B' ->
  (forall c, In c u -> In c (cols A) -> In c ua) ->
  (forall c, In c u -> In c (cols A) -> In c (cols B) -> In c ub) ->
  agree u (sem_concat idc an bn A B) (sem_concat idc an bn A' B').
Proof.
  intros W W' [Aa [Ba Ca]] [Ab [Bb Cb]] Ha Hb.
  set (ca := cols A) in *. set (cb := cols B) in *. set (ca' := cols A') in *. set (cb' := cols B') in *.
  assert (forall c, In c u -> mem c ca = mem c ca') as ME.
  { intros c Hc. apply mem_eq_of_iff. split; [intros I; apply Ba; [apply Ha|]; assumption|apply Aa]. }
  assert (Forall2 (rowrel u ca ca') (rows A) (rows A')) as RA.
  { eapply F2_weaken; [exact Ca|]. intros r r' R c Hc. apply (src_get ua A A'); [exact Aa|exact R|apply Ha, Hc]. }
  assert (Forall2 (rowrel u ca ca') (map (fun r => map (get cb r) ca) (rows B)) (map (fun r => map (get cb' r) ca') (rows B'))) as RB.
  { eapply F2_map; [exact Cb|]. intros r r' R c Hc. rewrite !get_map_cols, <- (ME c Hc).
    destruct (mem c ca) eqn:M; [|reflexivity]. apply (src_get ub B B'); [exact Ab|exact R|]. apply Hb; [exact Hc|apply mem_In, M]. }
  unfold agree, sem_concat. fold ca cb ca' cb'. destruct idc as [ic|]; cbn [cols rows].
  - split; [|split].
    + apply incl_app; [apply incl_appl; exact Aa|apply incl_appr, incl_refl].
    + intros c Hc I. apply in_app_iff in I. apply in_app_iff. destruct I as [I|I]; [left; apply Ba; [apply Ha|]; assumption|right; exact I].
    + assert (forall v r r', List.length r = List.length ca -> List.length r' = List.length ca' -> rowrel u ca ca' r r' ->
                rowrel u (ca ++ [ic]) (ca' ++ [ic]) (r ++ [v]) (r' ++ [v])) as EXT.
      { intros v r r' L L' R c Hc. destruct (mem c ca) eqn:M.
        - pose proof M as M'. rewrite (ME c Hc) in M'. apply mem_In in M, M'. rewrite !get_app_l by assumption. apply R, Hc.
        - pose proof M as M'. rewrite (ME c Hc) in M'. apply mem_false in M, M'. rewrite !get_app_r by assumption. reflexivity. }
      apply Forall2_app.
      * eapply F2_map; [apply (F2_with_widths _ A A' W W' RA)|]. cbv beta. intros r r' [L [L' R]]. apply EXT; assumption.
      * rewrite !map_map. eapply F2_map; [exact Cb|]. intros r r' R.
        apply EXT; [apply map_length|apply map_length|].
        intros c Hc. rewrite !get_map_cols, <- (ME c Hc).
        destruct (mem c ca) eqn:M; [|reflexivity]. apply (src_get ub B B'); [exact Ab|exact R|]. apply Hb; [exact Hc|apply mem_In, M].
  - split; [exact Aa|]. split.
    + intros c Hc I. apply Ba; [apply Ha|]; assumption.
    + apply Forall2_app; assumption.
Qed.
