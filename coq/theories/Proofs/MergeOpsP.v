(* merge_sound: whenever the REGENERATED try_to_merge_ops (Gen/G_MergeOps.v) merges two extends,
   the merged extend denotes the same frame as the two extends applied one after the other. *)
From Coq Require Import List Bool Arith String Lia.
Import ListNotations.
From DA Require Import Base.PyRT Base.Val Model.Extend Gen.G_MergeOps.

Section P.
Context {E : Type} (deps : E -> list string) (W : list string) (colfn : E -> frame -> list val).
Notation gcu := (get_columns_used deps).
Notation ext := (ext colfn).

(* ext as a dict_update by the evaluated assignments *)
Lemma ext_as_update (ops : pydict string E) (f : frame) :
  ext ops f = dict_update f (map (fun ke => (fst ke, colfn (snd ke) f)) ops).
Proof. unfold Extend.ext, dict_update. generalize f at 2 4 as acc.
  induction ops as [|[k e] t IH]; intros acc; simpl; [reflexivity|]. apply IH. Qed.

Lemma dict_get_ext (ops : pydict string E) (f : frame) c :
  NoDup (dict_keys ops) ->
  dict_get (ext ops f) c =
  match dict_get ops c with Some e => Some (colfn e f) | None => dict_get f c end.
Proof. intros N. rewrite ext_as_update, dict_get_update_nodup.
  - rewrite (dict_get_map_val (fun e => colfn e f)). destruct (dict_get ops c); reflexivity.
  - rewrite (dict_keys_map_val (fun e => colfn e f)). exact N. Qed.

Lemma deps_in_gcu (ops : pydict string E) k e x :
  dict_get ops k = Some e -> In x (deps e) -> In x (gcu ops).
Proof. intros G I. unfold get_columns_used. apply In_py_set, in_flat_map.
  exists e. split; [eapply In_dict_values; exact G|exact I]. Qed.

(* what a successful merge guarantees *)
Definition merge_spec (o1 o2 m : pydict string E) : Prop :=
  (forall k, dict_get m k = match dict_get o2 k with Some v => Some v | None => dict_get o1 k end)
  /\ (forall x, In x (gcu o2) -> ~ In x (dict_keys o1))
  /\ NoDup (dict_keys m)
  /\ (forall k, In k (dict_keys m) <-> In k (dict_keys o1) \/ In k (dict_keys o2)).

Lemma merge_spec_holds (o1 o2 m : pydict string E) :
  NoDup (dict_keys o1) -> NoDup (dict_keys o2) ->
  try_to_merge_ops gcu o1 o2 = Some m -> merge_spec o1 o2 m.
Proof.
  intros N1 N2 H. unfold try_to_merge_ops in H. cbv zeta in H.
  repeat match type of H with
  | context[if ?b then _ else _] => destruct b eqn:?; [try discriminate H|]
  end; try discriminate H.
  - (* common keys *)
    injection H as <-.
    match goal with Hd : Nat.ltb 0 (List.length (set_inter (py_set (gcu o2)) (py_set (dict_keys o1)))) = false |- _ =>
      pose proof (proj1 (inter_empty_disjoint _ _) Hd) as D end.
    set (common := set_inter (py_set (dict_keys o1)) (py_set (dict_keys o2))).
    set (keep := filter (fun k => negb (mem k common)) (dict_keys o1)).
    assert (NoDup keep) as Nk by (apply NoDup_filter, N1).
    assert (forall k, In k keep <-> In k (dict_keys o1) /\ ~ In k (dict_keys o2)) as Ik.
    { intros k. unfold keep, common. rewrite filter_In, negb_true_iff, mem_false, In_set_inter, !In_py_set. tauto. }
    split; [|split; [|split]].
    + intros k. rewrite dict_get_update_nodup by exact N2.
      destruct (dict_get o2 k) eqn:E2; [reflexivity|].
      rewrite dict_get_of_list by (apply NoDup_keys_restrict_list, Nk).
      rewrite dict_get_restrict_list.
      destruct (mem k keep) eqn:M; [reflexivity|].
      apply mem_false in M. rewrite Ik in M. apply dict_get_None in E2.
      symmetry. apply dict_get_None. tauto.
    + intros x I. specialize (D x). rewrite !In_py_set in D. auto.
    + apply NoDup_dict_keys_update, NoDup_dict_keys_of_list.
    + intros k. rewrite In_dict_keys_update, In_dict_keys_of_list, In_keys_restrict_list, Ik.
      destruct (in_dec string_dec k (dict_keys o2)); tauto.
  - (* no common keys *)
    injection H as <-.
    match goal with Hd : Nat.ltb 0 (List.length (set_inter (py_set (gcu o2)) (py_set (dict_keys o1)))) = false |- _ =>
      pose proof (proj1 (inter_empty_disjoint _ _) Hd) as D end.
    split; [|split; [|split]].
    + intros k. apply dict_get_update_nodup, N2.
    + intros x I. specialize (D x). rewrite !In_py_set in D. auto.
    + apply NoDup_dict_keys_update, N1.
    + intros k. apply In_dict_keys_update.
Qed.

Lemma merge_sound (o1 o2 m : pydict string E) (f : frame) :
  colfn_local deps W colfn ->
  NoDup (dict_keys o1) -> NoDup (dict_keys o2) ->
  (forall k, In k (dict_keys o1) -> ~ In k W) ->          (* an extend never assigns its window columns *)
  try_to_merge_ops gcu o1 o2 = Some m ->
  forall c, dict_get (ext m f) c = dict_get (ext o2 (ext o1 f)) c.
Proof.
  intros L N1 N2 HW H c.
  destruct (merge_spec_holds _ _ _ N1 N2 H) as (G & D & Nm & _).
  rewrite (dict_get_ext m) by exact Nm. rewrite (dict_get_ext o2) by exact N2.
  rewrite G. destruct (dict_get o2 c) as [e|] eqn:E2.
  - f_equal. apply L. intros x I. rewrite (dict_get_ext o1) by exact N1.
    assert (~ In x (dict_keys o1)) as NI.
    { apply in_app_iff in I. destruct I as [I|I].
      - apply D. eapply deps_in_gcu; eassumption.
      - intros I1. exact (HW x I1 I). }
    apply dict_get_None in NI. rewrite NI. reflexivity.
  - rewrite (dict_get_ext o1) by exact N1. reflexivity.
Qed.

(* the merged step assigns exactly the columns the two steps assign *)
Lemma merge_keys (o1 o2 m : pydict string E) :
  NoDup (dict_keys o1) -> NoDup (dict_keys o2) ->
  try_to_merge_ops gcu o1 o2 = Some m ->
  NoDup (dict_keys m) /\ forall k, In k (dict_keys m) <-> In k (dict_keys o1) \/ In k (dict_keys o2).
Proof.
  intros N1 N2 H. destruct (merge_spec_holds _ _ _ N1 N2 H) as (_ & _ & Nm & Km). split; assumption.
Qed.
End P.

