(* merge_sound: whenever the REGENERATED try_to_merge_ops (Gen/G_MergeOps.v) merges two extends,
   the merged extend denotes the same frame as the two extends applied one after the other. *)
From Coq Require Import List Bool Arith String Lia.
Import ListNotations.
From DA Require Import Base.PyRT Base.Val Model.Extend Gen.G_MergeOps.

Section P.
Context {E : Type} (deps : E -> list string) (W : list string) (colfn : E -> frame -> list val).
Notation gcu := (get_columns_used deps).
Notation ext := (ext colfn).

Lemma merge_sound (o1 o2 m : pydict string E) (f : frame) :
  colfn_local deps W colfn ->
  NoDup (dict_keys o1) -> NoDup (dict_keys o2) ->
  (forall k, In k (dict_keys o1) -> ~ In k W) ->          (* an extend never assigns its window columns *)
  try_to_merge_ops gcu o1 o2 = Some m ->
  forall c, dict_get (ext m f) c = dict_get (ext o2 (ext o1 f)) c.
Proof.
Abort.

(* the merged step assigns exactly the columns the two steps assign *)
Lemma merge_keys (o1 o2 m : pydict string E) :
  NoDup (dict_keys o1) -> NoDup (dict_keys o2) ->
  try_to_merge_ops gcu o1 o2 = Some m ->
  NoDup (dict_keys m) /\ forall k, In k (dict_keys m) <-> In k (dict_keys o1) \/ In k (dict_keys o2).
Proof.
Abort.
End P.
