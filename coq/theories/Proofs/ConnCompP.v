(* Proofs about Model/ConnComp.v.  The two statements at the end are the deliverable. *)
From Coq Require Import List Bool Arith Lia.
Import ListNotations.
From DA Require Import Base.PyRT Model.ConnComp.

(* ------------------------------------------------------------------ *)
(* Facts about the specification relation [conn] *)
Section ConnLemmas.
Context {V : Type}.
Implicit Types E : list (V * V).

Lemma conn_mono E E' u v : (forall e, In e E -> In e E') -> conn E u v -> conn E' u v.
Proof.
  intros S C. induction C as [v|a b I|a b C IH|a b c C1 IH1 C2 IH2].
  - apply conn_refl.
  - apply conn_edge. apply S. exact I.
  - apply conn_sym. exact IH.
  - eapply conn_trans; eassumption.
Qed.

Lemma conn_nil (u v : V) : conn (@nil (V * V)) u v <-> u = v.
Proof.
  split.
  - intros C. induction C as [v|a b I|a b C IH|a b c C1 IH1 C2 IH2].
    + reflexivity.
    + destruct I.
    + congruence.
    + congruence.
  - intros ->. apply conn_refl.
Qed.

Lemma conn_snoc E a b u v :
  conn (E ++ [(a, b)]) u v <->
  conn E u v \/ (conn E u a /\ conn E b v) \/ (conn E u b /\ conn E a v).
Proof.
  split.
  - intros C. induction C as [v|x y I|x y C IH|x y z C1 IH1 C2 IH2].
    + left. apply conn_refl.
    + apply in_app_or in I. destruct I as [I|[I|[]]].
      * left. apply conn_edge. exact I.
      * inversion I; subst. right. left. split; apply conn_refl.
    + destruct IH as [P|[[P1 P2]|[P1 P2]]].
      * left. apply conn_sym, P.
      * right. right. split; apply conn_sym; assumption.
      * right. left. split; apply conn_sym; assumption.
    + destruct IH1 as [P|[[P1 P2]|[P1 P2]]]; destruct IH2 as [Q|[[Q1 Q2]|[Q1 Q2]]].
      * left. exact (conn_trans E _ _ _ P Q).
      * right. left. split; [exact (conn_trans E _ _ _ P Q1) | exact Q2].
      * right. right. split; [exact (conn_trans E _ _ _ P Q1) | exact Q2].
      * right. left. split; [exact P1 | exact (conn_trans E _ _ _ P2 Q)].
      * right. left. split; [exact P1 | exact Q2].
      * left. exact (conn_trans E _ _ _ P1 Q2).
      * right. right. split; [exact P1 | exact (conn_trans E _ _ _ P2 Q)].
      * left. exact (conn_trans E _ _ _ P1 Q2).
      * right. right. split; [exact P1 | exact Q2].
  - assert (forall p q, conn E p q -> conn (E ++ [(a, b)]) p q) as M.
    { intros p q. apply conn_mono. intros e He. apply in_or_app. left. exact He. }
    assert (conn (E ++ [(a, b)]) a b) as Eab.
    { apply conn_edge. apply in_or_app. right. left. reflexivity. }
    intros [C|[[C1 C2]|[C1 C2]]].
    + apply M, C.
    + apply (conn_trans _ u a v); [apply M, C1|]. apply (conn_trans _ a b v); [exact Eab | apply M, C2].
    + apply (conn_trans _ u b v); [apply M, C1|]. apply (conn_trans _ b a v); [apply conn_sym, Eab | apply M, C2].
Qed.

Lemma conn_closed E (P : V -> Prop) u v :
  (forall a b, In (a, b) E -> P a /\ P b) -> conn E u v -> (P u <-> P v).
Proof.
  intros S C. induction C as [v|a b I|a b C IH|a b c C1 IH1 C2 IH2].
  - tauto.
  - destruct (S a b I). tauto.
  - tauto.
  - tauto.
Qed.
End ConnLemmas.

(* ------------------------------------------------------------------ *)
(* all_some *)
Section AllSome.
Context {A B : Type} (h : A -> option B).

Lemma all_some_ex (l : list A) :
  (forall x, In x l -> exists y, h x = Some y) -> exists res, all_some (map h l) = Some res.
Proof.
  induction l as [|x t IH]; intros Hl; simpl.
  - eexists. reflexivity.
  - destruct (Hl x (or_introl eq_refl)) as [y Hy]. rewrite Hy.
    destruct IH as [r Hr]; [intros z Hz; apply Hl; right; exact Hz|].
    rewrite Hr. eexists. reflexivity.
Qed.

Lemma all_some_nth (l : list A) : forall res, all_some (map h l) = Some res ->
  List.length res = List.length l /\
  forall i x, nth_error l i = Some x -> exists y, nth_error res i = Some y /\ h x = Some y.
Proof.
  induction l as [|x t IH]; intros res Hres; simpl in Hres.
  - injection Hres as <-. split; [reflexivity|]. intros [|i] x Hx; discriminate.
  - destruct (h x) as [y|] eqn:Hy; [|discriminate].
    destruct (all_some (map h t)) as [r|] eqn:Hr; [|discriminate].
    injection Hres as <-. destruct (IH r eq_refl) as [Hlen Hnth].
    split; [simpl; congruence|].
    intros [|i] z Hz; simpl in Hz.
    + injection Hz as <-. exists y. split; [reflexivity | exact Hy].
    + simpl. apply Hnth. exact Hz.
Qed.
End AllSome.

(* ------------------------------------------------------------------ *)
Section P.
Context {V : Type} `{EqDec V} (leb : V -> V -> bool) (TO : total_order leb).

(* ---- vmin ---- *)
Lemma vmin_cases (a b : V) : vmin leb a b = a \/ vmin leb a b = b.
Proof. unfold vmin. destruct (leb b a); [destruct (leb a b)|]; auto. Qed.

Lemma vmin_le (a b : V) : leb (vmin leb a b) a = true /\ leb (vmin leb a b) b = true.
Proof.
  unfold vmin. destruct (leb b a) eqn:Eba; [destruct (leb a b) eqn:Eab|].
  - split; [apply (leb_refl leb TO) | exact Eab].
  - split; [exact Eba | apply (leb_refl leb TO)].
  - split; [apply (leb_refl leb TO)|]. destruct (leb_total leb TO a b) as [L|L]; [exact L | congruence].
Qed.

(* ---- redirecting the donor's items ---- *)
Lemma get_redirect (l : list V) (m : nat) (c : pydict V nat) w :
  dict_get (fold_left (fun c k => dict_set c k m) l c) w = if mem w l then Some m else dict_get c w.
Proof.
  revert c. induction l as [|x t IH]; intros c; simpl; [reflexivity|].
  rewrite IH. destruct (eq_dec w x) as [->|n].
  - destruct (mem x t); [reflexivity | apply dict_get_set_same].
  - destruct (mem w t); [reflexivity | apply dict_get_set_other; exact n].
Qed.

Lemma get_store_set (st0 : pydict nat (V * list V)) m v c :
  dict_get (dict_set st0 m v) c = if Nat.eq_dec c m then Some v else dict_get st0 c.
Proof.
  destruct (Nat.eq_dec c m) as [->|n]; [apply dict_get_set_same | apply dict_get_set_other; exact n].
Qed.

(* ---- the invariant; R is the connectivity relation of the processed prefix ---- *)
Record Inv (K : list V) (R : V -> V -> Prop) (s : @st V) : Prop := {
  inv_keys : forall k, In k K -> exists a, dict_get (comp s) k = Some a;
  inv_store : forall k a, dict_get (comp s) k = Some a ->
      exists id items, dict_get (store s) a = Some (id, items);
  inv_items : forall u a id items, dict_get (comp s) u = Some a -> dict_get (store s) a = Some (id, items) ->
      forall w, In w items <-> dict_get (comp s) w = Some a;
  inv_id : forall u a id items, dict_get (comp s) u = Some a -> dict_get (store s) a = Some (id, items) ->
      In id items /\ forall w, In w items -> leb id w = true;
  inv_conn : forall u v a b, dict_get (comp s) u = Some a -> dict_get (comp s) v = Some b ->
      (a = b <-> R u v) }.

Lemma Inv_iff K R R' s : (forall u v, R u v <-> R' u v) -> Inv K R s -> Inv K R' s.
Proof.
  intros E [I1 I2 I3 I4 I5]. constructor; auto.
  intros u v a b Hu Hv. rewrite <- E. apply I5; assumption.
Qed.

Lemma Inv_merge K R s x y m d idm im idd itd :
  Inv K R s ->
  dict_get (comp s) x = Some m -> dict_get (comp s) y = Some d -> m <> d ->
  dict_get (store s) m = Some (idm, im) -> dict_get (store s) d = Some (idd, itd) ->
  Inv K (fun u v => R u v \/ (R u x /\ R y v) \/ (R u y /\ R x v))
    (mkst (fold_left (fun c k => dict_set c k m) itd (comp s))
          (dict_set (store s) m (vmin leb idm idd, set_union im itd))).
Proof.
  intros [I1 I2 I3 I4 I5] Hx Hy Hmd Sm Sd.
  assert (forall w, dict_get (fold_left (fun c k => dict_set c k m) itd (comp s)) w =
            match dict_get (comp s) w with
            | Some c => Some (if Nat.eq_dec c d then m else c)
            | None => None end) as G.
  { intros w. rewrite get_redirect. destruct (mem w itd) eqn:M.
    - apply mem_In in M. apply (I3 y d idd itd Hy Sd) in M. rewrite M.
      destruct (Nat.eq_dec d d); congruence.
    - apply mem_false in M. destruct (dict_get (comp s) w) as [c|] eqn:Cw; [|reflexivity].
      destruct (Nat.eq_dec c d) as [->|nd]; [|reflexivity].
      exfalso. apply M. apply (I3 y d idd itd Hy Sd). exact Cw. }
  pose proof (I3 x m idm im Hx Sm) as Im.
  pose proof (I3 y d idd itd Hy Sd) as Id.
  pose proof (I4 x m idm im Hx Sm) as [Jm1 Jm2].
  pose proof (I4 y d idd itd Hy Sd) as [Jd1 Jd2].
  constructor; simpl.
  - intros k Hk. destruct (I1 k Hk) as [a Ha]. rewrite G, Ha. eauto.
  - intros k a Hk. rewrite G in Hk.
    destruct (dict_get (comp s) k) as [c|] eqn:Ck; [|discriminate]. injection Hk as <-.
    rewrite get_store_set.
    destruct (Nat.eq_dec c d) as [->|nd].
    + destruct (Nat.eq_dec m m); [eauto | congruence].
    + destruct (Nat.eq_dec c m); [eauto|]. apply (I2 k c Ck).
  - intros u a id items Hu Hs w. rewrite G in Hu.
    destruct (dict_get (comp s) u) as [c|] eqn:Cu; [|discriminate]. injection Hu as <-.
    rewrite get_store_set in Hs. rewrite G.
    assert (forall cw, (Some cw = Some m \/ Some cw = Some d) <->
                       Some (if Nat.eq_dec cw d then m else cw) = Some m) as Key.
    { intros cw. destruct (Nat.eq_dec cw d) as [->|n]; intuition congruence. }
    assert ((id, items) = (vmin leb idm idd, set_union im itd) ->
            In w items <->
            match dict_get (comp s) w with
            | Some c0 => Some (if Nat.eq_dec c0 d then m else c0) | None => None end = Some m) as CaseM.
    { intros [= -> ->]. rewrite In_set_union, Im, Id.
      destruct (dict_get (comp s) w) as [cw|]; [apply Key|].
      split; [intros [?|?]; discriminate | discriminate]. }
    destruct (Nat.eq_dec c d) as [->|nd].
    + destruct (Nat.eq_dec m m) as [_|nn]; [|congruence]. apply CaseM. congruence.
    + destruct (Nat.eq_dec c m) as [->|nm]; [apply CaseM; congruence|].
      rewrite (I3 u c id items Cu Hs w).
      destruct (dict_get (comp s) w) as [cw|]; [|split; discriminate].
      destruct (Nat.eq_dec cw d) as [->|nd2]; split; intros; congruence.
  - intros u a id items Hu Hs. rewrite G in Hu.
    destruct (dict_get (comp s) u) as [c|] eqn:Cu; [|discriminate]. injection Hu as <-.
    rewrite get_store_set in Hs.
    assert ((id, items) = (vmin leb idm idd, set_union im itd) ->
            In id items /\ (forall w, In w items -> leb id w = true)) as CaseM.
    { intros [= -> ->]. destruct (vmin_le idm idd) as [L1 L2]. split.
      - rewrite In_set_union. destruct (vmin_cases idm idd) as [->| ->]; [left|right]; assumption.
      - intros w Hw. apply In_set_union in Hw. destruct Hw as [Hw|Hw].
        + apply (leb_trans leb TO _ idm); [exact L1 | apply Jm2, Hw].
        + apply (leb_trans leb TO _ idd); [exact L2 | apply Jd2, Hw]. }
    destruct (Nat.eq_dec c d) as [->|nd].
    + destruct (Nat.eq_dec m m) as [_|nn]; [|congruence]. apply CaseM. congruence.
    + destruct (Nat.eq_dec c m) as [->|nm]; [apply CaseM; congruence|].
      apply (I4 u c id items Cu Hs).
  - intros u v a b Hu Hv. rewrite G in Hu, Hv.
    destruct (dict_get (comp s) u) as [cu|] eqn:Cu; [|discriminate]. injection Hu as <-.
    destruct (dict_get (comp s) v) as [cv|] eqn:Cv; [|discriminate]. injection Hv as <-.
    rewrite <- (I5 u v cu cv Cu Cv), <- (I5 u x cu m Cu Hx), <- (I5 y v d cv Hy Cv),
            <- (I5 u y cu d Cu Hy), <- (I5 x v m cv Hx Cv).
    destruct (Nat.eq_dec cu d), (Nat.eq_dec cv d); lia.
Qed.

Lemma Inv_step K E s a b :
  Inv K (conn E) s -> In a K -> In b K -> Inv K (conn (E ++ [(a, b)])) (cc_step leb s (a, b)).
Proof.
  intros I Ha Hb. pose proof I as [I1 I2 I3 I4 I5].
  destruct (I1 a Ha) as [ca Ca]. destruct (I1 b Hb) as [cb Cb].
  destruct (I2 a ca Ca) as (ida & ia & Sa). destruct (I2 b cb Cb) as (idb & ib & Sb).
  unfold cc_step. rewrite Ca, Cb, Sa, Sb.
  destruct (eqb ida idb) eqn:Eq.
  - apply (proj1 (eqb_true ida idb)) in Eq. subst idb.
    assert (ca = cb) as Hab.
    { destruct (I4 a ca ida ia Ca Sa) as [Hin _]. destruct (I4 b cb ida ib Cb Sb) as [Hin' _].
      apply (I3 a ca ida ia Ca Sa) in Hin. apply (I3 b cb ida ib Cb Sb) in Hin'. congruence. }
    assert (conn E a b) as Cab by (apply (I5 a b ca cb Ca Cb); exact Hab).
    apply (Inv_iff K (conn E)); [|exact I].
    intros u v. rewrite conn_snoc. split; [tauto|].
    intros [C|[[C1 C2]|[C1 C2]]]; [exact C | |].
    + apply (conn_trans _ u a v); [exact C1|]. apply (conn_trans _ a b v); assumption.
    + apply (conn_trans _ u b v); [exact C1|]. apply (conn_trans _ b a v); [apply conn_sym|]; assumption.
  - assert (ca <> cb) as Hab.
    { intros Hc. rewrite Hc, Sb in Sa. assert (idb = ida) as Hid by congruence.
      rewrite Hid, eqb_refl in Eq. discriminate. }
    destruct (Nat.leb (List.length ib) (List.length ia)).
    + eapply Inv_iff; [|apply (Inv_merge K (conn E) s a b ca cb ida ia idb ib); auto].
      intros u v. simpl. rewrite conn_snoc. tauto.
    + eapply Inv_iff; [|apply (Inv_merge K (conn E) s b a cb ca idb ib ida ia); auto].
      intros u v. simpl. rewrite conn_snoc. tauto.
Qed.

Lemma Inv_fold K E2 : forall E1 s,
  (forall a b, In (a, b) E2 -> In a K /\ In b K) ->
  Inv K (conn E1) s -> Inv K (conn (E1 ++ E2)) (fold_left (cc_step leb) E2 s).
Proof.
  induction E2 as [|[a b] t IH]; intros E1 s HE I; simpl.
  - rewrite app_nil_r. exact I.
  - replace (E1 ++ (a, b) :: t) with ((E1 ++ [(a, b)]) ++ t) by (rewrite <- app_assoc; reflexivity).
    apply IH; [intros a' b' Hin; apply HE; right; exact Hin|].
    destruct (HE a b (or_introl eq_refl)) as [Ha Hb]. apply Inv_step; assumption.
Qed.

(* ---- initial state ---- *)
Lemma init_spec (ks : list V) : forall i,
  (forall k a, dict_get (comp (init_from i ks)) k = Some a ->
     i <= a /\ dict_get (store (init_from i ks)) a = Some (k, [k])) /\
  (forall k, In k ks -> exists a, dict_get (comp (init_from i ks)) k = Some a).
Proof.
  induction ks as [|k0 t IH]; intros i; simpl.
  - split; [intros k a Hk; discriminate | intros k []].
  - destruct (IH (S i)) as [IH1 IH2]. split.
    + intros k a Hk. destruct (eq_dec k k0) as [->|n].
      * injection Hk as <-. split; [lia|]. destruct (eq_dec i i) as [_|nn]; [reflexivity | congruence].
      * destruct (IH1 k a Hk) as [Hle Hs]. split; [lia|].
        destruct (eq_dec a i) as [->|_]; [lia | exact Hs].
    + intros k [->|Hin].
      * destruct (eq_dec k k) as [_|nn]; [eauto | congruence].
      * destruct (eq_dec k k0); [eauto | apply IH2, Hin].
Qed.

Lemma Inv_init (K : list V) : Inv K (conn []) (init_from 0 K).
Proof.
  destruct (init_spec K 0) as [S1 S2].
  constructor.
  - exact S2.
  - intros k a Hk. destruct (S1 k a Hk) as [_ Hs]. eauto.
  - intros u a id items Hu Hs w. destruct (S1 u a Hu) as [_ Hs']. rewrite Hs' in Hs.
    injection Hs as <- <-. split.
    + intros [->|[]]. exact Hu.
    + intros Hw. destruct (S1 w a Hw) as [_ Hs'']. rewrite Hs'' in Hs'. injection Hs' as ->. left. reflexivity.
  - intros u a id items Hu Hs. destruct (S1 u a Hu) as [_ Hs']. rewrite Hs' in Hs.
    injection Hs as <- <-. split; [left; reflexivity|].
    intros w [->|[]]. apply (leb_refl leb TO).
  - intros u v a b Hu Hv. rewrite conn_nil.
    destruct (S1 u a Hu) as [_ Su]. destruct (S1 v b Hv) as [_ Sv]. split.
    + intros ->. congruence.
    + intros ->. congruence.
Qed.

(* ---- final state ---- *)
Lemma edges_in_keys (f g : list V) a b : In (a, b) (combine f g) -> In a (cc_keys f g) /\ In b (cc_keys f g).
Proof.
  intros Hin. unfold cc_keys. rewrite !In_set_union, !In_py_set. split.
  - left. eapply in_combine_l. exact Hin.
  - right. eapply in_combine_r. exact Hin.
Qed.

Lemma Inv_final (f g : list V) :
  Inv (cc_keys f g) (conn (combine f g)) (fold_left (cc_step leb) (combine f g) (cc_init f g)).
Proof.
  apply (Inv_fold (cc_keys f g) (combine f g) [] (cc_init f g)).
  - apply edges_in_keys.
  - apply Inv_init.
Qed.

Lemma In_f_keys (f g : list V) v : In v f -> In v (cc_keys f g).
Proof. intros Hv. unfold cc_keys. rewrite In_set_union, In_py_set. left. exact Hv. Qed.

Lemma label_ex K R s v : Inv K R s -> In v K -> exists m, cc_label s v = Some m.
Proof.
  intros [I1 I2 _ _ _] Hv. destruct (I1 v Hv) as [a Ha]. destruct (I2 v a Ha) as (id & items & Hs).
  exists id. unfold cc_label. rewrite Ha, Hs. reflexivity.
Qed.

Lemma label_spec K E s v m :
  (forall a b, In (a, b) E -> In a K /\ In b K) ->
  Inv K (conn E) s -> In v K -> cc_label s v = Some m ->
  conn E v m /\ (forall u, conn E v u -> leb m u = true).
Proof.
  intros HE [I1 I2 I3 I4 I5] Hv Hl. unfold cc_label in Hl.
  destruct (dict_get (comp s) v) as [a|] eqn:Ca; [|discriminate].
  destruct (dict_get (store s) a) as [[id items]|] eqn:Sa; [|discriminate].
  injection Hl as ->.
  destruct (I4 v a m items Ca Sa) as [Hin Hle].
  split.
  - apply (I5 v m a a Ca); [|reflexivity]. apply (I3 v a m items Ca Sa). exact Hin.
  - intros u Cu.
    assert (In u K) as Hu by (apply (conn_closed E (fun z => In z K) v u HE Cu); exact Hv).
    destruct (I1 u Hu) as [b Cb].
    assert (a = b) as <- by (apply (I5 v u a b Ca Cb); exact Cu).
    apply Hle. apply (I3 v a m items Ca Sa). exact Cb.
Qed.

Lemma label_same K E s vi vj mi mj :
  (forall a b, In (a, b) E -> In a K /\ In b K) ->
  Inv K (conn E) s -> In vi K -> In vj K ->
  cc_label s vi = Some mi -> cc_label s vj = Some mj ->
  (mi = mj <-> conn E vi vj).
Proof.
  intros HE I Hi Hj Li Lj.
  destruct (label_spec K E s vi mi HE I Hi Li) as [Ci _].
  destruct (label_spec K E s vj mj HE I Hj Lj) as [Cj _].
  split.
  - intros <-. apply (conn_trans _ vi mi vj); [exact Ci | apply conn_sym, Cj].
  - intros C. destruct I as [I1 I2 I3 I4 I5]. unfold cc_label in Li, Lj.
    destruct (dict_get (comp s) vi) as [a|] eqn:Ca; [|discriminate].
    destruct (dict_get (comp s) vj) as [b|] eqn:Cb; [|discriminate].
    assert (a = b) as <- by (apply (I5 vi vj a b Ca Cb); exact C).
    destruct (dict_get (store s) a) as [[id items]|]; [|discriminate]. congruence.
Qed.

(* every edge i is labelled by the least vertex of the connected component of its endpoints *)
Lemma cc_correct (f g : list V) : List.length f = List.length g ->
  exists res, connected_components leb f g = Some res /\ List.length res = List.length f /\
  forall i v, nth_error f i = Some v ->
    exists m, nth_error res i = Some m /\ conn (combine f g) v m /\ (forall u, conn (combine f g) v u -> leb m u = true).
Proof.
  intros _. unfold connected_components.
  pose proof (Inv_final f g) as I.
  set (s := fold_left (cc_step leb) (combine f g) (cc_init f g)) in *.
  destruct (all_some_ex (cc_label s) f) as [res Hres].
  { intros x Hx. apply (label_ex _ _ _ _ I). apply In_f_keys, Hx. }
  exists res. split; [exact Hres|].
  destruct (all_some_nth (cc_label s) f res Hres) as [Hlen Hnth].
  split; [exact Hlen|].
  intros i v Hv. destruct (Hnth i v Hv) as (m & Hm & Hl).
  exists m. split; [exact Hm|].
  apply (label_spec (cc_keys f g) (combine f g) s v m (edges_in_keys f g) I); [|exact Hl].
  apply In_f_keys. eapply nth_error_In. exact Hv.
Qed.

(* two edges get the same label exactly when they lie in the same component *)
Lemma cc_same_label_iff (f g : list V) res : List.length f = List.length g ->
  connected_components leb f g = Some res ->
  forall i j vi vj mi mj, nth_error f i = Some vi -> nth_error f j = Some vj ->
    nth_error res i = Some mi -> nth_error res j = Some mj ->
    (mi = mj <-> conn (combine f g) vi vj).
Proof.
  intros _ Hres i j vi vj mi mj Hi Hj Ri Rj. unfold connected_components in Hres.
  pose proof (Inv_final f g) as I.
  set (s := fold_left (cc_step leb) (combine f g) (cc_init f g)) in *.
  destruct (all_some_nth (cc_label s) f res Hres) as [_ Hnth].
  destruct (Hnth i vi Hi) as (mi' & Ri' & Li). destruct (Hnth j vj Hj) as (mj' & Rj' & Lj).
  rewrite Ri in Ri'. injection Ri' as <-. rewrite Rj in Rj'. injection Rj' as <-.
  apply (label_same (cc_keys f g) (combine f g) s vi vj mi mj (edges_in_keys f g) I).
  - apply In_f_keys. eapply nth_error_In. exact Hi.
  - apply In_f_keys. eapply nth_error_In. exact Hj.
  - exact Li.
  - exact Lj.
Qed.
End P.

