(* C21, part 2: replicate_rows_query computes replicate_spec. *)
From Coq Require Import List Bool Arith ZArith QArith String Lia Permutation.
Import ListNotations.
From DA Require Import Base.PyRT Base.Val Model.Sem Model.Solutions Proofs.SemBasicP Proofs.SolutionsP1.
Local Open Scope string_scope.
Local Open Scope list_scope.

Lemma flat_map_flat_map {A B C} (g : B -> list C) (f : A -> list B) l : flat_map g (flat_map f l) = flat_map (fun x => flat_map g (f x)) l.
Proof. induction l as [|x t IH]; simpl; [reflexivity|]. rewrite flat_map_app, IH. reflexivity. Qed.
Lemma flat_map_singleton {A B} (g : A -> B) l : flat_map (fun x => [g x]) l = map g l.
Proof. induction l as [|x t IH]; simpl; [reflexivity|]. rewrite IH. reflexivity. Qed.

Definition pname (p : nat) : string := String.append "p" (dec_of_nat p).
Lemma pname_inj a b : pname a = pname b -> a = b.
Proof. unfold pname. intros H. apply dec_of_nat_inj. eapply append_inj_l, H. Qed.

Section Replicate.
  Variable pw : nat -> nat.
  Variables (P maxc : nat).
  Hypothesis pw_ok : forall n, (1 <= n <= maxc)%nat -> (n <= 2 ^ pw n)%nat /\ (pw n <= P)%nat.

  Lemma xscalar_concat fl a b : xscalar pw fl "concat" [VStr a; b] = match nat_of_val b with Some n => VStr (String.append a (dec_of_nat n)) | None => VNull end.
  Proof. reflexivity. Qed.
  Lemma xscalar_ceil fl a : xscalar pw fl "ceil_log2" [a] = match nat_of_val a with Some n => if Nat.leb 1 n then vnat (pw n) else VNull | None => VNull end.
  Proof. reflexivity. Qed.
  Lemma xscalar_lt fl a b : xscalar pw fl "<" [a; b] = compare_vals fl CLt a b.
  Proof. reflexivity. Qed.
  Lemma norm_power cnt : norm_expr (power_expr cnt) = EOp "concat" [EConst (VStr "p"); EOp "ceil_log2" [ECol cnt]].
  Proof. reflexivity. Qed.

  Lemma eval_power fl cs r cnt c : nat_of_val (get cs r cnt) = Some c -> (1 <= c)%nat ->
    eval_x pw fl cs r (power_expr cnt) = VStr (pname (pw c)).
  Proof. intros H L. unfold eval_x. rewrite norm_power. cbn [eval_n]. rewrite xscalar_ceil, H.
    destruct (Nat.leb_spec 1 c); [|lia]. rewrite xscalar_concat, nat_of_val_vnat. reflexivity. Qed.

  Lemma count_frame_select seqc : seqc <> power_col ->
    sem_select_cols [power_col; seqc] (count_frame seqc P) = count_frame seqc P.
  Proof. intros N. unfold sem_select_cols, count_frame. cbn [cols rows]. f_equal.
    rewrite <- (map_id (count_frame_rows P)) at 2. apply map_ext_in. intros r I.
    unfold count_frame_rows in I. apply in_flat_map in I as [p [_ I]]. apply in_map_iff in I as [i [<- _]].
    cbn [map]. rewrite get_head, (get_tail seqc power_col) by exact N. rewrite get_head. reflexivity. Qed.

  Section Table.
    Variables (fl : flavor) (cnt seqc : string) (t : table).
    Hypothesis V : replicate_valid cnt seqc maxc t = true.

    Let cs := cols t.
    Lemma rep_facts :
      In cnt cs /\ ~ In seqc cs /\ ~ In power_col cs /\ seqc <> power_col /\ NoDup cs
      /\ (forall r, In r (rows t) -> List.length r = List.length cs /\ exists c, nat_of_val (get cs r cnt) = Some c /\ (1 <= c <= maxc)%nat).
    Proof. unfold replicate_valid in V.
      apply andb_true_iff in V as [V V7]. apply andb_true_iff in V as [V V6]. apply andb_true_iff in V as [V V5].
      apply andb_true_iff in V as [V V4]. apply andb_true_iff in V as [V V3]. apply andb_true_iff in V as [V1 V2].
      split; [apply mem_In; exact V1|]. split; [apply negb_mem_notin; exact V2|]. split; [apply negb_mem_notin; exact V3|].
      split; [apply seqb_neq; exact V4|]. split; [apply nodupb_NoDup; exact V5|].
      intros r I. split.
      - apply widthb_ok in V6. rewrite Forall_forall in V6. apply V6, I.
      - rewrite forallb_forall in V7. specialize (V7 r I). fold cs in V7.
        destruct (nat_of_val (get cs r cnt)) as [c|]; [|discriminate]. exists c. split; [reflexivity|].
        apply andb_true_iff in V7 as [F1 F2]. apply Nat.leb_le in F1, F2. lia.
    Qed.

    Definition kof (r : list val) : nat := match nat_of_val (get cs r cnt) with Some c => pw c | None => 0%nat end.

    (* step 1: the extend adds the key of the power table to use *)
    Lemma rep_step1 :
      sem_extend_x pw fl [(power_col, power_expr cnt)] t = mktable (cs ++ [power_col]) (map (fun r => r ++ [VStr (pname (kof r))]) (rows t)).
    Proof. destruct rep_facts as (Ic & Ns & Np & Nsp & ND & RW).
      unfold sem_extend_x. cbn [map fst]. unfold ext_cols. cbn [fold_left]. fold cs. rewrite (add_end_new cs power_col Np). f_equal.
      apply map_ext_in. intros r I. destruct (RW r I) as (L & c & Hc & Bc).
      unfold extend_row_x. cbn [fold_left fst snd]. fold cs. rewrite (set_cell_new cs r power_col _ Np).
      rewrite (eval_power fl cs r cnt c Hc) by lia. unfold kof. rewrite Hc. reflexivity. Qed.

    (* step 2: the inner join with the count frame: row r meets the 2^k rows of its power table *)
    Lemma rep_step2 nm :
      sem_join nm [power_col] [power_col] JInner
               (mktable (cs ++ [power_col]) (map (fun r => r ++ [VStr (pname (kof r))]) (rows t))) (count_frame seqc P)
      = mktable ((cs ++ [power_col]) ++ [seqc])
                (flat_map (fun r => map (fun i => r ++ [VStr (pname (kof r)); vnat i]) (seq 0 (2 ^ kof r))) (rows t)).
    Proof. destruct rep_facts as (Ic & Ns & Np & Nsp & ND & RW).
      unfold sem_join. cbn [cols rows count_frame].
      assert (filter (fun c => negb (mem c (cs ++ [power_col]))) [power_col; seqc] = [seqc]) as F.
      { cbn [filter]. rewrite !mem_app.
        assert (mem power_col [power_col] = true) as M1 by (apply mem_In; left; reflexivity).
        assert (mem seqc cs = false) as M2 by (apply mem_false; exact Ns).
        assert (mem seqc [power_col] = false) as M3 by (apply mem_false; intros [E|[]]; congruence).
        rewrite M1, M2, M3, orb_true_r. reflexivity. }
      rewrite F. f_equal. rewrite !app_nil_r. rewrite flat_map_map. apply flat_map_ext_in. intros r I.
      destruct (RW r I) as (L & c & Hc & Bc). destruct (pw_ok c Bc) as [_ KP].
      assert (kof r = pw c) as K by (unfold kof; rewrite Hc; reflexivity).
      unfold count_frame_rows. rewrite flat_map_flat_map.
      rewrite (flat_map_single _ (kof r) (seq 0 (S P))); [|apply seq_NoDup|apply in_seq; lia|].
      - rewrite flat_map_map, <- flat_map_singleton. apply flat_map_ext_in. intros i _.
        assert (key_of (cs ++ [power_col]) [power_col] (r ++ [VStr (pname (kof r))]) = [VStr (pname (kof r))]) as KA
          by (unfold key_of; cbn [map]; rewrite (get_app_r cs [power_col] r _ power_col Np L), get_head; reflexivity).
        assert (key_of [power_col; seqc] [power_col] [VStr (pname (kof r)); vnat i] = [VStr (pname (kof r))]) as KB
          by (unfold key_of; cbn [map]; rewrite get_head; reflexivity).
        fold (pname (kof r)). rewrite KA, KB. unfold keys_match. cbn [existsb is_null keys_eqv v_eqv]. rewrite String.eqb_refl, orb_true_r. cbn [andb negb orb].
        f_equal. rewrite !map_app. cbn [map]. rewrite <- app_assoc. cbn [app]. f_equal; [|f_equal; [|f_equal]].
        + transitivity (map (get cs r) cs); [|apply map_get_id; assumption]. apply map_ext_in. intros a Ia.
          assert (mem a (cs ++ [power_col]) = true) as M1 by (apply mem_In, in_or_app; left; exact Ia).
          assert (mem a [power_col; seqc] = false) as M2 by (apply mem_false; intros [E|[E|[]]]; subst a; contradiction).
          rewrite M1, M2, (get_app_l cs [power_col] r _ a Ia L). apply unnull.
        + assert (mem power_col (cs ++ [power_col]) = true) as M1 by (apply mem_In, in_or_app; right; left; reflexivity).
          rewrite M1, (get_app_r cs [power_col] r _ power_col Np L), get_head. reflexivity.
        + assert (mem seqc (cs ++ [power_col]) = false) as M1 by (apply mem_false; intros X; apply in_app_or in X as [X|[X|[]]]; [contradiction|congruence]).
          assert (mem seqc [power_col; seqc] = true) as M2 by (apply mem_In; right; left; reflexivity).
          rewrite M1, M2. cbn [is_null]. rewrite (get_tail seqc power_col) by exact Nsp. apply get_head.
      - intros p _ Npk. rewrite flat_map_map. apply flat_map_nil. intros i _.
        assert (key_of (cs ++ [power_col]) [power_col] (r ++ [VStr (pname (kof r))]) = [VStr (pname (kof r))]) as KA
          by (unfold key_of; cbn [map]; rewrite (get_app_r cs [power_col] r _ power_col Np L), get_head; reflexivity).
        fold (pname p).
        assert (key_of [power_col; seqc] [power_col] [VStr (pname p); vnat i] = [VStr (pname p)]) as KB
          by (unfold key_of; cbn [map]; rewrite get_head; reflexivity).
        rewrite KA, KB. unfold keys_match. cbn [keys_eqv v_eqv].
        assert (String.eqb (pname (kof r)) (pname p) = false) as NE by (apply String.eqb_neq; intros E; apply pname_inj in E; congruence).
        rewrite NE. cbn [andb]. rewrite andb_false_r. reflexivity.
    Qed.

    (* step 3: the filter seq < count keeps the first `count` of them *)
    Lemma rep_step3 :
      sem_select_rows_x pw fl (EOp "<" [ECol seqc; ECol cnt])
        (mktable ((cs ++ [power_col]) ++ [seqc])
                 (flat_map (fun r => map (fun i => r ++ [VStr (pname (kof r)); vnat i]) (seq 0 (2 ^ kof r))) (rows t)))
      = mktable ((cs ++ [power_col]) ++ [seqc])
                (flat_map (fun r => match nat_of_val (get cs r cnt) with
                                    | Some c => map (fun i => r ++ [VStr (pname (kof r)); vnat i]) (seq 0 c)
                                    | None => [] end) (rows t)).
    Proof. destruct rep_facts as (Ic & Ns & Np & Nsp & ND & RW).
      unfold sem_select_rows_x. cbn [cols rows]. f_equal. rewrite filter_flat_map. apply flat_map_ext_in. intros r I.
      destruct (RW r I) as (L & c & Hc & Bc). destruct (pw_ok c Bc) as [C2 _].
      assert (kof r = pw c) as K by (unfold kof; rewrite Hc; reflexivity).
      rewrite Hc, filter_map_comm. f_equal. rewrite K. rewrite <- (filter_ltb_seq c (2 ^ pw c) C2). apply filter_ext_in. intros i _.
      unfold eval_x. cbn [norm_expr ceil_log2_shape String.eqb Ascii.eqb Bool.eqb eval_n]. rewrite xscalar_lt.
      rewrite <- app_assoc. cbn [app].
      assert (get (cs ++ [power_col; seqc]) (r ++ [VStr (pname (pw c)); vnat i]) seqc = vnat i) as G1
        by (rewrite (get_app_r cs _ r _ seqc Ns L), (get_tail seqc power_col) by exact Nsp; apply get_head).
      assert (get (cs ++ [power_col; seqc]) (r ++ [VStr (pname (pw c)); vnat i]) cnt = get cs r cnt) as G2
        by (apply get_app_l; assumption).
      rewrite G1, G2. apply ltb_vnat. exact Hc.
    Qed.

    (* step 4: drop the power column *)
    Lemma rep_step4 :
      sem_drop_cols [power_col]
        (mktable ((cs ++ [power_col]) ++ [seqc])
                 (flat_map (fun r => match nat_of_val (get cs r cnt) with
                                     | Some c => map (fun i => r ++ [VStr (pname (kof r)); vnat i]) (seq 0 c)
                                     | None => [] end) (rows t)))
      = replicate_spec cnt seqc t.
    Proof. destruct rep_facts as (Ic & Ns & Np & Nsp & ND & RW).
      unfold sem_drop_cols, sem_select_cols, replicate_spec. cbn [cols rows]. fold cs.
      assert (filter (fun c => negb (mem c [power_col])) ((cs ++ [power_col]) ++ [seqc]) = cs ++ [seqc]) as F.
      { rewrite !filter_app. cbn [filter].
        assert (mem power_col [power_col] = true) as M1 by (apply mem_In; left; reflexivity).
        assert (mem seqc [power_col] = false) as M3 by (apply mem_false; intros [E|[]]; congruence).
        rewrite M1, M3. cbn [negb app]. rewrite app_nil_r. f_equal. apply filter_all. intros a Ia.
        apply negb_true_iff, mem_false. intros [E|[]]. subst a. contradiction. }
      rewrite F. f_equal. rewrite map_flat_map. apply flat_map_ext_in. intros r I.
      destruct (RW r I) as (L & c & Hc & Bc). rewrite Hc, map_map. apply map_ext. intros i.
      rewrite <- app_assoc. cbn [app]. rewrite map_app. cbn [map]. f_equal.
      - apply map_get_app_l; assumption.
      - f_equal. rewrite (get_app_r cs _ r _ seqc Ns L), (get_tail seqc power_col) by exact Nsp. apply get_head.
    Qed.
  End Table.

  Theorem replicate_rows_correct (fl : flavor) (d : op) (cnt seqc jt : string) (e : env) (t : table) :
    sem_x pw fl d e = Some t ->
    dict_get e jt = Some (count_frame seqc P) ->
    replicate_valid cnt seqc maxc t = true ->
    exists out, sem_x pw fl (replicate_rows_pipeline d cnt seqc jt) e = Some out /\ tbl_equiv out (replicate_spec cnt seqc t).
  Proof.
    intros Hd Hj V. exists (replicate_spec cnt seqc t). split; [|split; [reflexivity|apply Permutation_refl]].
    destruct (rep_facts cnt seqc t V) as (Ic & Ns & Np & Nsp & ND & RW).
    unfold replicate_rows_pipeline. cbn [sem_x]. rewrite Hd, Hj. cbn [option_map]. f_equal.
    rewrite (count_frame_select seqc Nsp), (rep_step1 fl cnt seqc t V), (rep_step2 cnt seqc t V), (rep_step3 fl cnt seqc t V).
    apply (rep_step4 cnt seqc t V).
  Qed.
End Replicate.
