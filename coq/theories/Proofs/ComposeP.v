(* C07 -- proofs about Model/Compose.v, part 1: replace_leaves as substitution, and its meaning.
   Everything is by structural induction over operator trees; no bound on depth, width, rows or names. *)
From Coq Require Import List Bool Arith String Lia Setoid.
Import ListNotations.
From DA Require Import Base.PyRT Base.Val Model.Sem Proofs.SemBasicP Model.Compose.
Local Open Scope list_scope.

(* ------------------------------------------------------------------ plain substitution of leaves *)
Fixpoint subst (m : rmap) (p : op) : op :=
  match p with
  | OTable n cs => match dict_get m n with Some r => r | None => OTable n cs end
  | OExtend s ops wd w => OExtend (subst m s) ops wd w
  | OProject s ops gb => OProject (subst m s) ops gb
  | OSelectRows s e => OSelectRows (subst m s) e
  | OSelectCols s cs => OSelectCols (subst m s) cs
  | ODropCols s ds => ODropCols (subst m s) ds
  | ORename s mp => ORename (subst m s) mp
  | OMapCols s mp dels => OMapCols (subst m s) mp dels
  | OOrder s cs rev lim => OOrder (subst m s) cs rev lim
  | OJoin a b on_a on_b jt => OJoin (subst m a) (subst m b) on_a on_b jt
  | OConcat a b idc an bn => OConcat (subst m a) (subst m b) idc an bn
  end.

Lemma nonempty_false {A} (l : list A) : nonempty l = false -> l = [].
Proof. destruct l; [reflexivity|discriminate]. Qed.

(* ExtendNode rebuilt from its own fields is the same node (this is where the partition_by=1 fix matters) *)
Lemma extend_rebuild src ops wd w :
  implb (implies_windowed ops || nonempty (w_part w) || nonempty (w_order w)) wd = true ->
  b_extend_parsed src (fw_extend fw_code ops wd w) = OExtend src ops wd w.
Proof.
  intros H. destruct w as [part order rv]. unfold b_extend_parsed, extend_node. cbn [fw_extend fw_code ea_parsed_ops ea_partition_by ea_order_by ea_reverse w_part w_order w_rev] in *.
  destruct wd; cbn [andb].
  - destruct (nonempty part) eqn:Np; cbn [negb part_cols part_is_one].
    + rewrite Np. rewrite orb_true_r. reflexivity.
    + apply nonempty_false in Np. subst part. cbn. rewrite orb_true_r. reflexivity.
  - cbn [part_cols part_is_one]. rewrite orb_false_r.
    destruct (implies_windowed ops || nonempty part || nonempty order); [discriminate H|reflexivity].
Qed.

Lemma map_rebuild_remap (m : list (string * string)) (dels : list string) :
  flat_map (fun kv : string * option string => match snd kv with Some n => [(n, fst kv)] | None => [] end)
           (map (fun no : string * string => (snd no, Some (fst no))) m ++ map (fun d : string => (d, @None string)) dels) = m.
Proof.
  induction m as [|[n o] t IH]; cbn.
  - induction dels as [|d u IHd]; cbn; [reflexivity|exact IHd].
  - rewrite IH. reflexivity.
Qed.
Lemma map_rebuild_dels (m : list (string * string)) (dels : list string) :
  flat_map (fun kv : string * option string => match snd kv with Some _ => [] | None => [fst kv] end)
           (map (fun no : string * string => (snd no, Some (fst no))) m ++ map (fun d : string => (d, @None string)) dels) = dels.
Proof.
  induction m as [|[n o] t IH]; cbn.
  - induction dels as [|d u IHd]; cbn; [reflexivity|rewrite IHd; reflexivity].
  - exact IH.
Qed.

Lemma map_fst_combine {A B} (a : list A) (b : list B) : List.length a = List.length b -> map fst (combine a b) = a.
Proof. revert b. induction a as [|x t IH]; intros [|y u] L; simpl in *; try discriminate; [reflexivity|]. rewrite IH; [reflexivity|lia]. Qed.
Lemma map_snd_combine {A B} (a : list A) (b : list B) : List.length a = List.length b -> map snd (combine a b) = b.
Proof. revert b. induction a as [|x t IH]; intros [|y u] L; simpl in *; try discriminate; [reflexivity|]. rewrite IH; [reflexivity|lia]. Qed.

(* on trees made by the node constructors, re-running the (un-simplified) builders with the forwarded arguments
   is plain substitution of the leaves *)
Lemma replace_leaves_subst m p : built_ok p = true -> replace_leaves m p = subst m p.
Proof.
  unfold replace_leaves.
  induction p as [n cs|s IH ops wd w|s IH ops gb|s IH e|s IH cs|s IH ds|s IH mp|s IH mp dels|s IH cs rv lim|a IHa b IHb on_a on_b jt|a IHa b IHb idc an bn];
    intros B; cbn [built_ok] in B; cbn [replace_leaves_with subst].
  - reflexivity.
  - apply andb_true_iff in B. destruct B as [Bs Bw]. rewrite (IH Bs). apply extend_rebuild. exact Bw.
  - rewrite (IH B). reflexivity.
  - rewrite (IH B). reflexivity.
  - rewrite (IH B). reflexivity.
  - rewrite (IH B). reflexivity.
  - rewrite (IH B). reflexivity.
  - rewrite (IH B). unfold b_map_columns. cbn [fw_map_columns fw_code mc_column_remapping].
    rewrite map_rebuild_remap, map_rebuild_dels. reflexivity.
  - rewrite (IH B). reflexivity.
  - apply andb_true_iff in B. destruct B as [B L]. apply andb_true_iff in B. destruct B as [Ba Bb].
    apply Nat.eqb_eq in L. rewrite (IHa Ba), (IHb Bb). cbn [fw_natural_join fw_code]. unfold b_natural_join. cbn [nj_b nj_on nj_jointype].
    rewrite (map_fst_combine _ _ L), (map_snd_combine _ _ L). reflexivity.
  - apply andb_true_iff in B. destruct B as [Ba Bb]. rewrite (IHa Ba), (IHb Bb). reflexivity.
Qed.

Lemma built_ok_subst m p : built_ok p = true -> (forall k r, dict_get m k = Some r -> built_ok r = true) -> built_ok (subst m p) = true.
Proof.
  intros B Hm.
  induction p as [n cs|s IH ops wd w|s IH ops gb|s IH e|s IH cs|s IH ds|s IH mp|s IH mp dels|s IH cs rv lim|a IHa b IHb on_a on_b jt|a IHa b IHb idc an bn];
    cbn [built_ok subst] in *; try (apply IH; exact B).
  - destruct (dict_get m n) as [r|] eqn:E; [eapply Hm; exact E|reflexivity].
  - apply andb_true_iff in B. destruct B as [Bs Bw]. rewrite (IH Bs), Bw. reflexivity.
  - apply andb_true_iff in B. destruct B as [B L]. apply andb_true_iff in B. destruct B as [Ba Bb]. rewrite (IHa Ba), (IHb Bb), L. reflexivity.
  - apply andb_true_iff in B. destruct B as [Ba Bb]. rewrite (IHa Ba), (IHb Bb). reflexivity.
Qed.

(* ------------------------------------------------------------------ environments *)
Lemma dict_get_env_set (e : env) k o n : dict_get (env_set e k o) n = if eq_dec n k then o else dict_get e n.
Proof.
  unfold env_set. destruct o as [t|].
  - simpl. destruct (eq_dec n k); reflexivity.
  - rewrite dict_get_pop. destruct (eq_dec n k); reflexivity.
Qed.

Lemma dict_get_override fl (e : env) (m : rmap) n :
  dict_get (override fl e m) n = match dict_get m n with Some r => sem_gen fl r e | None => dict_get e n end.
Proof.
  unfold override. induction m as [|[k r] t IH]; simpl; [reflexivity|].
  rewrite dict_get_env_set. destruct (eq_dec n k); [reflexivity|exact IH].
Qed.

(* a pipeline's meaning depends on the environment only through the tables it names *)
Fixpoint table_names (p : op) : list string :=
  match p with
  | OTable n _ => [n]
  | OExtend s _ _ _ | OProject s _ _ | OSelectRows s _ | OSelectCols s _ | ODropCols s _ | ORename s _ | OMapCols s _ _ | OOrder s _ _ _ => table_names s
  | OJoin a b _ _ _ | OConcat a b _ _ _ => table_names a ++ table_names b
  end.

Lemma sem_env_ext fl p (e e' : env) :
  (forall n, In n (table_names p) -> dict_get e n = dict_get e' n) -> sem_gen fl p e = sem_gen fl p e'.
Proof.
  induction p as [n cs|s IH ops wd w|s IH ops gb|s IH x|s IH cs|s IH ds|s IH mp|s IH mp dels|s IH cs rv lim|a IHa b IHb on_a on_b jt|a IHa b IHb idc an bn];
    intros H; cbn [sem_gen table_names] in *; try (rewrite (IH H); reflexivity).
  - rewrite (H n); [reflexivity|left; reflexivity].
  - rewrite IHa, IHb; [reflexivity| |]; intros n I; apply H; apply in_app_iff; [right|left]; exact I.
  - rewrite IHa, IHb; [reflexivity| |]; intros n I; apply H; apply in_app_iff; [right|left]; exact I.
Qed.

(* ------------------------------------------------------------------ selecting a table's own columns is the identity *)
Lemma nodupb_NoDup l : nodupb l = true <-> NoDup l.
Proof.
  induction l as [|x t IH]; cbn [nodupb]; [split; [constructor|reflexivity]|].
  rewrite andb_true_iff, negb_true_iff, mem_false, IH. split.
  - intros [A B]. constructor; assumption.
  - intros N. inversion N; subst. split; assumption.
Qed.

Lemma index_of_nth_NoDup (cs : list string) i d : NoDup cs -> (i < List.length cs)%nat -> index_of (nth i cs d) cs = Some i.
Proof.
  revert i. induction cs as [|c t IH]; intros i N L; simpl in L; [lia|].
  inversion N as [|x l Hx N']; subst. destruct i as [|i]; simpl.
  - destruct (eq_dec c c); [reflexivity|congruence].
  - destruct (eq_dec (nth i t d) c) as [E|_].
    + exfalso. apply Hx. rewrite <- E. apply nth_In. lia.
    + rewrite IH; [reflexivity|exact N'|lia].
Qed.

Lemma row_reselect (cs : list string) (r : list val) : NoDup cs -> List.length r = List.length cs -> map (get cs r) cs = r.
Proof.
  intros N L. apply (nth_ext _ _ VNull VNull); [rewrite map_length; symmetry; exact L|].
  intros i Hi. rewrite map_length in Hi.
  rewrite (nth_indep _ VNull (get cs r EmptyString)) by (rewrite map_length; exact Hi).
  rewrite (map_nth (get cs r) cs EmptyString i). unfold get. rewrite index_of_nth_NoDup by assumption. reflexivity.
Qed.

Lemma select_cols_id (t : table) : NoDup (cols t) -> Forall (fun r => List.length r = List.length (cols t)) (rows t) ->
  sem_select_cols (cols t) t = t.
Proof.
  intros N W. destruct t as [cs rs]. unfold sem_select_cols. cbn [cols rows] in *. f_equal.
  induction rs as [|r u IH]; simpl; [reflexivity|]. inversion W; subst. rewrite row_reselect by assumption. rewrite IH by assumption. reflexivity.
Qed.

(* ------------------------------------------------------------------ the meaning of a substituted pipeline *)
(* THE BOUNDARY CONDITION IS USED IN THE LEAF CASE ONLY: a table leaf SELECTS its declared columns from the table bound to
   its name, whereas the substituted pipeline is taken whole.  The two agree exactly when the replacement's columns
   are the declared ones, in the declared order. *)
Lemma subst_sem fl m p e : boundary_ok m p = true -> sem_gen fl (subst m p) e = sem_gen fl p (override fl e m).
Proof.
  induction p as [n cs|s IH ops wd w|s IH ops gb|s IH x|s IH cs|s IH ds|s IH mp|s IH mp dels|s IH cs rv lim|a IHa b IHb on_a on_b jt|a IHa b IHb idc an bn];
    intros B; cbn [boundary_ok] in B; cbn [subst sem_gen]; try (rewrite (IH B); reflexivity).
  - rewrite dict_get_override. revert B. destruct (dict_get m n) as [r|] eqn:E; intros B; [|reflexivity].
    apply andb_true_iff in B. destruct B as [Bc Bn]. apply (proj1 (eqb_true _ _)) in Bc. apply nodupb_NoDup in Bn.
    destruct (sem_gen fl r e) as [t|] eqn:S; [|reflexivity].
    pose proof (sem_cols _ _ _ _ S) as C. pose proof (sem_rows_width _ _ _ _ S) as W.
    rewrite <- Bc, <- C. rewrite select_cols_id; [reflexivity| |exact W]. rewrite C, Bc. exact Bn.
  - apply andb_true_iff in B. destruct B as [Ba Bb]. rewrite (IHa Ba), (IHb Bb). reflexivity.
  - apply andb_true_iff in B. destruct B as [Ba Bb]. rewrite (IHa Ba), (IHb Bb). reflexivity.
Qed.

Theorem replace_leaves_sem fl m p e :
  built_ok p = true -> boundary_ok m p = true ->
  sem_gen fl (replace_leaves m p) e = sem_gen fl p (override fl e m).
Proof. intros B1 B2. rewrite replace_leaves_subst by exact B1. apply subst_sem. exact B2. Qed.

(* declared columns: under the boundary condition the composed pipeline declares what the outer one declares *)
Lemma subst_column_names m p : boundary_ok m p = true -> column_names (subst m p) = column_names p.
Proof.
  induction p as [n cs|s IH ops wd w|s IH ops gb|s IH x|s IH cs|s IH ds|s IH mp|s IH mp dels|s IH cs rv lim|a IHa b IHb on_a on_b jt|a IHa b IHb idc an bn];
    intros B; cbn [boundary_ok] in B; cbn [subst column_names]; try (rewrite (IH B); reflexivity); try reflexivity.
  - revert B. destruct (dict_get m n) as [r|]; intros B; [|reflexivity]. apply andb_true_iff in B. destruct B as [Bc _]. apply (proj1 (eqb_true _ _)) in Bc. exact Bc.
  - apply andb_true_iff in B. destruct B as [Ba Bb]. rewrite (IHa Ba), (IHb Bb). reflexivity.
  - apply andb_true_iff in B. destruct B as [Ba Bb]. rewrite (IHa Ba). reflexivity.
Qed.

(* ------------------------------------------------------------------ composition at one leaf *)
Lemma dict_get_single {V} (k : string) (v : V) n : dict_get [(k, v)] n = if eq_dec n k then Some v else None.
Proof. reflexivity. Qed.

(* b's leaf named k declares the columns cs (every leaf with that name) *)
Fixpoint leaf_declares (k : string) (cs : list string) (p : op) : bool :=
  match p with
  | OTable n c => if eq_dec n k then eqb c cs else true
  | OExtend s _ _ _ | OProject s _ _ | OSelectRows s _ | OSelectCols s _ | ODropCols s _ | ORename s _ | OMapCols s _ _ | OOrder s _ _ _ => leaf_declares k cs s
  | OJoin a b _ _ _ | OConcat a b _ _ _ => leaf_declares k cs a && leaf_declares k cs b
  end.

Lemma boundary_single k a b : leaf_declares k (column_names a) b = true -> nodupb (column_names a) = true -> boundary_ok [(k, a)] b = true.
Proof.
  intros L N.
  induction b as [n cs|s IH ops wd w|s IH ops gb|s IH x|s IH cs|s IH ds|s IH mp|s IH mp dels|s IH cs rv lim|p IHa q IHb on_a on_b jt|p IHa q IHb idc an bn];
    cbn [leaf_declares boundary_ok] in *; try (apply IH; exact L).
  - rewrite dict_get_single. destruct (eq_dec n k); [|reflexivity]. apply (proj1 (eqb_true _ _)) in L. subst cs. rewrite N. rewrite eqb_refl. reflexivity.
  - apply andb_true_iff in L. destruct L as [La Lb]. rewrite (IHa La), (IHb Lb). reflexivity.
  - apply andb_true_iff in L. destruct L as [La Lb]. rewrite (IHa La), (IHb Lb). reflexivity.
Qed.

(* env[k := o] *)
Lemma override_single fl e k a : override fl e [(k, a)] = env_set e k (sem_gen fl a e).
Proof. reflexivity. Qed.

Theorem compose_is_sequential fl k a b e :
  built_ok b = true -> leaf_declares k (column_names a) b = true -> nodupb (column_names a) = true ->
  sem_gen fl (compose_at k a b) e = sem_gen fl b (env_set e k (sem_gen fl a e)).
Proof.
  intros B L N. unfold compose_at. rewrite replace_leaves_sem; [reflexivity|exact B|apply boundary_single; assumption].
Qed.

(* when every table of b is the leaf k, the rest of the environment is irrelevant: b runs on a's result alone *)
Definition only_table (k : string) (p : op) : Prop := forall n, In n (table_names p) -> n = k.

Theorem compose_is_sequential_single fl k a b e ta :
  built_ok b = true -> leaf_declares k (column_names a) b = true -> nodupb (column_names a) = true ->
  only_table k b -> sem_gen fl a e = Some ta ->
  sem_gen fl (compose_at k a b) e = sem_gen fl b [(k, ta)].
Proof.
  intros B L N O S. rewrite compose_is_sequential by assumption. rewrite S. apply sem_env_ext.
  intros n I. rewrite (O n I). simpl. destruct (eq_dec k k); [reflexivity|congruence].
Qed.
