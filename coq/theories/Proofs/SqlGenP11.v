(* SQLGEN, part 11 (stage iii): the SQL-level extend merge.  One SELECT with the merged terms over the inner step's input
   computes what the outer SELECT computes over the inner SELECT -- when the contention set of extend_to_near_sql is empty. *)
From Coq Require Import List Bool Arith ZArith QArith String Lia.
Import ListNotations.
From DA Require Import Base.PyRT Base.Val Model.Sem Proofs.SemBasicP Model.ColumnsUsed Proofs.ColumnsUsedP1 Proofs.ColumnsUsedP2
  Model.SqlGen Model.SqlSem Proofs.SqlGenP1 Proofs.SqlGenP2 Proofs.SqlGenP3 Proofs.SqlGenP5.
Local Open Scope list_scope.

Lemma dict_get_filter_key {V} (p : string -> bool) (d : pydict string V) k :
  p k = true -> dict_get (filter (fun kv => p (fst kv)) d) k = dict_get d k.
Proof.
  intros P. induction d as [|[a v] t IH]; [reflexivity|]. simpl. destruct (p a) eqn:Pa; simpl.
  - destruct (eq_dec k a); [reflexivity|exact IH].
  - destruct (eq_dec k a) as [->|n]; [congruence|exact IH].
Qed.

Lemma non_trivial_in dep tms k : In k (non_trivial_terms dep tms) ->
  exists vi t, In (k, vi) dep /\ dict_get tms k = Some t /\ (negb (subset vi [k]) || negb (mem k vi) || negb (term_is_trivial t)) = true.
Proof.
  unfold non_trivial_terms. intros I. apply in_flat_map in I. destruct I as [[ki vi] [Id I]]. cbn [fst snd] in I.
  destruct (dict_get tms ki) as [t|] eqn:G; [|destruct I]. destruct (_ || _) eqn:C; [|destruct I]. destruct I as [<-|[]].
  exists vi, t. tauto.
Qed.
Lemma non_trivial_not dep tms k vi t : In (k, vi) dep -> dict_get tms k = Some t -> ~ In k (non_trivial_terms dep tms) ->
  subset vi [k] = true /\ mem k vi = true /\ term_is_trivial t = true.
Proof.
  intros Id G N. destruct (negb (subset vi [k]) || negb (mem k vi) || negb (term_is_trivial t)) eqn:C.
  - exfalso. apply N. unfold non_trivial_terms. apply in_flat_map. exists (k, vi). split; [exact Id|]. cbn [fst snd]. rewrite G, C. left. reflexivity.
  - apply orb_false_iff in C. destruct C as [C C3]. apply orb_false_iff in C. destruct C as [C1 C2].
    apply negb_false_iff in C1, C2, C3. tauto.
Qed.
Lemma NoDup_non_trivial dep tms : NoDup (map fst dep) -> NoDup (non_trivial_terms dep tms).
Proof.
  unfold non_trivial_terms. induction dep as [|[k vi] t IH]; intros N; simpl; [constructor|]. inversion N as [|? ? Nk Nt]; subst.
  destruct (dict_get tms k); [|apply IH, Nt]. destruct (_ || _); [|apply IH, Nt]. simpl. constructor; [|apply IH, Nt].
  intros I. apply in_flat_map in I. destruct I as [[k2 v2] [I2 I3]]. cbn [fst snd] in I3.
  destruct (dict_get tms k2); [|destruct I3]. destruct (_ || _); [|destruct I3]. destruct I3 as [<-|[]]. apply Nk. apply in_map_iff. exists (k2, v2). tauto.
Qed.

(* the entry of the merged dict for a key the outer step uses *)
Lemma term_of_merged our_nt tms deps ts k :
  NoDup our_nt -> In k (map fst tms ++ map fst deps) ->
  term_of (merged_terms our_nt tms deps ts) k = if mem k our_nt then term_of tms k else term_of ts k.
Proof.
  intros N I. unfold term_of at 1. unfold merged_terms.
  rewrite (dict_get_filter_key (fun c => mem c (map fst tms ++ map fst deps))) by (apply mem_In, I).
  destruct (mem k our_nt) eqn:M.
  - apply mem_In in M. pose proof (dict_get_fold_set_in (fun c : string => c) (fun c => term_of tms c) our_nt ts k) as G.
    rewrite map_id in G. rewrite (G N M). reflexivity.
  - apply mem_false in M. rewrite (dict_get_fold_set_notin (fun c : string => c) (fun c => term_of tms c) our_nt ts k) by (rewrite map_id; exact M).
    reflexivity.
Qed.

Definition deps_describe (tms : terms) (deps : depmap) : Prop :=
  forall k t, In (k, t) tms -> incl (item_cols (k, t)) (deps_of deps k).

Section Merge.
Variable fl : flavor.

(* the composition: the outer SELECT (terms tms, request K) over the inner SELECT (terms ts, columns su') of X
   = the merged SELECT over X *)
Lemma merge_compose (ts tms : terms) (ds deps : depmap) su' K X :
  (forall kt, In kt ts -> scalar_term (snd kt) = true) -> (forall kt, In kt tms -> scalar_term (snd kt) = true) ->
  NoDup (map fst ds) -> NoDup (map fst deps) -> NoDup (map fst tms) -> NoDup (map fst ts) ->
  incl (map fst ts) (map fst ds) -> map fst tms = map fst deps -> deps_describe tms deps ->
  contention (non_trivial_terms deps tms) (needs deps (non_trivial_terms deps tms))
             (non_trivial_terms ds ts) (needs ds (non_trivial_terms ds ts)) = [] ->
  su' <> [] -> incl su' (map fst ts) ->
  K <> [] -> incl K (map fst tms) -> (forall k, In k K -> incl (item_cols (k, term_of tms k)) su') ->
  forall Y, sql_select fl true (Some ts) (Some su') SfxNone X = Some Y ->
  sql_select fl true (Some (merged_terms (non_trivial_terms deps tms) tms deps ts)) (Some K) SfxNone X
  = sql_select fl true (Some tms) (Some K) SfxNone Y.
Proof.
  intros Sts Stms Nds Ndeps Ntms Nts Its Ekeys Hdesc Hcont NEs Isu NEK IK Hloc Y EY.
  set (our_nt := non_trivial_terms deps tms) in *. set (sub_nt := non_trivial_terms ds ts) in *.
  assert (NoDup our_nt) as Nour by (apply NoDup_non_trivial, Ndeps).
  assert (forall x, In x our_nt -> ~ In x sub_nt) as C1.
  { intros x I1 I2. assert (In x (contention our_nt (needs deps our_nt) sub_nt (needs ds sub_nt))) as I.
    { unfold contention. apply in_app_iff. left. apply In_set_inter. tauto. } rewrite Hcont in I. destruct I. }
  assert (forall x, In x sub_nt -> ~ In x (needs deps our_nt)) as C3.
  { intros x I1 I2. assert (In x (contention our_nt (needs deps our_nt) sub_nt (needs ds sub_nt))) as I.
    { unfold contention. apply in_app_iff. right. apply in_app_iff. right. apply In_set_inter. tauto. } rewrite Hcont in I. destruct I. }
  assert (forall k, In k (map fst ts) -> scalar_term (term_of ts k) = true) as Sts'.
  { intros k _. unfold term_of. destruct (dict_get ts k) as [t|] eqn:G; [|reflexivity]. apply dict_get_In in G. apply (Sts _ G). }
  assert (forall k, scalar_term (term_of tms k) = true) as Stms'.
  { intros k. unfold term_of. destruct (dict_get tms k) as [t|] eqn:G; [|reflexivity]. apply dict_get_In in G. apply (Stms _ G). }
  assert (forall k, In k K -> term_of (merged_terms our_nt tms deps ts) k = if mem k our_nt then term_of tms k else term_of ts k) as TM.
  { intros k Ik. apply term_of_merged; [exact Nour|]. apply in_app_iff. left. apply IK, Ik. }
  (* the inner result *)
  pose proof (sql_select_scalar fl true ts su' SfxNone X NEs eq_refl (fun k Ik => Sts' k (Isu k Ik))) as EY'.
  pose proof (eq_trans (eq_sym EY') EY) as EYY. injection EYY as <-. clear EY EY'.
  refine (eq_trans (sql_select_scalar fl true _ K SfxNone X NEK eq_refl _) _).
  { intros k Ik. rewrite (TM k Ik). destruct (mem k our_nt); [apply Stms'|]. unfold term_of. destruct (dict_get ts k) as [t|] eqn:G; [|reflexivity]. apply dict_get_In in G. apply (Sts _ G). }
  refine (eq_trans _ (eq_sym (sql_select_scalar fl true tms K SfxNone _ NEK eq_refl (fun k _ => Stms' k)))).
  f_equal. f_equal. cbn [sfx_rows rows cols]. rewrite map_map. apply map_ext. intros r. apply map_ext_in. intros k Ik.
  rewrite (TM k Ik).
  (* reading a column of the inner result *)
  assert (forall c, In c su' -> get su' (map (fun c0 => eval_item fl (cols X) r c0 (term_of ts c0)) su') c = eval_item fl (cols X) r c (term_of ts c)) as GY.
  { intros c Ic. rewrite get_map_cols. assert (mem c su' = true) as M by (apply mem_In, Ic). rewrite M. reflexivity. }
  (* a column trivial in the inner step is passed through unchanged *)
  assert (forall c, In c su' -> ~ In c sub_nt -> eval_item fl (cols X) r c (term_of ts c) = get (cols X) r c) as Triv.
  { intros c Ic Nc. pose proof (Isu c Ic) as Ict. pose proof (Its c Ict) as Icd.
    apply in_map_iff in Icd. destruct Icd as [[c' vi] [Ec Id]]. cbn [fst] in Ec. subst c'.
    unfold term_of. destruct (dict_get ts c) as [t|] eqn:G; [|reflexivity].
    destruct (non_trivial_not ds ts c vi t Id G Nc) as [_ [_ T]]. destruct t; try discriminate; reflexivity. }
  specialize (Hloc k Ik).
  destruct (mem k our_nt) eqn:M.
  - (* overwritten by the outer step: its expression reads only columns the inner step passes through *)
    apply mem_In in M.
    assert (forall x, In x (item_cols (k, term_of tms k)) -> ~ In x sub_nt) as NS.
    { intros x Hx I2. apply (C3 x I2). unfold needs. apply in_flat_map. exists k. split; [exact M|].
      unfold term_of in Hx. destruct (dict_get tms k) as [t|] eqn:G.
      - apply dict_get_In in G. apply (Hdesc k t G), Hx.
      - exfalso. apply dict_get_None in G. apply G. apply IK, Ik. }
    destruct (term_of tms k) as [| |c|ex|ex|ex pt ok|lf c] eqn:ET; try (specialize (Stms' k); rewrite ET in Stms'; discriminate); cbn [eval_item].
    + rewrite GY by (apply Hloc; left; reflexivity). symmetry. apply Triv; [apply Hloc; left; reflexivity|apply NS; left; reflexivity].
    + rewrite GY by (apply Hloc; left; reflexivity). symmetry. apply Triv; [apply Hloc; left; reflexivity|apply NS; left; reflexivity].
    + rewrite GY by (apply Hloc; left; reflexivity). symmetry. apply Triv; [apply Hloc; left; reflexivity|apply NS; left; reflexivity].
    + apply eval_expr_local. intros x Hx. rewrite GY by (apply Hloc, Hx). symmetry. apply Triv; [apply Hloc, Hx|apply NS, Hx].
  - (* not touched by the outer step: the inner step's term *)
    apply mem_false in M. pose proof (IK k Ik) as Ikt. rewrite Ekeys in Ikt. apply in_map_iff in Ikt. destruct Ikt as [[k' vi] [Ek Id]]. cbn [fst] in Ek. subst k'.
    destruct (dict_get tms k) as [t|] eqn:G.
    2:{ exfalso. apply dict_get_None in G. apply G, IK, Ik. }
    destruct (non_trivial_not deps tms k vi t Id G M) as [_ [_ T]].
    assert (term_of tms k = t) as ET by (unfold term_of; rewrite G; reflexivity). rewrite ET in *.
    destruct t; try discriminate; cbn [eval_item]; simpl in Hloc; (rewrite GY by (apply Hloc; left; reflexivity)); reflexivity.
Qed.

End Merge.
