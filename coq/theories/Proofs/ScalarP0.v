(* C05 -- base lemmas and tactics for the scalar proofs *)
From Coq Require Import List Bool ZArith QArith Qround Qabs String Ascii Lia Lqa.
Import ListNotations.
From DA Require Import Model.Scalar Model.SqlTemplates Model.ScalarBackends Model.ScalarCatalog Model.ScalarIndex.
Local Open Scope string_scope.

(* ------------------------------------------------------------------ value equivalence *)
Lemma Qeq_bool_refl q : Qeq_bool q q = true.
Proof. apply Qeq_bool_iff. reflexivity. Qed.
Lemma cv_eqb_refl c : cv_eqb c c = true.
Proof. destruct c; simpl; auto using Qeq_bool_refl, String.eqb_refl. Qed.
Lemma sv_eqv_refl v : sv_eqv v v.
Proof. apply cv_eqb_refl. Qed.
Lemma sv_eqv_num p q : (p == q)%Q -> sv_eqv (SNum p) (SNum q).
Proof. intros E. apply Qeq_bool_iff. exact E. Qed.
Lemma norm_eqv d v : sv_eqv (norm d v) v.
Proof. destruct d, v; try apply sv_eqv_refl; try destruct b; reflexivity. Qed.
Lemma enc_eqv d v : sv_eqv (enc d v) v.
Proof. destruct d, v; try apply sv_eqv_refl; try destruct b; reflexivity. Qed.
Lemma mkb_eqv d b : sv_eqv (mkb d b) (SBool b).
Proof. destruct d, b; reflexivity. Qed.
Lemma sv_eqv_missing a b : missing a = true -> missing b = true -> sv_eqv a b.
Proof. destruct a, b; simpl; intros; try discriminate; reflexivity. Qed.

(* ------------------------------------------------------------------ boolean facts about Q, turned into Props for lra *)
Lemma Qle_bool_false a b : Qle_bool a b = false -> (b < a)%Q.
Proof. intros E. apply Qnot_le_lt. intros L. apply Qle_bool_iff in L. congruence. Qed.
Lemma Qeq_bool_false a b : Qeq_bool a b = false -> ~ (a == b)%Q.
Proof. intros E L. apply Qeq_bool_iff in L. congruence. Qed.
Lemma Qlt_bool_true a b : Qlt_bool a b = true -> (a < b)%Q.
Proof. unfold Qlt_bool. intros E. apply negb_true_iff in E. apply Qle_bool_false. exact E. Qed.
Lemma Qlt_bool_false a b : Qlt_bool a b = false -> (b <= a)%Q.
Proof. unfold Qlt_bool. intros E. apply negb_false_iff in E. apply Qle_bool_iff. exact E. Qed.
Lemma Qcompare_Eq a b : (a ?= b)%Q = Eq -> (a == b)%Q. Proof. apply Qeq_alt. Qed.
Lemma Qcompare_Lt a b : (a ?= b)%Q = Lt -> (a < b)%Q. Proof. apply Qlt_alt. Qed.
Lemma Qcompare_Gt a b : (a ?= b)%Q = Gt -> (b < a)%Q. Proof. intros E. apply Qgt_alt in E. exact E. Qed.

Ltac q_props :=
  repeat match goal with
  | H : Qle_bool _ _ = true |- _ => apply Qle_bool_iff in H
  | H : Qle_bool _ _ = false |- _ => apply Qle_bool_false in H
  | H : Qeq_bool _ _ = true |- _ => apply Qeq_bool_iff in H
  | H : Qeq_bool _ _ = false |- _ => apply Qeq_bool_false in H
  | H : Qlt_bool _ _ = true |- _ => apply Qlt_bool_true in H
  | H : Qlt_bool _ _ = false |- _ => apply Qlt_bool_false in H
  | H : (_ ?= _)%Q = Eq |- _ => apply Qcompare_Eq in H
  | H : (_ ?= _)%Q = Lt |- _ => apply Qcompare_Lt in H
  | H : (_ ?= _)%Q = Gt |- _ => apply Qcompare_Gt in H
  end.
Ltac q_lra := q_props; lra.

(* case analysis on the conditions that block reduction *)
Ltac break_step :=
  match goal with
  | H : context[if ?c then _ else _] |- _ => lazymatch c with true => fail | false => fail | _ => destruct c eqn:? end
  | |- context[if ?c then _ else _] => lazymatch c with true => fail | false => fail | _ => destruct c eqn:? end
  | H : context[match (?a ?= ?b)%Q with Eq => _ | Lt => _ | Gt => _ end] |- _ => destruct (a ?= b)%Q eqn:?
  | |- context[match (?a ?= ?b)%Q with Eq => _ | Lt => _ | Gt => _ end] => destruct (a ?= b)%Q eqn:?
  end.

(* the goal `exists r', lhs = Some r' /\ sv_eqv r' r` once lhs has been reduced to `Some _` *)
Ltac done_eqv :=
  first [ apply sv_eqv_refl | apply norm_eqv | exact (norm_eqv DSqlite _) | apply enc_eqv | exact (enc_eqv DSqlite _) | apply mkb_eqv | exact (mkb_eqv DSqlite _)
        | (apply sv_eqv_missing; reflexivity)
        | (apply sv_eqv_num; q_props; first [reflexivity | lra | (field; lra)]) ].
Ltac finish := eexists; split; [reflexivity | done_eqv].


(* ------------------------------------------------------------------ floor / ceiling / truncation facts *)
Lemma Qfloor_unique z x : (inject_Z z <= x)%Q -> (x < inject_Z (z + 1))%Q -> Qfloor x = z.
Proof. intros L U. pose proof (Qfloor_le x) as F1. pose proof (Qlt_floor x) as F2.
  assert (z <= Qfloor x)%Z as A. { rewrite <- (Qfloor_Z z). apply Qfloor_resp_le. exact L. }
  assert (Qfloor x < z + 1)%Z as B. { rewrite Zlt_Qlt. eapply Qle_lt_trans; [exact F1 | exact U]. }
  lia. Qed.
Lemma Qis_int_eq q : Qis_int q = true -> (q == inject_Z (Qfloor q))%Q.
Proof. intros E. apply Qeq_bool_iff. exact E. Qed.
Lemma Qis_int_inject z : Qis_int (inject_Z z) = true.
Proof. unfold Qis_int. rewrite Qfloor_Z. apply Qeq_bool_refl. Qed.
Lemma Qis_int_comp p q : (p == q)%Q -> Qis_int p = Qis_int q.
Proof. intros E. unfold Qis_int. rewrite (Qfloor_comp _ _ E).
  destruct (Qeq_bool q (inject_Z (Qfloor q))) eqn:A.
  - apply Qeq_bool_iff. apply Qeq_bool_iff in A. transitivity q; [exact E | exact A].
  - destruct (Qeq_bool p (inject_Z (Qfloor q))) eqn:B; [|reflexivity].
    apply Qeq_bool_iff in B. apply Qeq_bool_false in A. exfalso. apply A. transitivity p; [symmetry; exact E | exact B]. Qed.
Lemma Qceiling_int q : Qis_int q = true -> Qceiling q = Qfloor q.
Proof. intros E. apply Qis_int_eq in E. unfold Qceiling.
  assert (- q == inject_Z (- Qfloor q))%Q as N. { rewrite inject_Z_opp. rewrite <- E. reflexivity. }
  rewrite (Qfloor_comp _ _ N). rewrite Qfloor_Z. lia. Qed.
Lemma qtrunc_int q : Qis_int q = true -> (inject_Z (qtrunc q) == q)%Q.
Proof. intros E. unfold qtrunc. destruct (Qle_bool 0 q).
  - symmetry. apply Qis_int_eq. exact E.
  - rewrite (Qceiling_int _ E). symmetry. apply Qis_int_eq. exact E. Qed.
Lemma qtrunc_nonneg q : Qle_bool 0 q = true -> qtrunc q = Qfloor q.
Proof. intros E. unfold qtrunc. rewrite E. reflexivity. Qed.
Lemma Qfloor_nonneg q : (0 <= q)%Q -> (0 <= Qfloor q)%Z.
Proof. intros L. change 0%Z with (Qfloor 0). apply Qfloor_resp_le. exact L. Qed.
Lemma Qfloor_pos_int q : Qis_int q = true -> (0 < q)%Q -> (0 < Qfloor q)%Z.
Proof. intros E L. apply Qis_int_eq in E. rewrite E in L. rewrite Zlt_Qlt. exact L. Qed.

(* the sign conventions coincide on a non-negative dividend and a positive divisor *)
Lemma rem_is_mod p q : Qis_int p = true -> Qis_int q = true -> Qle_bool 0 p = true -> Qlt_bool 0 q = true ->
  Z.rem (Qfloor p) (Qfloor q) = Z.modulo (Qfloor p) (Qfloor q).
Proof. intros Ip Iq Lp Lq. apply Z.rem_mod_nonneg.
  - apply Qfloor_nonneg. apply Qle_bool_iff. exact Lp.
  - apply Qfloor_pos_int; [exact Iq | apply Qlt_bool_true; exact Lq]. Qed.
(* p - floor(p / q) * q is p mod q on integers (numpy.mod, Python %, PostgreSQL's remainder formula) *)
Lemma floor_formula_is_mod p q : Qis_int p = true -> Qis_int q = true -> Qlt_bool 0 q = true ->
  (p - inject_Z (Qfloor (p / q)) * q == inject_Z (Z.modulo (Qfloor p) (Qfloor q)))%Q.
Proof. intros Ip Iq Lq.
  pose proof (Qfloor_pos_int _ Iq (Qlt_bool_true _ _ Lq)) as Pos.
  apply Qis_int_eq in Ip. apply Qis_int_eq in Iq.
  set (a := Qfloor p) in *. set (b := Qfloor q) in *.
  assert (Qfloor (p / q) = (a / b)%Z) as F.
  { rewrite (Qfloor_comp (p / q) (inject_Z a / inject_Z b)).
    - symmetry. apply Zdiv_Qdiv.
    - rewrite <- Ip, <- Iq. reflexivity. }
  rewrite F. transitivity (inject_Z a - inject_Z (a / b) * inject_Z b)%Q.
  { rewrite <- Ip, <- Iq. reflexivity. }
  rewrite (Z.mod_eq a b) by lia.
  rewrite <- inject_Z_mult. unfold Qminus. rewrite <- inject_Z_opp. rewrite <- inject_Z_plus.
  apply inject_Z_injective. lia. Qed.

(* rounding: away from the exact ties every rule is floor(q + 1/2) *)
Lemma inject_Z_minus a b : (inject_Z (a - b) == inject_Z a - inject_Z b)%Q.
Proof. unfold Z.sub. rewrite inject_Z_plus, inject_Z_opp. reflexivity. Qed.
Lemma inject_Z_succ a : (inject_Z (a + 1) == inject_Z a + 1)%Q.
Proof. rewrite inject_Z_plus. reflexivity. Qed.
Lemma qtie_false_ne q : qtie q = false -> ~ (q + (1 # 2) == inject_Z (Qfloor (q + (1 # 2))))%Q.
Proof. intros T E. apply Qeq_bool_false in T. apply T. unfold qfloor.
  set (n := Qfloor (q + (1 # 2))) in *.
  assert (Qfloor q = (n - 1)%Z) as F.
  { apply Qfloor_unique.
    - rewrite inject_Z_minus. change (inject_Z 1) with 1%Q. lra.
    - replace (n - 1 + 1)%Z with n by lia. lra. }
  rewrite F. rewrite inject_Z_minus. change (inject_Z 1) with 1%Q. lra. Qed.
Lemma round_half_away_nearest q : qtie q = false -> (round_half_away q == qround_nearest q)%Q.
Proof. intros T. unfold round_half_away, qround_nearest, qfloor. destruct (Qle_bool 0 q) eqn:S; [reflexivity|].
  pose proof (qtie_false_ne q T) as NE.
  pose proof (Qfloor_le (q + (1 # 2))) as F1. pose proof (Qlt_floor (q + (1 # 2))) as F2.
  set (n := Qfloor (q + (1 # 2))) in *.
  rewrite inject_Z_succ in F2.
  assert (Qfloor (- q + (1 # 2)) = (- n)%Z) as F.
  { apply Qfloor_unique.
    - rewrite inject_Z_opp. lra.
    - rewrite inject_Z_succ, inject_Z_opp.
      assert (inject_Z n < q + (1 # 2))%Q as LT.
      { apply Qle_lteq in F1. destruct F1 as [F1|F1]; [exact F1|]. exfalso. apply NE. symmetry. exact F1. }
      lra. }
  rewrite F. rewrite inject_Z_opp. lra. Qed.
Lemma round_half_even_nearest q : qtie q = false -> round_half_even q = qround_nearest q.
Proof. intros T. unfold round_half_even. rewrite T. reflexivity. Qed.

(* ------------------------------------------------------------------ tactics shared by the per-method proofs *)
(* args of the right arity; the specification side unfolded *)
Ltac junk H :=
  solve [ discriminate H
        | cbn in H; try discriminate H;
          repeat (match type of H with context[match ?v with _ => _ end] => is_var v; destruct v end; cbn in H; try discriminate H) ].
Ltac arity2 H args := destruct args as [|?a [|?b [|?c ?l]]]; [junk H | junk H | | junk H].
Ltac arity1 H args := destruct args as [|?a [|?b ?l]]; [junk H | | junk H].
Ltac arity3 H args := destruct args as [|?a [|?b [|?c [|?e ?l]]]]; [junk H | junk H | junk H | | junk H].
Ltac unfold_x := unfold xscale_inf, xcompare, xmax, xmin, xeqb, xltb, xle in *.
Ltac simp := cbn in *; unfold_x; cbn in *.
Ltac solve_val H :=
  simp; repeat (break_step; simp); try discriminate H;
  try (inversion H; subst; clear H; simp; repeat (break_step; simp); try congruence; try finish; try (exfalso; q_lra)).

