(* C18, part 2: project over a permuted input.
   The groups of a project are the classes of key-equivalent rows; they do not depend on the row order, and each aggregate
   is permutation-invariant (PermP1).  The only order-dependent ingredient of Model/Sem.v is WHICH of several equivalent key
   values labels the group (the first one met): with `keys_exact` (equivalent key values are identical -- true whenever a key
   column holds one representation of each value) the result rows are a permutation, cell for cell. *)
From Coq Require Import List Bool Arith ZArith QArith String Lia Permutation Sorted.
Import ListNotations.
From DA Require Import Base.PyRT Base.Val Model.Sem Proofs.SemBasicP Proofs.SemOrderP Proofs.PermP1.
Local Open Scope list_scope.

(* equivalent group keys are identical: True / 1 / 1.0 do not occur side by side in one key column *)
Definition keys_exact (cs gb : list string) (rs : list (list val)) : Prop :=
  forall r1 r2, In r1 rs -> In r2 rs -> keys_eqv (key_of cs gb r1) (key_of cs gb r2) = true -> key_of cs gb r1 = key_of cs gb r2.

Lemma distinct_keys_nodup ks : NoDup (distinct_keys ks).
Proof.
  assert (forall l : list (list val), ForallOrdPairs (fun a b => keys_eqv a b = false) l -> NoDup l) as G.
  { induction 1 as [|a l Ha Hl IH]; constructor; [|exact IH].
    intros I. rewrite Forall_forall in Ha. specialize (Ha a I). rewrite keys_eqv_refl in Ha. discriminate. }
  apply G, distinct_keys_pairwise.
Qed.

Lemma distinct_keys_perm ks ks' :
  Permutation ks ks' -> (forall a b, In a ks -> In b ks -> keys_eqv a b = true -> a = b) ->
  Permutation (distinct_keys ks) (distinct_keys ks').
Proof.
  intros P X.
  assert (forall a b, In a ks' -> In b ks' -> keys_eqv a b = true -> a = b) as X'.
  { intros a b Ia Ib. apply X; eapply Permutation_in; try eassumption; apply Permutation_sym, P. }
  assert (forall l, (forall a b, In a l -> In b l -> keys_eqv a b = true -> a = b) -> forall k, In k (distinct_keys l) <-> In k l) as M.
  { intros l Xl k. split; [apply distinct_keys_sound|]. intros I.
    destruct (distinct_keys_complete l k I) as [k' [I' E]].
    rewrite (Xl k' k (distinct_keys_sound _ _ I') I E) in I'. exact I'. }
  apply NoDup_Permutation; try apply distinct_keys_nodup.
  intros k. rewrite (M ks X), (M ks' X'). split; intros I; eapply Permutation_in; try eassumption. apply Permutation_sym, P.
Qed.

Lemma project_perm fl ops gb t t' :
  cols t = cols t' -> Permutation (rows t) (rows t') -> keys_exact (cols t) gb (rows t) ->
  cols (sem_project fl ops gb t) = cols (sem_project fl ops gb t')
  /\ Permutation (rows (sem_project fl ops gb t)) (rows (sem_project fl ops gb t')).
Proof.
  intros C P X. unfold sem_project. cbn [cols rows]. rewrite <- C. split; [reflexivity|].
  set (f := fun rs (k : list val) => k ++ map (fun ke : string * expr => agg_value fl (cols t) (filter (fun r => keys_eqv k (key_of (cols t) gb r)) rs) (snd ke)) ops).
  change (Permutation (map (f (rows t)) match gb with [] => [[]] | _ :: _ => distinct_keys (map (key_of (cols t) gb) (rows t)) end)
                      (map (f (rows t')) match gb with [] => [[]] | _ :: _ => distinct_keys (map (key_of (cols t) gb) (rows t')) end)).
  assert (forall k, f (rows t) k = f (rows t') k) as E.
  { intros k. unfold f. f_equal. apply map_ext. intros ke. apply agg_value_perm, perm_filter, P. }
  rewrite (map_ext _ _ E). apply Permutation_map.
  destruct gb as [|g gb]; [apply Permutation_refl|].
  apply distinct_keys_perm; [apply Permutation_map, P|].
  intros a b Ia Ib Eab. apply in_map_iff in Ia, Ib. destruct Ia as [r1 [<- I1]], Ib as [r2 [<- I2]].
  apply X; assumption.
Qed.
