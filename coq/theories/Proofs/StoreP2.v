(* C19, part 2: repeatability.  The frame an evaluation returns has exactly the content given by the pure function
   `pcontent` of the CONTENTS of the caller's frames (and the evaluation fails exactly when `pcontent` does); together
   with part 1 (caller frames unchanged) a second evaluation returns the same content. *)
From Coq Require Import List Bool Arith String Lia.
Import ListNotations.
From DA Require Import Model.Store Proofs.StoreP1.
Local Open Scope list_scope.

(* ------------------------------------------------------------------ total-correctness weakest precondition *)
Definition wp {A} (m : M A) (s : store) (Q : A -> store -> Prop) : Prop :=
  exists a s' evs, m s = Some (a, s', evs) /\ Q a s'.

Lemma wp_ret {A} (a : A) s (Q : A -> store -> Prop) : Q a s -> wp (ret a) s Q.
Proof. intros H. exists a, s, []. split; [reflexivity|exact H]. Qed.
Lemma wp_bind {A B} (m : M A) (k : A -> M B) s (Q : B -> store -> Prop) : wp m s (fun a s1 => wp (k a) s1 Q) -> wp (bind m k) s Q.
Proof. intros (a & s1 & e1 & R1 & (b & s2 & e2 & R2 & H)). exists b, s2, (e1 ++ e2). split; [|exact H].
  unfold bind. rewrite R1, R2. reflexivity. Qed.
Lemma wp_mono {A} (m : M A) s (Q Q' : A -> store -> Prop) : wp m s Q -> (forall a s', Q a s' -> Q' a s') -> wp m s Q'.
Proof. intros (a & s' & e & R & H) I. exists a, s', e. auto. Qed.
Lemma wp_rd k l s f (Q : frame -> store -> Prop) : get s l = Some f -> Q f s -> wp (rd k l) s Q.
Proof. intros G H. exists f, s, [ERead k l]. split; [|exact H]. unfold rd. rewrite G. reflexivity. Qed.
Lemma wp_wr k l ws u s f (Q : unit -> store -> Prop) : get s l = Some f -> Q tt (upd s l (u f)) -> wp (wr k l ws u) s Q.
Proof. intros G H. exists tt, (upd s l (u f)), (map (EWrite k l) ws). split; [|exact H]. unfold wr. rewrite G. reflexivity. Qed.
Lemma wp_new k f s (Q : loc -> store -> Prop) : Q (fresh s) (push s f) -> wp (new k f) s Q.
Proof. intros H. exists (fresh s), (push s f), [EAlloc k (fresh s)]. split; [reflexivity|exact H]. Qed.
Lemma wp_derive k l g s f (Q : loc -> store -> Prop) : get s l = Some f -> Q (fresh s) (push s (g f)) -> wp (derive k l g) s Q.
Proof. intros G H. unfold derive. apply wp_bind. eapply wp_rd; [exact G|]. apply wp_new, H. Qed.
Lemma wp_derive2 k l1 l2 g s f1 f2 (Q : loc -> store -> Prop) :
  get s l1 = Some f1 -> get s l2 = Some f2 -> Q (fresh s) (push s (g f1 f2)) -> wp (derive2 k l1 l2 g) s Q.
Proof. intros G1 G2 H. unfold derive2. apply wp_bind. eapply wp_rd; [exact G1|]. apply wp_bind. eapply wp_rd; [exact G2|]. apply wp_new, H. Qed.
Lemma wp_det {A} (m : M A) s a s' evs (Q : A -> store -> Prop) : m s = Some (a, s', evs) -> wp m s Q -> Q a s'.
Proof. intros R (a2 & s2 & e2 & R2 & H). rewrite R in R2. inversion R2; subst. exact H. Qed.

(* symbolic lookup in stores built from push / upd *)
Ltac getsolve :=
  lazymatch goal with
  | |- get (push ?s _) (fresh ?s) = Some _ => apply get_push_same
  | |- get (push _ _) _ = Some _ => apply get_push_old; getsolve
  | |- get (upd _ ?l _) ?l = Some _ => eapply get_upd_same; getsolve
  | |- get (upd _ _ _) _ = Some _ => apply get_upd_other; [neqsolve | getsolve]
  | |- get _ _ = Some _ => eassumption
  end
with neqsolve :=
  first [ assumption | apply not_eq_sym; assumption | eapply neq_fresh_l; getsolve | eapply neq_fresh_r; getsolve ].

Ltac run_hook := idtac.
Ltac run :=
  lazymatch goal with
  | |- wp (ret _) _ _ => apply wp_ret; cbv beta; run
  | |- wp (bind _ _) _ _ => apply wp_bind; run
  | |- wp (rd _ _) _ _ => eapply wp_rd; [getsolve | cbv beta; run]
  | |- wp (wr _ _ _ _) _ _ => eapply wp_wr; [getsolve | cbv beta; run]
  | |- wp (new _ _) _ _ => apply wp_new; cbv beta; run
  | |- wp (derive _ _ _) _ _ => eapply wp_derive; [getsolve | cbv beta; run]
  | |- wp (derive2 _ _ _ _) _ _ => eapply wp_derive2; [getsolve | getsolve | cbv beta; run]
  | |- wp (if ?b then _ else _) _ _ => destruct b; run
  | |- wp (match ?x with _ => _ end) _ _ => destruct x; run
  | |- get _ _ = Some _ => try getsolve
  | _ => run_hook
  end.

(* ------------------------------------------------------------------ every step stores the content its pure function gives *)
Notation holds F := (fun (l : loc) (s' : store) => get s' l = Some F).

Lemma sp_add_cols k res nf s fr fn : res <> nf -> get s res = Some fr -> get s nf = Some fn ->
  wp (add_cols k res nf) s (holds (c_add_cols fr fn)).
Proof. intros N G1 G2. unfold add_cols, c_add_cols, c_trim. run. Qed.

Lemma sp_add_cols_k k res nf s fr fn (Q : loc -> store -> Prop) : res <> nf -> get s res = Some fr -> get s nf = Some fn ->
  (forall l' s', get s' l' = Some (c_add_cols fr fn) -> Q l' s') -> wp (add_cols k res nf) s Q.
Proof. intros N G1 G2 H. eapply wp_mono; [apply (sp_add_cols k res nf s fr fn N G1 G2)|]. exact H. Qed.

Lemma sp_coalesce_k sx cs : forall l s f (Q : loc -> store -> Prop), get s l = Some f ->
  (forall l' s', get s' l' = Some (c_coalesce sx cs f) -> Q l' s') -> wp (coalesce_loop sx cs l) s Q.
Proof. induction cs as [|c t IH]; intros l s f Q G H; simpl.
  - apply wp_ret. apply H. exact G.
  - run. eapply IH; [getsolve|]. exact H. Qed.

Ltac run_hook ::=
  lazymatch goal with
  | |- wp (add_cols _ _ _) _ _ => eapply sp_add_cols_k; [neqsolve | getsolve | getsolve | cbv beta; intros ? ? ?; run]
  | |- wp (coalesce_loop _ _ _) _ _ => eapply sp_coalesce_k; [getsolve | cbv beta; intros ? ? ?; run]
  | _ => idtac
  end.

Lemma sp_extend tag outs win res s f : get s res = Some f ->
  wp (step_extend tag outs win false res) s (holds (c_extend tag outs win f)).
Proof. intros G. unfold step_extend, c_extend, c_window, c_extend_empty. run. Qed.
Lemma sp_project tag gb outs consts nr res s f : get s res = Some f ->
  wp (step_project tag gb outs consts nr res) s (holds (c_project tag gb outs consts nr f)).
Proof. intros G. unfold step_project, c_project. run. Qed.
Lemma sp_select_rows tag nr res s f : get s res = Some f ->
  wp (step_select_rows tag nr res) s (holds (c_select_rows tag nr f)).
Proof. intros G. unfold step_select_rows, c_select_rows. run. Qed.
Lemma sp_order_rows by_ rev limit res s f : get s res = Some f ->
  wp (step_order_rows by_ rev limit res) s (holds (c_order_rows by_ rev limit f)).
Proof. intros G. unfold step_order_rows, c_order_rows, c_order_sorted. run. Qed.
Lemma sp_map_cols m dels res s f : get s res = Some f ->
  wp (step_map_cols m dels res) s (holds (c_map_cols m dels f)).
Proof. intros G. unfold step_map_cols, c_map_cols. run. Qed.
Lemma sp_join on_a on_b jt nk nr left right s fl fr : left <> right -> get s left = Some fl -> get s right = Some fr ->
  wp (step_join on_a on_b jt nk nr left right) s (holds (c_join on_a on_b jt nk nr fl fr)).
Proof. intros N G1 G2. unfold step_join, c_join. run. Qed.
Lemma sp_concat idcol left right s fl fr : left <> right -> get s left = Some fl -> get s right = Some fr ->
  wp (step_concat idcol left right) s (holds (c_concat idcol fl fr)).
Proof. intros N G1 G2. unfold step_concat, c_concat, c_idcol. run. Qed.
Lemma sp_convert hi ho mc oc nm nr res s f : get s res = Some f ->
  wp (step_convert hi ho mc oc nm nr res) s (holds (c_convert hi ho mc oc nm nr f)).
Proof. intros G. unfold step_convert, c_convert, b2r, r2b, c_b2r, c_r2b. run. Qed.

(* ------------------------------------------------------------------ whole pipelines *)
Definition env_ok (s : store) (env : env_locs) : Prop := forall n l, In (n, l) env -> In l (dom s).

Lemma envf_get_frames_of s env n : envf_get (frames_of s env) n = match env_get env n with Some l => get s l | None => None end.
Proof. induction env as [|[k l] t IH]; simpl; [reflexivity|]. destruct (String.eqb k n); auto. Qed.
Lemma frames_of_ext s s' env : env_ok s env -> (forall l, In l (dom s) -> get s' l = get s l) -> frames_of s' env = frames_of s env.
Proof. intros OK G. unfold frames_of. apply map_ext_in. intros [n l] H. simpl. f_equal. apply G. exact (OK n l H). Qed.
Lemma env_ok_ext s s' env : env_ok s env -> incl (dom s) (dom s') -> env_ok s' env.
Proof. intros OK I n l H. apply I. exact (OK n l H). Qed.

Lemma wp_bind_k {A B} (m : M A) (k : A -> M B) s (Q : A -> store -> Prop) (R : B -> store -> Prop) :
  wp m s Q -> (forall a s1, Q a s1 -> wp (k a) s1 R) -> wp (bind m k) s R.
Proof. intros H K. apply wp_bind. eapply wp_mono; [exact H|]. exact K. Qed.
Lemma bind_none {A B} (m : M A) (k : A -> M B) s : m s = None -> bind m k s = None.
Proof. intros H. unfold bind. rewrite H. reflexivity. Qed.

(* result of a run: success with the given content, or failure *)
Definition agrees (r : option frame) (m : M loc) (s : store) : Prop :=
  match r with Some F => wp m s (holds F) | None => m s = None end.

Lemma agrees_unary (g : frame -> frame) (m : M loc) (k : loc -> M loc) s r :
  agrees r m s -> (forall l s1 f, get s1 l = Some f -> wp (k l) s1 (holds (g f))) -> agrees (option_map g r) (bind m k) s.
Proof. destruct r as [F|]; simpl; intros H K.
  - eapply wp_bind_k; [exact H|]. cbv beta. intros l s1 G. apply K, G.
  - apply bind_none, H. Qed.

Section Exec.
Variable env : env_locs.

Lemma agrees_binary (g : frame -> frame -> frame) (ma mb : M loc) (k : loc -> loc -> M loc) s ra rb :
  agrees ra ma s ->
  (forall la s1 e1, ma s = Some (la, s1, e1) -> owned s1 mb (notin s1) /\ agrees rb mb s1) ->
  (forall l1 l2 s2 f1 f2, l1 <> l2 -> get s2 l1 = Some f1 -> get s2 l2 = Some f2 -> wp (k l1 l2) s2 (holds (g f1 f2))) ->
  agrees (omap2 g ra rb) (bind ma (fun la => bind mb (k la))) s.
Proof. intros Ha Hb K. destruct ra as [Fa|]; simpl in *.
  - destruct Ha as (la & s1 & e1 & Ra & Ga). destruct (Hb la s1 e1 Ra) as [Ob Ab].
    destruct rb as [Fb|]; simpl in *.
    + destruct Ab as (lb & s2 & e2 & Rb & Gb).
      destruct (owned_run mb s1 lb s2 e2 Ob Rb) as (_ & Keep & _ & Nb).
      assert (Ia : In la (dom s1)) by (eapply get_in_dom; exact Ga).
      assert (Ga2 : get s2 la = Some Fa) by (rewrite (Keep la Ia); exact Ga).
      assert (Ne : la <> lb) by (intros ->; exact (Nb Ia)).
      destruct (K la lb s2 Fa Fb Ne Ga2 Gb) as (r & s3 & e3 & Rk & Gr).
      exists r, s3, (e1 ++ (e2 ++ e3)). split; [|exact Gr]. unfold bind. rewrite Ra, Rb, Rk. reflexivity.
    + unfold bind. rewrite Ra. rewrite Ab. reflexivity.
  - apply bind_none, Ha. Qed.

Lemma binary_side p1 p2 s :
  (forall s, env_ok s env -> agrees (pcontent (frames_of s env) p2) (pexec env p2) s) -> env_ok s env ->
  forall la s1 e1, pexec env p1 s = Some (la, s1, e1) ->
    owned s1 (pexec env p2) (notin s1) /\ agrees (pcontent (frames_of s env) p2) (pexec env p2) s1.
Proof. intros IH OK la s1 e1 Ra. split; [apply own_pexec|].
  destruct (owned_run _ _ _ _ _ (own_pexec s env p1) Ra) as (_ & Keep & Inc & _).
  rewrite <- (frames_of_ext s s1 env OK Keep). apply IH. eapply env_ok_ext; eauto. Qed.

Lemma pexec_agrees p : no_random p = true -> forall s, env_ok s env -> agrees (pcontent (frames_of s env) p) (pexec env p) s.
Proof. induction p; simpl; intros NR s OK.
  - (* Table *) rewrite envf_get_frames_of. unfold step_table. destruct (env_get env name) as [l0|]; [|reflexivity].
    destruct (get s l0) as [f0|] eqn:G0.
    + destruct (subset cols (f_cols f0)) eqn:S; simpl.
      * apply wp_bind. eapply wp_rd; [exact G0|]. cbv beta. rewrite S. unfold c_table. run.
      * unfold bind, rd. rewrite G0, S. reflexivity.
    + simpl. unfold bind, rd. rewrite G0. reflexivity.
  - apply andb_prop in NR. destruct NR as [R1 R2]. apply negb_true_iff in R1. subst random.
    apply agrees_unary; [apply IHp; auto|]. intros; apply sp_extend; assumption.
  - apply agrees_unary; [apply IHp; auto|]. intros; apply sp_project; assumption.
  - apply agrees_unary; [apply IHp; auto|]. intros; apply sp_select_rows; assumption.
  - apply agrees_unary; [apply IHp; auto|]. intros. unfold step_select_cols. run.
  - apply agrees_unary; [apply IHp; auto|]. intros. unfold step_drop_cols. run.
  - apply agrees_unary; [apply IHp; auto|]. intros; apply sp_order_rows; assumption.
  - apply agrees_unary; [apply IHp; auto|]. intros; apply sp_map_cols; assumption.
  - apply agrees_unary; [apply IHp; auto|]. intros. unfold step_rename. run.
  - apply andb_prop in NR. destruct NR as [R1 R2]. apply agrees_binary.
    + apply IHp1; auto.
    + apply binary_side; auto.
    + intros; apply sp_join; assumption.
  - apply andb_prop in NR. destruct NR as [R1 R2]. apply agrees_binary.
    + apply IHp1; auto.
    + apply binary_side; auto.
    + intros; apply sp_concat; assumption.
  - apply agrees_unary; [apply IHp; auto|]. intros; apply sp_convert; assumption.
Qed.

(* the same for the Polars executor *)
Lemma binary_side_pl p1 p2 s :
  (forall s, env_ok s env -> agrees (plcontent (frames_of s env) p2) (plexec env p2) s) -> env_ok s env ->
  forall la s1 e1, plexec env p1 s = Some (la, s1, e1) ->
    owned s1 (plexec env p2) (notin s1) /\ agrees (plcontent (frames_of s env) p2) (plexec env p2) s1.
Proof. intros IH OK la s1 e1 Ra. split; [apply own_plexec|].
  destruct (owned_run _ _ _ _ _ (own_plexec s env p1) Ra) as (_ & Keep & Inc & _).
  rewrite <- (frames_of_ext s s1 env OK Keep). apply IH. eapply env_ok_ext; eauto. Qed.

Lemma plexec_agrees p : forall s, env_ok s env -> agrees (plcontent (frames_of s env) p) (plexec env p) s.
Proof. induction p; simpl; intros s OK;
  try (apply agrees_unary; [apply IHp; auto|]; intros; unfold pl_convert; run);
  try (apply agrees_binary; [apply IHp1; auto | apply binary_side_pl; auto | intros; unfold pl_join, pl_c_join; run]).
  rewrite envf_get_frames_of. unfold pl_table. destruct (env_get env name) as [l0|]; [|reflexivity].
  destruct (get s l0) as [f0|] eqn:G0.
  + destruct (subset cols (f_cols f0)) eqn:S; simpl.
    * apply wp_bind. eapply wp_rd; [exact G0|]. cbv beta. rewrite S. run.
    * unfold bind, rd. rewrite G0, S. reflexivity.
  + simpl. unfold bind, rd. rewrite G0. reflexivity.
Qed.
End Exec.

(* ------------------------------------------------------------------ repeatability *)
Lemma repeat_generic (m : M loc) (content : store -> option frame) s :
  (forall s, owned s m (notin s)) ->
  (forall s', (forall l, In l (dom s) -> get s' l = get s l) -> incl (dom s) (dom s') -> content s' = content s /\ agrees (content s') m s') ->
  forall l1 s1 e1, m s = Some (l1, s1, e1) ->
  exists l2 s2 e2 F, m s1 = Some (l2, s2, e2) /\ get s1 l1 = Some F /\ get s2 l2 = Some F.
Proof. intros Own Agr l1 s1 e1 R1.
  destruct (Agr s (fun _ _ => eq_refl) (incl_refl _)) as [_ A0].
  destruct (owned_run m s l1 s1 e1 (Own s) R1) as (_ & Keep & Inc & _).
  destruct (Agr s1 Keep Inc) as [E A1]. rewrite E in A1.
  destruct (content s) as [F|]; simpl in *; [|rewrite A0 in R1; discriminate].
  pose proof (wp_det _ _ _ _ _ _ R1 A0) as G1. simpl in G1.
  destruct A1 as (l2 & s2 & e2 & R2 & G2). exists l2, s2, e2, F. auto. Qed.

Lemma pexec_repeatable s p env s1 l1 e1 : no_random p = true -> env_ok s env -> pexec_st s p env = Some (s1, l1, e1) ->
  exists s2 l2 e2 F, pexec_st s1 p env = Some (s2, l2, e2) /\ get s1 l1 = Some F /\ get s2 l2 = Some F.
Proof. intros NR OK. unfold pexec_st. destruct (pexec env p s) as [[[l0 s0'] e0]|] eqn:R; [|discriminate]. intros E. inversion E; subst.
  assert (Agr : forall s', (forall l, In l (dom s) -> get s' l = get s l) -> incl (dom s) (dom s') ->
            pcontent (frames_of s' env) p = pcontent (frames_of s env) p /\ agrees (pcontent (frames_of s' env) p) (pexec env p) s').
  { intros s' Keep Inc. split; [rewrite (frames_of_ext s s' env OK Keep); reflexivity|].
    apply pexec_agrees; [exact NR|]. eapply env_ok_ext; eauto. }
  destruct (repeat_generic (pexec env p) (fun s => pcontent (frames_of s env) p) s (fun s0 => own_pexec s0 env p) Agr l1 s1 e1 R)
    as (l2 & s2 & e2 & F & R2 & G1 & G2).
  exists s2, l2, e2, F. rewrite R2. auto. Qed.

Lemma plexec_repeatable s p env s1 l1 e1 : env_ok s env -> plexec_st s p env = Some (s1, l1, e1) ->
  exists s2 l2 e2 F, plexec_st s1 p env = Some (s2, l2, e2) /\ get s1 l1 = Some F /\ get s2 l2 = Some F.
Proof. intros OK. unfold plexec_st. destruct (plexec env p s) as [[[l0 s0'] e0]|] eqn:R; [|discriminate]. intros E. inversion E; subst.
  assert (Agr : forall s', (forall l, In l (dom s) -> get s' l = get s l) -> incl (dom s) (dom s') ->
            plcontent (frames_of s' env) p = plcontent (frames_of s env) p /\ agrees (plcontent (frames_of s' env) p) (plexec env p) s').
  { intros s' Keep Inc. split; [rewrite (frames_of_ext s s' env OK Keep); reflexivity|].
    apply plexec_agrees. eapply env_ok_ext; eauto. }
  destruct (repeat_generic (plexec env p) (fun s => plcontent (frames_of s env) p) s (fun s0 => own_plexec s0 env p) Agr l1 s1 e1 R)
    as (l2 & s2 & e2 & F & R2 & G1 & G2).
  exists s2, l2, e2, F. rewrite R2. auto. Qed.
