(* C15, part B: the natural join step (on_a = on_b = on).  pexec_join with scratch names outside the user's names = plain_join. *)
From Coq Require Import List Bool Arith String Lia.
Import ListNotations.
From DA Require Import Base.PyRT Model.ScratchNames Proofs.ScratchP1 Proofs.ScratchP2.
Local Open Scope list_scope.

(* common: the columns present on both sides -- the only ones pandas.merge ever suffixes *)
Record good_join (sn : pnames) (common u : list string) : Prop := mkgj {
  gj_merge : ~ In (n_merge sn) u;
  gj_right : forall c, In c common -> ~ In (n_right sn c) u;
  gj_right_merge : forall c, In c common -> n_right sn c <> n_merge sn;
  gj_inj : forall a b, In a common -> In b common -> n_right sn a = n_right sn b -> a = b }.

Lemma nodupb_NoDup l : nodupb l = true <-> NoDup l.
Proof.
  induction l as [|x t IH]; simpl; [split; [constructor|reflexivity]|].
  rewrite andb_true_iff, negb_true_iff, IH, mem_false. split; [intros [H1 H2]; constructor; assumption|intros H; inversion H; tauto].
Qed.

Section FrameExt.
  Context {A : Type}.
  Implicit Types F G : frame A.

  Lemma frame_ext F G : fcols F = fcols G -> NoDup (fcols F) -> (forall c, In c (fcols F) -> fget F c = fget G c) -> F = G.
  Proof.
    revert G. induction F as [|[k a] t IH]; intros [|[k' b] t'] E N H; simpl in *; try discriminate; [reflexivity|].
    inversion E; subst. inversion N as [|x l Hx N']; subst.
    assert (Ha : a = b). { specialize (H k' (or_introl eq_refl)). unfold fget in H. simpl in H. destruct (eq_dec k' k'); [inversion H; reflexivity|congruence]. }
    subst b. f_equal. apply IH; [assumption|assumption|].
    intros c Hc. specialize (H c (or_intror Hc)). unfold fget in H. simpl in H.
    destruct (eq_dec c k') as [->|n]; [contradiction|exact H].
  Qed.

  Lemma fget_map_keep (h : string * A -> A) F c : fget (map (fun na => (fst na, h na)) F) c = option_map (fun a => h (c, a)) (fget F c).
  Proof. unfold fget. induction F as [|[k a] t IH]; simpl; [reflexivity|]. destruct (eq_dec c k) as [->|n]; [reflexivity|exact IH]. Qed.

  Lemma fcols_map_keep (h : string * A -> A) F : fcols (map (fun na => (fst na, h na)) F) = fcols F.
  Proof. unfold fcols. rewrite map_map. reflexivity. Qed.

  Lemma fget_filter (p : string -> bool) F c : fget (filter (fun na => p (fst na)) F) c = if p c then fget F c else None.
  Proof.
    unfold fget. induction F as [|[k a] t IH]; simpl; [destruct (p c); reflexivity|].
    destruct (p k) eqn:Pk; simpl.
    - destruct (eq_dec c k) as [->|n]; [rewrite Pk; reflexivity|exact IH].
    - destruct (eq_dec c k) as [->|n]; [rewrite Pk in IH |- *; exact IH|exact IH].
  Qed.

  Lemma fcols_filter (p : string -> bool) F : fcols (filter (fun na => p (fst na)) F) = filter p (fcols F).
  Proof. unfold fcols. induction F as [|[k a] t IH]; simpl; [reflexivity|]. destruct (p k); simpl; rewrite IH; reflexivity. Qed.

  (* lookups through a renaming of the keys that is injective on the keys in play *)
  Lemma fget_map_rename (r : string -> string) (h : string * A -> A) F c :
    (forall k, In k (fcols F) -> r k = r c -> k = c) ->
    fget (map (fun na => (r (fst na), h na)) F) (r c) = option_map (fun a => h (c, a)) (fget F c).
  Proof.
    unfold fget, fcols. induction F as [|[k a] t IH]; simpl; intros H; [reflexivity|].
    destruct (eq_dec (r c) (r k)) as [e|n].
    - assert (k = c) by (apply H; [left; reflexivity|symmetry; exact e]). subst k. destruct (eq_dec c c); [reflexivity|congruence].
    - destruct (eq_dec c k) as [->|n2]; [congruence|]. apply IH. intros k0 Hk. apply H. right. exact Hk.
  Qed.

  Lemma fget_map_rename_absent (r : string -> string) (h : string * A -> A) F x :
    (forall k, In k (fcols F) -> r k <> x) -> fget (map (fun na => (r (fst na), h na)) F) x = None.
  Proof.
    intros H. apply fget_None. unfold fcols. rewrite map_map. simpl. intros I. apply in_map_iff in I. destruct I as [[k a] [E I]]. simpl in E.
    apply (H k); [|exact E]. unfold fcols. apply in_map_iff. exists (k, a). split; [reflexivity|exact I].
  Qed.

  Lemma fget_Some_In F c a : fget F c = Some a -> In c (fcols F).
  Proof. apply dict_get_Some_keys. Qed.
  Lemma fget_In_Some F c : In c (fcols F) -> exists a, fget F c = Some a.
  Proof. intros I. destruct (fget F c) as [a|] eqn:E; [exists a; reflexivity|]. apply fget_None in E. contradiction. Qed.

  Lemma fcols_fdel F c : fcols (fdel F c) = remove_elem c (fcols F).
  Proof. apply dict_keys_pop. Qed.
  Lemma fget_fdel F c x : fget (fdel F c) x = if eq_dec x c then None else fget F x.
  Proof. apply dict_get_pop. Qed.

  Lemma freads_In F cs ks : freads F cs = Some ks -> forall c, In c cs -> In c (fcols F).
  Proof.
    unfold freads. revert ks. induction cs as [|c t IH]; simpl; intros ks E x Hx; [contradiction|].
    destruct (fget F c) as [a|] eqn:Ec; [|discriminate]. destruct (all_some (map (fget F) t)) as [r|] eqn:Et; [|discriminate].
    destruct Hx as [<-|Hx]; [apply (fget_Some_In F c a Ec)|apply (IH r eq_refl x Hx)].
  Qed.
End FrameExt.

Lemma add_end_present (l : list string) c : In c l -> add_end l c = l.
Proof. intros I. unfold add_end. apply mem_In in I. rewrite I. reflexivity. Qed.

Lemma remove_elem_filter c (l : list string) : remove_elem c l = filter (fun x => negb (eqb c x)) l.
Proof. reflexivity. Qed.

Lemma NoDup_app_intro {X} (a b : list X) : NoDup a -> NoDup b -> (forall x, In x a -> ~ In x b) -> NoDup (a ++ b).
Proof.
  induction a as [|x t IH]; simpl; intros Na Nb D; [exact Nb|]. inversion Na as [|y l Hy Na']; subst. constructor.
  - rewrite in_app_iff. intros [H|H]; [contradiction|]. exact (D x (or_introl eq_refl) H).
  - apply IH; [exact Na'|exact Nb|]. intros y Hy'. apply D. right. exact Hy'.
Qed.

Lemma NoDup_map_inj_on {X Y} (g : X -> Y) l : NoDup l -> (forall a b, In a l -> In b l -> g a = g b -> a = b) -> NoDup (map g l).
Proof.
  induction 1 as [|x t Hx N IH]; simpl; intros Hg; [constructor|]. constructor.
  - intros H. apply in_map_iff in H. destruct H as [y [E Hy]]. assert (y = x) by (apply Hg; [right; exact Hy|left; reflexivity|exact E]). subst y. contradiction.
  - apply IH. intros a b Ha Hb. apply Hg; right; assumption.
Qed.

Lemma NoDup_insert {X} (l l' : list X) a : NoDup (l ++ l') -> ~ In a (l ++ l') -> NoDup (l ++ a :: l').
Proof.
  induction l as [|x t IH]; simpl; intros N Ha; [constructor; assumption|]. inversion N as [|y z Hy N']; subst. constructor.
  - rewrite in_app_iff in *. simpl. intros [H|[H|H]]; [apply Hy; left; exact H|subst; apply Ha; left; reflexivity|apply Hy; right; exact H].
  - apply IH; [exact N'|]. intros H. apply Ha. right. exact H.
Qed.

Section Join.
  Context {A : Type} (P : prims A) (sn : pnames).
  Let one : A := p_const P "1".
  Let nr := n_right sn.

  (* the coalescing loop, characterised by its columns and its lookups *)
  Lemma coalesce_spec cs : forall res,
    NoDup cs -> (forall c, In c cs -> In c (fcols res)) -> (forall c, In c cs -> In (nr c) (fcols res)) ->
    (forall a b, In a cs -> In b cs -> nr a = nr b -> a = b) -> (forall a b, In a cs -> In b cs -> nr a <> b) ->
    exists res', coalesce_common P sn cs res = Some res'
      /\ fcols res' = filter (fun x => negb (mem x (map nr cs))) (fcols res)
      /\ forall x, ~ In x (map nr cs) ->
           fget res' x = if mem x cs then (match fget res x, fget res (nr x) with Some a, Some b => Some (p_fillna P a b) | _, _ => None end) else fget res x.
  Proof.
    induction cs as [|c t IH]; intros res N Hc Hr Hinj Hsep; simpl.
    - exists res. split; [reflexivity|]. split; [symmetry; apply filter_all; reflexivity|reflexivity].
    - inversion N as [|x l Hx N']; subst.
      destruct (fget_In_Some res c (Hc c (or_introl eq_refl))) as [a Ea]. destruct (fget_In_Some res (nr c) (Hr c (or_introl eq_refl))) as [b Eb].
      fold nr. rewrite Ea, Eb. simpl.
      set (res2 := fdel (fset res c (p_fillna P a b)) (nr c)).
      assert (C2 : fcols res2 = remove_elem (nr c) (fcols res)).
      { unfold res2. rewrite fcols_fdel, fcols_fset, add_end_present by (apply Hc; left; reflexivity). reflexivity. }
      assert (G2 : forall y, fget res2 y = if eq_dec y (nr c) then None else if eq_dec y c then Some (p_fillna P a b) else fget res y).
      { intros y. unfold res2. rewrite fget_fdel. destruct (eq_dec y (nr c)); [reflexivity|].
        destruct (eq_dec y c) as [->|n2]; [apply fget_fset_same|apply fget_fset_other, n2]. }
      assert (Ncr : nr c <> c) by (apply Hsep; left; reflexivity).
      destruct (IH res2 N') as [res' [E1 [E2 E3]]].
      + intros c' H'. rewrite C2. apply In_remove_elem. split; [apply Hc; right; exact H'|]. intros E. apply (Hsep c c'); [left; reflexivity|right; exact H'|symmetry; exact E].
      + intros c' H'. rewrite C2. apply In_remove_elem. split; [apply Hr; right; exact H'|]. intros E.
        assert (c' = c) by (apply Hinj; [right; exact H'|left; reflexivity|exact E]). subst c'. contradiction.
      + intros a0 b0 Ha Hb. apply Hinj; right; assumption.
      + intros a0 b0 Ha Hb. apply Hsep; right; assumption.
      + exists res'. split; [exact E1|]. split.
        * rewrite E2, C2, remove_elem_filter. clear. induction (fcols res) as [|y l IHl]; simpl; [reflexivity|].
          unfold eqb at 1. destruct (eq_dec (nr c) y) as [<-|n]; simpl.
          -- destruct (eq_dec (nr c) (nr c)); [simpl; exact IHl|congruence].
          -- destruct (eq_dec y (nr c)); [congruence|]. destruct (mem y (map nr t)); simpl; rewrite IHl; reflexivity.
        * intros x Nx. simpl in Nx. assert (Nx1 : x <> nr c) by (intros ->; apply Nx; left; reflexivity).
          assert (Nx2 : ~ In x (map nr t)) by (intros H; apply Nx; right; exact H).
          rewrite (E3 x Nx2). rewrite !G2.
          destruct (eq_dec x (nr c)); [congruence|].
          destruct (eq_dec x c) as [->|n2].
          -- assert (M : mem c t = false) by (apply mem_false, Hx). rewrite M, Ea, Eb. reflexivity.
          -- destruct (mem x t) eqn:Mt; [|reflexivity]. apply mem_In in Mt.
             destruct (eq_dec (nr x) (nr c)) as [e|_]; [exfalso; apply n2, Hinj; [right; exact Mt|left; reflexivity|exact e]|].
             destruct (eq_dec (nr x) c) as [e|_]; [exfalso; apply (Hsep x c); [right; exact Mt|left; reflexivity|exact e]|]. reflexivity.
  Qed.

  Definition ren (lfc : list string) (n : string) : string := if mem n lfc then nr n else n.

  Theorem join_no_capture how on lf rg :
    NoDup (fcols lf) -> NoDup (fcols rg) -> good_join sn (filter (fun c => mem c (fcols rg)) (fcols lf)) (fcols lf ++ fcols rg ++ on) ->
    pexec_join P sn how on lf rg = plain_join P how on lf rg.
  Proof.
    intros Nl Nr [Gm Gr Grm Ginj].
    set (u := fcols lf ++ fcols rg ++ on) in *.
    assert (Ulf : forall c, In c (fcols lf) -> In c u) by (intros c H; apply in_or_app; left; exact H).
    assert (Urg : forall c, In c (fcols rg) -> In c u) by (intros c H; apply in_or_app; right; apply in_or_app; left; exact H).
    set (lfc := fcols lf) in *.
    assert (Com : forall c, In c lfc -> In c (fcols rg) -> In c (filter (fun c => mem c (fcols rg)) lfc)).
    { intros c H1 H2. apply filter_In. split; [exact H1|apply mem_In, H2]. }
    (* the renaming of the right columns is injective on the user's names, and never lands on one *)
    assert (RenInj : forall a b, In a (fcols rg) -> In b (fcols rg) -> ren lfc a = ren lfc b -> a = b).
    { intros a b Ha Hb. unfold ren. destruct (mem a lfc) eqn:Ma, (mem b lfc) eqn:Mb; intros E.
      - apply Ginj; [apply Com; [apply mem_In, Ma|exact Ha]|apply Com; [apply mem_In, Mb|exact Hb]|exact E].
      - exfalso. apply (Gr a (Com a (proj1 (mem_In a lfc) Ma) Ha)). fold nr. rewrite E. apply Urg, Hb.
      - exfalso. apply (Gr b (Com b (proj1 (mem_In b lfc) Mb) Hb)). fold nr. rewrite <- E. apply Urg, Ha.
      - exact E. }
    assert (RenOut : forall n, In n (fcols rg) -> In (ren lfc n) lfc -> False).
    { intros n Hn. unfold ren. destruct (mem n lfc) eqn:Mn; intros H.
      - apply (Gr n (Com n (proj1 (mem_In n lfc) Mn) Hn)). apply Ulf. exact H.
      - apply mem_false in Mn. contradiction. }
    (* shape of the merged frame, for any keys *)
    assert (Shape : forall ka kb,
               let L0 := map (fun na : string * A => (fst na, p_merge_left P how ka kb (snd na))) lf in
               let R0 := map (fun nb : string * A => (ren lfc (fst nb), p_merge_right P how ka kb (snd nb))) (filter (fun nb => negb (mem (fst nb) on)) rg) in
               NoDup (fcols (L0 ++ R0)) /\ fcols L0 = lfc /\ fcols R0 = map (ren lfc) (filter (fun c => negb (mem c on)) (fcols rg))).
    { intros ka kb L0 R0.
      assert (CL : fcols L0 = lfc) by (unfold L0; apply (fcols_map_keep (fun na => p_merge_left P how ka kb (snd na)))).
      assert (CR : fcols R0 = map (ren lfc) (filter (fun c => negb (mem c on)) (fcols rg))).
      { unfold R0, fcols. rewrite map_map. simpl. rewrite <- (map_map fst (ren lfc)). f_equal. apply (fcols_filter (fun c => negb (mem c on)) rg). }
      split; [|split; assumption]. unfold fcols. rewrite map_app. fold (fcols L0). fold (fcols R0). rewrite CL, CR.
      apply NoDup_app_intro; [exact Nl| |].
      - apply NoDup_map_inj_on; [apply NoDup_filter, Nr|]. intros a b Ha Hb. apply filter_In in Ha, Hb. apply RenInj; tauto.
      - intros x Hx H. apply in_map_iff in H. destruct H as [n [E Hn]]. apply filter_In in Hn. subst x. apply (RenOut n); [tauto|exact Hx]. }
    (* the loop after the merge and the comparison with plain_join, for any keys and any `on` inside the left columns *)
    assert (Core : forall ka kb, (forall c, In c on -> In c lfc) ->
               let L0 := map (fun na : string * A => (fst na, p_merge_left P how ka kb (snd na))) lf in
               let R0 := map (fun nb : string * A => (ren lfc (fst nb), p_merge_right P how ka kb (snd nb))) (filter (fun nb => negb (mem (fst nb) on)) rg) in
               coalesce_common P sn (filter (fun c => negb (mem c on)) (filter (fun c => mem c (fcols rg)) lfc)) (L0 ++ R0)
               = Some (map (fun na => (fst na,
                                       match (if negb (mem (fst na) on) then fget rg (fst na) else None) with
                                       | Some b => p_fillna P (p_merge_left P how ka kb (snd na)) (p_merge_right P how ka kb b)
                                       | None => p_merge_left P how ka kb (snd na)
                                       end)) lf
                       ++ map (fun nb => (fst nb, p_merge_right P how ka kb (snd nb))) (filter (fun nb => negb (mem (fst nb) lfc)) rg))).
    { intros ka kb Hon L0 R0. destruct (Shape ka kb) as [ND [CL CR]]. fold L0 in ND, CL. fold R0 in ND, CR.
      set (cs := filter (fun c => negb (mem c on)) (filter (fun c => mem c (fcols rg)) lfc)).
      assert (Hcs : forall c, In c cs <-> In c lfc /\ In c (fcols rg) /\ ~ In c on).
      { intros c. unfold cs. rewrite !filter_In, negb_true_iff, mem_In, mem_false. tauto. }
      assert (CLR : fcols (L0 ++ R0) = lfc ++ fcols R0) by (unfold fcols; rewrite map_app; fold (fcols L0); fold (fcols R0); rewrite CL; reflexivity).
      destruct (coalesce_spec cs (L0 ++ R0)) as [res' [E1 [E2 E3]]].
      - unfold cs. apply NoDup_filter, NoDup_filter, Nl.
      - intros c Hc. apply Hcs in Hc. rewrite CLR. apply in_or_app. left. tauto.
      - intros c Hc. apply Hcs in Hc. destruct Hc as (H1 & H2 & H3). rewrite CLR. apply in_or_app. right. rewrite CR.
        apply in_map_iff. exists c. split; [unfold ren; apply mem_In in H1; rewrite H1; reflexivity|]. apply filter_In. split; [exact H2|apply negb_true_iff, mem_false, H3].
      - intros a b Ha Hb. apply Hcs in Ha, Hb. apply Ginj; apply Com; tauto.
      - intros a b Ha Hb E. apply Hcs in Ha, Hb. apply (Gr a); [apply Com; tauto|]. fold nr. rewrite E. apply Ulf. tauto.
      - rewrite E1. f_equal.
        pose (hL := fun na : string * A => match (if negb (mem (fst na) on) then fget rg (fst na) else None) with
                                          | Some b => p_fillna P (p_merge_left P how ka kb (snd na)) (p_merge_right P how ka kb b)
                                          | None => p_merge_left P how ka kb (snd na)
                                          end).
        pose (PLl := map (fun na : string * A => (fst na, hL na)) lf).
        pose (PLr := map (fun nb : string * A => (fst nb, p_merge_right P how ka kb (snd nb))) (filter (fun nb => negb (mem (fst nb) lfc)) rg)).
        change (res' = PLl ++ PLr).
        assert (NrOut : forall x, In x u -> ~ In x (map nr cs)).
        { intros x Hx H. apply in_map_iff in H. destruct H as [c [E Hc]]. apply Hcs in Hc. apply (Gr c); [apply Com; tauto|]. fold nr. rewrite E. exact Hx. }
        assert (PLlc : fcols PLl = lfc) by (unfold PLl; apply (fcols_map_keep hL lf)).
        assert (PLcols : fcols (PLl ++ PLr) = lfc ++ filter (fun c => negb (mem c lfc)) (fcols rg)).
        { unfold fcols at 1. rewrite map_app. fold (fcols PLl). rewrite PLlc. f_equal.
          unfold PLr. rewrite map_map. simpl. apply (fcols_filter (fun c => negb (mem c lfc)) rg). }
        assert (RCols : filter (fun x => negb (mem x (map nr cs))) (fcols R0) = filter (fun c => negb (mem c lfc)) (fcols rg)).
        { rewrite CR. assert (Sub : forall n, In n (fcols rg) -> In n (fcols rg)) by tauto. revert Sub.
          generalize (fcols rg) at 1 3 4. intros l. induction l as [|n l IHl]; intros Sub; simpl; [reflexivity|].
          assert (Hn : In n (fcols rg)) by (apply Sub; left; reflexivity).
          assert (IH' := IHl (fun m Hm => Sub m (or_intror Hm))).
          destruct (mem n on) eqn:Mo; simpl.
          - assert (M : mem n lfc = true) by (apply mem_In, Hon, mem_In, Mo). rewrite M. simpl. exact IH'.
          - destruct (mem n lfc) eqn:Ml; simpl.
            + assert (Er : ren lfc n = nr n) by (unfold ren; rewrite Ml; reflexivity). rewrite Er.
              assert (M : mem (nr n) (map nr cs) = true).
              { apply mem_In, in_map. apply Hcs. split; [apply mem_In, Ml|]. split; [exact Hn|apply mem_false, Mo]. }
              rewrite M. simpl. exact IH'.
            + assert (Er : ren lfc n = n) by (unfold ren; rewrite Ml; reflexivity). rewrite Er.
              assert (M : mem n (map nr cs) = false) by (apply mem_false, NrOut, Urg, Hn). rewrite M. simpl. rewrite IH'. reflexivity. }
        assert (C' : fcols res' = lfc ++ filter (fun c => negb (mem c lfc)) (fcols rg)).
        { rewrite E2, CLR, filter_app, RCols. f_equal. apply filter_all. intros x Hx. apply negb_true_iff, mem_false, NrOut, Ulf, Hx. }
        apply frame_ext.
        + rewrite C', PLcols. reflexivity.
        + rewrite C'. apply NoDup_app_intro; [exact Nl|apply NoDup_filter, Nr|].
          intros x Hx H. apply filter_In in H. destruct H as [_ H]. apply negb_true_iff, mem_false in H. contradiction.
        + rewrite C'. intros x Hx.
          assert (Hxu : In x u) by (apply in_app_or in Hx; destruct Hx as [H|H]; [apply Ulf, H|apply filter_In in H; apply Urg; tauto]).
          rewrite (E3 x (NrOut x Hxu)).
          apply in_app_or in Hx. destruct Hx as [Hx|Hx].
          * (* a left column *)
            destruct (fget_In_Some lf x Hx) as [a Ea].
            assert (GL : fget (L0 ++ R0) x = Some (p_merge_left P how ka kb a)).
            { rewrite fget_app. unfold L0. rewrite (fget_map_keep (fun na => p_merge_left P how ka kb (snd na))), Ea. reflexivity. }
            rewrite (fget_app PLl PLr x). unfold PLl. rewrite (fget_map_keep hL lf x), Ea. unfold hL. simpl.
            destruct (mem x cs) eqn:Mc.
            -- apply mem_In, Hcs in Mc. destruct Mc as (_ & H2 & H3). destruct (fget_In_Some rg x H2) as [b Eb].
               assert (M : mem x on = false) by (apply mem_false, H3). rewrite M, Eb. simpl. rewrite GL.
               assert (GR : fget (L0 ++ R0) (nr x) = Some (p_merge_right P how ka kb b)).
               { rewrite fget_app_r by (rewrite CL; intros H; apply (Gr x (Com x Hx H2)), Ulf, H).
                 assert (Ex : nr x = ren lfc x) by (unfold ren; apply mem_In in Hx; rewrite Hx; reflexivity). rewrite Ex.
                 unfold R0. rewrite (fget_map_rename (ren lfc) (fun nb => p_merge_right P how ka kb (snd nb))).
                 - rewrite (fget_filter (fun c => negb (mem c on)) rg), M, Eb. reflexivity.
                 - intros k Hk. rewrite (fcols_filter (fun c => negb (mem c on)) rg) in Hk. apply filter_In in Hk. apply RenInj; [tauto|exact H2]. }
               rewrite GR. reflexivity.
            -- rewrite GL. f_equal.
               destruct (mem x on) eqn:Mo; simpl; [reflexivity|].
               destruct (fget rg x) as [b|] eqn:Eb; [|reflexivity].
               exfalso. apply mem_false in Mc. apply Mc, Hcs. split; [exact Hx|]. split; [apply (fget_Some_In rg x b Eb)|apply mem_false, Mo].
          * (* a right column that is not a left column *)
            apply filter_In in Hx. destruct Hx as [Hxr Hxl]. apply negb_true_iff in Hxl.
            assert (Nxl : ~ In x lfc) by (apply mem_false, Hxl).
            assert (Mc : mem x cs = false) by (apply mem_false; intros H; apply Hcs in H; tauto). rewrite Mc.
            rewrite fget_app_r by (rewrite CL; exact Nxl).
            rewrite (fget_app_r PLl PLr x) by (rewrite PLlc; exact Nxl). unfold PLr.
            assert (Ex : x = ren lfc x) by (unfold ren; rewrite Hxl; reflexivity). rewrite Ex at 1.
            unfold R0. rewrite (fget_map_rename (ren lfc) (fun nb => p_merge_right P how ka kb (snd nb))).
            -- rewrite (fget_filter (fun c => negb (mem c on)) rg).
               assert (Mo : mem x on = false) by (apply mem_false; intros H; apply Nxl, Hon, H). rewrite Mo. simpl.
               rewrite (fget_map_keep (fun nb => p_merge_right P how ka kb (snd nb))), (fget_filter (fun c => negb (mem c lfc)) rg), Hxl. reflexivity.
            -- intros k Hk. rewrite (fcols_filter (fun c => negb (mem c on)) rg) in Hk. apply filter_In in Hk. apply RenInj; [tauto|exact Hxr]. }
    unfold pexec_join, plain_join. fold one.
    destruct on as [|o1 os].
    - (* no key: the merge column is written into both inputs and deleted from the result *)
      cbn iota beta.
      assert (Ml : ~ In (n_merge sn) (fcols lf)) by (intros H; apply Gm, Ulf, H).
      assert (Mr : ~ In (n_merge sn) (fcols rg)) by (intros H; apply Gm, Urg, H).
      rewrite (fset_absent lf _ one Ml), (fset_absent rg _ one Mr).
      assert (Ka : forall F : frame A, ~ In (n_merge sn) (fcols F) -> freads (F ++ [(n_merge sn, one)]) [n_merge sn] = Some [one]).
      { intros F NF. unfold freads. simpl. rewrite fget_app_r by exact NF. unfold fget. simpl. destruct (eq_dec (n_merge sn) (n_merge sn)); [reflexivity|congruence]. }
      rewrite (Ka lf Ml), (Ka rg Mr). simpl.
      destruct (Shape [one] [one]) as [ND [CL CR]].
      pose proof (Core [one] [one] (fun c (H : In c []) => match H with end)) as CO.
      cbv zeta in ND, CL, CR, CO.
      set (L0 := map (fun na : string * A => (fst na, p_merge_left P how [one] [one] (snd na))) lf) in *.
      set (R0 := map (fun nb : string * A => (ren lfc (fst nb), p_merge_right P how [one] [one] (snd nb))) (filter (fun nb => negb (mem (fst nb) [])) rg)) in *.
      assert (EM : pd_merge P (n_right sn) how [n_merge sn] [one] [one] (lf ++ [(n_merge sn, one)]) (rg ++ [(n_merge sn, one)])
                   = Some ((L0 ++ [(n_merge sn, p_merge_left P how [one] [one] one)]) ++ R0)).
      { unfold pd_merge.
        assert (Er : filter (fun nb : string * A => negb (mem (fst nb) [n_merge sn])) (rg ++ [(n_merge sn, one)]) = filter (fun nb => negb (mem (fst nb) [])) rg).
        { rewrite filter_app. simpl. destruct (eq_dec (n_merge sn) (n_merge sn)); [|congruence]. simpl. rewrite app_nil_r.
          apply filter_ext_in. intros [k a] Hk. simpl. destruct (eq_dec k (n_merge sn)) as [->|n]; [|reflexivity].
          exfalso. apply Mr. unfold fcols. apply in_map_iff. exists (n_merge sn, a). split; [reflexivity|exact Hk]. }
        rewrite Er.
        assert (Eo : map (fun na : string * A => (fst na, p_merge_left P how [one] [one] (snd na))) (lf ++ [(n_merge sn, one)])
                     ++ map (fun nb : string * A => ((if mem (fst nb) (fcols (lf ++ [(n_merge sn, one)])) then n_right sn (fst nb) else fst nb), p_merge_right P how [one] [one] (snd nb)))
                            (filter (fun nb => negb (mem (fst nb) [])) rg)
                     = (L0 ++ [(n_merge sn, p_merge_left P how [one] [one] one)]) ++ R0).
        { rewrite map_app. simpl. f_equal. unfold R0. apply map_ext_in. intros [k a] Hk. simpl. f_equal.
          apply filter_In in Hk. destruct Hk as [Hk _].
          unfold fcols. rewrite map_app, mem_app. simpl. unfold ren, nr, lfc, fcols.
          destruct (eq_dec k (n_merge sn)) as [->|n]; [|rewrite orb_false_r; reflexivity].
          exfalso. apply Mr. unfold fcols. apply in_map_iff. exists (n_merge sn, a). split; [reflexivity|exact Hk]. }
        rewrite Eo.
        assert (NDo : nodupb (fcols ((L0 ++ [(n_merge sn, p_merge_left P how [one] [one] one)]) ++ R0)) = true).
        { apply nodupb_NoDup. unfold fcols. rewrite !map_app. simpl. rewrite <- app_assoc. simpl. fold (fcols L0). fold (fcols R0).
          apply NoDup_insert.
          - unfold fcols in ND. rewrite map_app in ND. exact ND.
          - rewrite in_app_iff. rewrite CL, CR. intros [H|H]; [exact (Ml H)|].
            apply in_map_iff in H. destruct H as [n [E Hn]]. apply filter_In in Hn. destruct Hn as [Hn _]. unfold ren in E.
            destruct (mem n lfc) eqn:Mn; [exact (Grm n (Com n (proj1 (mem_In n lfc) Mn) Hn) E)|]. subst n. exact (Mr Hn). }
        rewrite NDo. reflexivity. }
      rewrite EM. simpl.
      assert (ED : fdel ((L0 ++ [(n_merge sn, p_merge_left P how [one] [one] one)]) ++ R0) (n_merge sn) = L0 ++ R0).
      { rewrite !fdel_app, fdel_single, app_nil_r. f_equal; apply fdel_absent.
        - rewrite CL. exact Ml.
        - rewrite CR. intros H. apply in_map_iff in H. destruct H as [n [E Hn]]. apply filter_In in Hn. destruct Hn as [Hn _]. unfold ren in E.
          destruct (mem n lfc) eqn:Mn; [exact (Grm n (Com n (proj1 (mem_In n lfc) Mn) Hn) E)|]. subst n. exact (Mr Hn). }
      rewrite ED. exact CO.
    - (* keys: no scratch key column *)
      cbn iota beta.
      destruct (freads lf (o1 :: os)) as [ka|] eqn:Ka; simpl; [|reflexivity].
      destruct (freads rg (o1 :: os)) as [kb|] eqn:Kb; simpl; [|reflexivity].
      assert (Hon : forall c, In c (o1 :: os) -> In c lfc) by (apply (freads_In lf (o1 :: os) ka Ka)).
      destruct (Shape ka kb) as [ND _]. pose proof (Core ka kb Hon) as CO. cbv zeta in ND, CO.
      unfold pd_merge.
      match goal with |- context [nodupb ?l] => replace (nodupb l) with true by (symmetry; apply nodupb_NoDup; exact ND) end.
      simpl. exact CO.
  Qed.
End Join.
