(* C15, part B: the natural join step (on_a = on_b = on).  pexec_join with scratch names outside the user's names = plain_join. *)
From Coq Require Import List Bool Arith String Lia.
Import ListNotations.
From DA Require Import Base.PyRT Model.ScratchNames Proofs.ScratchP1 Proofs.ScratchP2.
Local Open Scope list_scope.

(* common: the columns present on both sides -- the only ones pandas.merge ever suffixes *)
Record good_join (sn : pnames) (common u : list string) : Prop := mkgj {
  gj_merge : ~ In (n_merge sn) u;
  gj_right : forall c, In c common -> ~ In (n_right sn c) u;
  gj_right_merge : forall c, In c common -> n_right sn c <> n_merge sn;
  gj_nullkey : ~ In (n_nullkey sn) u;
  gj_right_nullkey : forall c, In c common -> n_right sn c <> n_nullkey sn;
  gj_merge_nullkey : n_merge sn <> n_nullkey sn;
  gj_inj : forall a b, In a common -> In b common -> n_right sn a = n_right sn b -> a = b }.

Lemma nodupb_NoDup l : nodupb l = true <-> NoDup l.
Proof.
  induction l as [|x t IH]; simpl; [split; [constructor|reflexivity]|].
  rewrite andb_true_iff, negb_true_iff, IH, mem_false. split; [intros [H1 H2]; constructor; assumption|intros H; inversion H; tauto].
Qed.

Section FrameExt.
  Context {A : Type}.
  Implicit Types F G : frame A.

  Lemma frame_ext F G : fcols F = fcols G -> NoDup (fcols F) -> (forall c, In c (fcols F) -> fget F c = fget G c) -> F = G.
  Proof.
    revert G. induction F as [|[k a] t IH]; intros [|[k' b] t'] E N H; simpl in *; try discriminate; [reflexivity|].
    inversion E; subst. inversion N as [|x l Hx N']; subst.
    assert (Ha : a = b). { specialize (H k' (or_introl eq_refl)). unfold fget in H. simpl in H. destruct (eq_dec k' k'); [inversion H; reflexivity|congruence]. }
    subst b. f_equal. apply IH; [assumption|assumption|].
    intros c Hc. specialize (H c (or_intror Hc)). unfold fget in H. simpl in H.
    destruct (eq_dec c k') as [->|n]; [contradiction|exact H].
  Qed.

  Lemma fget_map_keep (h : string * A -> A) F c : fget (map (fun na => (fst na, h na)) F) c = option_map (fun a => h (c, a)) (fget F c).
  Proof. unfold fget. induction F as [|[k a] t IH]; simpl; [reflexivity|]. destruct (eq_dec c k) as [->|n]; [reflexivity|exact IH]. Qed.

  Lemma fcols_map_keep (h : string * A -> A) F : fcols (map (fun na => (fst na, h na)) F) = fcols F.
  Proof. unfold fcols. rewrite map_map. reflexivity. Qed.

  Lemma fget_filter (p : string -> bool) F c : fget (filter (fun na => p (fst na)) F) c = if p c then fget F c else None.
  Proof.
    unfold fget. induction F as [|[k a] t IH]; simpl; [destruct (p c); reflexivity|].
    destruct (p k) eqn:Pk; simpl.
    - destruct (eq_dec c k) as [->|n]; [rewrite Pk; reflexivity|exact IH].
    - destruct (eq_dec c k) as [->|n]; [rewrite Pk in IH |- *; exact IH|exact IH].
  Qed.

  Lemma fcols_filter (p : string -> bool) F : fcols (filter (fun na => p (fst na)) F) = filter p (fcols F).
  Proof. unfold fcols. induction F as [|[k a] t IH]; simpl; [reflexivity|]. destruct (p k); simpl; rewrite IH; reflexivity. Qed.

  (* lookups through a renaming of the keys that is injective on the keys in play *)
  Lemma fget_map_rename (r : string -> string) (h : string * A -> A) F c :
    (forall k, In k (fcols F) -> r k = r c -> k = c) ->
    fget (map (fun na => (r (fst na), h na)) F) (r c) = option_map (fun a => h (c, a)) (fget F c).
  Proof.
    unfold fget, fcols. induction F as [|[k a] t IH]; simpl; intros H; [reflexivity|].
    destruct (eq_dec (r c) (r k)) as [e|n].
    - assert (k = c) by (apply H; [left; reflexivity|symmetry; exact e]). subst k. destruct (eq_dec c c); [reflexivity|congruence].
    - destruct (eq_dec c k) as [->|n2]; [congruence|]. apply IH. intros k0 Hk. apply H. right. exact Hk.
  Qed.

  Lemma fget_map_rename_absent (r : string -> string) (h : string * A -> A) F x :
    (forall k, In k (fcols F) -> r k <> x) -> fget (map (fun na => (r (fst na), h na)) F) x = None.
  Proof.
    intros H. apply fget_None. unfold fcols. rewrite map_map. simpl. intros I. apply in_map_iff in I. destruct I as [[k a] [E I]]. simpl in E.
    apply (H k); [|exact E]. unfold fcols. apply in_map_iff. exists (k, a). split; [reflexivity|exact I].
  Qed.

  Lemma fget_Some_In F c a : fget F c = Some a -> In c (fcols F).
  Proof. apply dict_get_Some_keys. Qed.
  Lemma fget_In_Some F c : In c (fcols F) -> exists a, fget F c = Some a.
  Proof. intros I. destruct (fget F c) as [a|] eqn:E; [exists a; reflexivity|]. apply fget_None in E. contradiction. Qed.

  Lemma fcols_fdel F c : fcols (fdel F c) = remove_elem c (fcols F).
  Proof. apply dict_keys_pop. Qed.
  Lemma fget_fdel F c x : fget (fdel F c) x = if eq_dec x c then None else fget F x.
  Proof. apply dict_get_pop. Qed.

  Lemma freads_In F cs ks : freads F cs = Some ks -> forall c, In c cs -> In c (fcols F).
  Proof.
    unfold freads. revert ks. induction cs as [|c t IH]; simpl; intros ks E x Hx; [contradiction|].
    destruct (fget F c) as [a|] eqn:Ec; [|discriminate]. destruct (all_some (map (fget F) t)) as [r|] eqn:Et; [|discriminate].
    destruct Hx as [<-|Hx]; [apply (fget_Some_In F c a Ec)|apply (IH r eq_refl x Hx)].
  Qed.
End FrameExt.

Lemma add_end_present (l : list string) c : In c l -> add_end l c = l.
Proof. intros I. unfold add_end. apply mem_In in I. rewrite I. reflexivity. Qed.

Lemma remove_elem_filter c (l : list string) : remove_elem c l = filter (fun x => negb (eqb c x)) l.
Proof. reflexivity. Qed.

Lemma NoDup_app_intro {X} (a b : list X) : NoDup a -> NoDup b -> (forall x, In x a -> ~ In x b) -> NoDup (a ++ b).
Proof.
  induction a as [|x t IH]; simpl; intros Na Nb D; [exact Nb|]. inversion Na as [|y l Hy Na']; subst. constructor.
  - rewrite in_app_iff. intros [H|H]; [contradiction|]. exact (D x (or_introl eq_refl) H).
  - apply IH; [exact Na'|exact Nb|]. intros y Hy'. apply D. right. exact Hy'.
Qed.

Lemma NoDup_map_inj_on {X Y} (g : X -> Y) l : NoDup l -> (forall a b, In a l -> In b l -> g a = g b -> a = b) -> NoDup (map g l).
Proof.
  induction 1 as [|x t Hx N IH]; simpl; intros Hg; [constructor|]. constructor.
  - intros H. apply in_map_iff in H. destruct H as [y [E Hy]]. assert (y = x) by (apply Hg; [right; exact Hy|left; reflexivity|exact E]). subst y. contradiction.
  - apply IH. intros a b Ha Hb. apply Hg; right; assumption.
Qed.

Lemma NoDup_insert {X} (l l' : list X) a : NoDup (l ++ l') -> ~ In a (l ++ l') -> NoDup (l ++ a :: l').
Proof.
  induction l as [|x t IH]; simpl; intros N Ha; [constructor; assumption|]. inversion N as [|y z Hy N']; subst. constructor.
  - rewrite in_app_iff in *. simpl. intros [H|[H|H]]; [apply Hy; left; exact H|subst; apply Ha; left; reflexivity|apply Hy; right; exact H].
  - apply IH; [exact N'|]. intros H. apply Ha. right. exact H.
Qed.

Section Join.
  Context {A : Type} (P : prims A) (sn : pnames).
  Let one : A := p_const P "1".
  Let nr := n_right sn.

  (* the coalescing loop, characterised by its columns and its lookups *)
  Lemma coalesce_spec cs : forall res,
    NoDup cs -> (forall c, In c cs -> In c (fcols res)) -> (forall c, In c cs -> In (nr c) (fcols res)) ->
    (forall a b, In a cs -> In b cs -> nr a = nr b -> a = b) -> (forall a b, In a cs -> In b cs -> nr a <> b) ->
    exists res', coalesce_common P sn cs res = Some res'
      /\ fcols res' = filter (fun x => negb (mem x (map nr cs))) (fcols res)
      /\ forall x, ~ In x (map nr cs) ->
           fget res' x = if mem x cs then (match fget res x, fget res (nr x) with Some a, Some b => Some (p_fillna P a b) | _, _ => None end) else fget res x.
  Proof.
    induction cs as [|c t IH]; intros res N Hc Hr Hinj Hsep; simpl.
    - exists res. split; [reflexivity|]. split; [symmetry; apply filter_all; reflexivity|reflexivity].
    - inversion N as [|x l Hx N']; subst.
      destruct (fget_In_Some res c (Hc c (or_introl eq_refl))) as [a Ea]. destruct (fget_In_Some res (nr c) (Hr c (or_introl eq_refl))) as [b Eb].
      assert (Mp : mem (nr c) (fcols res) = true) by (apply mem_In, Hr; left; reflexivity).
      fold nr. rewrite Mp, Ea, Eb. simpl.
      set (res2 := fdel (fset res c (p_fillna P a b)) (nr c)).
      assert (C2 : fcols res2 = remove_elem (nr c) (fcols res)).
      { unfold res2. rewrite fcols_fdel, fcols_fset, add_end_present by (apply Hc; left; reflexivity). reflexivity. }
      assert (G2 : forall y, fget res2 y = if eq_dec y (nr c) then None else if eq_dec y c then Some (p_fillna P a b) else fget res y).
      { intros y. unfold res2. rewrite fget_fdel. destruct (eq_dec y (nr c)); [reflexivity|].
        destruct (eq_dec y c) as [->|n2]; [apply fget_fset_same|apply fget_fset_other, n2]. }
      assert (Ncr : nr c <> c) by (apply Hsep; left; reflexivity).
      destruct (IH res2 N') as [res' [E1 [E2 E3]]].
      + intros c' H'. rewrite C2. apply In_remove_elem. split; [apply Hc; right; exact H'|]. intros E. apply (Hsep c c'); [left; reflexivity|right; exact H'|symmetry; exact E].
      + intros c' H'. rewrite C2. apply In_remove_elem. split; [apply Hr; right; exact H'|]. intros E.
        assert (c' = c) by (apply Hinj; [right; exact H'|left; reflexivity|exact E]). subst c'. contradiction.
      + intros a0 b0 Ha Hb. apply Hinj; right; assumption.
      + intros a0 b0 Ha Hb. apply Hsep; right; assumption.
      + exists res'. split; [exact E1|]. split.
        * rewrite E2, C2, remove_elem_filter. clear. induction (fcols res) as [|y l IHl]; simpl; [reflexivity|].
          unfold eqb at 1. destruct (eq_dec (nr c) y) as [<-|n]; simpl.
          -- destruct (eq_dec (nr c) (nr c)); [simpl; exact IHl|congruence].
          -- destruct (eq_dec y (nr c)); [congruence|]. destruct (mem y (map nr t)); simpl; rewrite IHl; reflexivity.
        * intros x Nx. simpl in Nx. assert (Nx1 : x <> nr c) by (intros ->; apply Nx; left; reflexivity).
          assert (Nx2 : ~ In x (map nr t)) by (intros H; apply Nx; right; exact H).
          rewrite (E3 x Nx2). rewrite !G2.
          destruct (eq_dec x (nr c)); [congruence|].
          destruct (eq_dec x c) as [->|n2].
          -- assert (M : mem c t = false) by (apply mem_false, Hx). rewrite M, Ea, Eb. reflexivity.
          -- destruct (mem x t) eqn:Mt; [|reflexivity]. apply mem_In in Mt.
             destruct (eq_dec (nr x) (nr c)) as [e|_]; [exfalso; apply n2, Hinj; [right; exact Mt|left; reflexivity|exact e]|].
             destruct (eq_dec (nr x) c) as [e|_]; [exfalso; apply (Hsep x c); [right; exact Mt|left; reflexivity|exact e]|]. reflexivity.
  Qed.

  (* columns whose suffixed copy is absent are skipped, and the test is not disturbed by the rounds before it *)
  Lemma coalesce_skip cs : forall res,
    NoDup cs -> (forall a b, In a cs -> In b cs -> nr a = nr b -> a = b) -> (forall a b, In a cs -> In b cs -> nr a <> b) ->
    coalesce_common P sn cs res = coalesce_common P sn (filter (fun c => mem (nr c) (fcols res)) cs) res.
  Proof.
    induction cs as [|c t IH]; intros res N Hinj Hsep; [reflexivity|]. inversion N as [|x l Hx N']; subst.
    assert (Hinj' : forall a b, In a t -> In b t -> nr a = nr b -> a = b) by (intros a b Ha Hb; apply Hinj; right; assumption).
    assert (Hsep' : forall a b, In a t -> In b t -> nr a <> b) by (intros a b Ha Hb; apply Hsep; right; assumption).
    cbn [coalesce_common filter]. fold nr. destruct (mem (nr c) (fcols res)) eqn:Mp; [|apply IH; assumption].
    cbn [coalesce_common]. fold nr. rewrite Mp.
    destruct (fget res c) as [a|] eqn:Ea; [|reflexivity]. destruct (fget res (nr c)) as [b|] eqn:Eb; [|reflexivity]. simpl.
    rewrite (IH _ N' Hinj' Hsep'). f_equal. apply filter_ext_in. intros c' Hc'.
    rewrite fcols_fdel, fcols_fset, add_end_present by (apply (fget_Some_In res c a Ea)).
    destruct (mem (nr c') (fcols res)) eqn:M'.
    - apply mem_In, In_remove_elem. split; [apply mem_In, M'|]. intros E. apply Hx. rewrite <- (Hinj c' c (or_intror Hc') (or_introl eq_refl) E). exact Hc'.
    - apply mem_false. intros H. apply In_remove_elem in H. apply mem_false in M'. tauto.
  Qed.

  Lemma freads_app (F : frame A) a b :
    freads F (a ++ b) = match freads F a, freads F b with Some x, Some y => Some (x ++ y) | _, _ => None end.
  Proof.
    unfold freads. induction a as [|c t IH]; simpl; [destruct (all_some (map (fget F) b)); reflexivity|].
    destruct (fget F c); [|reflexivity]. rewrite map_app in *. rewrite IH.
    destruct (all_some (map (fget F) t)); [|reflexivity]. destruct (all_some (map (fget F) b)); reflexivity.
  Qed.

  Lemma freads_own (T : frame A) : NoDup (fcols T) -> freads T (fcols T) = Some (map snd T).
  Proof.
    unfold freads, fcols. induction T as [|[k a] t IH]; simpl; intros N; [reflexivity|]. inversion N as [|x l Hx N']; subst.
    unfold fget at 1. simpl. destruct (eq_dec k k); [|congruence].
    assert (E : map (fget ((k, a) :: t)) (map fst t) = map (fget t) (map fst t)).
    { apply map_ext_in. intros c Hc. unfold fget. simpl. destruct (eq_dec c k) as [->|n]; [contradiction|reflexivity]. }
    rewrite E, (IH N'). reflexivity.
  Qed.

  Lemma fold_fdel_app_r ns : forall (X R : frame A), (forall n, In n ns -> ~ In n (fcols R)) -> fold_left fdel ns (X ++ R) = fold_left fdel ns X ++ R.
  Proof.
    induction ns as [|n t IH]; intros X R H; simpl; [reflexivity|].
    rewrite fdel_app, (fdel_absent R n) by (apply H; left; reflexivity). apply IH. intros m Hm. apply H. right. exact Hm.
  Qed.

  Lemma NoDup_insert_list {X} (l ns l' : list X) : NoDup (l ++ l') -> NoDup ns -> (forall n, In n ns -> ~ In n (l ++ l')) -> NoDup (l ++ ns ++ l').
  Proof.
    induction ns as [|n t IH]; simpl; intros N Nn D; [exact N|]. inversion Nn as [|x y Hx Nt]; subst.
    apply NoDup_insert; [apply IH; [exact N|exact Nt|intros m Hm; apply D; right; exact Hm]|].
    rewrite !in_app_iff. intros [H|[H|H]]; [apply (D n (or_introl eq_refl)); rewrite in_app_iff; tauto|contradiction|apply (D n (or_introl eq_refl)); rewrite in_app_iff; tauto].
  Qed.

  Definition ren (lfc : list string) (n : string) : string := if mem n lfc then nr n else n.

  Theorem join_no_capture how on nullkeys lf rg :
    NoDup (fcols lf) -> NoDup (fcols rg) -> good_join sn (filter (fun c => mem c (fcols rg)) (fcols lf)) (fcols lf ++ fcols rg ++ on) ->
    pexec_join P sn how on nullkeys lf rg = plain_join P how on nullkeys lf rg.
  Proof.
    intros Nl Nr [Gm Gr Grm Gnk Grnk Gmnk Ginj].
    set (u := fcols lf ++ fcols rg ++ on) in *.
    assert (Ulf : forall c, In c (fcols lf) -> In c u) by (intros c H; apply in_or_app; left; exact H).
    assert (Urg : forall c, In c (fcols rg) -> In c u) by (intros c H; apply in_or_app; right; apply in_or_app; left; exact H).
    set (lfc := fcols lf) in *.
    assert (Com : forall c, In c lfc -> In c (fcols rg) -> In c (filter (fun c => mem c (fcols rg)) lfc)).
    { intros c H1 H2. apply filter_In. split; [exact H1|apply mem_In, H2]. }
    (* the renaming of the right columns is injective on the user's names, and never lands on one *)
    assert (RenInj : forall a b, In a (fcols rg) -> In b (fcols rg) -> ren lfc a = ren lfc b -> a = b).
    { intros a b Ha Hb. unfold ren. destruct (mem a lfc) eqn:Ma, (mem b lfc) eqn:Mb; intros E.
      - apply Ginj; [apply Com; [apply mem_In, Ma|exact Ha]|apply Com; [apply mem_In, Mb|exact Hb]|exact E].
      - exfalso. apply (Gr a (Com a (proj1 (mem_In a lfc) Ma) Ha)). fold nr. rewrite E. apply Urg, Hb.
      - exfalso. apply (Gr b (Com b (proj1 (mem_In b lfc) Mb) Hb)). fold nr. rewrite <- E. apply Urg, Ha.
      - exact E. }
    assert (RenOut : forall n, In n (fcols rg) -> In (ren lfc n) lfc -> False).
    { intros n Hn. unfold ren. destruct (mem n lfc) eqn:Mn; intros H.
      - apply (Gr n (Com n (proj1 (mem_In n lfc) Mn) Hn)). apply Ulf. exact H.
      - apply mem_false in Mn. contradiction. }
    (* shape of the merged frame, for any keys *)
    assert (Shape : forall ka kb,
               let L0 := map (fun na : string * A => (fst na, p_merge_left P how ka kb (snd na))) lf in
               let R0 := map (fun nb : string * A => (ren lfc (fst nb), p_merge_right P how ka kb (snd nb))) (filter (fun nb => negb (mem (fst nb) on)) rg) in
               NoDup (fcols (L0 ++ R0)) /\ fcols L0 = lfc /\ fcols R0 = map (ren lfc) (filter (fun c => negb (mem c on)) (fcols rg))).
    { intros ka kb L0 R0.
      assert (CL : fcols L0 = lfc) by (unfold L0; apply (fcols_map_keep (fun na => p_merge_left P how ka kb (snd na)))).
      assert (CR : fcols R0 = map (ren lfc) (filter (fun c => negb (mem c on)) (fcols rg))).
      { unfold R0, fcols. rewrite map_map. simpl. rewrite <- (map_map fst (ren lfc)). f_equal. apply (fcols_filter (fun c => negb (mem c on)) rg). }
      split; [|split; assumption]. unfold fcols. rewrite map_app. fold (fcols L0). fold (fcols R0). rewrite CL, CR.
      apply NoDup_app_intro; [exact Nl| |].
      - apply NoDup_map_inj_on; [apply NoDup_filter, Nr|]. intros a b Ha Hb. apply filter_In in Ha, Hb. apply RenInj; tauto.
      - intros x Hx H. apply in_map_iff in H. destruct H as [n [E Hn]]. apply filter_In in Hn. subst x. apply (RenOut n); [tauto|exact Hx]. }
    (* the loop after the merge and the comparison with plain_join, for any keys and any `on` inside the left columns *)
    assert (Core : forall ka kb, (forall c, In c on -> In c lfc) ->
               let L0 := map (fun na : string * A => (fst na, p_merge_left P how ka kb (snd na))) lf in
               let R0 := map (fun nb : string * A => (ren lfc (fst nb), p_merge_right P how ka kb (snd nb))) (filter (fun nb => negb (mem (fst nb) on)) rg) in
               coalesce_common P sn (filter (fun c => mem c (fcols rg)) lfc) (L0 ++ R0)
               = Some (map (fun na => (fst na,
                                       match (if negb (mem (fst na) on) then fget rg (fst na) else None) with
                                       | Some b => p_fillna P (p_merge_left P how ka kb (snd na)) (p_merge_right P how ka kb b)
                                       | None => p_merge_left P how ka kb (snd na)
                                       end)) lf
                       ++ map (fun nb => (fst nb, p_merge_right P how ka kb (snd nb))) (filter (fun nb => negb (mem (fst nb) lfc)) rg))).
    { intros ka kb Hon L0 R0. destruct (Shape ka kb) as [ND [CL CR]]. fold L0 in ND, CL. fold R0 in ND, CR.
      set (cs := filter (fun c => negb (mem c on)) (filter (fun c => mem c (fcols rg)) lfc)).
      assert (Hcs : forall c, In c cs <-> In c lfc /\ In c (fcols rg) /\ ~ In c on).
      { intros c. unfold cs. rewrite !filter_In, negb_true_iff, mem_In, mem_false. tauto. }
      assert (CLR : fcols (L0 ++ R0) = lfc ++ fcols R0) by (unfold fcols; rewrite map_app; fold (fcols L0); fold (fcols R0); rewrite CL; reflexivity).
      assert (Skip : coalesce_common P sn (filter (fun c => mem c (fcols rg)) lfc) (L0 ++ R0) = coalesce_common P sn cs (L0 ++ R0)).
      { rewrite coalesce_skip.
        - f_equal. unfold cs. apply filter_ext_in. intros c Hc. apply filter_In in Hc. destruct Hc as [Hc1 Hc2]. apply mem_In in Hc2.
          rewrite CLR, CR. destruct (mem c on) eqn:Mo; simpl.
          + apply mem_false. rewrite in_app_iff. intros [H|H]; [apply (Gr c (Com c Hc1 Hc2)), Ulf, H|].
            apply in_map_iff in H. destruct H as [k [E Hk]]. apply filter_In in Hk. destruct Hk as [Hk1 Hk2].
            assert (Ec : ren lfc c = nr c) by (unfold ren; apply mem_In in Hc1; rewrite Hc1; reflexivity).
            assert (k = c) by (apply RenInj; [exact Hk1|exact Hc2|rewrite Ec; exact E]). subst k. rewrite Mo in Hk2. discriminate.
          + apply mem_In, in_or_app. right. apply in_map_iff. exists c. split; [unfold ren; apply mem_In in Hc1; rewrite Hc1; reflexivity|].
            apply filter_In. split; [exact Hc2|rewrite Mo; reflexivity].
        - apply NoDup_filter, Nl.
        - intros a b Ha Hb. apply Ginj; assumption.
        - intros a b Ha Hb E. apply (Gr a Ha). fold nr. rewrite E. apply filter_In in Hb. apply Ulf. tauto. }
      rewrite Skip.
      destruct (coalesce_spec cs (L0 ++ R0)) as [res' [E1 [E2 E3]]].
      - unfold cs. apply NoDup_filter, NoDup_filter, Nl.
      - intros c Hc. apply Hcs in Hc. rewrite CLR. apply in_or_app. left. tauto.
      - intros c Hc. apply Hcs in Hc. destruct Hc as (H1 & H2 & H3). rewrite CLR. apply in_or_app. right. rewrite CR.
        apply in_map_iff. exists c. split; [unfold ren; apply mem_In in H1; rewrite H1; reflexivity|]. apply filter_In. split; [exact H2|apply negb_true_iff, mem_false, H3].
      - intros a b Ha Hb. apply Hcs in Ha, Hb. apply Ginj; apply Com; tauto.
      - intros a b Ha Hb E. apply Hcs in Ha, Hb. apply (Gr a); [apply Com; tauto|]. fold nr. rewrite E. apply Ulf. tauto.
      - rewrite E1. f_equal.
        pose (hL := fun na : string * A => match (if negb (mem (fst na) on) then fget rg (fst na) else None) with
                                          | Some b => p_fillna P (p_merge_left P how ka kb (snd na)) (p_merge_right P how ka kb b)
                                          | None => p_merge_left P how ka kb (snd na)
                                          end).
        pose (PLl := map (fun na : string * A => (fst na, hL na)) lf).
        pose (PLr := map (fun nb : string * A => (fst nb, p_merge_right P how ka kb (snd nb))) (filter (fun nb => negb (mem (fst nb) lfc)) rg)).
        change (res' = PLl ++ PLr).
        assert (NrOut : forall x, In x u -> ~ In x (map nr cs)).
        { intros x Hx H. apply in_map_iff in H. destruct H as [c [E Hc]]. apply Hcs in Hc. apply (Gr c); [apply Com; tauto|]. fold nr. rewrite E. exact Hx. }
        assert (PLlc : fcols PLl = lfc) by (unfold PLl; apply (fcols_map_keep hL lf)).
        assert (PLcols : fcols (PLl ++ PLr) = lfc ++ filter (fun c => negb (mem c lfc)) (fcols rg)).
        { unfold fcols at 1. rewrite map_app. fold (fcols PLl). rewrite PLlc. f_equal.
          unfold PLr. rewrite map_map. simpl. apply (fcols_filter (fun c => negb (mem c lfc)) rg). }
        assert (RCols : filter (fun x => negb (mem x (map nr cs))) (fcols R0) = filter (fun c => negb (mem c lfc)) (fcols rg)).
        { rewrite CR. assert (Sub : forall n, In n (fcols rg) -> In n (fcols rg)) by tauto. revert Sub.
          generalize (fcols rg) at 1 3 4. intros l. induction l as [|n l IHl]; intros Sub; simpl; [reflexivity|].
          assert (Hn : In n (fcols rg)) by (apply Sub; left; reflexivity).
          assert (IH' := IHl (fun m Hm => Sub m (or_intror Hm))).
          destruct (mem n on) eqn:Mo; simpl.
          - assert (M : mem n lfc = true) by (apply mem_In, Hon, mem_In, Mo). rewrite M. simpl. exact IH'.
          - destruct (mem n lfc) eqn:Ml; simpl.
            + assert (Er : ren lfc n = nr n) by (unfold ren; rewrite Ml; reflexivity). rewrite Er.
              assert (M : mem (nr n) (map nr cs) = true).
              { apply mem_In, in_map. apply Hcs. split; [apply mem_In, Ml|]. split; [exact Hn|apply mem_false, Mo]. }
              rewrite M. simpl. exact IH'.
            + assert (Er : ren lfc n = n) by (unfold ren; rewrite Ml; reflexivity). rewrite Er.
              assert (M : mem n (map nr cs) = false) by (apply mem_false, NrOut, Urg, Hn). rewrite M. simpl. rewrite IH'. reflexivity. }
        assert (C' : fcols res' = lfc ++ filter (fun c => negb (mem c lfc)) (fcols rg)).
        { rewrite E2, CLR, filter_app, RCols. f_equal. apply filter_all. intros x Hx. apply negb_true_iff, mem_false, NrOut, Ulf, Hx. }
        apply frame_ext.
        + rewrite C', PLcols. reflexivity.
        + rewrite C'. apply NoDup_app_intro; [exact Nl|apply NoDup_filter, Nr|].
          intros x Hx H. apply filter_In in H. destruct H as [_ H]. apply negb_true_iff, mem_false in H. contradiction.
        + rewrite C'. intros x Hx.
          assert (Hxu : In x u) by (apply in_app_or in Hx; destruct Hx as [H|H]; [apply Ulf, H|apply filter_In in H; apply Urg; tauto]).
          rewrite (E3 x (NrOut x Hxu)).
          apply in_app_or in Hx. destruct Hx as [Hx|Hx].
          * (* a left column *)
            destruct (fget_In_Some lf x Hx) as [a Ea].
            assert (GL : fget (L0 ++ R0) x = Some (p_merge_left P how ka kb a)).
            { rewrite fget_app. unfold L0. rewrite (fget_map_keep (fun na => p_merge_left P how ka kb (snd na))), Ea. reflexivity. }
            rewrite (fget_app PLl PLr x). unfold PLl. rewrite (fget_map_keep hL lf x), Ea. unfold hL. simpl.
            destruct (mem x cs) eqn:Mc.
            -- apply mem_In, Hcs in Mc. destruct Mc as (_ & H2 & H3). destruct (fget_In_Some rg x H2) as [b Eb].
               assert (M : mem x on = false) by (apply mem_false, H3). rewrite M, Eb. simpl. rewrite GL.
               assert (GR : fget (L0 ++ R0) (nr x) = Some (p_merge_right P how ka kb b)).
               { rewrite fget_app_r by (rewrite CL; intros H; apply (Gr x (Com x Hx H2)), Ulf, H).
                 assert (Ex : nr x = ren lfc x) by (unfold ren; apply mem_In in Hx; rewrite Hx; reflexivity). rewrite Ex.
                 unfold R0. rewrite (fget_map_rename (ren lfc) (fun nb => p_merge_right P how ka kb (snd nb))).
                 - rewrite (fget_filter (fun c => negb (mem c on)) rg), M, Eb. reflexivity.
                 - intros k Hk. rewrite (fcols_filter (fun c => negb (mem c on)) rg) in Hk. apply filter_In in Hk. apply RenInj; [tauto|exact H2]. }
               rewrite GR. reflexivity.
            -- rewrite GL. f_equal.
               destruct (mem x on) eqn:Mo; simpl; [reflexivity|].
               destruct (fget rg x) as [b|] eqn:Eb; [|reflexivity].
               exfalso. apply mem_false in Mc. apply Mc, Hcs. split; [exact Hx|]. split; [apply (fget_Some_In rg x b Eb)|apply mem_false, Mo].
          * (* a right column that is not a left column *)
            apply filter_In in Hx. destruct Hx as [Hxr Hxl]. apply negb_true_iff in Hxl.
            assert (Nxl : ~ In x lfc) by (apply mem_false, Hxl).
            assert (Mc : mem x cs = false) by (apply mem_false; intros H; apply Hcs in H; tauto). rewrite Mc.
            rewrite fget_app_r by (rewrite CL; exact Nxl).
            rewrite (fget_app_r PLl PLr x) by (rewrite PLlc; exact Nxl). unfold PLr.
            assert (Ex : x = ren lfc x) by (unfold ren; rewrite Hxl; reflexivity). rewrite Ex at 1.
            unfold R0. rewrite (fget_map_rename (ren lfc) (fun nb => p_merge_right P how ka kb (snd nb))).
            -- rewrite (fget_filter (fun c => negb (mem c on)) rg).
               assert (Mo : mem x on = false) by (apply mem_false; intros H; apply Nxl, Hon, H). rewrite Mo. simpl.
               rewrite (fget_map_keep (fun nb => p_merge_right P how ka kb (snd nb))), (fget_filter (fun c => negb (mem c lfc)) rg), Hxl. reflexivity.
            -- intros k Hk. rewrite (fcols_filter (fun c => negb (mem c on)) rg) in Hk. apply filter_In in Hk. apply RenInj; [tauto|exact Hxr]. }
    (* scratch key columns: appended to both inputs and to the keys, deleted from the result *)
    assert (Scratch : forall (SK : list (string * (A * A))) ka kb,
               NoDup (map fst SK) ->
               (forall n, In n (map fst SK) -> ~ In n u /\ forall c, In c (filter (fun c => mem c (fcols rg)) lfc) -> nr c <> n) ->
               obind (pd_merge P (n_right sn) how (on ++ map fst SK) ka kb
                               (lf ++ map (fun x : string * (A * A) => (fst x, fst (snd x))) SK)
                               (rg ++ map (fun x : string * (A * A) => (fst x, snd (snd x))) SK))
                     (fun res => coalesce_common P sn (filter (fun c => mem c (fcols rg)) lfc) (fold_left fdel (map fst SK) res))
               = coalesce_common P sn (filter (fun c => mem c (fcols rg)) lfc)
                   (map (fun na : string * A => (fst na, p_merge_left P how ka kb (snd na))) lf
                    ++ map (fun nb : string * A => (ren lfc (fst nb), p_merge_right P how ka kb (snd nb))) (filter (fun nb => negb (mem (fst nb) on)) rg))).
    { intros SK ka kb NS HS. destruct (Shape ka kb) as [ND [CL CR]]. cbv zeta in ND, CL, CR.
      set (L0 := map (fun na : string * A => (fst na, p_merge_left P how ka kb (snd na))) lf) in *.
      set (R0 := map (fun nb : string * A => (ren lfc (fst nb), p_merge_right P how ka kb (snd nb))) (filter (fun nb => negb (mem (fst nb) on)) rg)) in *.
      set (names := map fst SK) in *.
      set (SKL := map (fun x : string * (A * A) => (fst x, p_merge_left P how ka kb (fst (snd x)))) SK).
      assert (NSrg : forall n, In n names -> ~ In n (fcols rg)) by (intros n Hn H; apply (proj1 (HS n Hn)), Urg, H).
      assert (NSlf : forall n, In n names -> ~ In n lfc) by (intros n Hn H; apply (proj1 (HS n Hn)), Ulf, H).
      assert (NSR0 : forall n, In n names -> ~ In n (fcols R0)).
      { intros n Hn H. rewrite CR in H. apply in_map_iff in H. destruct H as [k [E Hk]]. apply filter_In in Hk. destruct Hk as [Hk _]. unfold ren in E.
        destruct (mem k lfc) eqn:Mk; [exact (proj2 (HS n Hn) k (Com k (proj1 (mem_In k lfc) Mk) Hk) E)|]. subst k. exact (NSrg n Hn Hk). }
      assert (CS : fcols SKL = names) by (unfold SKL, names, fcols; rewrite map_map; reflexivity).
      unfold pd_merge.
      assert (Er : filter (fun nb : string * A => negb (mem (fst nb) (on ++ names))) (rg ++ map (fun x : string * (A * A) => (fst x, snd (snd x))) SK)
                   = filter (fun nb => negb (mem (fst nb) on)) rg).
      { rewrite filter_app.
        assert (E2 : filter (fun nb : string * A => negb (mem (fst nb) (on ++ names))) (map (fun x : string * (A * A) => (fst x, snd (snd x))) SK) = []).
        { clear -names. unfold names. induction SK as [|x t IHt]; simpl; [reflexivity|].
          assert (M : mem (fst x) (on ++ fst x :: map fst t) = true) by (apply mem_In, in_or_app; right; left; reflexivity).
          rewrite M. simpl.
          assert (E : forall nb : string * A, In nb (map (fun x0 : string * (A * A) => (fst x0, snd (snd x0))) t) -> negb (mem (fst nb) (on ++ fst x :: map fst t)) = false).
          { intros nb Hnb. apply in_map_iff in Hnb. destruct Hnb as [y [<- Hy]]. simpl. apply negb_false_iff, mem_In, in_or_app. right. right. apply in_map, Hy. }
          clear IHt. induction (map (fun x0 : string * (A * A) => (fst x0, snd (snd x0))) t) as [|z l IHl]; simpl; [reflexivity|].
          rewrite (E z (or_introl eq_refl)). apply IHl. intros nb Hnb. apply E. right. exact Hnb. }
        rewrite E2, app_nil_r. apply filter_ext_in. intros [k a] Hk. simpl. rewrite mem_app.
        assert (M : mem k names = false). { apply mem_false. intros H. apply (NSrg k H). unfold fcols. apply in_map_iff. exists (k, a). split; [reflexivity|exact Hk]. }
        rewrite M, orb_false_r. reflexivity. }
      rewrite Er.
      assert (Eo : map (fun na : string * A => (fst na, p_merge_left P how ka kb (snd na))) (lf ++ map (fun x : string * (A * A) => (fst x, fst (snd x))) SK)
                   ++ map (fun nb : string * A => ((if mem (fst nb) (fcols (lf ++ map (fun x : string * (A * A) => (fst x, fst (snd x))) SK)) then n_right sn (fst nb) else fst nb),
                                                  p_merge_right P how ka kb (snd nb)))
                          (filter (fun nb => negb (mem (fst nb) on)) rg)
                   = (L0 ++ SKL) ++ R0).
      { rewrite map_app. f_equal; [f_equal; unfold SKL; rewrite map_map; reflexivity|].
        unfold R0. apply map_ext_in. intros [k a] Hk. simpl. f_equal. apply filter_In in Hk. destruct Hk as [Hk _].
        unfold fcols. rewrite map_app, mem_app, map_map. simpl.
        change (map (fun x : string * (A * A) => fst x) SK) with names.
        assert (M : mem k names = false). { apply mem_false. intros H. apply (NSrg k H). unfold fcols. apply in_map_iff. exists (k, a). split; [reflexivity|exact Hk]. }
        rewrite M, orb_false_r. reflexivity. }
      rewrite Eo.
      assert (NDo : nodupb (fcols ((L0 ++ SKL) ++ R0)) = true).
      { apply nodupb_NoDup. unfold fcols. rewrite !map_app. fold (fcols L0). fold (fcols SKL). fold (fcols R0). rewrite <- app_assoc, CS.
        apply NoDup_insert_list; [unfold fcols in ND; rewrite map_app in ND; exact ND|exact NS|].
        intros n Hn. rewrite in_app_iff, CL. intros [H|H]; [exact (NSlf n Hn H)|exact (NSR0 n Hn H)]. }
      rewrite NDo. simpl. f_equal.
      rewrite fold_fdel_app_r by exact NSR0. f_equal. rewrite <- CS. apply fold_fdel_appended.
      - rewrite CS. exact NS.
      - intros n Hn. rewrite CS in Hn. rewrite CL. exact (NSlf n Hn). }
    assert (Fabs : forall (F : frame A) n a, ~ In n (fcols F) -> fset F n a = F ++ [(n, a)]) by (intros F n a H; apply fset_absent, H).
    assert (Mlf : ~ In (n_merge sn) (fcols lf)) by (intros H; apply Gm, Ulf, H).
    assert (Mrg : ~ In (n_merge sn) (fcols rg)) by (intros H; apply Gm, Urg, H).
    assert (Klf : ~ In (n_nullkey sn) (fcols lf)) by (intros H; apply Gnk, Ulf, H).
    assert (Krg : ~ In (n_nullkey sn) (fcols rg)) by (intros H; apply Gnk, Urg, H).
    assert (ReadOwn : forall (F T : frame A) cs, (forall c, In c cs -> ~ In c (fcols T)) -> freads (F ++ T) cs = freads F cs).
    { intros F T cs H. apply freads_ext. intros c Hc. apply fget_app_absent, H, Hc. }
    assert (ReadNew : forall (F T : frame A), NoDup (fcols T) -> (forall c, In c (fcols T) -> ~ In c (fcols F)) -> freads (F ++ T) (fcols T) = Some (map snd T)).
    { intros F T N H. rewrite <- (freads_own T N). apply freads_ext. intros c Hc. apply fget_app_r, H, Hc. }
    unfold pexec_join, plain_join. fold one. fold lfc.
    destruct on as [|o1 os].
    - (* no key *)
      cbn iota beta. rewrite (Fabs lf _ one Mlf), (Fabs rg _ one Mrg).
      assert (K1 : forall F : frame A, ~ In (n_merge sn) (fcols F) -> freads (F ++ [(n_merge sn, one)]) [n_merge sn] = Some [one]).
      { intros F NF. apply (ReadNew F [(n_merge sn, one)]); [repeat constructor; simpl; tauto|]. intros c [<-|[]]. exact NF. }
      rewrite (K1 lf Mlf), (K1 rg Mrg). cbn [obind].
      destruct nullkeys; cbn iota beta.
      + (* ... and null markers: two scratch keys *)
        assert (N2 : forall F : frame A, ~ In (n_merge sn) (fcols F) -> ~ In (n_nullkey sn) (fcols F) -> ~ In (n_nullkey sn) (fcols (F ++ [(n_merge sn, one)]))).
        { intros F H1 H2. unfold fcols. rewrite map_app, in_app_iff. simpl. intros [H|[H|[]]]; [exact (H2 H)|exact (Gmnk H)]. }
        rewrite (Fabs _ _ (p_nullmark_left P [one]) (N2 lf Mlf Klf)), (Fabs _ _ (p_nullmark_right P [one]) (N2 rg Mrg Krg)).
        rewrite <- !app_assoc. cbn [app].
        set (SK := [(n_merge sn, (one, one)); (n_nullkey sn, (p_nullmark_left P [one], p_nullmark_right P [one]))]).
        assert (NS : NoDup (map fst SK)) by (simpl; constructor; [simpl; intros [H|[]]; exact (Gmnk (eq_sym H))|repeat constructor; simpl; tauto]).
        assert (HS : forall n, In n (map fst SK) -> ~ In n u /\ forall c, In c (filter (fun c => mem c (fcols rg)) lfc) -> nr c <> n).
        { intros n [<-|[<-|[]]]; split; auto. }
        assert (Ra : freads (lf ++ [(n_merge sn, one); (n_nullkey sn, p_nullmark_left P [one])]) [n_merge sn; n_nullkey sn] = Some [one; p_nullmark_left P [one]]).
        { apply (ReadNew lf [(n_merge sn, one); (n_nullkey sn, p_nullmark_left P [one])]); [exact NS|]. intros c [<-|[<-|[]]]; assumption. }
        assert (Rb : freads (rg ++ [(n_merge sn, one); (n_nullkey sn, p_nullmark_right P [one])]) [n_merge sn; n_nullkey sn] = Some [one; p_nullmark_right P [one]]).
        { apply (ReadNew rg [(n_merge sn, one); (n_nullkey sn, p_nullmark_right P [one])]); [exact NS|]. intros c [<-|[<-|[]]]; assumption. }
        rewrite Ra, Rb. cbn [obind].
        pose proof (Scratch SK [one; p_nullmark_left P [one]] [one; p_nullmark_right P [one]] NS HS) as SC. cbn [SK map fst snd app] in SC.
        rewrite SC. exact (Core [one; p_nullmark_left P [one]] [one; p_nullmark_right P [one]] (fun c (H : In c []) => match H with end)).
      + set (SK := [(n_merge sn, (one, one))]).
        assert (NS : NoDup (map fst SK)) by (simpl; repeat constructor; simpl; tauto).
        assert (HS : forall n, In n (map fst SK) -> ~ In n u /\ forall c, In c (filter (fun c => mem c (fcols rg)) lfc) -> nr c <> n).
        { intros n [<-|[]]; split; auto. }
        rewrite (K1 lf Mlf), (K1 rg Mrg). cbn [obind].
        pose proof (Scratch SK [one] [one] NS HS) as SC. cbn [SK map fst snd app] in SC.
        rewrite SC. exact (Core [one] [one] (fun c (H : In c []) => match H with end)).
    - (* keys *)
      cbn iota beta.
      destruct (freads lf (o1 :: os)) as [ka1|] eqn:Ka; cbn [obind]; [|reflexivity].
      destruct (freads rg (o1 :: os)) as [kb1|] eqn:Kb; cbn [obind]; [|reflexivity].
      assert (Hon : forall c, In c (o1 :: os) -> In c lfc) by (apply (freads_In lf (o1 :: os) ka1 Ka)).
      assert (Uon : forall c, In c (o1 :: os) -> In c u) by (intros c Hc; apply Ulf, Hon, Hc).
      destruct nullkeys; cbn iota beta.
      + rewrite (Fabs lf _ (p_nullmark_left P ka1) Klf), (Fabs rg _ (p_nullmark_right P kb1) Krg).
        set (SK := [(n_nullkey sn, (p_nullmark_left P ka1, p_nullmark_right P kb1))]).
        assert (NS : NoDup (map fst SK)) by (simpl; repeat constructor; simpl; tauto).
        assert (HS : forall n, In n (map fst SK) -> ~ In n u /\ forall c, In c (filter (fun c => mem c (fcols rg)) lfc) -> nr c <> n).
        { intros n [<-|[]]; split; auto. }
        assert (Ra : freads (lf ++ [(n_nullkey sn, p_nullmark_left P ka1)]) ((o1 :: os) ++ [n_nullkey sn]) = Some (ka1 ++ [p_nullmark_left P ka1])).
        { rewrite freads_app, ReadOwn, Ka by (intros c Hc [<-|[]]; exact (Gnk (Uon _ Hc))).
          assert (RN : freads (lf ++ [(n_nullkey sn, p_nullmark_left P ka1)]) [n_nullkey sn] = Some [p_nullmark_left P ka1]).
          { apply (ReadNew lf [(n_nullkey sn, p_nullmark_left P ka1)]); [repeat constructor; simpl; tauto|intros c [<-|[]]; exact Klf]. }
          rewrite RN. reflexivity. }
        assert (Rb : freads (rg ++ [(n_nullkey sn, p_nullmark_right P kb1)]) ((o1 :: os) ++ [n_nullkey sn]) = Some (kb1 ++ [p_nullmark_right P kb1])).
        { rewrite freads_app, ReadOwn, Kb by (intros c Hc [<-|[]]; exact (Gnk (Uon _ Hc))).
          assert (RN : freads (rg ++ [(n_nullkey sn, p_nullmark_right P kb1)]) [n_nullkey sn] = Some [p_nullmark_right P kb1]).
          { apply (ReadNew rg [(n_nullkey sn, p_nullmark_right P kb1)]); [repeat constructor; simpl; tauto|intros c [<-|[]]; exact Krg]. }
          rewrite RN. reflexivity. }
        rewrite Ra, Rb. cbn [obind].
        pose proof (Scratch SK (ka1 ++ [p_nullmark_left P ka1]) (kb1 ++ [p_nullmark_right P kb1]) NS HS) as SC. cbn [SK map fst snd] in SC.
        change (@nil string ++ [n_nullkey sn]) with [n_nullkey sn].
        rewrite SC. exact (Core _ _ Hon).
      + rewrite Ka, Kb. cbn [obind].
        pose proof (Scratch [] ka1 kb1 (NoDup_nil _) (fun n (H : In n []) => match H with end)) as SC. cbn [map fst snd fold_left] in SC.
        rewrite !app_nil_r in SC. cbn [fold_left]. rewrite SC. exact (Core _ _ Hon).
  Qed.
End Join.
