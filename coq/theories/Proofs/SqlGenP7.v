(* SQLGEN, part 7: compiler correctness for stage (i), by induction over the generator's fuel: table descriptions, select_rows,
   select_columns, drop_columns, rename_columns, map_columns, un-windowed extend (SQL-level merging off), order_rows, concat_rows. *)
From Coq Require Import List Bool Arith ZArith QArith String Lia.
Import ListNotations.
From DA Require Import Base.PyRT Base.Val Model.Sem Proofs.SemBasicP Model.ColumnsUsed Proofs.ColumnsUsedP1 Proofs.ColumnsUsedP2
  Proofs.ColumnsUsedP3 Proofs.ColumnsUsedP4 Proofs.ComposeP Model.SqlGen Model.SqlSem Proofs.SqlGenP1 Proofs.SqlGenP2 Proofs.SqlGenP3
  Proofs.SqlGenP4 Proofs.SqlGenP5 Proofs.SqlGenP6 Proofs.SqlGenP10 Proofs.SqlGenP11 Proofs.SqlGenP12 Proofs.SqlGenP13 Proofs.SqlGenP14 Proofs.SqlGenP15 Proofs.SqlGenP16 Proofs.SqlGenP17 Proofs.SqlGenP18 Proofs.SqlGenP19.
Local Open Scope list_scope.

Definition req (p : op) (usg : option (list string)) : list string :=
  match usg with Some u => u | None => column_names p end.

Lemma wf_env_unary e p s : table_descrs p = table_descrs s -> wf_env e p -> wf_env e s.
Proof. intros E W n cs I. apply W. rewrite E. exact I. Qed.
Lemma wf_env_left e p a b : table_descrs p = table_descrs a ++ table_descrs b -> wf_env e p -> wf_env e a.
Proof. intros E W n cs I. apply W. rewrite E. apply in_app_iff. left. exact I. Qed.
Lemma wf_env_right e p a b : table_descrs p = table_descrs a ++ table_descrs b -> wf_env e p -> wf_env e b.
Proof. intros E W n cs I. apply W. rewrite E. apply in_app_iff. right. exact I. Qed.

Lemma filter_all {A} (f : A -> bool) l : (forall x, In x l -> f x = true) -> filter f l = l.
Proof. induction l as [|a t IH]; intros H; simpl; [reflexivity|]. rewrite (H a (or_introl eq_refl)). f_equal. apply IH. intros x I. apply H. right. exact I. Qed.

Lemma builder_extend_const_cases a c v : concat_src_ok a = true ->
  builder_extend_const a c v = OExtend a [(c, EConst v)] false no_window \/
  exists s0 ops0, a = OExtend s0 ops0 false no_window /\ builder_extend_const a c v = OExtend s0 (ops0 ++ [(c, EConst v)]) false no_window.
Proof.
  destruct a as [n cs|s ops wd w|s ops gb|s x|s cs|s ds|s m|s m dels|s cs rev lim|a1 b1 on_a on_b jt|a1 b1 idc an bn]; simpl; intros H; try (left; reflexivity).
  - destruct wd; [left; reflexivity|]. destruct w as [[|p1 pt] [|o1 ot] [|r1 rt]]; try (left; reflexivity). right. exists s, ops. split; reflexivity.
  - destruct lim; [left; reflexivity|discriminate].
Qed.

Lemma NoDup_nodupb l : NoDup l -> nodupb l = true.
Proof. induction 1 as [|x t Nx _ IH]; simpl; [reflexivity|]. rewrite IH, andb_true_r. apply negb_true_iff, mem_false, Nx. Qed.
Lemma disjointb_nil_r (l : list string) : disjointb l [] = true.
Proof. unfold disjointb. induction l; simpl; auto. Qed.

Lemma bok_extend_app_const s0 ops0 c v :
  builder_ok (OExtend s0 ops0 false no_window) = true -> ~ In c (map fst ops0) ->
  builder_ok (OExtend s0 (ops0 ++ [(c, EConst v)]) false no_window) = true.
Proof.
  intros BO Nc. destruct (bok_extend_full _ _ _ _ BO) as [BOs [Ic Nk]].
  cbn [builder_ok w_part w_order w_rev no_window]. rewrite BOs. cbn [nodupb subset forallb app andb].
  assert (subset (ops_cols (ops0 ++ [(c, EConst v)])) (column_names s0) = true) as E1.
  { apply subset_spec. intros x Hx. apply Ic. unfold ops_cols in *. rewrite flat_map_app in Hx. simpl in Hx. rewrite app_nil_r in Hx. exact Hx. }
  assert (nodupb (map fst (ops0 ++ [(c, EConst v)])) = true) as E2.
  { apply NoDup_nodupb. rewrite map_app. simpl. apply NoDup_snoc; assumption. }
  rewrite E1, E2, disjointb_nil_r. reflexivity.
Qed.

Section Main.
Variable fl : flavor.
Variable e : env.

Theorem gen_stage1 : forall fuel d p usg n q n',
  builder_ok p = true -> stage1 (d_allow_extend_merges d) (join_covered d fl) p = true -> wf_env e p ->
  NoDup (req p usg) -> incl (req p usg) (column_names p) ->
  to_near_f fuel d p usg n = Ok (q, n') ->
  exists T, sem_gen fl p e = Some T /\ Delivers fl e q (req p usg) T /\ (d_allow_extend_merges d = true -> MergeInvN q).
Proof.
  induction fuel as [|fuel IH]; intros d p usg n q n' BO St WF Nu Iu H; [discriminate|].
  set (u := req p usg) in *.
  destruct p as [name cs|s ops wd w|s ops gb|s x|s cs|s ds|s m|s m dels|s cs rev lim|a b on_a on_b jt|a b idc an bn];
    cbn [to_near_f] in H; try discriminate St.
  - (* table *)
    change (match usg with Some u0 => u0 | None => column_names (OTable name cs) end) with u in H.
    destruct (subset u cs) eqn:Sb; cbn [negb] in H; [|discriminate].
    destruct (WF name cs (or_introl eq_refl)) as [st [G WT]].
    simpl in BO. apply andb_true_iff in BO. destruct BO as [_ Ncs]. apply nodupb_NoDup in Ncs.
    exists st. split; [simpl; rewrite G; f_equal; apply sel_id_table; assumption|].
    destruct (negb (is_nil u) && negb (set_eqb u cs)) eqn:C; injection H as <- _.
    + split; [|intros _; apply merge_invN_not_mergeable]. apply delivers_table_reference with (cs := cs); try assumption. destruct u; [discriminate|discriminate].
    + split; [|intros _; apply merge_invN_table]. apply (delivers_table fl e name cs st u (filter (fun c => mem c u) cs) G WT Ncs).
      * intros c Hc. apply filter_In. split; [apply Iu, Hc|apply mem_In, Hc].
      * intros c Hc. apply filter_In in Hc. tauto.
      * apply NoDup_filter, Ncs.
  - (* extend *)
    simpl in St. apply andb_true_iff in St. destruct St as [Sts Wd]. destruct wd.
    { (* windowed: covered when the dialect does not merge at SQL level *)
      destruct (bok_extend_full _ _ _ _ BO) as [BOs [Ic Nk]]. destruct (bok_extend _ _ _ _ BO) as [_ Dk].
      unfold gen_extend in H.
      change (match usg with Some u0 => u0 | None => column_names (OExtend s ops true w) end) with u in H.
      destruct (sub_ops u ops) as [|so0 sor] eqn:ESub.
      - assert (forall k, In k u -> ~ In k (map fst ops)) as Hno.
        { intros k Ik I. apply in_map_iff in I. destruct I as [ke [Ek Ike]]. pose proof (in_sub_ops u ops ke Ike) as X. rewrite Ek in X. specialize (X Ik). rewrite ESub in X. destruct X. }
        assert (incl u (column_names s)) as Ius.
        { intros k Ik. specialize (Iu k Ik). simpl in Iu. apply in_ext_cols in Iu. destruct Iu as [X|X]; [exact X|destruct (Hno k Ik X)]. }
        destruct (IH d s (Some u) n q n' BOs Sts (wf_env_unary e _ s eq_refl WF) Nu Ius H) as [S [ES [D MI]]].
        exists (sem_wextend fl ops w S). split; [simpl; rewrite ES; reflexivity|]. cbn [req] in D.
        split; [|exact MI]. apply (delivers_transfer fl e q u S); [exact D| | |].
        + rewrite <- (sel_wextend_unused fl ops w S [] (sem_rows_width fl s e S ES)); [reflexivity|intros k []].
        + intros K IK. apply sel_wextend_unused; [exact (sem_rows_width fl s e S ES)|]. intros k Ik. apply Hno, IK, Ik.
        + simpl. intros k Ik. apply in_ext_cols. left. rewrite (sem_cols fl s e S ES). apply Ius, Ik.
      - assert (sub_ops u ops <> []) as NSub by (rewrite ESub; discriminate).
        rewrite <- ESub in H.
        set (u1 := set_union (set_union (set_union u (w_part w)) (w_order w)) (w_rev w)) in *.
        assert (forall c, In c u1 <-> In c u \/ In c (w_part w ++ w_order w ++ w_rev w)) as Hu1.
        { intros c. unfold u1. rewrite !In_set_union, !in_app_iff. tauto. }
        assert (NoDup u1) as Nu1 by (unfold u1; apply NoDup_set_union, NoDup_set_union, NoDup_set_union, Nu).
        assert (incl u1 (column_names (OExtend s ops true w))) as Iu1.
        { intros c Hc. apply Hu1 in Hc. destruct Hc as [Hc|Hc]; [apply Iu, Hc|]. simpl. apply in_ext_cols. left.
          pose proof BO as BO'. simpl in BO'. rewrite !andb_true_iff in BO'. destruct BO' as [[[[_ B1] B2] B3] _].
          apply in_app_iff in Hc. destruct Hc as [Hc|Hc]; [exact (proj1 (subset_spec _ _) B1 c Hc)|].
          apply in_app_iff in Hc. destruct Hc as [Hc|Hc]; [exact (proj1 (subset_spec _ _) B2 c Hc)|].
          exact (proj1 (subset_spec _ _) B2 c (proj1 (subset_spec _ _) B3 c Hc)). }
        assert (sub_ops u1 ops = sub_ops u ops) as ESO.
        { unfold u1. rewrite !sub_ops_more; [reflexivity| | |]; intros k Ik I; apply (Dk k Ik); apply in_app_iff; [left|right; apply in_app_iff; left|right; apply in_app_iff; right]; exact I. }
        clearbody u1.
        assert (is_nil u1 = false) as NU1.
        { destruct u1 as [|x t] eqn:E1; [|reflexivity]. exfalso. apply NSub. unfold sub_ops. destruct (filter _ ops) as [|ke t] eqn:EF; [reflexivity|].
          assert (In ke (filter (fun ke0 => mem (fst ke0) u) ops)) as I by (rewrite EF; left; reflexivity). apply filter_In in I. destruct I as [_ I]. apply mem_In in I.
          destruct (proj2 (Hu1 (fst ke)) (or_introl I)). }
        rewrite NU1 in H.
        assert (subset u1 (column_names (OExtend s ops true w)) = true) as Sb by (apply subset_spec; exact Iu1).
        rewrite Sb in H. cbn [negb] in H. unfold bind in H.
        set (su := cfs1 (OExtend s ops true w) u1) in *.
        destruct (to_near_f fuel d s (Some su) n) as [[sub n1]| |] eqn:ER; try discriminate.
        assert (NoDup su /\ incl su (column_names s)) as [Nsu Isu].
        { pose proof (builder_ok_nodup s BOs) as Ns. unfold su, cfs1. simpl. destruct (sub_ops u1 ops); [split; [exact Ns|apply incl_refl]|].
          split; [apply NoDup_filter, Ns|intros c Hc; apply filter_In in Hc; tauto]. }
        destruct (IH d s (Some su) n sub n1 BOs Sts (wf_env_unary e _ s eq_refl WF) Nsu Isu ER) as [S [ES [D MI]]]. cbn [req] in D.
        exists (sem_wextend fl ops w S). split; [simpl; rewrite ES; reflexivity|].
        assert (sub_ops u1 ops <> []) as NSub1 by (rewrite ESO; exact NSub).
        assert (u <> []) as NEU.
        { intros X. apply NSub1. rewrite ESO, X. clear. unfold sub_ops. induction ops as [|a0 t IHo]; simpl; [reflexivity|exact IHo]. }
        rewrite <- ESO in H.
        set (so := sub_ops u1 ops) in *. set (oc := filter (fun k => negb (mem k (map fst so))) u1) in *.
        assert (forall nm0 dp0, Delivers fl e (TUnary nm0 (norm (win_terms oc so w)) sub (mk_tci (Some su) false None) SfxNone true dp0) u (sem_wextend fl ops w S)) as FreshD.
        { intros nm0 dp0. exact (node_wextend fl e s ops w sub u u1 S nm0 dp0 BO ES Nu Nu1 (fun c Hc => proj2 (Hu1 c) (or_introl Hc)) Iu1 NSub1
                                  (fun c Hc => proj2 (Hu1 c) (or_intror Hc)) D). }
        assert (merge_okN (win_terms oc so w) (win_deps oc so w)) as MOKw.
        { apply extend_deps_okN_win; [apply NoDup_filter, Nu1|apply NoDup_map_fst_filter, Nk| |exact NSub1].
          intros k Hk. unfold oc in Hk. apply filter_In in Hk. destruct Hk as [_ Hk]. apply negb_true_iff, mem_false in Hk. exact Hk. }
        assert (norm (win_terms oc so w) = Some (win_terms oc so w)) as ENw by (destruct MOKw as [NL _]; destruct (win_terms oc so w); [congruence|reflexivity]).
        assert (MergeInvN (TUnary (mkvn "extend" n1) (norm (win_terms oc so w)) sub (mk_tci (Some su) false None) SfxNone true (Some (win_deps oc so w)))) as FreshM.
        { intros n0' ts0 s00 ci0 sfx0 dp0 Eq. injection Eq as _ E2 _ _ E5 E6. subst sfx0 dp0. split; [reflexivity|].
          exists (win_terms oc so w). split; [rewrite <- E2; exact ENw|exact MOKw]. }
        destruct (d_allow_extend_merges d) eqn:HMd.
        + destruct (try_sql_merge sub _ _) as [[m0| |]|] eqn:EM; try discriminate; injection H as <- _; [|split; [exact (FreshD _ _)|intros _; exact FreshM]].
          destruct (try_sql_merge_inv _ _ _ _ EM) as [n0 [ts [s00 [ci0 [ds [Esub [Hcont Em]]]]]]]. subst sub m0.
          destruct (MI eq_refl n0 (Some ts) s00 ci0 SfxNone ds eq_refl) as [_ [l0 [El MOKs]]]. injection El as <-.
          destruct (merged_wextend_N fl e s ops w n0 ts s00 ci0 ds u u1 S BO ES Nu Nu1 (fun c Hc => proj2 (Hu1 c) (or_introl Hc)) Iu1 NSub1
                      (fun c Hc => proj2 (Hu1 c) (or_intror Hc)) NEU Nsu D MOKs Hcont) as [DM MOKm].
          split; [exact DM|]. intros _ n1' ts1 s1' ci1 sfx1 dp1 Eq. injection Eq as _ E2 _ _ E5 E6. subst sfx1 dp1. split; [reflexivity|].
          eexists. split; [symmetry; exact E2|exact MOKm].
        + injection H as <- _. split; [exact (FreshD _ _)|intros HM; discriminate]. }
    apply window_empty_is in Wd. subst w.
    destruct (bok_extend_full _ _ _ _ BO) as [BOs [Ic Nk]].
    unfold gen_extend in H.
    change (match usg with Some u0 => u0 | None => column_names (OExtend s ops false no_window) end) with u in H.
    destruct (sub_ops u ops) as [|so0 sor] eqn:ESub.
    + (* no output requested: the source's query is passed on *)
      assert (forall k, In k u -> ~ In k (map fst ops)) as Hno.
      { intros k Ik I. apply in_map_iff in I. destruct I as [ke [Ek Ike]]. pose proof (in_sub_ops u ops ke Ike) as X. rewrite Ek in X. specialize (X Ik). rewrite ESub in X. destruct X. }
      assert (incl u (column_names s)) as Ius.
      { intros k Ik. specialize (Iu k Ik). simpl in Iu. apply in_ext_cols in Iu. destruct Iu as [X|X]; [exact X|destruct (Hno k Ik X)]. }
      destruct (IH d s (Some u) n q n' BOs Sts (wf_env_unary e _ s eq_refl WF) Nu Ius H) as [S [ES [D MI]]].
      exists (sem_extend fl ops S). split; [simpl; rewrite ES; reflexivity|]. cbn [req] in D.
      split; [|exact MI]. apply (delivers_transfer fl e q u S); [exact D| | |].
      * rewrite <- (sel_extend_unused fl ops S [] (sem_rows_width fl s e S ES)); [reflexivity|intros k []].
      * intros K IK. apply sel_extend_unused; [exact (sem_rows_width fl s e S ES)|]. intros k Ik. apply Hno, IK, Ik.
      * simpl. intros k Ik. apply in_ext_cols. left. rewrite (sem_cols fl s e S ES). apply Ius, Ik.
    + assert (sub_ops u ops <> []) as NSub by (rewrite ESub; discriminate).
      assert (is_nil u = false) as NU.
      { destruct u as [|u0 u']; [|reflexivity]. exfalso. apply NSub. unfold sub_ops. clear. induction ops as [|a0 t IHo]; simpl; [reflexivity|exact IHo]. }
      rewrite <- ESub in H. cbn [w_part w_order w_rev no_window] in H. rewrite !set_union_nil in H.
      rewrite NU in H.
      assert (subset u (column_names (OExtend s ops false no_window)) = true) as Sb by (apply subset_spec; exact Iu).
      rewrite Sb in H. cbn [negb] in H. unfold bind in H.
      set (su := cfs1 (OExtend s ops false no_window) u) in *.
      destruct (to_near_f fuel d s (Some su) n) as [[sub n1]| |] eqn:ER; try discriminate.
      assert (NoDup su /\ incl su (column_names s)) as [Nsu Isu].
      { pose proof (builder_ok_nodup s BOs) as Ns. unfold su, cfs1. simpl. destruct (sub_ops u ops); [split; [exact Ns|apply incl_refl]|].
        split; [apply NoDup_filter, Ns|intros c Hc; apply filter_In in Hc; tauto]. }
      destruct (IH d s (Some su) n sub n1 BOs Sts (wf_env_unary e _ s eq_refl WF) Nsu Isu ER) as [S [ES [D MI]]]. cbn [req] in D.
      exists (sem_extend fl ops S). split; [simpl; rewrite ES; reflexivity|].
      set (subops := sub_ops u ops) in *. set (origcols := filter (fun k => negb (mem k (map fst subops))) u) in *.
      assert (merge_ok (pass_terms origcols ++ map (fun ke => (fst ke, TmExpr (snd ke))) subops)
                       (map (fun k => (k, [k])) origcols ++ map (fun ke => (fst ke, set_union (py_set (cols_used (snd ke))) [])) subops)) as MOK.
      { apply extend_deps_ok; [apply NoDup_filter, Nu|apply NoDup_map_fst_filter, Nk| |exact NSub].
        intros k Hk. unfold origcols in Hk. apply filter_In in Hk. destruct Hk as [_ Hk]. apply negb_true_iff, mem_false in Hk. exact Hk. }
      assert (forall nm0, Delivers fl e (TUnary nm0 (norm (pass_terms origcols ++ map (fun ke => (fst ke, TmExpr (snd ke))) subops)) sub
                                          (mk_tci (Some su) false None) SfxNone true
                                          (Some (map (fun k => (k, [k])) origcols ++ map (fun ke => (fst ke, set_union (py_set (cols_used (snd ke))) [])) subops)))
                                   u (sem_extend fl ops S)
                          /\ MergeInvN (TUnary nm0 (norm (pass_terms origcols ++ map (fun ke => (fst ke, TmExpr (snd ke))) subops)) sub
                                          (mk_tci (Some su) false None) SfxNone true
                                          (Some (map (fun k => (k, [k])) origcols ++ map (fun ke => (fst ke, set_union (py_set (cols_used (snd ke))) [])) subops)))) as Fresh.
      { intros nm0. split; [exact (node_extend fl e s ops sub u S nm0 _ BO ES Nu Iu NSub D)|].
        intros n0 ts0 s00 ci0 sfx0 dp0 Eq. injection Eq as _ E2 _ _ E5 E6. subst sfx0 dp0. split; [reflexivity|].
        exists (pass_terms origcols ++ map (fun ke => (fst ke, TmExpr (snd ke))) subops). split; [|exact (merge_ok_weaken _ _ MOK)].
        rewrite <- E2. destruct MOK as [NL _]. destruct (pass_terms origcols ++ _); [congruence|reflexivity]. }
      destruct (d_allow_extend_merges d) eqn:HMd.
      * destruct (try_sql_merge sub _ _) as [[m| |]|] eqn:EM; try discriminate; injection H as <- _; [|split; [exact (proj1 (Fresh _))|intros _; exact (proj2 (Fresh _))]].
        destruct (try_sql_merge_inv _ _ _ _ EM) as [n0 [ts [s00 [ci0 [ds [Esub [Hcont Em]]]]]]]. subst sub m.
        destruct (MI eq_refl n0 (Some ts) s00 ci0 SfxNone ds eq_refl) as [_ [l0 [El MOKs]]]. injection El as <-.
        assert (u <> []) as NEU by (intros X; rewrite X in NU; discriminate NU).
        destruct (merged_extend_N fl e s ops n0 ts s00 ci0 ds u S BO ES Nu Iu NSub NEU D MOKs Hcont) as [DM MOKm].
        split; [exact DM|]. intros _ n1' ts1 s1' ci1 sfx1 dp1 Eq. injection Eq as _ E2 _ _ E5 E6. subst sfx1 dp1. split; [reflexivity|].
        eexists. split; [symmetry; exact E2|exact MOKm].
      * injection H as <- _. split; [exact (proj1 (Fresh _))|intros HM; discriminate].
  - (* project *)
    simpl in St. apply andb_true_iff in St. destruct St as [Sts NE0].
    destruct (bok_project _ _ _ BO) as [BOs Nall].
    change (match usg with Some u0 => u0 | None => column_names (OProject s ops gb) end) with u in H. unfold bind in H.
    set (guard := is_nil gb && negb (is_nil ops) && negb (existsb (fun k => mem k u) (map fst ops))) in *.
    set (u1 := if guard then u ++ firstn 1 (map fst ops) else u) in *.
    set (su := py_set (cfs1 (OProject s ops gb) u1)) in *.
    destruct (to_near_f fuel d s (Some su) n) as [[sub n1]| |] eqn:ER; try discriminate. injection H as <- _.
    assert (incl (gb ++ ops_cols ops) (column_names s)) as Icols.
    { pose proof BO as BO'. simpl in BO'. rewrite !andb_true_iff in BO'. destruct BO' as [[_ B] _]. exact (proj1 (subset_spec _ _) B). }
    assert (incl u u1) as Iuu1 by (unfold u1; destruct guard; [intros c Hc; apply in_app_iff; left; exact Hc|apply incl_refl]).
    assert (incl u1 (column_names (OProject s ops gb))) as Iu1.
    { unfold u1. destruct guard; [|exact Iu]. intros c Hc. apply in_app_iff in Hc. destruct Hc as [Hc|Hc]; [apply Iu, Hc|].
      simpl. apply in_app_iff. right. destruct (map fst ops) as [|k0 t]; [destruct Hc|]. simpl in Hc. destruct Hc as [<-|[]]. left. reflexivity. }
    assert (gb = [] -> sub_ops u1 ops <> []) as Hsub.
    { intros ->. destruct ops as [|[k0 e0] ops']; [simpl in NE0; discriminate|]. unfold u1, guard. cbn [is_nil negb andb map fst].
      destruct (existsb (fun k => mem k u) (k0 :: map fst ops')) eqn:EX; cbn [negb].
      - apply existsb_exists in EX. destruct EX as [k [Ik Mk]]. apply mem_In in Mk. change (k0 :: map fst ops') with (map fst ((k0, e0) :: ops')) in Ik. apply in_map_iff in Ik. destruct Ik as [ke [Ek Ike]].
        intros X. pose proof (in_sub_ops u ((k0, e0) :: ops') ke Ike) as I. rewrite Ek in I. specialize (I Mk). rewrite X in I. destruct I.
      - cbn [firstn]. intros X. pose proof (in_sub_ops (u ++ [k0]) ((k0, e0) :: ops') (k0, e0) (or_introl eq_refl)) as I.
        cbn [fst] in I. specialize (I ltac:(apply in_app_iff; right; left; reflexivity)). rewrite X in I. destruct I. }
    assert (NoDup su /\ incl su (column_names s)) as [Nsu Isu].
    { split; [apply NoDup_py_set|]. intros c Hc. unfold su in Hc. apply (proj1 (In_py_set _ _)) in Hc. unfold cfs1 in Hc. cbn [cols_from_sources nth] in Hc.
      apply Icols. apply in_app_iff in Hc. apply in_app_iff. destruct Hc as [Hc|Hc]; [left; exact Hc|right].
      unfold ops_cols in *. apply in_flat_map in Hc. destruct Hc as [ke [I1 I2]]. apply in_flat_map. exists ke. split; [|exact I2]. apply filter_In in I1. tauto. }
    destruct (IH d s (Some su) n sub n1 BOs Sts (wf_env_unary e _ s eq_refl WF) Nsu Isu ER) as [S [ES [D MI]]]. cbn [req] in D.
    exists (sem_project fl ops gb S). split; [simpl; rewrite ES; reflexivity|].
    split; [apply (node_project fl e s ops gb sub u u1 S _ BO NE0 ES Nu Iuu1 Iu1 Hsub D)|intros _; apply merge_invN_not_mergeable].
  - (* select_rows *)
    simpl in St. pose proof (bok_select_rows _ _ BO) as BOs.
    change (match usg with Some u0 => u0 | None => column_names (OSelectRows s x) end) with u in H. unfold bind in H.
    set (su := cfs1 (OSelectRows s x) u) in *.
    destruct (to_near_f fuel d s (Some su) n) as [[sub n1]| |] eqn:ER; try discriminate. injection H as <- _.
    assert (incl (cols_used x) (column_names s)) as Ix.
    { simpl in BO. apply andb_true_iff in BO. destruct BO as [_ B]. exact (proj1 (subset_spec _ _) B). }
    assert (NoDup su /\ incl su (column_names s)) as [Nsu Isu].
    { pose proof (builder_ok_nodup s BOs) as Ns. unfold su, cfs1. simpl. split; [apply NoDup_set_union, NoDup_set_inter, Ns|].
      intros c Hc. apply In_set_union in Hc. destruct Hc as [Hc|Hc]; [apply In_set_inter in Hc; tauto|apply Ix, Hc]. }
    destruct (IH d s (Some su) n sub n1 BOs St (wf_env_unary e _ s eq_refl WF) Nsu Isu ER) as [S [ES [D MI]]]. cbn [req] in D.
    exists (sem_select_rows fl x S). split; [simpl; rewrite ES; reflexivity|].
    split; [apply (node_select_rows fl e s x sub u S _ BO ES Nu Iu D)|intros _; apply merge_invN_not_mergeable].
  - (* select_columns *)
    simpl in St. destruct (bok_select_cols _ _ BO) as [BOs Ncs].
    assert (incl cs (column_names s)) as Ics.
    { simpl in BO. rewrite !andb_true_iff in BO. destruct BO as [[_ B] _]. exact (proj1 (subset_spec _ _) B). }
    change (match usg with Some u0 => u0 | None => column_names (OSelectCols s cs) end) with u in H. unfold bind in H.
    set (su := cfs1 (OSelectCols s cs) u) in *.
    destruct (to_near_f fuel d s (Some su) n) as [[sub n1]| |] eqn:ER; try discriminate.
    assert (forall c, In c su <-> In c cs /\ In c u) as Hsu by (intros c; unfold su, cfs1; simpl; apply In_set_inter).
    assert (NoDup su /\ incl su (column_names s)) as [Nsu Isu].
    { split; [unfold su, cfs1; simpl; apply NoDup_set_inter, Ncs|]. intros c Hc. apply Hsu in Hc. apply Ics. tauto. }
    destruct (IH d s (Some su) n sub n1 BOs St (wf_env_unary e _ s eq_refl WF) Nsu Isu ER) as [S [ES [D MI]]]. cbn [req] in D.
    exists (sel cs S). split; [simpl; rewrite ES; reflexivity|].
    assert (exists q', (if terms_is_none sub then (match su with [] => Some (empty_terms sub) | _ => None end) else narrow_or_first sub su) = Some q' /\ q = q') as [q' [Eq' ->]].
    { destruct (terms_is_none sub) eqn:TN.
      - injection H as <- _. exists (empty_terms sub). split; [|reflexivity].
        destruct su as [|c0 su'] eqn:Esu; [reflexivity|]. exfalso.
        assert (tkeys sub = []) as EK by (destruct sub as [n0 [ts|]|nm [l|] s0 ci sfx mg dp|nm [l|] s1 c1 j s2 c2 on]; try discriminate; reflexivity).
        pose proof (dv_incl _ _ _ _ _ D c0 (or_introl eq_refl)) as X. rewrite EK in X. destruct X.
      - destruct (narrow_or_first sub su) as [q0|]; [|discriminate]. injection H as <- _. exists q0. split; reflexivity. }
    split; [|intros HM; exact (merge_invN_narrow sub su q' (MI HM) Nsu Eq')].
    apply (delivers_narrowing fl e sub su S su u (sel cs S) D Nsu (incl_refl _)); try assumption.
    + intros c Hc. apply Hsu. split; [apply Iu, Hc|exact Hc].
    + apply sel_nil_sel.
    + intros C IC. apply sel_sel. intros c Hc. apply Iu, IC, Hc.
  - (* drop_columns *)
    simpl in St. pose proof (bok_drop _ _ BO) as BOs.
    change (match usg with Some u0 => u0 | None => column_names (ODropCols s ds) end) with u in H. unfold bind in H.
    set (su := cfs1 (ODropCols s ds) u) in *.
    assert (forall c, In c u -> In c (column_names s) /\ ~ In c ds) as Hu.
    { intros c Hc. specialize (Iu c Hc). simpl in Iu. apply filter_In in Iu. destruct Iu as [A B]. apply negb_true_iff, mem_false in B. tauto. }
    assert (su = u) as Esu.
    { unfold su, cfs1. simpl. apply filter_all. intros c Hc. apply negb_true_iff, mem_false. apply Hu, Hc. }
    assert (filter (fun k => negb (mem k ds)) u = u) as Ekeep by (apply filter_all; intros c Hc; apply negb_true_iff, mem_false; apply Hu, Hc).
    rewrite Ekeep in H.
    destruct (to_near_f fuel d s (Some su) n) as [[sub n1]| |] eqn:ER; try discriminate.
    assert (NoDup su /\ incl su (column_names s)) as [Nsu Isu] by (rewrite Esu; split; [exact Nu|intros c Hc; apply Hu, Hc]).
    destruct (IH d s (Some su) n sub n1 BOs St (wf_env_unary e _ s eq_refl WF) Nsu Isu ER) as [S [ES [D MI]]]. cbn [req] in D.
    exists (sem_drop_cols ds S). split; [simpl; rewrite ES; reflexivity|].
    assert (exists q', (if terms_is_none sub then (match u with [] => Some (empty_terms sub) | _ => None end) else narrow_or_first sub u) = Some q' /\ q = q') as [q' [Eq' ->]].
    { destruct (terms_is_none sub) eqn:TN.
      - destruct u as [|c0 u']; [|discriminate]. injection H as <- _. exists (empty_terms sub). split; reflexivity.
      - destruct (narrow_or_first sub u) as [q0|]; [|discriminate]. injection H as <- _. exists q0. split; reflexivity. }
    rewrite Esu in D.
    assert (incl u (cols (sem_drop_cols ds S))) as IuT.
    { intros c Hc. simpl. apply filter_In. rewrite (sem_cols fl s e S ES). split; [apply Hu, Hc|apply negb_true_iff, mem_false; apply Hu, Hc]. }
    split; [|intros HM; exact (merge_invN_narrow sub u q' (MI HM) Nu Eq')].
    apply (delivers_narrowing fl e sub u S u u (sem_drop_cols ds S) D Nu (incl_refl _) (incl_refl _) IuT); try assumption.
    + unfold sem_drop_cols. apply sel_nil_sel.
    + intros C IC. unfold sem_drop_cols. apply sel_sel. intros c Hc. apply IuT, IC, Hc.
  - (* rename_columns *)
    simpl in St. destruct (bok_rename _ _ BO) as [BOs OK].
    change (match usg with Some u0 => u0 | None => column_names (ORename s m) end) with u in H. unfold bind in H.
    set (su := py_set (cfs1 (ORename s m) u)) in *.
    destruct (to_near_f fuel d s (Some su) n) as [[sub n1]| |] eqn:ER; try discriminate. injection H as <- _.
    assert (NoDup su /\ incl su (column_names s)) as [Nsu Isu].
    { split; [apply NoDup_py_set|]. intros c Hc. unfold su in Hc. apply (proj1 (In_py_set _ _)) in Hc. unfold cfs1 in Hc. cbn [cols_from_sources nth] in Hc. apply in_map_iff in Hc. destruct Hc as [k [<- Ik]].
      destruct (get_rename m (column_names s) (column_names s) [] k OK (incl_refl _) (Iu k Ik)) as [_ [X _]]. exact X. }
    destruct (IH d s (Some su) n sub n1 BOs St (wf_env_unary e _ s eq_refl WF) Nsu Isu ER) as [S [ES [D MI]]]. cbn [req] in D.
    exists (sem_rename m S). split; [simpl; rewrite ES; reflexivity|].
    split; [apply (node_rename fl e s m sub u S _ BO ES Nu Iu D)|intros _; apply merge_invN_not_mergeable].
  - (* map_columns *)
    simpl in St. destruct (bok_map_cols _ _ _ BO) as [BOs OK].
    change (match usg with Some u0 => u0 | None => column_names (OMapCols s m dels) end) with u in H. unfold bind in H.
    set (su := py_set (cfs1 (OMapCols s m dels) u)) in *.
    destruct (to_near_f fuel d s (Some su) n) as [[sub n1]| |] eqn:ER; try discriminate. injection H as <- _.
    assert (NoDup su /\ incl su (column_names s)) as [Nsu Isu].
    { split; [apply NoDup_py_set|]. pose proof OK as [N1 _].
      assert (incl dels (column_names s)) as Idel.
      { pose proof BO as BO'. simpl in BO'. rewrite !andb_true_iff in BO'. destruct BO' as [[[_ _] Bd] _]. exact (proj1 (subset_spec _ _) Bd). }
      intros c Hc. unfold su in Hc. apply (proj1 (In_py_set _ _)) in Hc. unfold cfs1 in Hc. cbn [cols_from_sources nth] in Hc. apply in_app_iff in Hc. destruct Hc as [Hc|Hc]; [|apply Idel, Hc].
      apply in_map_iff in Hc. destruct Hc as [k [<- Ik]]. rewrite (old_of_dict_of_list m k N1).
      specialize (Iu k Ik). simpl in Iu. apply filter_In in Iu. destruct Iu as [Iu _].
      destruct (get_rename m (column_names s) (column_names s) [] k OK (incl_refl _) Iu) as [_ [X _]]. exact X. }
    destruct (IH d s (Some su) n sub n1 BOs St (wf_env_unary e _ s eq_refl WF) Nsu Isu ER) as [S [ES [D MI]]]. cbn [req] in D.
    exists (sem_drop_cols dels (sem_rename m S)). split; [simpl; rewrite ES; reflexivity|].
    split; [apply (node_map_cols fl e s m dels sub u S _ BO ES Nu Iu D)|intros _; apply merge_invN_not_mergeable].
  - (* order_rows *)
    simpl in St. pose proof (bok_order _ _ _ _ BO) as BOs.
    change (match usg with Some u0 => u0 | None => column_names (OOrder s cs rev lim) end) with u in H. unfold bind in H.
    cbn [column_names] in H.
    set (su := filter (fun c => mem c (cfs1 (OOrder s cs rev lim) u)) (column_names s)) in *.
    destruct (to_near_f fuel d s (Some su) n) as [[sub n1]| |] eqn:ER; try discriminate. injection H as <- _.
    assert (NoDup su /\ incl su (column_names s)) as [Nsu Isu].
    { split; [apply NoDup_filter, (builder_ok_nodup s BOs)|]. intros c Hc. apply filter_In in Hc. tauto. }
    destruct (IH d s (Some su) n sub n1 BOs St (wf_env_unary e _ s eq_refl WF) Nsu Isu ER) as [S [ES [D MI]]]. cbn [req] in D.
    exists (sem_order fl cs rev lim S). split; [simpl; rewrite ES; reflexivity|].
    split; [apply (node_order fl e s cs rev lim sub u S _ BO ES Nu Iu D)|intros _; apply merge_invN_not_mergeable].
  - (* natural_join written as a join (no rewrite) *)
    cbn [stage1] in St. rewrite !andb_true_iff in St. destruct St as [[Sta Stb] Jk].
    unfold join_covered in Jk. rewrite !andb_true_iff in Jk. destruct Jk as [[Carry NM] Jt]. apply negb_true_iff in NM.
    destruct (bok_join _ _ _ _ _ BO) as [BOa BOb].
    assert (gen_join d (to_near_f fuel d a) (to_near_f fuel d b) (OJoin a b on_a on_b jt) a b on_a on_b jt true usg n = Ok (q, n')) as HJ.
    { destruct jt; try exact H; apply negb_true_iff in Jt; rewrite Jt in H; exact H. }
    clear H.
    pose proof (wf_env_left e (OJoin a b on_a on_b jt) a b eq_refl WF) as WFa. pose proof (wf_env_right e (OJoin a b on_a on_b jt) a b eq_refl WF) as WFb.
    destruct (node_join fl e d (to_near_f fuel d a) (to_near_f fuel d b) a b on_a on_b jt usg n q n' Carry NM BO
                (stage1_cols_nonempty _ _ a BOa Sta) (stage1_cols_nonempty _ _ b BOb Stb) Nu Iu HJ) as [T [ET [D MI]]].
    + intros ul ql n1 n2 Nl Il E1. destruct (IH d a (Some ul) n1 ql n2 BOa Sta WFa Nl Il E1) as [A [EA [DA _]]].
      exists A. split; [exact EA|]. split; [exact DA|]. exact (gen_bare_ok e fuel d a (Some ul) n1 ql n2 BOa WFa Il E1).
    + intros ur qr n1 n2 Nr Ir E1. destruct (IH d b (Some ur) n1 qr n2 BOb Stb WFb Nr Ir E1) as [B [EB [DB _]]].
      exists B. split; [exact EB|]. split; [exact DB|]. exact (gen_bare_ok e fuel d b (Some ur) n1 qr n2 BOb WFb Ir E1).
    + exists T. split; [exact ET|]. split; [exact D|intros _; exact (merge_inv_weaken _ MI)].
  - (* concat_rows *)
    simpl in St. rewrite !andb_true_iff in St. destruct St as [[Sta Stb] Sid].
    destruct (bok_concat _ _ _ _ _ BO) as [BOa [BOb Hab]].
    assert (forall c, In c (column_names a) <-> In c (column_names b)) as Eab.
    { pose proof BO as BO'. simpl in BO'. rewrite !andb_true_iff in BO'. destruct BO' as [[[_ _] B] _]. unfold set_eqb in B. apply andb_true_iff in B. destruct B as [B1 B2].
      intros c. split; [apply (proj1 (subset_spec _ _) B1)|apply (proj1 (subset_spec _ _) B2)]. }
    pose proof (builder_ok_nodup a BOa) as Na.
    set (p := OConcat a b idc an bn) in *.
    change (match usg with Some u0 => u0 | None => column_names p end) with u in H.
    set (u1 := if is_nil u then firstn 1 (column_names p) else u) in *.
    assert (column_names p <> []) as NCp by (apply (stage1_cols_nonempty (d_allow_extend_merges d) (join_covered d fl)); [exact BO|simpl; rewrite Sta, Stb, Sid; reflexivity]).
    assert (u1 <> [] /\ NoDup u1 /\ incl u1 (column_names p) /\ incl u u1) as [NU1 [Nu1 [Iu1 Iuu1]]].
    { unfold u1. destruct (is_nil u) eqn:EN.
      - assert (u = []) as Eu by (destruct u; [reflexivity|discriminate]).
        destruct (column_names p) as [|c0 t]; [congruence|]. simpl. split; [discriminate|]. split; [constructor; [intros []|constructor]|].
        split; [intros x [<-|[]]; left; reflexivity|rewrite Eu; intros x []].
      - split; [intros X; rewrite X in EN; discriminate|]. split; [exact Nu|]. split; [exact Iu|apply incl_refl]. }
    assert (subset u1 (column_names p) = true) as Sb1 by (apply subset_spec; exact Iu1).
    rewrite Sb1 in H. cbn [negb] in H.
    set (ul := cfs1 p u1) in *. set (ur := cfs2 p u1) in *.
    destruct (set_eqb ul ur) eqn:Seq; cbn [negb] in H; [|discriminate].
    assert (forall c, In c ul <-> In c (column_names a) /\ In c u1) as Hul by (intros c; unfold ul, cfs1, p; simpl; apply In_set_inter).
    set (uj := match idc with Some c => add_end ul c | None => ul end) in *.
    assert (NoDup ul) as Nul by (unfold ul, cfs1, p; simpl; apply NoDup_set_inter, Na).
    assert (NoDup uj) as Nuj by (unfold uj; destruct idc; [apply NoDup_add_end|]; exact Nul).
    assert (column_names p = column_names a ++ match idc with Some c => [c] | None => [] end) as ECp by reflexivity.
    assert (forall c, In c uj <-> (In c (column_names a) /\ In c u1) \/ match idc with Some c0 => c = c0 | None => False end) as Huj.
    { intros c. unfold uj. destruct idc as [c0|]; [rewrite In_add_end|]; rewrite Hul; tauto. }
    assert (incl u1 uj) as Iu1j.
    { intros c Hc. apply Huj. specialize (Iu1 c Hc). rewrite ECp in Iu1. apply in_app_iff in Iu1. destruct Iu1 as [X|X]; [left; tauto|right].
      destruct idc as [c0|]; [destruct X as [<-|[]]; reflexivity|destruct X]. }
    assert (uj <> []) as NUj. { destruct u1 as [|x t]; [congruence|]. intros X. specialize (Iu1j x (or_introl eq_refl)). rewrite X in Iu1j. destruct Iu1j. }
    unfold bind in H.
    set (el := match idc with Some c => builder_extend_const a c (VStr an) | None => a end) in *.
    set (er := match idc with Some c => builder_extend_const b c (VStr bn) | None => b end) in *.
    destruct (to_near_f fuel d el (Some uj) n) as [[ql n1]| |] eqn:ERl; try discriminate.
    destruct (to_near_f fuel d er (Some uj) n1) as [[qr n2]| |] eqn:ERr; try discriminate.
    injection H as <- _.
    pose proof (wf_env_left e p a b eq_refl WF) as WFa. pose proof (wf_env_right e p a b eq_refl WF) as WFb.
    (* the two operands, with their labels *)
    assert (forall (x : op) (lab : string), builder_ok x = true -> stage1 (d_allow_extend_merges d) (join_covered d fl) x = true -> wf_env e x ->
              (forall c, In c (column_names a) <-> In c (column_names x)) ->
              match idc with Some _ => concat_src_ok x = true | None => True end ->
              forall qx m1 m2, to_near_f fuel d (match idc with Some c => builder_extend_const x c (VStr lab) | None => x end) (Some uj) m1 = Ok (qx, m2) ->
              exists X, sem_gen fl x e = Some X /\
                        Delivers fl e qx uj (match idc with Some c => mktable (cols X ++ [c]) (map (fun r => r ++ [VStr lab]) (rows X)) | None => X end)) as Hop.
    { intros x lab BOx Stx WFx Eax Okx qx m1 m2 ER.
      assert (forall c, In c uj -> In c (column_names x) \/ match idc with Some c0 => c = c0 | None => False end) as Ijx.
      { intros c Hc. apply Huj in Hc. destruct Hc as [[Hc _]|Hc]; [left; apply Eax, Hc|right; exact Hc]. }
      destruct idc as [c0|].
      - assert (~ In c0 (column_names x)) as Ncx by (intros I; apply Hab, Eax, I).
        destruct (builder_extend_const_cases x c0 (VStr lab) Okx) as [EB|[s0 [ops0 [Ex EB]]]]; rewrite EB in ER.
        + assert (builder_ok (OExtend x [(c0, EConst (VStr lab))] false no_window) = true) as BOe by (simpl; rewrite BOx; reflexivity).
          assert (stage1 (d_allow_extend_merges d) (join_covered d fl) (OExtend x [(c0, EConst (VStr lab))] false no_window) = true) as Ste by (simpl; rewrite Stx; reflexivity).
          assert (incl uj (column_names (OExtend x [(c0, EConst (VStr lab))] false no_window))) as Ije.
          { intros c Hc. simpl. apply In_add_end. destruct (Ijx c Hc) as [X|X]; [left; exact X|right; exact X]. }
          destruct (IH d _ (Some uj) m1 qx m2 BOe Ste (wf_env_unary e _ x eq_refl WFx) Nuj Ije ER) as [TX [ETX [DX _]]]. cbn [req] in DX.
          simpl in ETX. destruct (sem_gen fl x e) as [X|] eqn:EX; [|discriminate]. simpl in ETX. injection ETX as <-.
          exists X. split; [reflexivity|].
          rewrite (sem_extend_const_fresh fl c0 (VStr lab) X) in DX; [exact DX| |exact (sem_rows_width fl x e X EX)].
          apply mem_false. rewrite (sem_cols fl x e X EX). exact Ncx.
        + subst x.
          assert (~ In c0 (map fst ops0)) as Nck by (intros I; apply Ncx; simpl; apply in_ext_cols; right; exact I).
          pose proof (bok_extend_app_const s0 ops0 c0 (VStr lab) BOx Nck) as BOe.
          assert (stage1 (d_allow_extend_merges d) (join_covered d fl) (OExtend s0 (ops0 ++ [(c0, EConst (VStr lab))]) false no_window) = true) as Ste by exact Stx.
          assert (incl uj (column_names (OExtend s0 (ops0 ++ [(c0, EConst (VStr lab))]) false no_window))) as Ije.
          { intros c Hc. cbn [column_names]. unfold ext_cols. rewrite map_app, fold_left_app. simpl. apply In_add_end.
            destruct (Ijx c Hc) as [X|X]; [left; exact X|right; exact X]. }
          destruct (IH d _ (Some uj) m1 qx m2 BOe Ste (wf_env_unary e _ (OExtend s0 ops0 false no_window) eq_refl WFx) Nuj Ije ER) as [TX [ETX [DX _]]]. cbn [req] in DX.
          simpl in ETX. destruct (sem_gen fl s0 e) as [S0|] eqn:ES0; [|discriminate]. simpl in ETX. injection ETX as <-.
          assert (sem_gen fl (OExtend s0 ops0 false no_window) e = Some (sem_extend fl ops0 S0)) as EX by (simpl; rewrite ES0; reflexivity).
          exists (sem_extend fl ops0 S0). split; [exact EX|].
          rewrite (sem_extend_app_const fl ops0 c0 (VStr lab) S0) in DX.
          rewrite (sem_extend_const_fresh fl c0 (VStr lab) (sem_extend fl ops0 S0)) in DX; [exact DX| |exact (sem_rows_width fl _ e _ EX)].
          apply mem_false. rewrite (sem_cols fl _ e _ EX). exact Ncx.
      - assert (incl uj (column_names x)) as Ije by (intros c Hc; destruct (Ijx c Hc) as [X|[]]; exact X).
        destruct (IH d x (Some uj) m1 qx m2 BOx Stx WFx Nuj Ije ER) as [X [EX [DX _]]]. exists X. split; [exact EX|exact DX]. }
    assert (match idc with Some _ => concat_src_ok a = true | None => True end /\ match idc with Some _ => concat_src_ok b = true | None => True end) as [Oka Okb].
    { destruct idc; [apply andb_true_iff in Sid; exact Sid|split; exact I]. }
    destruct (Hop a an BOa Sta WFa (fun c => iff_refl _) Oka ql n n1 ERl) as [A [EA DA]].
    destruct (Hop b bn BOb Stb WFb Eab Okb qr n1 n2 ERr) as [B [EB DB]].
    pose proof (sem_cols fl a e A EA) as ECA. pose proof (sem_cols fl b e B EB) as ECB.
    exists (sem_concat idc an bn A B). split; [simpl; rewrite EA, EB; reflexivity|].
    split; [|intros _; apply merge_invN_binary].
    apply (delivers_union fl e _ uj ql qr _ _ u (sem_concat idc an bn A B) DA DB Nuj NUj).
    + intros c Hc. apply Iu1j, Iuu1, Hc.
    + intros c Hc. specialize (Iu c Hc). rewrite ECp in Iu. unfold sem_concat. destruct idc; cbn [cols]; rewrite ECA; [exact Iu|rewrite app_nil_r in Iu; exact Iu].
    + intros K IK. apply (sel_concat idc an bn A B K).
      * rewrite ECA. exact Na.
      * exact (sem_rows_width fl a e A EA).
      * exact (sem_rows_width fl b e B EB).
      * intros c. rewrite ECA, ECB. apply Eab.
      * destruct idc; [rewrite ECA; exact Hab|exact I].
      * intros c Hc. specialize (IK c Hc). apply Huj in IK. destruct idc as [c0|]; cbn [cols]; rewrite ECA.
        { apply in_app_iff. destruct IK as [[X _]|X]; [left; exact X|right; left; symmetry; exact X]. }
        { destruct IK as [[X _]|[]]. exact X. }
Qed.

End Main.
