(* C10, part 4: the per-node pruning lemma at pipeline level (`node_step`), and: a DAG-wide report that is closed
   under the per-node requests (`covers`) makes the pipeline blind to everything outside the report -- for the
   pipeline itself and for its narrowed rebuild. *)
From Coq Require Import List Bool Arith ZArith QArith String Lia Permutation.
Import ListNotations.
From DA Require Import Base.PyRT Base.Val Model.Sem Proofs.SemBasicP Model.ColumnsUsed
  Proofs.ColumnsUsedP1 Proofs.ColumnsUsedP2 Proofs.ColumnsUsedP3.
Local Open Scope list_scope.

(* ------------------------------------------------------------------ what the builders' checks give *)
Lemma bok_extend s ops wd w : builder_ok (OExtend s ops wd w) = true ->
  builder_ok s = true /\ (forall k, In k (map fst ops) -> ~ In k (w_part w ++ w_order w ++ w_rev w)).
Proof. cbn [builder_ok]. rewrite !andb_true_iff. intros H. split; [tauto|]. apply disjointb_spec. tauto. Qed.
Lemma bok_project s ops gb : builder_ok (OProject s ops gb) = true -> builder_ok s = true /\ NoDup (gb ++ map fst ops).
Proof. cbn [builder_ok]. rewrite !andb_true_iff. intros H. split; [tauto|]. apply nodupb_NoDup. tauto. Qed.
Lemma bok_select_rows s e : builder_ok (OSelectRows s e) = true -> builder_ok s = true.
Proof. cbn [builder_ok]. rewrite !andb_true_iff. tauto. Qed.
Lemma bok_select_cols s cs : builder_ok (OSelectCols s cs) = true -> builder_ok s = true /\ NoDup cs.
Proof. cbn [builder_ok]. rewrite !andb_true_iff. intros H. split; [tauto|]. apply nodupb_NoDup. tauto. Qed.
Lemma bok_drop s ds : builder_ok (ODropCols s ds) = true -> builder_ok s = true.
Proof. cbn [builder_ok]. rewrite !andb_true_iff. tauto. Qed.
Lemma bok_rename s m : builder_ok (ORename s m) = true -> builder_ok s = true /\ rename_ok m (column_names s).
Proof. cbn [builder_ok]. rewrite !andb_true_iff. intros H. split; [tauto|]. apply rename_okb_ok. tauto. Qed.
Lemma bok_map_cols s m dels : builder_ok (OMapCols s m dels) = true -> builder_ok s = true /\ rename_ok m (column_names s).
Proof. cbn [builder_ok]. rewrite !andb_true_iff. intros H. split; [tauto|]. apply rename_okb_ok. tauto. Qed.
Lemma bok_order s cs rev lim : builder_ok (OOrder s cs rev lim) = true -> builder_ok s = true.
Proof. cbn [builder_ok]. rewrite !andb_true_iff. tauto. Qed.
Lemma bok_join a b on_a on_b jt : builder_ok (OJoin a b on_a on_b jt) = true -> builder_ok a = true /\ builder_ok b = true.
Proof. cbn [builder_ok]. rewrite !andb_true_iff. tauto. Qed.
Lemma bok_concat a b idc an bn : builder_ok (OConcat a b idc an bn) = true ->
  builder_ok a = true /\ builder_ok b = true /\ match idc with Some c => ~ In c (column_names a) | None => True end.
Proof. cbn [builder_ok]. rewrite !andb_true_iff. intros H. split; [tauto|]. split; [tauto|].
  destruct idc as [c|]; [|exact I]. apply mem_false. apply negb_true_iff. tauto. Qed.

Lemma bok_sources n : builder_ok n = true -> Forall (fun s => builder_ok s = true) (sources n).
Proof.
  destruct n; intros OK; cbn [sources]; repeat constructor.
  - apply bok_extend in OK; tauto.
  - apply bok_project in OK; tauto.
  - apply bok_select_rows in OK; tauto.
  - apply bok_select_cols in OK; tauto.
  - apply bok_drop in OK; tauto.
  - apply bok_rename in OK; tauto.
  - apply bok_map_cols in OK; tauto.
  - apply bok_order in OK; tauto.
  - apply bok_join in OK; tauto.
  - apply bok_join in OK; tauto.
  - apply bok_concat in OK; tauto.
  - apply bok_concat in OK; tauto.
Qed.

Lemma NoDup_app_intro (l1 l2 : list string) : NoDup l1 -> NoDup l2 -> (forall x, In x l1 -> ~ In x l2) -> NoDup (l1 ++ l2).
Proof.
  intros N1 N2 D. induction N1 as [|x t Nx Nt IH]; simpl; [exact N2|]. constructor.
  - rewrite in_app_iff. intros [I|I]; [exact (Nx I)|]. exact (D x (or_introl eq_refl) I).
  - apply IH. intros y Iy. apply D. right. exact Iy.
Qed.

Lemma NoDup_join_out (ca cb : list string) : NoDup ca -> NoDup cb -> NoDup (ca ++ filter (fun c => negb (mem c ca)) cb).
Proof.
  intros Na Nb. apply NoDup_app_intro; [exact Na|apply NoDup_filter; exact Nb|].
  intros x I1 I2. apply filter_In in I2. destruct I2 as [_ N]. apply negb_true_iff, mem_false in N. exact (N I1).
Qed.

Lemma builder_ok_nodup p : builder_ok p = true -> NoDup (column_names p).
Proof.
  induction p; intros OK; cbn [column_names].
  - cbn [builder_ok] in OK. apply andb_true_iff in OK. apply nodupb_NoDup. tauto.
  - apply bok_extend in OK. unfold ext_cols. apply NoDup_fold_add_end. apply IHp. tauto.
  - apply bok_project in OK. tauto.
  - apply bok_select_rows in OK. auto.
  - apply bok_select_cols in OK. tauto.
  - apply bok_drop in OK. apply NoDup_filter. auto.
  - apply bok_rename in OK. destruct OK as [_ [_ [_ [_ N]]]]. exact N.
  - apply bok_map_cols in OK. destruct OK as [_ [_ [_ [_ N]]]]. apply NoDup_filter. exact N.
  - apply bok_order in OK. auto.
  - apply bok_join in OK. apply NoDup_join_out; [apply IHp1|apply IHp2]; tauto.
  - apply bok_concat in OK. destruct OK as [Oa [Ob Oc]]. destruct idcol as [c|].
    + apply NoDup_snoc; [apply IHp1; exact Oa|exact Oc].
    + rewrite app_nil_r. apply IHp1. exact Oa.
Qed.

(* ------------------------------------------------------------------ one node *)
Definition out_agree (u : list string) (o o' : option table) : Prop :=
  match o, o' with Some T, Some T' => agree u T T' | None, None => True | _, _ => False end.

Lemma out_agree_mono u u' o o' : incl u u' -> out_agree u' o o' -> out_agree u o o'.
Proof. intros I. destruct o, o'; simpl; try tauto. apply agree_mono, I. Qed.

(* the node n with its sources replaced *)
Definition with_sources (n : op) (l : list op) : op :=
  match n, l with
  | OExtend _ ops wd w, [s] => OExtend s ops wd w
  | OProject _ ops gb, [s] => OProject s ops gb
  | OSelectRows _ e, [s] => OSelectRows s e
  | OSelectCols _ cs, [s] => OSelectCols s cs
  | ODropCols _ ds, [s] => ODropCols s ds
  | ORename _ m, [s] => ORename s m
  | OMapCols _ m dels, [s] => OMapCols s m dels
  | OOrder _ cs rev lim, [s] => OOrder s cs rev lim
  | OJoin _ _ on_a on_b jt, [a; b] => OJoin a b on_a on_b jt
  | OConcat _ _ idc an bn, [a; b] => OConcat a b idc an bn
  | _, _ => n
  end.

Lemma in_sub_ops u ops (ke : string * expr) : In ke ops -> In (fst ke) u -> In ke (sub_ops u ops).
Proof. intros I H. unfold sub_ops. apply filter_In. split; [exact I|apply mem_In, H]. Qed.

Lemma extend_request s ops wd w u' :
  (forall k, In k (map fst ops) -> ~ In k (w_part w ++ w_order w ++ w_rev w)) ->
  wextend_needs ops w u' (cfs1 (OExtend s ops wd w) u') (column_names s).
Proof.
  intros D c Hc. unfold cfs1. cbn [cols_from_sources nth].
  destruct (sub_ops u' ops) as [|k0 rest] eqn:SO; cbn [nth].
  - destruct (last_for c ops); intros; assumption.
  - rewrite <- SO. clear k0 rest SO.
    assert (forall x, In x (set_diff (u' ++ w_part w ++ w_order w ++ w_rev w) (map fst (sub_ops u' ops)) ++ ops_cols (sub_ops u' ops)) ->
                      In x (column_names s) ->
                      In x (filter (fun v => mem v (set_diff (u' ++ w_part w ++ w_order w ++ w_rev w) (map fst (sub_ops u' ops)) ++ ops_cols (sub_ops u' ops))) (column_names s))) as FI.
    { intros x I1 I2. apply filter_In. split; [exact I2|apply mem_In, I1]. }
    destruct (last_for c ops) as [ke|] eqn:L.
    + destruct (last_for_In _ _ _ L) as [Ike Ek]. intros x Hx Hcs. apply FI; [|exact Hcs]. apply in_app_iff.
      apply in_app_iff in Hx. destruct Hx as [Hx|Hx]; [|apply in_app_iff in Hx; destruct Hx as [Hx|Hx]].
      * left. apply In_set_diff. split; [apply in_app_iff; right; apply in_app_iff; left; exact Hx|].
        intros I. apply in_map_iff in I. destruct I as [k2 [E2 I2]]. apply filter_In in I2.
        apply (D x); [apply in_map_iff; exists k2; tauto|apply in_app_iff; left; exact Hx].
      * left. apply In_set_diff. split; [apply in_app_iff; right; apply in_app_iff; right; apply in_app_iff; left; exact Hx|].
        intros I. apply in_map_iff in I. destruct I as [k2 [E2 I2]]. apply filter_In in I2.
        apply (D x); [apply in_map_iff; exists k2; tauto|apply in_app_iff; right; apply in_app_iff; left; exact Hx].
      * right. eapply cols_used_in_ops; [|exact Hx]. apply in_sub_ops; [exact Ike|rewrite Ek; exact Hc].
    + intros Hcs. apply FI; [|exact Hcs]. apply in_app_iff. left. apply In_set_diff. split; [apply in_app_iff; left; exact Hc|].
      intros I. apply (last_for_None _ _ L). apply in_map_iff in I. destruct I as [k2 [E2 I2]]. apply filter_In in I2.
      apply in_map_iff. exists k2. tauto.
Qed.

Lemma wneeds_needs ops w u us cs : wextend_needs ops w u us cs -> extend_needs ops u us cs.
Proof.
  intros N c Hc. specialize (N c Hc). destruct (last_for c ops); [|exact N].
  intros x Hx. apply N. apply in_app_iff. right. apply in_app_iff. right. exact Hx.
Qed.

Tactic Notation "sem_unary" hyp(IH) ident(ES) ident(ES') ident(S) ident(S') :=
  match goal with
  | |- out_agree _ (option_map _ ?o) (option_map _ ?o') =>
      destruct o as [S|] eqn:ES; destruct o' as [S'|] eqn:ES'; cbn [out_agree] in IH; try contradiction; [|exact I];
      cbn [option_map out_agree]
  end.

(* THE PRUNING LEMMA.  A node n (accepted by the builder) asked for the columns u' of its own; its sources may be
   replaced by other pipelines and run on other inputs: as long as source i and its replacement agree on
   cols_from_sources n u' [i], the node and the rebuilt node agree on u'. *)
Theorem node_step fl e e' n srcs' u' :
  builder_ok n = true -> incl u' (column_names n) ->
  match sources n, srcs' with
  | [s], [s'] => out_agree (cfs1 n u') (sem_gen fl s e) (sem_gen fl s' e')
  | [a; b], [a'; b'] => out_agree (cfs1 n u') (sem_gen fl a e) (sem_gen fl a' e') /\
                        out_agree (cfs2 n u') (sem_gen fl b e) (sem_gen fl b' e')
  | _, _ => False
  end ->
  out_agree u' (sem_gen fl n e) (sem_gen fl (with_sources n srcs') e').
Proof.
  intros OK I2 H. destruct n as [name tcols|p ops windowed w|p ops gb|p ex|p cs|p ds|p m|p m dels|p cs rev lim|p1 p2 on_a on_b jt|p1 p2 idc an bn];
    cbn [sources] in H; destruct srcs' as [|s' [|b' [|]]]; try contradiction; cbn [with_sources sem_gen].
  - (* extend *)
    rename H into IHp. apply bok_extend in OK. destruct OK as [OK D]. sem_unary IHp ES ES' S S'.
    pose proof (sem_cols _ _ _ _ ES) as CS. pose proof (sem_rows_width _ _ _ _ ES) as WS. pose proof (sem_rows_width _ _ _ _ ES') as WS'.
    pose proof (extend_request p ops windowed w u' D) as N. rewrite <- CS in N.
    destruct windowed; [eapply agree_wextend|eapply agree_extend]; try eassumption. apply (wneeds_needs _ _ _ _ _ N).
  - (* project *)
    rename H into IHp. sem_unary IHp ES ES' S S'.
    eapply agree_project; [exact IHp| |].
    + intros x Hx _. unfold cfs1. cbn [cols_from_sources nth]. apply in_app_iff. left. exact Hx.
    + intros ke x Ik Hk Hx _. unfold cfs1. cbn [cols_from_sources nth]. apply in_app_iff. right.
      eapply cols_used_in_ops; [|exact Hx]. apply in_sub_ops; assumption.
  - (* select_rows *)
    rename H into IHp. sem_unary IHp ES ES' S S'.
    pose proof (sem_cols _ _ _ _ ES) as CS.
    eapply agree_select_rows; [exact IHp| |].
    + intros x Hx _. unfold cfs1. cbn [cols_from_sources nth]. apply In_set_union. right. exact Hx.
    + intros c Hc Hcs. unfold cfs1. cbn [cols_from_sources nth]. apply In_set_union. left. apply In_set_inter. rewrite <- CS. tauto.
  - (* select_columns *)
    rename H into IHp. sem_unary IHp ES ES' S S'.
    eapply agree_select_cols; [exact IHp|].
    intros c Hc Hcs _. unfold cfs1. cbn [cols_from_sources nth]. apply In_set_inter. tauto.
  - (* drop_columns *)
    rename H into IHp. sem_unary IHp ES ES' S S'.
    eapply agree_drop_cols; [exact IHp|].
    intros c Hc N _. unfold cfs1. cbn [cols_from_sources nth]. apply filter_In. split; [exact Hc|]. apply negb_true_iff, mem_false, N.
  - (* rename_columns *)
    rename H into IHp. apply bok_rename in OK. destruct OK as [OK RO]. sem_unary IHp ES ES' S S'.
    pose proof (sem_cols _ _ _ _ ES) as CS. cbn [column_names] in I2. rewrite <- CS in RO, I2.
    eapply agree_rename; [exact RO|exact I2|exact IHp|].
    intros c Hc. unfold cfs1. cbn [cols_from_sources nth]. apply in_map. exact Hc.
  - (* map_columns *)
    rename H into IHp. apply bok_map_cols in OK. destruct OK as [OK RO]. sem_unary IHp ES ES' S S'.
    pose proof (sem_cols _ _ _ _ ES) as CS. cbn [column_names] in I2. rewrite <- CS in RO, I2.
    eapply agree_map_cols; [exact RO|exact I2|exact IHp|].
    intros c Hc. unfold cfs1. cbn [cols_from_sources nth]. apply in_app_iff. left.
    destruct RO as [N1 _]. rewrite <- (old_of_dict_of_list m c N1). apply in_map. exact Hc.
  - (* order_rows *)
    rename H into IHp. sem_unary IHp ES ES' S S'.
    pose proof (sem_cols _ _ _ _ ES) as CS.
    eapply agree_order; [exact IHp| |].
    + intros x Hx _. unfold cfs1. cbn [cols_from_sources nth]. apply in_app_iff. right. exact Hx.
    + intros c Hc Hcs. unfold cfs1. cbn [cols_from_sources nth column_names]. apply in_app_iff. left. apply In_set_inter. rewrite <- CS. tauto.
  - (* natural_join *)
    destruct H as [IHp1 IHp2].
    destruct (sem_gen fl p1 e) as [A|] eqn:EA1, (sem_gen fl s' e') as [A'|] eqn:EA1'; cbn [out_agree] in IHp1; try contradiction;
      destruct (sem_gen fl p2 e) as [B|] eqn:EB1, (sem_gen fl b' e') as [B'|] eqn:EB1'; cbn [out_agree] in IHp2; try contradiction; try exact I.
    cbn [out_agree]. pose proof (sem_cols _ _ _ _ EA1) as CA. pose proof (sem_cols _ _ _ _ EB1) as CB.
    eapply agree_join; [exact IHp1|exact IHp2| |].
    + intros x Hx Hcs. unfold cfs1. cbn [cols_from_sources nth]. apply In_set_inter. rewrite <- CA. tauto.
    + intros x Hx Hcs. unfold cfs2. cbn [cols_from_sources nth]. apply In_set_inter. rewrite <- CB. tauto.
  - (* concat_rows *)
    destruct H as [IHp1 IHp2].
    destruct (sem_gen fl p1 e) as [A|] eqn:EA1, (sem_gen fl s' e') as [A'|] eqn:EA1'; cbn [out_agree] in IHp1; try contradiction;
      destruct (sem_gen fl p2 e) as [B|] eqn:EB1, (sem_gen fl b' e') as [B'|] eqn:EB1'; cbn [out_agree] in IHp2; try contradiction; try exact I.
    cbn [out_agree]. pose proof (sem_cols _ _ _ _ EA1) as CA. pose proof (sem_cols _ _ _ _ EB1) as CB.
    eapply agree_concat; [exact (sem_rows_width _ _ _ _ EA1)|exact (sem_rows_width _ _ _ _ EA1')|exact IHp1|exact IHp2| |].
    + intros c Hc Hcs. unfold cfs1. cbn [cols_from_sources nth]. apply In_set_inter. rewrite <- CA. tauto.
    + intros c Hc _ Hcs. unfold cfs2. cbn [cols_from_sources nth]. apply In_set_inter. rewrite <- CB. tauto.
Qed.

(* ------------------------------------------------------------------ reports closed under the per-node requests *)
(* inputs that agree on the columns U: as many rows, in the same order, the same cells in those columns *)
Definition input_agree (U : list string) (t t' : table) : Prop := Forall2 (rowrel U (cols t) (cols t')) (rows t) (rows t').

Section Covers.
  Variable F : string -> list string.        (* table key -> reported columns *)

  (* every node is asked for a set u' of its own columns that contains what its consumer asked (u), and each source is
     covered for what the node asks of it given u'; a table description is asked only for reported columns *)
  Fixpoint covers (p : op) (u : list string) : Prop :=
    match p with
    | OTable n cs => incl u cs /\ incl u (F n)
    | OExtend s _ _ _ | OProject s _ _ | OSelectRows s _ | OSelectCols s _ | ODropCols s _ | ORename s _
    | OMapCols s _ _ | OOrder s _ _ _ =>
        exists u', incl u u' /\ incl u' (column_names p) /\ covers s (cfs1 p u')
    | OJoin a b _ _ _ | OConcat a b _ _ _ =>
        exists u', incl u u' /\ incl u' (column_names p) /\ covers a (cfs1 p u') /\ covers b (cfs2 p u')
    end.

  Definition env_agree (e e' : env) : Prop :=
    forall n, match dict_get e n, dict_get e' n with
              | Some t, Some t' => input_agree (F n) t t'
              | None, None => True
              | _, _ => False
              end.

  Variable keep : string -> string -> bool.
  Hypothesis keep_reported : forall n c, In c (F n) -> keep n c = true.

  Theorem covers_agree fl e e' : env_agree e e' ->
    forall p u, builder_ok p = true -> covers p u -> out_agree u (sem_gen fl p e) (sem_gen fl (narrow keep p) e').
  Proof.
    intros EA. induction p; intros u OK CV; cbn [covers] in CV.
    - (* table *)
      cbn [sem_gen narrow].
      destruct CV as [I1 I2]. specialize (EA name). destruct (dict_get e name) as [t|], (dict_get e' name) as [t'|]; try contradiction; [|exact I].
      cbn [out_agree]. apply (agree_table u (F name)); try assumption. intros c Hc. apply keep_reported, I2, Hc.
    - destruct CV as [u' [I1 [I2 CV]]]. apply (out_agree_mono u u' _ _ I1). pose proof (bok_sources _ OK) as OS. cbn [sources] in OS. inversion OS; subst.
      apply (node_step fl e e' (OExtend p ops windowed w) [narrow keep p] u' OK I2). cbn [sources]. apply IHp; assumption.
    - destruct CV as [u' [I1 [I2 CV]]]. apply (out_agree_mono u u' _ _ I1). pose proof (bok_sources _ OK) as OS. cbn [sources] in OS. inversion OS; subst.
      apply (node_step fl e e' (OProject p ops gb) [narrow keep p] u' OK I2). cbn [sources]. apply IHp; assumption.
    - destruct CV as [u' [I1 [I2 CV]]]. apply (out_agree_mono u u' _ _ I1). pose proof (bok_sources _ OK) as OS. cbn [sources] in OS. inversion OS; subst.
      apply (node_step fl e e' (OSelectRows p e0) [narrow keep p] u' OK I2). cbn [sources]. apply IHp; assumption.
    - destruct CV as [u' [I1 [I2 CV]]]. apply (out_agree_mono u u' _ _ I1). pose proof (bok_sources _ OK) as OS. cbn [sources] in OS. inversion OS; subst.
      apply (node_step fl e e' (OSelectCols p cs) [narrow keep p] u' OK I2). cbn [sources]. apply IHp; assumption.
    - destruct CV as [u' [I1 [I2 CV]]]. apply (out_agree_mono u u' _ _ I1). pose proof (bok_sources _ OK) as OS. cbn [sources] in OS. inversion OS; subst.
      apply (node_step fl e e' (ODropCols p cs) [narrow keep p] u' OK I2). cbn [sources]. apply IHp; assumption.
    - destruct CV as [u' [I1 [I2 CV]]]. apply (out_agree_mono u u' _ _ I1). pose proof (bok_sources _ OK) as OS. cbn [sources] in OS. inversion OS; subst.
      apply (node_step fl e e' (ORename p m) [narrow keep p] u' OK I2). cbn [sources]. apply IHp; assumption.
    - destruct CV as [u' [I1 [I2 CV]]]. apply (out_agree_mono u u' _ _ I1). pose proof (bok_sources _ OK) as OS. cbn [sources] in OS. inversion OS; subst.
      apply (node_step fl e e' (OMapCols p m dels) [narrow keep p] u' OK I2). cbn [sources]. apply IHp; assumption.
    - destruct CV as [u' [I1 [I2 CV]]]. apply (out_agree_mono u u' _ _ I1). pose proof (bok_sources _ OK) as OS. cbn [sources] in OS. inversion OS; subst.
      apply (node_step fl e e' (OOrder p cs rev limit) [narrow keep p] u' OK I2). cbn [sources]. apply IHp; assumption.
    - destruct CV as [u' [I1 [I2 [CVa CVb]]]]. apply (out_agree_mono u u' _ _ I1). pose proof (bok_sources _ OK) as OS. cbn [sources] in OS.
      inversion OS as [|? ? Oa OS2]; subst. inversion OS2 as [|? ? Ob _]; subst.
      apply (node_step fl e e' (OJoin p1 p2 on_a on_b jt) [narrow keep p1; narrow keep p2] u' OK I2). cbn [sources]. split; [apply IHp1|apply IHp2]; assumption.
    - destruct CV as [u' [I1 [I2 [CVa CVb]]]]. apply (out_agree_mono u u' _ _ I1). pose proof (bok_sources _ OK) as OS. cbn [sources] in OS.
      inversion OS as [|? ? Oa OS2]; subst. inversion OS2 as [|? ? Ob _]; subst.
      apply (node_step fl e e' (OConcat p1 p2 idcol an bn) [narrow keep p1; narrow keep p2] u' OK I2). cbn [sources]. split; [apply IHp1|apply IHp2]; assumption.
  Qed.
End Covers.
