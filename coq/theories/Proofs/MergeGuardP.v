(* The guard of extend merging only lets through steps with the window of the node they are merged into,
   and the merged node has that window too. *)
From Coq Require Import List Bool String.
Import ListNotations.
From DA Require Import Base.PyRT Model.Extend Model.MergeGuard Gen.G_MergeOps Proofs.MergeOpsP.

Lemma strs_eqb_eq a : forall b, strs_eqb a b = true -> a = b.
Proof.
  induction a as [|x s IH]; intros [|y t] H; simpl in H; try discriminate; [reflexivity|].
  apply andb_true_iff in H. destruct H as [H1 H2]. apply String.eqb_eq in H1. subst. f_equal. apply IH, H2.
Qed.
Lemma strs_eqb_refl a : strs_eqb a a = true.
Proof. induction a as [|x s IH]; simpl; [reflexivity|]. rewrite String.eqb_refl. exact IH. Qed.
Lemma nonempty_false l : nonempty l = false -> l = [].
Proof. destruct l; [reflexivity|discriminate]. Qed.

(* a step that passes the guard would, as a node of its own, carry exactly the window of `self` *)
Lemma guard_same_window implies_new a self :
  merge_guard implies_new a self = true -> node_of implies_new a = self.
Proof.
  unfold merge_guard, node_of. destruct self as [w p o r]. cbn [n_windowed n_part n_order n_rev].
  intros H.
  apply andb_true_iff in H. destruct H as [H Hr]. apply andb_true_iff in H. destruct H as [H Ho].
  apply andb_true_iff in H. destruct H as [Hc Hw].
  apply strs_eqb_eq in Hr. apply strs_eqb_eq in Ho. apply eqb_prop in Hw. rewrite Hr, Ho in *. rewrite Hw.
  f_equal. unfold eff_part. apply orb_true_iff in Hc. destruct Hc as [Hc|Hc]; apply andb_true_iff in Hc; destruct Hc as [Hc1 Hc2].
  - apply negb_true_iff in Hc1. rewrite Hc1. apply strs_eqb_eq, Hc2.
  - apply negb_true_iff in Hc2. apply nonempty_false in Hc2. subst p.
    destruct (a_one a); [reflexivity|]. simpl in Hc1. apply negb_true_iff in Hc1. apply nonempty_false, Hc1.
Qed.

(* ... and so does the merged node, whatever assignments it keeps, as long as it keeps every assignment of the new
   step and adds nothing that is in neither step (im: implies_windowed of the merged assignments) *)
Lemma guard_merged_window i1 a1 i2 a2 im :
  merge_guard i2 a2 (node_of i1 a1) = true ->
  (i2 = true -> im = true) -> (im = true -> i1 = true \/ i2 = true) ->
  node_of im a2 = node_of i1 a1.
Proof.
  intros G Up Down. pose proof (guard_same_window _ _ _ G) as S. rewrite <- S.
  unfold node_of in *. f_equal. injection S as Sw _ _ _.
  destruct im, i2; try reflexivity.
  - (* im = true, i2 = false: then i1 = true, so the node is windowed, and so is the new step by the guard *)
    destruct (Down eq_refl) as [I|I]; [|discriminate]. subst i1. simpl in Sw. simpl. exact (eq_sym Sw).
  - discriminate (Up eq_refl).
Qed.

Section Values.
Context {E : Type} (deps : E -> list string) (p : E -> bool).
Definition implies_windowed (d : pydict string E) : bool := existsb p (dict_values d).

Lemma merge_implies (o1 o2 m : pydict string E) :
  NoDup (dict_keys o1) -> NoDup (dict_keys o2) ->
  try_to_merge_ops (get_columns_used deps) o1 o2 = Some m ->
  (implies_windowed o2 = true -> implies_windowed m = true)
  /\ (implies_windowed m = true -> implies_windowed o1 = true \/ implies_windowed o2 = true).
Proof.
  intros N1 N2 H. destruct (merge_spec_holds deps _ _ _ N1 N2 H) as (G & _ & Nm & _).
  unfold implies_windowed. split.
  - intros X. apply existsb_exists in X. destruct X as [v [I Pv]]. apply existsb_exists. exists v. split; [|exact Pv].
    unfold dict_values in I. apply in_map_iff in I. destruct I as [[k v'] [<- I]]. simpl.
    apply (dict_get_NoDup_In _ _ _ N2) in I. apply (In_dict_values m k). rewrite G, I. reflexivity.
  - intros X. apply existsb_exists in X. destruct X as [v [I Pv]].
    unfold dict_values in I. apply in_map_iff in I. destruct I as [[k v'] [<- I]]. simpl in Pv.
    apply (dict_get_NoDup_In _ _ _ Nm) in I. rewrite G in I.
    destruct (dict_get o2 k) as [v2|] eqn:E2.
    + inversion I; subst. right. apply existsb_exists. exists v'. split; [eapply In_dict_values; exact E2|exact Pv].
    + left. apply existsb_exists. exists v'. split; [eapply In_dict_values; exact I|exact Pv].
Qed.
End Values.

(* merging two extend steps that pass the guard gives a node with the window both steps have on their own *)
Theorem merged_extend_window {E : Type} (deps : E -> list string) (p : E -> bool)
        (o1 o2 m : pydict string E) (a1 a2 : wargs) :
  NoDup (dict_keys o1) -> NoDup (dict_keys o2) ->
  try_to_merge_ops (get_columns_used deps) o1 o2 = Some m ->
  merge_guard (implies_windowed p o2) a2 (node_of (implies_windowed p o1) a1) = true ->
  node_of (implies_windowed p o2) a2 = node_of (implies_windowed p o1) a1
  /\ node_of (implies_windowed p m) a2 = node_of (implies_windowed p o1) a1.
Proof.
  intros N1 N2 H G. split; [apply guard_same_window, G|].
  destruct (merge_implies deps p _ _ _ N1 N2 H) as [Up Down].
  eapply guard_merged_window; eassumption.
Qed.
