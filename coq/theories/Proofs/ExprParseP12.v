(* Proofs/ExprParseP12.v -- C13, part 3: structural equality is equality; the round-trip record; leaves and
   collections. *)
From Coq Require Import List Bool String Ascii ZArith NArith QArith Arith Lia.
Import ListNotations.
From DA Require Import Model.PyExpr Model.ExprPrint Model.ExprParse Model.ExprAst Model.ExprRoundtrip
  Proofs.ExprParseP1 Proofs.ExprParseP2 Proofs.ExprParseP10 Proofs.ExprParseP11.
Local Close Scope Q_scope.
Local Open Scope string_scope.
Local Open Scope bool_scope.
Local Open Scope list_scope.

(* ------------------------------------------------------------------ expr_eqb *)
Lemma Qeqb_s_eq a b : Qeqb_s a b = true -> a = b.
Proof. destruct a as [an ad], b as [bn bd]. unfold Qeqb_s. simpl. intros H. apply andb_prop in H as [H1 H2].
  apply Z.eqb_eq in H1. apply Pos.eqb_eq in H2. subst. reflexivity. Qed.

Lemma pval_eqb_eq a b : pval_eqb a b = true -> a = b.
Proof. destruct a, b; simpl; intros H; try discriminate H; try reflexivity.
  - apply Bool.eqb_prop in H. subst. reflexivity.
  - apply Z.eqb_eq in H. subst. reflexivity.
  - apply andb_prop in H as [H1 H2]. apply Bool.eqb_prop in H1. apply Qeqb_s_eq in H2. subst. reflexivity.
  - apply Bool.eqb_prop in H. subst. reflexivity.
  - apply String.eqb_eq in H. subst. reflexivity. Qed.

Lemma list_eqb_eq {A} (f : A -> A -> bool) (l1 : list A) :
  (forall x y, In x l1 -> f x y = true -> x = y) -> forall l2, list_eqb f l1 l2 = true -> l1 = l2.
Proof. induction l1 as [|x l1 IH]; intros Hf [|y l2] H; simpl in H; try discriminate H; [reflexivity|].
  apply andb_prop in H as [H1 H2]. f_equal; [apply Hf; [left; reflexivity|exact H1]|].
  apply IH; [intros a b Ha; apply Hf; right; exact Ha|exact H2]. Qed.

Fixpoint esize (e : expr) : nat :=
  match e with
  | EOp _ _ _ _ args => S (fold_right (fun a n => esize a + n) 0 args)
  | _ => 1
  end.
Lemma esize_arg op i m p args x : In x args -> esize x < esize (EOp op i m p args).
Proof. simpl. induction args as [|y args IH]; simpl; intros H; [destruct H|]. destruct H as [->|H]; [lia|]. specialize (IH H). lia. Qed.

Lemma expr_eqb_eq_n : forall n a b, esize a < n -> expr_eqb a b = true -> a = b.
Proof. induction n as [|n IH]; intros a b Hs H; [lia|].
  destruct a as [x|x|x|x|o i m p xs], b as [y|y|y|y|o' i' m' p' ys]; simpl in H; try discriminate H.
  - apply String.eqb_eq in H. subst. reflexivity.
  - apply pval_eqb_eq in H. subst. reflexivity.
  - f_equal. apply (list_eqb_eq pval_eqb); [intros a b _; apply pval_eqb_eq|exact H].
  - f_equal. revert H. apply list_eqb_eq. intros [a1 a2] [b1 b2] _ E. simpl in E.
    apply andb_prop in E as [E1 E2]. apply pval_eqb_eq in E1. apply pval_eqb_eq in E2. subst. reflexivity.
  - apply andb_prop in H as [H Hxs]. apply andb_prop in H as [H Hp]. apply andb_prop in H as [H Hm]. apply andb_prop in H as [Ho Hi].
    apply String.eqb_eq in Ho. apply Bool.eqb_prop in Hi. apply Bool.eqb_prop in Hm. subst.
    assert (p = p').
    { destruct p as [l|], p' as [l'|]; simpl in Hp; try discriminate Hp; [|reflexivity]. f_equal.
      revert Hp. apply list_eqb_eq. intros [a1 a2] [b1 b2] _ E. simpl in E.
      apply andb_prop in E as [E1 E2]. apply String.eqb_eq in E1. apply pval_eqb_eq in E2. subst. reflexivity. }
    subst. f_equal. apply (list_eqb_eq expr_eqb xs); [|exact Hxs].
    intros a b Ha E. apply IH; [pose proof (esize_arg o' i' m' p' xs a Ha); lia|exact E]. Qed.

Lemma expr_eqb_eq a b : expr_eqb a b = true -> a = b.
Proof. apply (expr_eqb_eq_n (S (esize a))). lia. Qed.

Lemma res_expr_eqb_Ok r e : res_expr_eqb r (Ok e) = true -> r = Ok e.
Proof. destruct r as [x|]; simpl; [|discriminate]. intros H. apply expr_eqb_eq in H. subst. reflexivity. Qed.

(* ------------------------------------------------------------------ the statement proved for every printable e *)
Record rt_ok (c : cfg) (dd : list string) (e : expr) : Prop := mkrt {
  rt_unparse : forall want, unparse (dtree_of want e) = fst (to_py want e);
  rt_wfn : forall want, wfn (dtree_of want e) = true;
  rt_lvl10 : 10 <= dlvl (dtree_of true e);
  rt_lvl12 : dlvl (dtree_of true e) = 12;
  rt_walk : forall want, walk c dd (strip (dtree_of want e)) = Ok e
}.

Lemma strip_par_when b d : strip (par_when b d) = strip d.
Proof. destruct b; reflexivity. Qed.
Lemma wfn_par_when b d : wfn (par_when b d) = wfn d.
Proof. destruct b; reflexivity. Qed.
Lemma unparse_par_when b d : unparse (par_when b d) = if b then paren (unparse d) else unparse d.
Proof. destruct b; reflexivity. Qed.

Section RT.
Variables (c : cfg) (dd : list string).

(* ---- leaves *)
Lemma rt_col n : printable c dd (ECol n) = true -> rt_ok c dd (ECol n).
Proof. simpl. intros H. apply andb_prop in H as [Hm _]. constructor; try reflexivity; try (simpl; lia).
  intros want. cbn [dtree_of strip]. rewrite walk_node_eq, (wn_var c "var"); [|simpl; tauto].
  cbn [map nth walk]. rewrite Hm. reflexivity. Qed.

(* an operand constant is an atom: printed with a sign it is parenthesised *)
Lemma dlvl_operand_val v : dlvl (par_when (true && prints_with_sign v) (dval v)) = 12.
Proof. destruct (true && prints_with_sign v) eqn:N; [reflexivity|]. simpl par_when. apply dlvl_dval_signless.
  destruct v as [|b|z|neg m|neg|s]; simpl in *; try reflexivity; rewrite N; reflexivity. Qed.

Lemma rt_val v : printable c dd (EVal v) = true -> rt_ok c dd (EVal v).
Proof. simpl. intros H. apply negb_true_iff in H. constructor.
  - intros want. cbn [dtree_of to_py]. rewrite unparse_par_when, unparse_dval. destruct (want && prints_with_sign v); reflexivity.
  - intros want. cbn [dtree_of]. rewrite wfn_par_when. apply wfn_dval.
  - cbn [dtree_of]. rewrite dlvl_operand_val. lia.
  - cbn [dtree_of]. apply dlvl_operand_val.
  - intros want. cbn [dtree_of]. rewrite strip_par_when. apply walk_dval. exact H. Qed.

(* ---- lists *)
Lemma all_ok_map_Ok {A B} (f : A -> res B) (g : A -> B) l : (forall x, In x l -> f x = Ok (g x)) -> all_ok (map f l) = Ok (map g l).
Proof. induction l as [|x l IH]; intros H; [reflexivity|]. cbn [map all_ok]. rewrite (H x (or_introl eq_refl)), IH; [reflexivity|].
  intros y Hy. apply H. right. exact Hy. Qed.

Lemma all_some_unwrap vs : all_some (map (fun e => match e with EVal v => Some v | _ => None end) (map EVal vs)) = Some vs.
Proof. induction vs as [|v vs IH]; [reflexivity|]. cbn [map all_some]. rewrite IH. reflexivity. Qed.

Lemma existsb_inf_false vs v : existsb is_inf vs = false -> In v vs -> is_inf v = false.
Proof. intros H Hv. destruct (is_inf v) eqn:E; [|reflexivity]. rewrite <- H. symmetry. apply existsb_exists. exists v. split; assumption. Qed.

Lemma rt_list vs : printable c dd (EList vs) = true -> rt_ok c dd (EList vs).
Proof. simpl. intros H. apply andb_prop in H as [H Hc]. apply andb_prop in H as [Hi Hn].
  apply negb_true_iff in Hi. apply negb_true_iff in Hn.
  assert (Hwalk : all_ok (map (walk c dd) (map strip (map dval vs))) = Ok (map EVal vs)).
  { rewrite !map_map. apply all_ok_map_Ok. intros v Hv. apply walk_dval. exact (existsb_inf_false _ _ Hi Hv). }
  constructor.
  - intros want. cbn [dtree_of to_py unparse open_tok close_tok]. rewrite commas_join, !map_map.
    cbn [fst]. change (open_tok BBrack) with (TSym "["). change (close_tok BBrack) with (TSym "]").
    rewrite (map_ext (fun x => unparse (dval x)) val_toks unparse_dval). reflexivity.
  - intros want. cbn [dtree_of wfn]. apply andb_true_intro. split.
    + rewrite forallb_forall. intros x Hx. apply in_map_iff in Hx as [v [<- _]]. apply wfn_dval.
    + destruct vs as [|v vs']; reflexivity.
  - simpl. lia.
  - reflexivity.
  - intros want. cbn [dtree_of].
    destruct vs as [|v [|v2 vs]].
    + (* [] *)
      cbn [map strip]. rewrite walk_node_eq, wn_list. cbn [coll_items all_ok map all_some]. cbn [map] in Hc.
      rewrite Hn, Hc. reflexivity.
    + (* the lone item itself *)
      cbn [map strip]. destruct (strip_dval_kind v) as [d [cs [Ed Hd]]].
      assert (Hw : walk c dd (strip (dval v)) = Ok (EVal v)).
      { apply walk_dval. apply (existsb_inf_false [v] v Hi). left. reflexivity. }
      rewrite walk_node_eq, wn_list. rewrite Ed. cbn [coll_items]. rewrite Hd. cbn [map nth]. rewrite <- Ed, Hw.
      cbn [all_ok map all_some]. cbn [map] in Hc. rewrite Hn, Hc. reflexivity.
    + assert (H2 : all_ok (map (walk c dd) (strip (dval v) :: strip (dval v2) :: map strip (map dval vs)))
                   = Ok (map EVal (v :: v2 :: vs))) by exact Hwalk.
      change (strip (DColl BBrack (map dval (v :: v2 :: vs)) false))
        with (LNode "list" [LNode "tuplelist_comp" (strip (dval v) :: strip (dval v2) :: map strip (map dval vs))]).
      rewrite walk_node_eq, wn_list. cbn [coll_items]. change (mem_str "tuplelist_comp" ["tuplelist_comp"; "set_comp"]) with true.
      cbv iota. rewrite H2, all_some_unwrap, Hn, Hc. reflexivity. Qed.

End RT.
