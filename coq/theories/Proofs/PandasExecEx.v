(* PEXEC: concrete witnesses (vm_compute).  Where the faithful transcription of pandas_base.py differs from sem_gen fl_pandas, and
   where a premise of the theorems is needed; plus instances showing that the premises are satisfiable. *)
From Coq Require Import List Bool Arith ZArith QArith String Ascii Lia Permutation.
Import ListNotations.
From DA Require Import Base.PyRT Base.Val Model.Sem Model.PdPrim Model.PandasExec Model.PermGuard Proofs.PermP4 Proofs.PandasExecP1.
Local Open Scope string_scope.
Local Open Scope list_scope.

Definition n (z : Z) : val := VNum (Qred (z # 1)).

(* ---- 1. row order: pandas lists the groups of a project in SORTED key order, Sem.v by first occurrence.  (Sem.v as a MODEL of the
        Pandas executor is right only up to row order; the theorems say "permutation".) *)
Definition ex_project : op := OProject (OTable "d" ["g"; "x"]) [("s", EOp "sum" [ECol "x"])] ["g"].
Definition ex_project_env : env := [("d", mktable ["g"; "x"] [[n 2; n 1]; [n 1; n 5]])].
Lemma row_order_witness :
  wf_op_b ex_project = true /\
  pexec q_code ex_project ex_project_env = Some (mktable ["g"; "s"] [[n 1; n 5]; [n 2; n 1]]) /\
  sem_gen fl_pandas ex_project ex_project_env = Some (mktable ["g"; "s"] [[n 2; n 1]; [n 1; n 5]]).
Proof. vm_compute. repeat split. Qed.

(* ---- 2. column order: an extend that assigns more than half as many columns as the frame has goes through pd.concat(axis=1):
        an overwritten column moves to the END; Sem.column_names (the declared order) keeps it in place. *)
Definition ex_extend : op := OExtend (OTable "d" ["a"; "b"]) [("a", EOp "+" [ECol "a"; EConst (n 1)]); ("x", ECol "b")] false (mkwin [] [] []).
Definition ex_extend_env : env := [("d", mktable ["a"; "b"] [[n 1; n 7]])].
Lemma column_order_witness :
  wf_op_b ex_extend = true /\
  pexec q_code ex_extend ex_extend_env = Some (mktable ["b"; "a"; "x"] [[n 7; n 2; n 7]]) /\
  sem_gen fl_pandas ex_extend ex_extend_env = Some (mktable ["a"; "b"; "x"] [[n 2; n 7; n 7]]).
Proof. vm_compute. repeat split. Qed.

(* ---- 3. the window premise is needed: _extend_step sorts the sub-frame by partition, order AND value columns, so rows that tie on
        the order columns are taken in the order of their VALUES; Sem.v takes them in frame order. *)
Definition ex_window : op := OExtend (OTable "d" ["k"; "a"]) [("c", EOp "cumsum" [ECol "a"])] true (mkwin [] ["k"] []).
Definition ex_window_env : env := [("d", mktable ["k"; "a"] [[n 1; n 2]; [n 1; n 1]])].
Lemma window_ties_witness :
  wf_op_b ex_window = true /\
  pexec q_code ex_window ex_window_env = Some (mktable ["k"; "a"; "c"] [[n 1; n 2; n 3]; [n 1; n 1; n 1]]) /\
  sem_gen fl_pandas ex_window ex_window_env = Some (mktable ["k"; "a"; "c"] [[n 1; n 2; n 2]; [n 1; n 1; n 3]]).
Proof. vm_compute. repeat split. Qed.

(* ---- 4. (history) a left key that is also a non-key column of the right table, paired with a differently named right key: before
        /repo 756a9c2 the suffixed copy `p_tmp_right_col` survived (finding C16-pandas-overlap-leftover-column); the loop now folds
        back every suffixed copy merge produced, and the case is covered by the theorems *)
Definition ex_overlap : op := OJoin (OTable "d1" ["p"; "a"]) (OTable "d2" ["q"; "p"; "b"]) ["p"] ["q"] JInner.
Definition ex_overlap_env : env := [("d1", mktable ["p"; "a"] [[n 1; n 10]]); ("d2", mktable ["q"; "p"; "b"] [[n 1; n 7; n 5]])].
Lemma overlap_now_clean :
  wf_op_b ex_overlap = true /\
  pexec q_code ex_overlap ex_overlap_env = Some (mktable ["p"; "a"; "q"; "b"] [[n 1; n 10; n 1; n 5]]) /\
  sem_gen fl_pandas ex_overlap ex_overlap_env = Some (mktable ["p"; "a"; "q"; "b"] [[n 1; n 10; n 1; n 5]]).
Proof. vm_compute. repeat split. Qed.

(* ---- 4b. null keys: both tables have a row with a null key; pandas.merge alone would pair them, the marker column prevents it
        (since /repo af27aca), as in SQL and in sem_gen fl_pandas *)
Definition ex_nulljoin : op := OJoin (OTable "d1" ["k"; "a"]) (OTable "d2" ["k"; "b"]) ["k"] ["k"] JFull.
Definition ex_nulljoin_env : env := [("d1", mktable ["k"; "a"] [[VNull; n 1]; [n 2; n 3]]); ("d2", mktable ["k"; "b"] [[VNull; n 5]; [n 2; n 7]])].
Lemma null_keys_never_match :
  wf_op_b ex_nulljoin = true /\
  pexec q_code ex_nulljoin ex_nulljoin_env = Some (mktable ["k"; "a"; "b"] [[n 2; n 3; n 7]; [VNull; VNull; n 5]; [VNull; n 1; VNull]]) /\
  sem_gen fl_pandas ex_nulljoin ex_nulljoin_env = Some (mktable ["k"; "a"; "b"] [[n 2; n 3; n 7]; [VNull; n 1; VNull]; [VNull; VNull; n 5]]).
Proof. vm_compute. repeat split. Qed.

(* ---- 5. (history) the closing keyed check of _project_step raised when every group key contained a null (finding
        PEXEC-project-keyed-check-drops-null-keys, fixed by /repo db5bdc2: dropna=False in that check) *)
Definition ex_nullkeys : op := OProject (OTable "d" ["g"; "h"; "x"]) [("s", EOp "sum" [ECol "x"])] ["g"; "h"].
Definition ex_nullkeys_env : env := [("d", mktable ["g"; "h"; "x"] [[VNull; n 1; n 1]; [VNull; n 2; n 2]; [VNull; n 2; n 3]])].
Lemma keyed_check_witness :
  wf_op_b ex_nullkeys = true /\
  pexec q_before_db5bdc2 ex_nullkeys ex_nullkeys_env = None /\
  pexec q_code ex_nullkeys ex_nullkeys_env = Some (mktable ["g"; "h"; "s"] [[VNull; n 1; n 1]; [VNull; n 2; n 5]]) /\
  sem_gen fl_pandas ex_nullkeys ex_nullkeys_env = Some (mktable ["g"; "h"; "s"] [[VNull; n 1; n 1]; [VNull; n 2; n 5]]).
Proof. vm_compute. repeat split. Qed.

(* ---- the premises are satisfiable: a pipeline through every step kind with scratch columns *)
Definition ex_all : op :=
  OOrder
    (OProject
       (OExtend
          (OJoin (OTable "d1" ["k"; "s"; "a"; "u"]) (OTable "d2" ["k"; "s"; "b"]) ["k"] ["k"] JLeft)
          [("c", EOp "cumsum" [ECol "a"]); ("rn", EOp "_row_number" [])] true (mkwin ["k"] ["u"] ["u"]))
       [("m", EOp "max" [ECol "c"]); ("z", EOp "_size" [])] ["k"; "s"])
    ["k"; "s"] ["k"] (Some 2%nat).
Definition ex_all_env : env :=
  [("d1", mktable ["k"; "s"; "a"; "u"] [[n 1; VNull; n 2; n 0]; [n 2; n 7; n 3; n 1]; [n 1; n 8; n 4; n 2]]);
   ("d2", mktable ["k"; "s"; "b"] [[n 1; n 9; n 5]; [n 3; n 9; n 6]])].
Lemma ex_all_premises :
  wf_op_b ex_all = true /\ perm_guard_b fl_pandas ex_all ex_all_env = true /\
  pexec q_code ex_all ex_all_env = Some (mktable ["k"; "s"; "m"; "z"] [[n 2; n 7; n 3; n 1]; [n 1; n 8; n 4; n 1]]).
Proof. vm_compute. repeat split. Qed.

(* ------------------------------------------------------------------ the witnesses as refutations *)
Lemma exact_row_order_refuted :
  exists p e t t', wf_op_b p = true /\ perm_guard_b fl_pandas p e = true /\ pexec q_code p e = Some t /\ sem_gen fl_pandas p e = Some t' /\
                   cols t = cols t' /\ rows t <> rows t'.
Proof.
  exists ex_project, ex_project_env. eexists. eexists. destruct row_order_witness as [W [P S]].
  split; [exact W|]. split; [vm_compute; reflexivity|]. split; [exact P|]. split; [exact S|]. split; [reflexivity|]. cbn [rows]. intros E. inversion E.
Qed.

Lemma exact_column_order_refuted :
  exists p e t t', wf_op_b p = true /\ perm_guard_b fl_pandas p e = true /\ pexec q_code p e = Some t /\ sem_gen fl_pandas p e = Some t' /\ cols t <> cols t'.
Proof.
  exists ex_extend, ex_extend_env. eexists. eexists. destruct column_order_witness as [W [P S]].
  split; [exact W|]. split; [vm_compute; reflexivity|]. split; [exact P|]. split; [exact S|]. cbn [cols]. intros E. inversion E.
Qed.

Lemma refines_row t t' : refines t t' -> forall r, In r (rows t) -> exists r', In r' (rows t') /\ forall c, get (cols t) r c = get (cols t') r' c.
Proof.
  intros [v [[_ F] [C P]]] r I.
  assert (exists r', In r' (rows v) /\ forall c, get (cols t) r c = get (cols v) r' c) as [r' [I' R]].
  { clear -F I. induction F as [|a b l m Rab F IH]; [contradiction|]. destruct I as [<-|I]; [exists b; split; [left; reflexivity|exact Rab]|].
    destruct (IH I) as [r' [I' R]]. exists r'. split; [right; exact I'|exact R]. }
  exists r'. split; [eapply Permutation_in; eassumption|]. rewrite <- C. exact R.
Qed.

Lemma window_premise_refuted :
  exists p e t t', wf_op_b p = true /\ exact_keys_b fl_pandas p e = true /\ total_orders_b fl_pandas p e = false /\
                   pexec q_code p e = Some t /\ sem_gen fl_pandas p e = Some t' /\ ~ refines t t'.
Proof.
  exists ex_window, ex_window_env. eexists. eexists. destruct window_ties_witness as [W [P S]].
  split; [exact W|]. split; [vm_compute; reflexivity|]. split; [vm_compute; reflexivity|]. split; [exact P|]. split; [exact S|].
  intros Rf. destruct (refines_row _ _ Rf [n 1; n 2; n 3]) as [r' [I R]]; [left; reflexivity|]. cbn [rows cols] in I, R.
  destruct I as [<-|[<-|[]]].
  - specialize (R "c"). vm_compute in R. discriminate R.
  - specialize (R "a"). vm_compute in R. discriminate R.
Qed.

Lemma project_keyed_check_refuted :
  exists p e t', wf_op_b p = true /\ perm_guard_b fl_pandas p e = true /\ sem_gen fl_pandas p e = Some t' /\
                 pexec q_before_db5bdc2 p e = None /\ pexec q_code p e = Some t'.
Proof.
  exists ex_nullkeys, ex_nullkeys_env. eexists. destruct keyed_check_witness as [W [P1 [P2 S]]].
  split; [exact W|]. split; [vm_compute; reflexivity|]. split; [exact S|]. split; [exact P1|exact P2].
Qed.
