(* Proofs/ExprParseP13.v -- C13, part 3: dict displays, unary minus, k-ary operators. *)
From Coq Require Import List Bool String Ascii ZArith NArith QArith Arith Lia.
Import ListNotations.
From DA Require Import Model.PyExpr Model.ExprPrint Model.ExprParse Model.ExprAst Model.ExprRoundtrip
  Proofs.ExprParseP1 Proofs.ExprParseP2 Proofs.ExprParseP10 Proofs.ExprParseP11 Proofs.ExprParseP12.
Local Close Scope Q_scope.
Local Open Scope string_scope.
Local Open Scope bool_scope.
Local Open Scope list_scope.

(* ------------------------------------------------------------------ dict_combine on distinct keys *)
Lemma pdict_set_fresh acc k v : existsb (fun a => py_eq k (fst a)) acc = false -> pdict_set acc k v = acc ++ [(k, v)].
Proof. induction acc as [|[k' v'] acc IH]; intros H; [reflexivity|]. cbn [existsb fst] in H. apply orb_false_elim in H as [H1 H2].
  cbn [pdict_set app]. rewrite H1, (IH H2). reflexivity. Qed.

Lemma dict_combine_singles : forall kvs acc,
  distinct_keys kvs = true ->
  (forall kv, In kv kvs -> existsb (fun a => py_eq (fst kv) (fst a)) acc = false) ->
  existsb (fun kv => pval_eqb (fst kv) PNone) kvs = false ->
  dict_combine acc (map (fun kv => EDict [kv]) kvs) = Some (acc ++ kvs).
Proof. induction kvs as [|[k v] kvs IH]; intros acc Hd Hf Hn; [simpl; rewrite app_nil_r; reflexivity|].
  cbn [distinct_keys] in Hd. apply andb_prop in Hd as [Hd1 Hd2]. apply negb_true_iff in Hd1.
  cbn [existsb fst] in Hn. apply orb_false_elim in Hn as [Hn1 Hn2].
  cbn [map dict_combine existsb fst]. rewrite Hn1. cbn [orb fold_left fst snd].
  rewrite (pdict_set_fresh acc k v (Hf (k, v) (or_introl eq_refl))).
  rewrite (IH (acc ++ [(k, v)]) Hd2); [rewrite <- app_assoc; reflexivity| |exact Hn2].
  intros kv Hkv. rewrite existsb_app. rewrite (Hf kv (or_intror Hkv)). cbn [existsb fst orb].
  rewrite orb_false_r. destruct (py_eq (fst kv) k) eqn:E; [|reflexivity].
  rewrite <- Hd1. symmetry. apply existsb_exists. exists kv. split; [exact Hkv|exact E]. Qed.

Section RT.
Variables (c : cfg) (dd : list string).

Lemma walk_key_value k v : is_inf k = false -> is_inf v = false ->
  walk c dd (LNode "key_value" [strip (dval k); strip (dval v)]) = Ok (EDict [(k, v)]).
Proof. intros Hk Hv. rewrite walk_node_eq, wn_key_value. cbn [map]. rewrite (walk_dval c dd k Hk), (walk_dval c dd v Hv). reflexivity. Qed.

Lemma rt_dict kvs : printable c dd (EDict kvs) = true -> rt_ok c dd (EDict kvs).
Proof. cbn [printable]. intros H. apply andb_prop in H as [H Hcv]. apply andb_prop in H as [H Hck]. apply andb_prop in H as [H Hd].
  apply andb_prop in H as [H Hn]. apply andb_prop in H as [Hne Hi]. apply negb_true_iff in Hi. apply negb_true_iff in Hn.
  assert (Hinf : forall kv, In kv kvs -> is_inf (fst kv) = false /\ is_inf (snd kv) = false).
  { intros kv Hkv. apply orb_false_elim. destruct (is_inf (fst kv) || is_inf (snd kv)) eqn:E; [|reflexivity].
    exfalso. assert (X : existsb (fun kv0 => is_inf (fst kv0) || is_inf (snd kv0)) kvs = true).
    { apply existsb_exists. exists kv. split; [exact Hkv|exact E]. }
    rewrite Hi in X. discriminate X. }
  constructor.
  - intros want. cbn [dtree_of to_py unparse fst]. rewrite commas_join, !map_map. cbn [fst snd].
    rewrite (map_ext (fun x : pval * pval => unparse (dval (fst x)) ++ TSym ":" :: unparse (dval (snd x)))
                     (fun kv => val_toks (fst kv) ++ TSym ":" :: val_toks (snd kv))); [reflexivity|].
    intros kv. rewrite !unparse_dval. reflexivity.
  - intros want. cbn [dtree_of wfn]. rewrite andb_true_r. rewrite forallb_forall. intros x Hx.
    apply in_map_iff in Hx as [kv [<- _]]. cbn [fst snd]. rewrite !wfn_dval. reflexivity.
  - simpl. lia.
  - reflexivity.
  - intros want. cbn [dtree_of]. destruct kvs as [|kv0 kvs']; [discriminate Hne|].
    remember (kv0 :: kvs') as l.
    assert (Es : strip (DDict (map (fun kv => (dval (fst kv), dval (snd kv))) l) false)
                 = LNode "dict" [LNode "dict_comp" (map (fun kv => LNode "key_value" [strip (dval (fst kv)); strip (dval (snd kv))]) l)]).
    { subst l. cbn [map strip fst snd]. rewrite map_map. reflexivity. }
    rewrite Es. rewrite walk_node_eq, wn_dict. rewrite map_map.
    rewrite (all_ok_map_Ok _ (fun kv => EDict [kv])).
    2:{ intros [k v] Hkv. destruct (Hinf _ Hkv) as [Hk Hv]. apply walk_key_value; assumption. }
    rewrite (dict_combine_singles l [] Hd); [|intros; reflexivity|exact Hn].
    cbn [app]. rewrite Hck, Hcv. reflexivity. Qed.

(* ---- unary minus *)
Lemma rt_unary op m p a : printable c dd (EOp op true m p [a]) = true -> rt_ok c dd a -> rt_ok c dd (EOp op true m p [a]).
Proof. cbn [printable]. intros H Ra. apply andb_prop in H as [H Hx]. apply andb_prop in H as [Hp _].
  destruct p as [l|]; [discriminate Hp|]. clear Hp.
  apply andb_prop in Hx as [Hx Hy]. apply andb_prop in Hx as [Hm Hk]. apply negb_true_iff in Hm. subst m.
  apply andb_prop in Hy as [Hy Hv]. apply andb_prop in Hy as [Ho Ht]. apply String.eqb_eq in Ho. subst op.
  apply negb_true_iff in Hv.
  constructor.
  - intros want. rewrite dt_unary, tp_unary, unparse_par_when. cbn [unparse]. rewrite (rt_unparse c dd a Ra false).
    destruct want; reflexivity.
  - intros want. rewrite dt_unary, wfn_par_when. cbn [wfn]. exact (rt_wfn c dd a Ra false).
  - rewrite dt_unary. simpl. lia.
  - rewrite dt_unary. reflexivity.
  - intros want. rewrite dt_unary, strip_par_when. cbn [strip]. rewrite walk_node_eq, wn_factor. cbn [map tok_text].
    rewrite (rt_walk c dd a Ra false). change (remap factor_remap "-") with "__neg__".
    unfold call_method. rewrite Ht. cbn [negb]. change (find_method "__neg__" method_table) with (Some MNeg). cbv iota beta.
    destruct a as [n|v|vs|kvs|o i m' p' args]; try discriminate Hv; try discriminate Ht;
      unfold uop_expr, mk_expr; cbn [is_none_value]; rewrite Hk; reflexivity. Qed.

(* ---- operands of an inline operator *)
Lemma operands_unparse op (xs : list expr) :
  (forall x, In x xs -> rt_ok c dd x) ->
  flat_map (fun p : string * dtree => TSym (fst p) :: unparse (snd p)) (map (fun x => (op, dtree_of true x)) xs)
  = flat_map (fun p => TSym op :: p) (map (fun x => fst (to_py true x)) xs).
Proof. induction xs as [|x xs IH]; intros H; [reflexivity|]. cbn [map flat_map fst snd].
  rewrite (rt_unparse c dd x (H x (or_introl eq_refl)) true), IH; [reflexivity|]. intros y Hy. apply H. right. exact Hy. Qed.

Lemma operands_wfn L op (xs : list expr) : L <= 9 -> is_binop_at L op = true ->
  (forall x, In x xs -> rt_ok c dd x) ->
  forallb (fun p : string * dtree => is_binop_at L (fst p) && at_least (S L) (snd p) && wfn (snd p))
          (map (fun x => (op, dtree_of true x)) xs) = true.
Proof. intros HL Ho H. rewrite forallb_forall. intros q Hq. apply in_map_iff in Hq as [x [<- Hx]]. cbn [fst snd].
  rewrite Ho, (rt_wfn c dd x (H x Hx) true). unfold at_least.
  pose proof (rt_lvl10 c dd x (H x Hx)). replace (Nat.leb (S L) (dlvl (dtree_of true x))) with true; [reflexivity|].
  symmetry. apply Nat.leb_le. lia. Qed.

Lemma operands_walk (xs : list expr) :
  (forall x, In x xs -> rt_ok c dd x) ->
  all_ok (map (walk c dd) (map (fun x => strip (dtree_of true x)) xs)) = Ok xs.
Proof. intros H. rewrite map_map. rewrite (all_ok_map_Ok _ (fun x => x)); [rewrite map_id; reflexivity|].
  intros x Hx. exact (rt_walk c dd x (H x Hx) true). Qed.

(* ---- k-ary + * and or *)
Lemma walk_kop_node name op (ts : list ltree) t0 args :
  In name ["arith_expr"; "term"] -> mem_str op ["+"; "*"] = true -> ts <> [] ->
  all_ok (map (walk c dd) (t0 :: ts)) = Ok args ->
  walk c dd (LNode name (t0 :: inter op ts)) = mk_expr c op args true false.
Proof. intros Hn Ho Hne Hw. rewrite walk_node_eq, (wn_arith c name _ _ _ _ Hn).
  assert (Hlen : Nat.ltb (List.length (t0 :: inter op ts)) 3 || Nat.even (List.length (t0 :: inter op ts)) = false).
  { cbn [List.length]. rewrite length_inter. destruct ts as [|t ts]; [congruence|]. cbn [List.length].
    apply orb_false_intro; [apply Nat.ltb_ge; lia|]. rewrite Nat.even_succ, Nat.odd_mul. reflexivity. }
  rewrite Hlen. rewrite odds_inter, map_map. cbn [tok_text]. rewrite map_const_repeat.
  destruct ts as [|t ts]; [congruence|]. cbn [List.length]. rewrite (kopsel_repeat op _ Ho).
  rewrite evens_map, evens_inter, Hw. reflexivity. Qed.

Lemma rt_kop op m p a b more : printable c dd (EOp op true m p (a :: b :: more)) = true -> mem_str op kops = true ->
  (forall x, In x (a :: b :: more) -> rt_ok c dd x) -> rt_ok c dd (EOp op true m p (a :: b :: more)).
Proof. intros H Hk R. cbn [printable] in H. apply andb_prop in H as [H Hx]. apply andb_prop in H as [Hp _].
  destruct p as [l|]; [discriminate Hp|]. clear Hp. rewrite Hk in Hx.
  apply andb_prop in Hx as [Hx _]. apply andb_prop in Hx as [Hm Hkn]. apply negb_true_iff in Hm. subst m.
  destruct (kops_sym op Hk) as [Hsym Hpow].
  assert (Hops : (op = "+" /\ binop_level op = 8) \/ (op = "*" /\ binop_level op = 9)
                 \/ (op = "and" /\ binop_level op = 1) \/ (op = "or" /\ binop_level op = 0)).
  { apply mem_str_In in Hk. simpl in Hk. destruct Hk as [<-|[<-|[<-|[<-|[]]]]]; intuition. }
  assert (Hlvl : binop_level op <= 9 /\ is_binop_at (binop_level op) op = true /\ is_chain_level (binop_level op) = true).
  { destruct Hops as [[-> ->]|[[-> ->]|[[-> ->]|[-> ->]]]]; repeat split; try lia; reflexivity. }
  destruct Hlvl as [HL [Hbin Hcl]].
  constructor.
  - intros want. rewrite (dt_chain want op false None a b more Hpow), tp_inline, unparse_par_when. cbn [unparse].
    rewrite (rt_unparse c dd a (R a (or_introl eq_refl)) true), operands_unparse; [|intros x Hx; apply R; right; exact Hx].
    rewrite (op_tok_sym op Hsym). cbn [map]. rewrite join_flat. destruct want; reflexivity.
  - intros want. rewrite (dt_chain want op false None a b more Hpow), wfn_par_when. cbn [wfn]. rewrite Hcl.
    rewrite (rt_wfn c dd a (R a (or_introl eq_refl)) true).
    rewrite (operands_wfn _ op (b :: more) HL Hbin); [|intros x Hx; apply R; right; exact Hx].
    unfold at_least. pose proof (rt_lvl10 c dd a (R a (or_introl eq_refl))).
    replace (Nat.leb (S (binop_level op)) (dlvl (dtree_of true a))) with true; [reflexivity|symmetry; apply Nat.leb_le; lia].
  - rewrite (dt_chain true op false None a b more Hpow). simpl. lia.
  - rewrite (dt_chain true op false None a b more Hpow). reflexivity.
  - intros want. rewrite (dt_chain want op false None a b more Hpow), strip_par_when. cbn [strip].
    rewrite map_map. cbn [fst snd].
    pose proof (operands_walk (a :: b :: more) R) as Hw. cbn [map] in Hw.
    unfold mk_chain. cbn [map].
    destruct Hops as [[-> ->]|[[-> ->]|[[-> ->]|[-> ->]]]]; cbn [level_name level_keeps].
    + (* + *)
      assert (Hc : flat_map (fun p0 : string * ltree => [LTok (TSym (fst p0)); snd p0])
                     (("+", strip (dtree_of true b)) :: map (fun x : expr => ("+", strip (dtree_of true x))) more)
                   = inter "+" (map (fun x => strip (dtree_of true x)) (b :: more)))
        by exact (flat_map_keep "+" (b :: more) (fun x => strip (dtree_of true x))).
      rewrite Hc. clear Hc.
      rewrite (walk_kop_node "arith_expr" "+" _ _ (a :: b :: more)); [|simpl; tauto|reflexivity|discriminate|exact Hw].
      unfold mk_expr. rewrite Hkn. reflexivity.
    + (* * *)
      assert (Hc : flat_map (fun p0 : string * ltree => [LTok (TSym (fst p0)); snd p0])
                     (("*", strip (dtree_of true b)) :: map (fun x : expr => ("*", strip (dtree_of true x))) more)
                   = inter "*" (map (fun x => strip (dtree_of true x)) (b :: more)))
        by exact (flat_map_keep "*" (b :: more) (fun x => strip (dtree_of true x))).
      rewrite Hc. clear Hc.
      rewrite (walk_kop_node "term" "*" _ _ (a :: b :: more)); [|simpl; tauto|reflexivity|discriminate|exact Hw].
      unfold mk_expr. rewrite Hkn. reflexivity.
    + (* and *)
      assert (Hc : flat_map (fun p0 : string * ltree => [snd p0])
                     (("and", strip (dtree_of true b)) :: map (fun x : expr => ("and", strip (dtree_of true x))) more)
                   = map (fun x => strip (dtree_of true x)) (b :: more))
        by exact (flat_map_drop "and" (b :: more) (fun x => strip (dtree_of true x))).
      rewrite Hc. clear Hc.
      rewrite walk_node_eq, wn_and. cbn [map List.length Nat.ltb Nat.leb] in *. rewrite Hw.
      unfold mk_expr. rewrite Hkn. reflexivity.
    + (* or *)
      assert (Hc : flat_map (fun p0 : string * ltree => [snd p0])
                     (("or", strip (dtree_of true b)) :: map (fun x : expr => ("or", strip (dtree_of true x))) more)
                   = map (fun x => strip (dtree_of true x)) (b :: more))
        by exact (flat_map_drop "or" (b :: more) (fun x => strip (dtree_of true x))).
      rewrite Hc. clear Hc.
      rewrite walk_node_eq, wn_or. cbn [map List.length Nat.ltb Nat.leb] in *. rewrite Hw.
      unfold mk_expr. rewrite Hkn. reflexivity. Qed.

End RT.
