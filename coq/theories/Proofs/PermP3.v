(* C18, part 3: windowed extend over a permuted input.
   window_value_at: the value a windowed extend gives to the row at position i depends only on the CONTENT r of that row and on
   the sorted partition of r: it is the j-th value of the window function over that sorted partition, j a position of r in it.
   With an order-insensitive function (group aggregate) or an order that is strict inside each partition, that value is the
   same whatever the order of the input rows. *)
From Coq Require Import List Bool Arith ZArith QArith String Lia Permutation Sorted.
Import ListNotations.
From DA Require Import Base.PyRT Base.Val Model.Sem Model.PermGuard Proofs.SemBasicP Proofs.SemOrderP Proofs.PermP1.
Local Open Scope list_scope.

(* ---------- sorting pairs on their second component commutes with projecting it *)
Section SortMap.
  Context {A B : Type} (le : B -> B -> bool).
  Lemma insert_sorted_map_snd (x : A * B) l :
    map snd (insert_sorted (fun a b => le (snd a) (snd b)) x l) = insert_sorted le (snd x) (map snd l).
  Proof. induction l as [|y t IH]; simpl; [reflexivity|]. destruct (le (snd x) (snd y)); simpl; [reflexivity|]. rewrite IH. reflexivity. Qed.
  Lemma stable_sort_map_snd (l : list (A * B)) :
    map snd (stable_sort (fun a b => le (snd a) (snd b)) l) = stable_sort le (map snd l).
  Proof. induction l as [|x t IH]; simpl; [reflexivity|]. rewrite insert_sorted_map_snd, IH. reflexivity. Qed.
End SortMap.

(* ---------- tagged rows *)
Lemma filter_tag_snd (P : list val -> bool) rs : forall n, map snd (filter (fun ir => P (snd ir)) (tag_from n rs)) = filter P rs.
Proof. induction rs as [|r t IH]; intros n; simpl; [reflexivity|]. destruct (P r); simpl; rewrite IH; reflexivity. Qed.

Lemma tag_from_fst rs : forall n, map fst (tag_from n rs) = seq n (List.length rs).
Proof. induction rs as [|r t IH]; intros n; simpl; [reflexivity|]. rewrite IH. reflexivity. Qed.

Lemma tag_from_In_nth rs : forall n i r, In (i, r) (tag_from n rs) -> exists j, i = (n + j)%nat /\ nth_error rs j = Some r.
Proof.
  induction rs as [|x t IH]; intros n i r; simpl; [tauto|]. intros [E|I].
  - inversion E; subst. exists 0%nat. split; [lia|reflexivity].
  - destruct (IH _ _ _ I) as [j [-> Hj]]. exists (S j). split; [lia|exact Hj].
Qed.

Lemma NoDup_map_fst_filter {A B} (f : A * B -> bool) l : NoDup (map fst l) -> NoDup (map fst (filter f l)).
Proof.
  induction l as [|x t IH]; simpl; intros N; [constructor|]. inversion N as [|? ? Nx Nt]; subst.
  destruct (f x); simpl; [|apply IH, Nt]. constructor; [|apply IH, Nt].
  intros I. apply Nx. apply in_map_iff in I. destruct I as [y [E I]]. apply filter_In in I. apply in_map_iff. exists y. tauto.
Qed.

(* ---------- lookups by tag *)
Lemma lookup_pos_app l1 l2 i :
  lookup_pos (l1 ++ l2) i = match find (fun p : nat * val => Nat.eqb (fst p) i) l1 with Some p => snd p | None => lookup_pos l2 i end.
Proof. unfold lookup_pos. induction l1 as [|p t IH]; simpl; [reflexivity|]. destruct (Nat.eqb (fst p) i); [reflexivity|exact IH]. Qed.

Lemma find_tag_none (l : list (nat * val)) i : (forall p, In p l -> fst p <> i) -> find (fun p => Nat.eqb (fst p) i) l = None.
Proof.
  induction l as [|p t IH]; intros N; simpl; [reflexivity|].
  destruct (Nat.eqb (fst p) i) eqn:E; [apply Nat.eqb_eq in E; exfalso; apply (N p); [left; reflexivity|exact E]|].
  apply IH. intros q I. apply N. right. exact I.
Qed.

Lemma lookup_all_null (l : list (nat * val)) i : (forall p, In p l -> snd p = VNull) -> lookup_pos l i = VNull.
Proof. intros N. unfold lookup_pos. destruct (find _ l) as [p|] eqn:F; [|reflexivity]. apply find_some in F. apply N. tauto. Qed.

Lemma lookup_flat_map (G : list val -> list (nat * val)) groups i k0 :
  ForallOrdPairs (fun a b => keys_eqv a b = false) groups -> In k0 groups ->
  (forall k, In k groups -> keys_eqv k k0 = false -> forall p, In p (G k) -> fst p <> i) ->
  lookup_pos (flat_map G groups) i = lookup_pos (G k0) i.
Proof.
  induction 1 as [|a g Ha Hg IH]; intros I N; [destruct I|]. simpl. rewrite lookup_pos_app.
  rewrite Forall_forall in Ha. destruct I as [->|I].
  - assert (find (fun p : nat * val => Nat.eqb (fst p) i) (flat_map G g) = None) as F2.
    { apply find_tag_none. intros p Ip. apply in_flat_map in Ip. destruct Ip as [k [Ik Ipk]].
      apply (N k); [right; exact Ik| |exact Ipk]. rewrite keys_eqv_sym. apply Ha, Ik. }
    unfold lookup_pos. rewrite F2. destruct (find _ (G k0)); reflexivity.
  - rewrite (find_tag_none (G a) i).
    + apply IH; [exact I|]. intros k Ik. apply N. right. exact Ik.
    + apply N; [left; reflexivity|apply Ha, I].
Qed.

Lemma lookup_combine {B} (l : list (nat * B)) : forall vals i j x,
  NoDup (map fst l) -> nth_error l j = Some (i, x) -> lookup_pos (combine (map fst l) vals) i = nth j vals VNull.
Proof.
  induction l as [|[i0 x0] t IH]; intros vals i j x N E; [destruct j; discriminate|].
  destruct vals as [|v vs]; [destruct j; reflexivity|].
  simpl in N. inversion N as [|? ? Ni Nt]; subst. unfold lookup_pos. simpl.
  destruct j as [|j]; simpl in E.
  - inversion E; subst. rewrite Nat.eqb_refl. reflexivity.
  - assert (i0 <> i) as D.
    { intros ->. apply Ni. apply in_map_iff. exists (i, x). split; [reflexivity|]. eapply nth_error_In. exact E. }
    apply Nat.eqb_neq in D. rewrite D. apply (IH vs i j x Nt E).
Qed.

Lemma nth_map_const {A} (a : val) (l : list A) j : (j < List.length l)%nat -> nth j (map (fun _ => a) l) VNull = a.
Proof. revert j. induction l as [|x t IH]; intros [|j] L; simpl in *; try lia; [reflexivity|]. apply IH. lia. Qed.

Lemma keys_eqv_cong_l a b c : keys_eqv a b = true -> keys_eqv a c = keys_eqv b c.
Proof.
  intros E. destruct (keys_eqv a c) eqn:E1; destruct (keys_eqv b c) eqn:E2; try reflexivity.
  - rewrite keys_eqv_sym in E. rewrite (keys_eqv_trans _ _ _ E E1) in E2. discriminate.
  - rewrite (keys_eqv_trans _ _ _ E E2) in E1. discriminate.
Qed.

(* ---------- the value of a window expression at one row *)
Lemma window_value_at fl w t e op arg extra i r :
  win_parts e = Some (op, arg, extra) -> nth_error (rows t) i = Some r ->
  exists j, nth_error (sorted_part fl (cols t) w (rows t) r) j = Some r /\
            lookup_pos (window_column fl w t e) i
            = nth j (win_fn fl op extra (map (arg_val fl (cols t) arg) (sorted_part fl (cols t) w (rows t) r))) VNull.
Proof.
  intros WP Hr. unfold window_column. rewrite WP.
  set (cs := cols t). set (pb := w_part w).
  set (le2 := fun a b : nat * list val => row_le fl cs (map (fun c => (c, mem c (w_rev w))) (w_order w)) (snd a) (snd b)).
  set (sorted := fun k : list val => stable_sort le2 (filter (fun ir : nat * list val => keys_eqv k (key_of cs pb (snd ir))) (tag_from 0 (rows t)))).
  set (ev := fun ir : nat * list val => match arg with Some a => eval_expr fl cs (snd ir) a | None => VBool true end).
  set (G := fun k : list val => combine (map fst (sorted k)) (win_fn fl op extra (map ev (sorted k)))).
  change (exists j, nth_error (sorted_part fl cs w (rows t) r) j = Some r /\
                    lookup_pos (flat_map G (distinct_keys (map (fun r0 => key_of cs pb r0) (rows t)))) i
                    = nth j (win_fn fl op extra (map (arg_val fl cs arg) (sorted_part fl cs w (rows t) r))) VNull).
  assert (In r (rows t)) as Ir by (eapply nth_error_In; exact Hr).
  destruct (distinct_keys_complete (map (fun r0 => key_of cs pb r0) (rows t)) (key_of cs pb r)) as [k0 [Ik0 E0]].
  { apply in_map_iff. exists r. split; [reflexivity|exact Ir]. }
  assert (forall k, Permutation (sorted k) (filter (fun ir : nat * list val => keys_eqv k (key_of cs pb (snd ir))) (tag_from 0 (rows t)))) as PS
      by (intros k; apply stable_sort_perm).
  rewrite (lookup_flat_map G _ i k0 (distinct_keys_pairwise _) Ik0).
  2:{ intros k Ik Nk p Ip Efst. unfold G in Ip. destruct p as [i1 v1]. simpl in Efst. subst i1.
      apply in_combine_l in Ip. apply in_map_iff in Ip. destruct Ip as [[i2 r2] [Ei Ip]]. simpl in Ei. subst i2.
      apply (Permutation_in _ (PS k)) in Ip. apply filter_In in Ip. destruct Ip as [It Ek]. simpl in Ek.
      apply tag_from_In_nth in It. destruct It as [j [Ej Hj]]. simpl in Ej. subst j.
      rewrite Hr in Hj. inversion Hj; subst r2.
      rewrite keys_eqv_sym in E0. rewrite (keys_eqv_trans _ _ _ Ek E0) in Nk. discriminate. }
  (* the row itself sits in the sorted partition of its key *)
  assert (In (i, r) (sorted k0)) as Is.
  { apply (Permutation_in _ (Permutation_sym (PS k0))). apply filter_In. split; [|exact E0].
    pose proof (tag_from_nth_error 0 _ _ _ Hr) as T. simpl in T. eapply nth_error_In. exact T. }
  destruct (In_nth_error _ _ Is) as [j Hj]. exists j.
  assert (map snd (sorted k0) = sorted_part fl cs w (rows t) r) as MS.
  { unfold sorted, le2. rewrite (stable_sort_map_snd (row_le fl cs (map (fun c => (c, mem c (w_rev w))) (w_order w)))).
    rewrite (filter_tag_snd (fun r2 => keys_eqv k0 (key_of cs pb r2))).
    unfold sorted_part, part_rows, okeys_of. f_equal. apply filter_ext_in'. intros x _. apply keys_eqv_cong_l, E0. }
  split.
  - rewrite <- MS. apply (map_nth_error snd _ _ Hj).
  - unfold G. rewrite (lookup_combine (sorted k0) _ i j r); [|..|exact Hj].
    + f_equal. f_equal. rewrite <- MS, map_map. reflexivity.
    + apply (Permutation_NoDup (Permutation_map fst (Permutation_sym (PS k0)))).
      apply NoDup_map_fst_filter. rewrite tag_from_fst. apply seq_NoDup.
Qed.

Lemma window_value_no_parts fl w t e i : win_parts e = None -> lookup_pos (window_column fl w t e) i = VNull.
Proof.
  intros WP. apply lookup_all_null. intros p Ip. unfold window_column in Ip. rewrite WP in Ip.
  apply in_flat_map in Ip. destruct Ip as [k [_ Ip]]. apply in_map_iff in Ip. destruct Ip as [ir [<- _]]. reflexivity.
Qed.

(* ---------- the guard: strict order inside each partition *)
Definition window_total (fl : flavor) (cs : list string) (w : window) (rs : list (list val)) : Prop :=
  forall r, In r rs -> NoDup (part_rows cs (w_part w) rs r) /\ total_on fl cs (okeys_of w) (part_rows cs (w_part w) rs r).

Lemma part_rows_perm cs pb rs rs' r : Permutation rs rs' -> Permutation (part_rows cs pb rs r) (part_rows cs pb rs' r).
Proof. intros P. apply perm_filter, P. Qed.

Lemma window_value_perm fl w t t' e i i' r :
  cols t = cols t' -> Permutation (rows t) (rows t') ->
  (expr_order_sensitive e = true -> window_total fl (cols t) w (rows t)) ->
  nth_error (rows t) i = Some r -> nth_error (rows t') i' = Some r ->
  lookup_pos (window_column fl w t e) i = lookup_pos (window_column fl w t' e) i'.
Proof.
  intros C P G Hr Hr'. unfold expr_order_sensitive in G.
  destruct (win_parts e) as [[[op arg] extra]|] eqn:WP; [|rewrite !window_value_no_parts; auto].
  destruct (window_value_at fl w t e op arg extra i r WP Hr) as [j [Hj ->]].
  destruct (window_value_at fl w t' e op arg extra i' r WP Hr') as [j' [Hj' ->]].
  rewrite <- C in *.
  assert (In r (rows t)) as Ir by (eapply nth_error_In; exact Hr).
  pose proof (part_rows_perm (cols t) (w_part w) _ _ r P) as PP.
  destruct (order_sensitive op) eqn:S.
  - destruct (G eq_refl r Ir) as [ND TO].
    assert (sorted_part fl (cols t) w (rows t) r = sorted_part fl (cols t) w (rows t') r) as ES.
    { unfold sorted_part. apply stable_sort_perm_invariant; [intros; apply row_le_total|intros; eapply row_le_trans; eassumption|exact PP|exact TO]. }
    rewrite <- ES in *.
    assert (NoDup (sorted_part fl (cols t) w (rows t) r)) as NS.
    { unfold sorted_part. apply (Permutation_NoDup (Permutation_sym (stable_sort_perm _ _))). exact ND. }
    assert (j = j') as ->; [|reflexivity].
    apply (proj1 (NoDup_nth_error _) NS); [apply nth_error_Some; congruence|congruence].
  - rewrite !win_fn_broadcast by exact S.
    rewrite !nth_map_const by (rewrite map_length; apply nth_error_Some; congruence).
    apply agg_fn_perm, Permutation_map. unfold sorted_part.
    eapply perm_trans; [apply stable_sort_perm|]. eapply perm_trans; [exact PP|]. apply Permutation_sym, stable_sort_perm.
Qed.

(* ---------- rows tagged with positions, mapped by a function that only looks at the content *)
Fixpoint pos_of (r : list val) (l : list (list val)) : option nat :=
  match l with [] => None | x :: t => if eq_dec r x then Some 0%nat else option_map S (pos_of r t) end.
Lemma pos_of_In r l : In r l -> exists i, pos_of r l = Some i /\ nth_error l i = Some r.
Proof.
  induction l as [|x t IH]; simpl; [tauto|]. intros I. destruct (eq_dec r x) as [->|N].
  - exists 0%nat. split; reflexivity.
  - destruct I as [E|I]; [congruence|]. destruct (IH I) as [i [E1 E2]]. exists (S i). rewrite E1. split; [reflexivity|exact E2].
Qed.

Lemma map_tag_eq {B} (f : nat * list val -> B) (g : list val -> B) rs : forall n,
  (forall i r, nth_error rs i = Some r -> f ((n + i)%nat, r) = g r) -> map f (tag_from n rs) = map g rs.
Proof.
  induction rs as [|x t IH]; intros n E; simpl; [reflexivity|]. f_equal.
  - rewrite <- (E 0%nat x eq_refl). rewrite Nat.add_0_r. reflexivity.
  - apply IH. intros i r Hi. rewrite <- (E (S i) r Hi). f_equal. f_equal. lia.
Qed.

Lemma map_tag_perm {B} (d : B) (f f' : nat * list val -> B) rs rs' :
  Permutation rs rs' ->
  (forall i i' r, nth_error rs i = Some r -> nth_error rs' i' = Some r -> f (i, r) = f' (i', r)) ->
  Permutation (map f (tag_from 0 rs)) (map f' (tag_from 0 rs')).
Proof.
  intros P E.
  set (g := fun r => match pos_of r rs with Some i => f (i, r) | None => d end).
  assert (map f (tag_from 0 rs) = map g rs) as E1.
  { apply map_tag_eq. intros i r Hi. simpl. unfold g.
    assert (In r rs) as Ir by (eapply nth_error_In; exact Hi).
    destruct (pos_of_In r rs Ir) as [i0 [-> H0]].
    assert (In r rs') as Ir' by (eapply Permutation_in; eassumption).
    destruct (In_nth_error _ _ Ir') as [i' Hi'].
    rewrite (E i i' r Hi Hi'), (E i0 i' r H0 Hi'). reflexivity. }
  assert (map f' (tag_from 0 rs') = map g rs') as E2.
  { apply map_tag_eq. intros i' r Hi'. simpl. unfold g.
    assert (In r rs) as Ir by (eapply Permutation_in; [apply Permutation_sym, P|eapply nth_error_In; exact Hi']).
    destruct (pos_of_In r rs Ir) as [i0 [-> H0]]. symmetry. apply E; assumption. }
  rewrite E1, E2. apply Permutation_map, P.
Qed.

(* ---------- windowed extend *)
Lemma wextend_perm fl ops w t t' :
  cols t = cols t' -> Permutation (rows t) (rows t') ->
  (ops_order_sensitive ops = true -> window_total fl (cols t) w (rows t)) ->
  cols (sem_wextend fl ops w t) = cols (sem_wextend fl ops w t')
  /\ Permutation (rows (sem_wextend fl ops w t)) (rows (sem_wextend fl ops w t')).
Proof.
  intros C P G. unfold sem_wextend. cbn [cols rows]. split; [rewrite C; reflexivity|].
  apply (map_tag_perm []); [exact P|]. intros i i' r Hi Hi'. cbn [fst snd]. f_equal.
  rewrite !fold_left_map_in. rewrite <- C. apply fold_left_ext_in.
  intros [row ccs] ke Ike. cbn [fst snd]. f_equal. f_equal.
  apply (window_value_perm fl w t t' (snd ke) i i' r C P); [|exact Hi|exact Hi'].
  intros S. apply G. unfold ops_order_sensitive. apply existsb_exists. exists ke. split; assumption.
Qed.
