(* Proofs about Model/Cache.v -- statements to prove (each currently ends in Abort). *)
From Coq Require Import List Bool Arith String Lia Permutation.
Import ListNotations.
From DA Require Import Base.PyRT Model.Cache.

Section P.
Context {F : Type} `{EqDec F} (hash : F -> string) (sort_keys : list string -> list string).
Hypothesis hash_inj : forall a b, hash a = hash b -> a = b.                    (* hash_data_frame separates different frames *)
Hypothesis sort_perm : forall l, Permutation (sort_keys l) l.                   (* list.sort: a permutation ... *)
Hypothesis sort_canon : forall l l', Permutation l l' -> sort_keys l = sort_keys l'.   (* ... that depends on the set of keys only *)
Notation make_key := (make_key hash sort_keys).
Notation c_step := (c_step hash sort_keys).
Notation a_step := (a_step hash sort_keys).

(* ---- auxiliary: looking a key up in the third component of a cache key *)
Lemma key_third_get (dm : pydict string F) k :
  dict_get (flat_map (fun k => match dict_get dm k with Some f => [(k, hash f)] | None => [] end)
                     (sort_keys (dict_keys dm))) k
  = option_map hash (dict_get dm k).
Proof.
  set (dh := map (fun kv : string * F => (fst kv, hash (snd kv))) dm).
  assert (forall ks, flat_map (fun k => match dict_get dm k with Some f => [(k, hash f)] | None => [] end) ks
                   = flat_map (fun k => match dict_get dh k with Some v => [(k, v)] | None => [] end) ks) as X.
  { intros ks. apply flat_map_ext. intros a. unfold dh. rewrite dict_get_map_val.
    destruct (dict_get dm a); reflexivity. }
  rewrite X, dict_get_restrict_list. unfold dh. rewrite dict_get_map_val.
  destruct (mem k (sort_keys (dict_keys dm))) eqn:M; [reflexivity|].
  apply mem_false in M.
  assert (~ In k (dict_keys dm)) as M'.
  { intros I. apply M. apply (Permutation_in k (Permutation_sym (sort_perm (dict_keys dm)))). exact I. }
  apply dict_get_None in M'. rewrite M'. reflexivity.
Qed.

(* data maps that differ anywhere never share a key *)
Lemma key_injective name sql name' sql' (dm dm' : pydict string F) :
  NoDup (dict_keys dm) -> NoDup (dict_keys dm') ->
  make_key name sql dm = make_key name' sql' dm' ->
  name = name' /\ sql = sql' /\ forall k, dict_get dm k = dict_get dm' k.
Proof.
  intros _ _ E. unfold Cache.make_key in E. injection E as En Es Et.
  split; [exact En|]. split; [exact Es|]. intros k.
  pose proof (key_third_get dm k) as A. pose proof (key_third_get dm' k) as B.
  rewrite Et in A. rewrite A in B.
  destruct (dict_get dm k) as [f|], (dict_get dm' k) as [f'|]; simpl in B; try congruence.
  injection B as B. apply hash_inj in B. congruence.
Qed.

(* equal data maps (as maps, whatever their insertion order) get the same key *)
Lemma key_deterministic name sql (dm dm' : pydict string F) :
  NoDup (dict_keys dm) -> NoDup (dict_keys dm') ->
  (forall k, dict_get dm k = dict_get dm' k) -> make_key name sql dm = make_key name sql dm'.
Proof.
  intros N N' E. unfold Cache.make_key. f_equal.
  assert (Permutation (dict_keys dm) (dict_keys dm')) as P.
  { apply NoDup_Permutation; try assumption. intros k. split; intros I.
    - destruct (in_dec eq_dec k (dict_keys dm')) as [i|n]; [exact i|]. apply dict_get_None in n.
      rewrite <- E in n. apply dict_get_None in n. contradiction.
    - destruct (in_dec eq_dec k (dict_keys dm)) as [i|n]; [exact i|]. apply dict_get_None in n.
      rewrite E in n. apply dict_get_None in n. contradiction. }
  rewrite (sort_canon _ _ P). apply flat_map_ext. intros k. rewrite E. reflexivity.
Qed.

(* ---- auxiliary: the simulation relation between the concrete and the abstract machine *)
Lemma set_nth_length {A} i (v : A) l : List.length (set_nth i v l) = List.length l.
Proof. revert i. induction l as [|x t IH]; intros [|i]; simpl; auto. Qed.

Lemma nth_error_set_nth_other {A} i j (v : A) l : i <> j -> nth_error (set_nth i v l) j = nth_error l j.
Proof. revert i j. induction l as [|x t IH]; intros [|i] [|j] N; simpl; auto; congruence. Qed.

Definition cell_ok (owned : list loc) (h : list F) (ol : option loc) (ov : option F) : Prop :=
  match ol, ov with
  | Some l, Some v => nth_error h l = Some v /\ ~ In l owned
  | None, None => True
  | _, _ => False
  end.

Definition R (owned : list loc) (cs : cstate) (s2 : astate) : Prop :=
  heap cs = aheap s2 /\
  (forall k, cell_ok owned (heap cs) (dict_get (cache cs) k) (dict_get (acache s2) k)) /\
  (forall l, In l owned -> l < List.length (heap cs)).

Lemma cell_app owned h x ol ov : cell_ok owned h ol ov -> cell_ok owned (h ++ [x]) ol ov.
Proof.
  destruct ol as [l|], ov as [v|]; simpl; auto. intros [E N]. split; [|exact N].
  rewrite nth_error_app1; [exact E|]. apply nth_error_Some. congruence.
Qed.

Lemma cell_own owned h n ol ov : List.length h <= n -> cell_ok owned h ol ov -> cell_ok (n :: owned) h ol ov.
Proof.
  destruct ol as [l|], ov as [v|]; simpl; auto. intros L [E N]. split; [exact E|].
  assert (l < List.length h) by (apply nth_error_Some; congruence).
  intros [e|i]; [lia|contradiction].
Qed.

Lemma cell_set_nth owned h l0 f ol ov : In l0 owned -> cell_ok owned h ol ov -> cell_ok owned (set_nth l0 f h) ol ov.
Proof.
  destruct ol as [l|], ov as [v|]; simpl; auto. intros I [E N]. split; [|exact N].
  rewrite nth_error_set_nth_other; [exact E|]. intros ->. contradiction.
Qed.

Lemma nth_error_snoc {A} (h : list A) x : nth_error (h ++ [x]) (List.length h) = Some x.
Proof. rewrite nth_error_app2 by lia. rewrite Nat.sub_diag. reflexivity. Qed.

(* growing the heap by a cell handed to the caller *)
Lemma R_alloc_owned owned h c d d' c2 x :
  R owned (mkc h c d) (mka h c2) ->
  R (List.length h :: owned) (mkc (h ++ [x]) c d') (mka (h ++ [x]) c2).
Proof.
  intros (_ & Hc & Ho). simpl in *. split; [reflexivity|]. simpl. split.
  - intros k. apply cell_app, cell_own; [lia|apply Hc].
  - intros l [<-|I]; rewrite app_length; simpl; [lia|]. specialize (Ho l I). lia.
Qed.

(* growing the heap by a private cell recorded in the cache *)
Lemma R_alloc_private owned h c d d' c2 x k :
  R owned (mkc h c d) (mka h c2) ->
  R owned (mkc (h ++ [x]) (dict_set c k (List.length h)) d') (mka (h ++ [x]) (dict_set c2 k x)).
Proof.
  intros (_ & Hc & Ho). simpl in *. split; [reflexivity|]. simpl. split.
  - intros k'. destruct (eq_dec k' k) as [->|n].
    + rewrite !dict_get_set_same. simpl. split; [apply nth_error_snoc|].
      intros I. specialize (Ho _ I). lia.
    + rewrite !dict_get_set_other by exact n. apply cell_app, Hc.
  - intros l I. rewrite app_length; simpl. specialize (Ho l I). lia.
Qed.

Lemma step_sim owned cs s2 o :
  R owned cs s2 -> mutates_only owned o = true ->
  snd (c_step cs o) = snd (a_step s2 o) /\
  R (match snd (c_step cs o) with RLoc l => l :: owned | _ => owned end) (fst (c_step cs o)) (fst (a_step s2 o)).
Proof.
  intros HR Hm. destruct cs as [h c d], s2 as [h2 c2].
  assert (h2 = h) as -> by (destruct HR as (E & _); simpl in E; congruence).
  pose proof HR as (_ & Hc & Ho). simpl in Hc, Ho.
  destruct o as [f|l f|name sql dm res|name sql dm|l]; unfold Cache.c_step, Cache.a_step; simpl heap; simpl aheap;
    simpl cache; simpl acache; simpl dirty.
  - simpl. split; [reflexivity|]. apply R_alloc_owned with (d := d). exact HR.
  - simpl in Hm. apply mem_In in Hm.
    destruct (Nat.ltb l (List.length h)); simpl; [|split; [reflexivity|exact HR]].
    split; [reflexivity|]. split; [reflexivity|]. simpl. split.
    + intros k. apply cell_set_nth; [exact Hm|apply Hc].
    + intros l0 I. rewrite set_nth_length. apply Ho, I.
  - destruct (resolve h dm) as [m|]; [|simpl; split; [reflexivity|exact HR]].
    destruct (nth_error h res) as [r|]; [|simpl; split; [reflexivity|exact HR]].
    pose proof (Hc (make_key name sql m)) as Hk. unfold cell_ok in Hk.
    destruct (dict_get c (make_key name sql m)) as [pl|], (dict_get c2 (make_key name sql m)) as [v|]; try contradiction.
    + destruct Hk as [E N]. rewrite E. destruct (eqb v r); simpl.
      * split; [reflexivity|exact HR].
      * split; [reflexivity|]. apply R_alloc_private with (d := d). exact HR.
    + simpl. split; [reflexivity|]. apply R_alloc_private with (d := d). exact HR.
  - destruct (resolve h dm) as [m|]; [|simpl; split; [reflexivity|exact HR]].
    pose proof (Hc (make_key name sql m)) as Hk. unfold cell_ok in Hk.
    destruct (dict_get c (make_key name sql m)) as [pl|], (dict_get c2 (make_key name sql m)) as [v|]; try contradiction.
    + destruct Hk as [E N]. rewrite E. simpl. split; [reflexivity|]. apply R_alloc_owned with (d := d). exact HR.
    + simpl. split; [reflexivity|exact HR].
  - destruct (nth_error h l); simpl; (split; [reflexivity|exact HR]).
Qed.

Lemma refine_gen ops : forall cs s2 owned,
  R owned cs s2 -> well_behaved hash sort_keys cs owned ops = true ->
  run_c hash sort_keys cs ops = run_a hash sort_keys s2 ops.
Proof.
  induction ops as [|o t IH]; intros cs s2 owned HR W; simpl in *; [reflexivity|].
  apply andb_true_iff in W as [Hm W].
  pose proof (step_sim owned cs s2 o HR Hm) as [Eo HR'].
  destruct (c_step cs o) as [cs' r]. destruct (a_step s2 o) as [s2' r'].
  simpl in *. subst r'. f_equal. eapply IH; eassumption.
Qed.

(* refinement: as long as the caller only mutates frames it was handed (results of CNew / CGet), the cache with
   private copies behaves exactly like a map from keys to frame VALUES: same outputs, operation by operation *)
Lemma cache_refines_value_map (ops : list cop) :
  well_behaved hash sort_keys c_init [] ops = true ->
  run_c hash sort_keys c_init ops = run_a hash sort_keys a_init ops.
Proof.
  intros W. apply (refine_gen ops c_init a_init []); [|exact W].
  split; [reflexivity|]. split; [intros k; exact I | intros l []].
Qed.

(* a lookup succeeds only after a store under an equal key, and returns (a copy of) the latest stored value *)
Lemma a_get_spec (s : astate) name sql dm m :
  resolve (aheap s) dm = Some m ->
  snd (a_step s (CGet name sql dm)) =
    match dict_get (acache s) (make_key name sql m) with Some r => RLoc (List.length (aheap s)) | None => RKeyError end
  /\ (forall r, dict_get (acache s) (make_key name sql m) = Some r ->
        nth_error (aheap (fst (a_step s (CGet name sql dm)))) (List.length (aheap s)) = Some r).
Proof.
  intros E. unfold Cache.a_step. rewrite E.
  destruct (dict_get (acache s) (make_key name sql m)) as [r|]; simpl.
  - split; [reflexivity|]. intros r0 [= <-]. rewrite nth_error_app2 by lia. rewrite Nat.sub_diag. reflexivity.
  - split; [reflexivity|]. intros r0 [=].
Qed.

Lemma a_store_spec (s : astate) name sql dm res m r :
  resolve (aheap s) dm = Some m -> nth_error (aheap s) res = Some r ->
  dict_get (acache (fst (a_step s (CStore name sql dm res)))) (make_key name sql m) = Some r /\
  forall k, k <> make_key name sql m -> dict_get (acache (fst (a_step s (CStore name sql dm res)))) k = dict_get (acache s) k.
Proof.
  intros E E2. unfold Cache.a_step. rewrite E, E2.
  destruct (dict_get (acache s) (make_key name sql m)) as [prev|] eqn:G; simpl.
  - destruct (eqb prev r) eqn:Q; simpl.
    + apply (proj1 (eqb_true prev r)) in Q. subst prev. split; [exact G|reflexivity].
    + split; [apply dict_get_set_same | intros k n; apply dict_get_set_other, n].
  - split; [apply dict_get_set_same | intros k n; apply dict_get_set_other, n].
Qed.

(* mutating caller frames and reading never touch the abstract cache *)
Lemma a_cache_only_changed_by_store (s : astate) o :
  (forall name sql dm res, o <> CStore name sql dm res) -> acache (fst (a_step s o)) = acache s.
Proof.
  intros N. destruct o as [f|l f|name sql dm res|name sql dm|l]; simpl.
  - reflexivity.
  - destruct (Nat.ltb l (List.length (aheap s))); reflexivity.
  - exfalso. exact (N name sql dm res eq_refl).
  - destruct (resolve (aheap s) dm) as [m|]; [|reflexivity].
    destruct (dict_get (acache s) (make_key name sql m)); reflexivity.
  - destruct (nth_error (aheap s) l); reflexivity.
Qed.
End P.

