(* C12, part 5: lemmas about the pieces of Model/PipePrint.v -- the two expression types (to_e / of_e), Python dict
   displays with distinct keys, evaluation of the literal syntax the printers emit. *)
From Coq Require Import List Bool String Ascii ZArith NArith QArith Arith Lia.
Import ListNotations.
From DA Require Import Base.PyRT Model.Equiv Gen.G_MergeOps Proofs.EquivP1 Proofs.EquivP2.
From DA Require Import Model.PyExpr Model.ExprPrint Model.ExprParse Model.ExprRoundtrip Model.PipePrintStr Model.PipePrintSyn Model.PipePrint.
Local Close Scope Q_scope.
Local Open Scope string_scope.
Local Open Scope bool_scope.
Local Open Scope list_scope.

(* ------------------------------------------------------------------ mapM *)
Lemma mapM_map {A B C} (f : B -> option C) (g : A -> B) (l : list A) : mapM f (map g l) = mapM (fun x => f (g x)) l.
Proof. induction l as [|x t IH]; simpl; [reflexivity|]. rewrite IH. reflexivity. Qed.
Lemma mapM_ext {A B} (f g : A -> option B) (l : list A) : (forall x, In x l -> f x = g x) -> mapM f l = mapM g l.
Proof. induction l as [|x t IH]; intros H; simpl; [reflexivity|]. rewrite (H x (or_introl eq_refl)), IH; [reflexivity|].
  intros y Hy. apply H. right. exact Hy. Qed.
Lemma mapM_Some {A} (l : list A) : mapM (@Some A) l = Some l.
Proof. induction l as [|x t IH]; simpl; [reflexivity|]. rewrite IH. reflexivity. Qed.
Lemma mapM_some_map {A B} (f : A -> B) (l : list A) : mapM (fun x => Some (f x)) l = Some (map f l).
Proof. induction l as [|x t IH]; simpl; [reflexivity|]. rewrite IH. reflexivity. Qed.
Lemma mapM_inv {A B} (f : A -> option B) (l : list A) (r : list B) :
  mapM f l = Some r -> Forall2 (fun x y => f x = Some y) l r.
Proof. revert r. induction l as [|x t IH]; intros r H; simpl in H.
  - inversion H. constructor.
  - destruct (f x) as [y|] eqn:Fx; [|discriminate]. destruct (mapM f t) as [ys|] eqn:Ft; [|discriminate].
    inversion H; subst. constructor; [exact Fx|apply IH; reflexivity]. Qed.
Lemma mapM_of_Forall2 {A B} (f : A -> option B) (l : list A) (r : list B) :
  Forall2 (fun x y => f x = Some y) l r -> mapM f l = Some r.
Proof. induction 1 as [|x y l r Hxy _ IH]; simpl; [reflexivity|]. rewrite Hxy, IH. reflexivity. Qed.

(* ------------------------------------------------------------------ constants and expressions *)
Lemma of_to_const k v : to_const k = Some v -> of_const v = Some k.
Proof. destruct k as [|b|z|q| |s]; simpl; intros H; inversion H; subst; simpl; try reflexivity.
  destruct q as [n d]. simpl. destruct (Z.ltb n 0) eqn:L; f_equal; f_equal; f_equal.
  - apply Z.ltb_lt in L. rewrite Z.abs_neq by lia. lia.
  - apply Z.ltb_ge in L. rewrite Z.abs_eq by lia. reflexivity. Qed.

Lemma of_to_consts ks vs : mapM to_const ks = Some vs -> mapM of_const vs = Some ks.
Proof. intros H. apply mapM_inv in H. apply mapM_of_Forall2.
  induction H as [|k v ks vs Hkv _ IH]; constructor; [exact (of_to_const k v Hkv)|exact IH]. Qed.

(* the nested fixpoints of to_e / of_e as list functions *)
Lemma to_e_op op i m args :
  to_e (POp op i m args) = option_map (EOp op i m None) (mapM to_e args).
Proof. simpl. f_equal. induction args as [|a t IH]; simpl; [reflexivity|]. rewrite IH. reflexivity. Qed.
Lemma of_e_op op i m args :
  of_e (EOp op i m None args) = option_map (POp op i m) (mapM of_e args).
Proof. simpl. f_equal. induction args as [|a t IH]; simpl; [reflexivity|]. rewrite IH. reflexivity. Qed.

Lemma of_to_e x : forall e, to_e x = Some e -> boxed x = true -> of_e e = Some x.
Proof. induction x as [c|k|w xs|o i m args IH] using pexpr_ind'; intros e H B.
  - inversion H. reflexivity.
  - simpl in H. destruct (to_const k) as [v|] eqn:K; [|discriminate]. inversion H. simpl. rewrite (of_to_const k v K). reflexivity.
  - simpl in H, B. subst w. destruct (mapM to_const xs) as [vs|] eqn:K; [|discriminate]. inversion H. simpl.
    rewrite (of_to_consts xs vs K). reflexivity.
  - rewrite to_e_op in H. destruct (mapM to_e args) as [es|] eqn:K; [|discriminate]. inversion H; subst e.
    rewrite of_e_op. simpl in B.
    assert (M : mapM of_e es = Some args).
    { clear H. apply mapM_inv in K. apply mapM_of_Forall2. revert B IH. induction K as [|a e' args es Hae _ IHK]; intros B IH; [constructor|].
      simpl in B. apply andb_true_iff in B. destruct B as [Ba Bt]. inversion IH as [|? ? IHa IHt]; subst.
      constructor; [exact (IHa e' Hae Ba)|exact (IHK Bt IHt)]. }
    rewrite M. reflexivity. Qed.

(* ------------------------------------------------------------------ dict displays with distinct keys *)
Section DictDistinct.
  Context {V : Type}.
  Lemma dict_set_fresh (d : pydict string V) k v : ~ In k (map fst d) -> dict_set d k v = d ++ [(k, v)].
  Proof. induction d as [|[k' v'] t IH]; simpl; intros N; [reflexivity|].
    destruct (eq_dec k k') as [->|Ne]; [exfalso; apply N; left; reflexivity|]. rewrite IH; [reflexivity|]. intros I. apply N. right. exact I. Qed.
  Lemma dict_update_fresh (l acc : pydict string V) :
    NoDup (map fst l) -> (forall k, In k (map fst l) -> ~ In k (map fst acc)) -> dict_update acc l = acc ++ l.
  Proof. unfold dict_update. revert acc. induction l as [|[k v] t IH]; intros acc N F; simpl; [rewrite app_nil_r; reflexivity|].
    inversion N as [|? ? Nk Nt]; subst. rewrite dict_set_fresh by (apply F; left; reflexivity).
    rewrite IH; [rewrite <- app_assoc; reflexivity|exact Nt|].
    intros k' Hk' I. rewrite map_app in I. apply in_app_or in I. destruct I as [I|[E|[]]].
    - apply (F k'); [right; exact Hk'|exact I].
    - simpl in E. subst k'. apply Nk. exact Hk'. Qed.
  Lemma dict_of_list_distinct (l : pydict string V) : NoDup (map fst l) -> dict_of_list l = l.
  Proof. intros N. unfold dict_of_list. rewrite dict_update_fresh; [reflexivity|exact N|]. intros k _ []. Qed.
End DictDistinct.

Lemma nodups_NoDup (l : list string) : nodups l = true <-> NoDup l.
Proof. unfold nodups. apply nodupb_NoDup. Qed.

(* ------------------------------------------------------------------ evaluating literal syntax *)
Section Eval.
Variable E : penv.
(* the string-literal layer (Proofs/PipePrintP1.py_unquote_repr, handed in by Props/C12.v) *)
Hypothesis unq : forall s, py_unquote (py_repr (e_np E) s) = Some s.

Lemma eval_atom_str l : eval_syn E (SAtom (TkStr l)) = option_map YStr (py_unquote l).
Proof. reflexivity. Qed.
Lemma eval_str s : eval_syn E (str_syn E s) = Some (YStr s).
Proof. unfold str_syn. rewrite eval_atom_str, unq. reflexivity. Qed.

Lemma eval_list xs :
  eval_syn E (SList xs) = option_map YList (mapM (eval_syn E) xs).
Proof. simpl. f_equal. induction xs as [|x t IH]; simpl; [reflexivity|]. rewrite IH. reflexivity. Qed.
Lemma eval_tuple xs :
  eval_syn E (STuple xs) = option_map YTuple (mapM (eval_syn E) xs).
Proof. simpl. f_equal. induction xs as [|x t IH]; simpl; [reflexivity|]. rewrite IH. reflexivity. Qed.
Lemma eval_dict tr kvs :
  eval_syn E (SDict tr kvs) =
  option_map YDict (mapM (fun kv => match eval_syn E (fst kv), eval_syn E (snd kv) with Some k, Some v => Some (k, v) | _, _ => None end) kvs).
Proof. simpl. f_equal. induction kvs as [|kv t IH]; simpl; [reflexivity|]. rewrite IH.
  destruct (eval_syn E (fst kv)), (eval_syn E (snd kv)); reflexivity. Qed.
Definition eval_args (args : list (option string * syn)) : option args_t :=
  mapM (fun a => option_map (fun v => (fst a, v)) (eval_syn E (snd a))) args.
Lemma eval_call path args :
  eval_syn E (SCall path args) = match eval_args args with Some a => call_global path a | None => None end.
Proof. simpl. unfold eval_args.
  replace ((fix go (l : list (option string * syn)) : option args_t :=
      match l with
      | [] => Some []
      | a :: t => match eval_syn E (snd a), go t with Some v, Some vs => Some ((fst a, v) :: vs) | _, _ => None end
      end) args) with (mapM (fun a => option_map (fun v => (fst a, v)) (eval_syn E (snd a))) args); [reflexivity|].
  induction args as [|a t IH]; simpl; [reflexivity|]. rewrite IH. destruct (eval_syn E (snd a)); reflexivity. Qed.
Lemma eval_meth recv m args :
  eval_syn E (SMeth recv m args) =
  match eval_syn E recv, eval_args args with
  | Some (YOp p), Some a => option_map YOp (call_method_op E p m a)
  | _, _ => None
  end.
Proof. simpl. unfold eval_args.
  replace ((fix go (l : list (option string * syn)) : option args_t :=
      match l with
      | [] => Some []
      | a :: t => match eval_syn E (snd a), go t with Some v, Some vs => Some ((fst a, v) :: vs) | _, _ => None end
      end) args) with (mapM (fun a => option_map (fun v => (fst a, v)) (eval_syn E (snd a))) args); [reflexivity|].
  induction args as [|a t IH]; simpl; [reflexivity|]. rewrite IH. destruct (eval_syn E (snd a)); reflexivity. Qed.

Lemma eval_strs l : eval_syn E (strs_syn E l) = Some (YList (map YStr l)).
Proof. unfold strs_syn. rewrite eval_list, mapM_map.
  rewrite (mapM_ext _ (fun s => Some (YStr s))) by (intros; apply eval_str). rewrite mapM_some_map. reflexivity. Qed.
Lemma as_strs_list l : as_strs (YList (map YStr l)) = Some l.
Proof. simpl. rewrite mapM_map. simpl. apply mapM_Some. Qed.
Lemma as_strs1_list l : as_strs1 (YList (map YStr l)) = Some l.
Proof. unfold as_strs1. apply as_strs_list. Qed.

(* a dict display whose keys are printed strings *)
Lemma eval_sdict tr (kvs : list (string * syn)) (vs : list (string * pyv)) :
  Forall2 (fun kv kw => fst kv = fst kw /\ eval_syn E (snd kv) = Some (snd kw)) kvs vs ->
  eval_syn E (SDict tr (map (fun kv => (str_syn E (fst kv), snd kv)) kvs)) = Some (YDict (map (fun kw => (YStr (fst kw), snd kw)) vs)).
Proof. intros H. rewrite eval_dict, mapM_map. cbn [fst snd].
  assert (M : mapM (fun x : string * syn => match eval_syn E (str_syn E (fst x)), eval_syn E (snd x) with
                                          | Some k, Some v => Some (k, v) | _, _ => None end) kvs
              = Some (map (fun kw => (YStr (fst kw), snd kw)) vs)).
  { induction H as [|kv kw kvs vs [Hk Hv] _ IH]; [reflexivity|]. cbn [mapM map]. rewrite eval_str, Hv, IH, Hk. reflexivity. }
  rewrite M. reflexivity. Qed.
Lemma as_sdict_distinct (vs : list (string * pyv)) :
  NoDup (map fst vs) -> as_sdict (YDict (map (fun kw => (YStr (fst kw), snd kw)) vs)) = Some vs.
Proof. intros N. simpl. rewrite mapM_map. simpl.
  rewrite (mapM_ext _ (fun kw => Some kw)) by (intros [k v] _; reflexivity). rewrite mapM_Some. simpl.
  rewrite dict_of_list_distinct by exact N. reflexivity. Qed.

End Eval.
