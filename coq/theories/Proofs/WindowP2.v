(* C27, part 2: with a total order inside the partition and no null order key, the ordered partition is ONE list -- whatever
   the backend's null-placement convention and whatever physical order the backend holds the rows in -- hence every backend
   whose function-level conventions agree writes the same value at every row.  The conventions that remain are named
   (fn_conventions_agree) and the real differences are exhibited (`_refuted`). *)
From Coq Require Import List Bool Arith ZArith QArith String Lia Permutation Sorted.
Import ListNotations.
From DA Require Import Base.PyRT Base.Val Model.Sem Model.WindowSpec Proofs.SemBasicP Proofs.SemOrderP Proofs.WindowP1.
Local Open Scope string_scope.
Local Open Scope list_scope.

(* ---------- sorting: extensionality on the elements, and commutation with a projection *)
Lemma insert_sorted_ext_in {A} (le1 le2 : A -> A -> bool) x l :
  (forall y, In y l -> le1 x y = le2 x y) -> insert_sorted le1 x l = insert_sorted le2 x l.
Proof.
  induction l as [|y t IH]; intros H; simpl; [reflexivity|].
  rewrite <- (H y (or_introl eq_refl)). destruct (le1 x y); [reflexivity|]. f_equal. apply IH. intros z I. apply H. right. exact I.
Qed.

Lemma stable_sort_ext_in {A} (le1 le2 : A -> A -> bool) l :
  (forall a b, In a l -> In b l -> le1 a b = le2 a b) -> stable_sort le1 l = stable_sort le2 l.
Proof.
  induction l as [|a t IH]; intros H; simpl; [reflexivity|].
  rewrite <- IH by (intros x y Ix Iy; apply H; right; assumption).
  apply insert_sorted_ext_in. intros y Iy. apply H; [left; reflexivity|right; eapply stable_sort_In; exact Iy].
Qed.

Lemma insert_sorted_map {A B} (f : A -> B) (le : B -> B -> bool) x l :
  map f (insert_sorted (fun a b => le (f a) (f b)) x l) = insert_sorted le (f x) (map f l).
Proof. induction l as [|y t IH]; simpl; [reflexivity|]. destruct (le (f x) (f y)); simpl; [reflexivity|]. rewrite IH. reflexivity. Qed.

Lemma stable_sort_map {A B} (f : A -> B) (le : B -> B -> bool) l :
  map f (stable_sort (fun a b => le (f a) (f b)) l) = stable_sort le (map f l).
Proof. induction l as [|a t IH]; simpl; [reflexivity|]. rewrite insert_sorted_map, IH. reflexivity. Qed.

Lemma map_filter_comm {A B} (f : A -> B) (p : B -> bool) l : map f (filter (fun a => p (f a)) l) = filter p (map f l).
Proof. induction l as [|a t IH]; simpl; [reflexivity|]. destruct (p (f a)); simpl; rewrite IH; reflexivity. Qed.

(* the tagged ordered partition, forgetting the tags, is the ordered partition of the rows *)
Lemma sorted_tagged_rows fl cs w rs r : map snd (sorted_tagged fl cs w rs r) = sorted_rows fl cs w rs r.
Proof.
  unfold sorted_tagged, sorted_rows, tle. rewrite (stable_sort_map snd (row_le fl cs (okeys_of w))).
  f_equal. unfold part_tagged, part_rows. rewrite (map_filter_comm snd (same_part cs (w_part w) r)), tag_from_map_snd. reflexivity.
Qed.

(* ---------- the comparison of two rows without null order keys does not depend on the null-placement convention *)
Lemma v_le_dir_nonnull nf1 nf2 d a b : a <> VNull -> b <> VNull -> v_le_dir nf1 d a b = v_le_dir nf2 d a b.
Proof. intros Na Nb. destruct a; [congruence|..]; destruct b; try congruence; reflexivity. Qed.

Lemma row_le_flavor_free fl1 fl2 cs keys r1 r2 :
  (forall c d, In (c, d) keys -> get cs r1 c <> VNull /\ get cs r2 c <> VNull) ->
  row_le fl1 cs keys r1 r2 = row_le fl2 cs keys r1 r2.
Proof.
  induction keys as [|[c d] t IH]; intros H; cbn [row_le]; [reflexivity|].
  destruct (H c d (or_introl eq_refl)) as [N1 N2].
  rewrite IH by (intros c' d' I; apply (H c' d'); right; exact I).
  rewrite (v_le_dir_nonnull (nulls_first fl1 d) (nulls_first fl2 d) d _ _ N1 N2). reflexivity.
Qed.

Lemma okeys_In w c d : In (c, d) (okeys_of w) -> In c (w_order w).
Proof. unfold okeys_of. intros H. apply in_map_iff in H. destruct H as [x [E I]]. inversion E; subst. exact I. Qed.

Lemma sorted_rows_flavor_free fl1 fl2 cs w rs r :
  no_null_order_keys cs w (part_rows cs (w_part w) rs r) -> sorted_rows fl1 cs w rs r = sorted_rows fl2 cs w rs r.
Proof.
  intros NN. unfold sorted_rows. apply stable_sort_ext_in. intros a b Ia Ib. apply row_le_flavor_free.
  intros c d I. apply okeys_In in I. split; apply NN; assumption.
Qed.

(* ---------- a strict total order makes the ordered partition independent of the physical row order *)
Lemma row_le_refl fl cs keys r : row_le fl cs keys r r = true.
Proof. destruct (row_le_total fl cs keys r r); assumption. Qed.

Lemma strict_total_NoDup fl cs keys (l : list (list val)) : strict_total_on (row_le fl cs keys) l -> NoDup l.
Proof.
  intros T. apply NoDup_nth_error. intros i j Li E.
  destruct (nth_error l i) as [a|] eqn:Ea; [|apply nth_error_None in Ea; lia].
  symmetry in E. apply (T i j a a Ea E); apply row_le_refl.
Qed.

Lemma strict_total_antisym {A} (le : A -> A -> bool) l :
  strict_total_on le l -> forall a b, In a l -> In b l -> le a b = true -> le b a = true -> a = b.
Proof.
  intros T a b Ia Ib H1 H2. destruct (In_nth_error _ _ Ia) as [i Ei]. destruct (In_nth_error _ _ Ib) as [j Ej].
  assert (i = j) by (eapply T; eassumption). subst. congruence.
Qed.

Lemma sorted_rows_input_order fl cs w rs1 rs2 r :
  Permutation rs1 rs2 -> strict_total_on (row_le fl cs (okeys_of w)) (part_rows cs (w_part w) rs1 r) ->
  sorted_rows fl cs w rs1 r = sorted_rows fl cs w rs2 r.
Proof.
  intros P T. unfold sorted_rows.
  apply (stable_sort_perm_invariant (row_le fl cs (okeys_of w)) (row_le_total _ _ _) (row_le_trans _ _ _)).
  - unfold part_rows. apply perm_filter. exact P.
  - apply strict_total_antisym. exact T.
Qed.

(* both together: one ordered partition for all conventions and all physical row orders *)
Lemma ordered_partition_convention_free fl1 fl2 cs w rs1 rs2 r :
  Permutation rs1 rs2 ->
  strict_total_on (row_le fl1 cs (okeys_of w)) (part_rows cs (w_part w) rs1 r) ->
  no_null_order_keys cs w (part_rows cs (w_part w) rs2 r) ->
  sorted_rows fl1 cs w rs1 r = sorted_rows fl2 cs w rs2 r.
Proof.
  intros P T NN. rewrite (sorted_rows_input_order fl1 cs w rs1 rs2 r P T). apply sorted_rows_flavor_free. exact NN.
Qed.

(* the argument of a window function is a column or a constant: its value does not depend on the backend *)
Lemma arg_val_simple fl1 fl2 cs arg r : simple_arg arg -> arg_val fl1 cs arg r = arg_val fl2 cs arg r.
Proof. destruct arg as [[c|v|o l]|]; simpl; intros H; try reflexivity. destruct H. Qed.

(* ---------- which function-level conventions remain *)
Lemma running_no_null c1 c2 f vs : forall acc, Forall (fun v => num_of v <> None) vs -> running c1 f acc vs = running c2 f acc vs.
Proof.
  induction vs as [|v t IH]; intros acc F; simpl; [reflexivity|]. inversion F as [|? ? Fv Ft]; subst.
  destruct (num_of v) as [x|]; [|congruence]. rewrite (IH _ Ft). reflexivity.
Qed.

Lemma win_fn_conventions fl1 fl2 op extra vs :
  fn_conventions_agree fl1 fl2 op vs -> win_fn fl1 op extra vs = win_fn fl2 op extra vs.
Proof.
  intros [H|[[H Nv]|[[-> H]|[H Hc]]]].
  - unfold convention_free_fns in H. simpl in H.
    repeat (destruct H as [<-|H]; [reflexivity|]). destruct H.
  - simpl in H. destruct vs as [|v t]; [congruence|].
    repeat (destruct H as [<-|H]; [reflexivity|]). destruct H.
  - unfold win_fn, agg_fn. destruct H as [H|H].
    + destruct (nums vs); [congruence|reflexivity].
    + rewrite H. reflexivity.
  - simpl in H. destruct Hc as [Hc|Hc].
    + repeat (destruct H as [<-|H]; [unfold win_fn; apply running_no_null; exact Hc|]). destruct H.
    + repeat (destruct H as [<-|H]; [unfold win_fn; rewrite Hc; reflexivity|]). destruct H.
Qed.

(* ---------- theorem 3: on a total order every backend writes the same value at every row *)
Theorem total_order_backends_agree :
  forall (fl1 fl2 : flavor) (ops : list (string * expr)) (w : window) (t1 t2 : table)
         (k : string) (e : expr) (op : string) (arg : option expr) (extra : list val) (i1 i2 : nat) (r r1' r2' : list val),
  wf_table t1 -> wf_table t2 -> cols t1 = cols t2 -> Permutation (rows t1) (rows t2) ->
  NoDup (map fst ops) -> In (k, e) ops -> win_parts e = Some (op, arg, extra) -> simple_arg arg ->
  nth_error (rows t1) i1 = Some r -> nth_error (rows t2) i2 = Some r ->
  strict_total_on (row_le fl1 (cols t1) (okeys_of w)) (part_rows (cols t1) (w_part w) (rows t1) r) ->
  no_null_order_keys (cols t1) w (part_rows (cols t1) (w_part w) (rows t1) r) ->
  fn_conventions_agree fl1 fl2 op (map (arg_val fl1 (cols t1) arg) (sorted_rows fl1 (cols t1) w (rows t1) r)) ->
  nth_error (rows (sem_wextend fl1 ops w t1)) i1 = Some r1' -> nth_error (rows (sem_wextend fl2 ops w t2)) i2 = Some r2' ->
  get (ext_cols (cols t1) (map fst ops)) r1' k = get (ext_cols (cols t2) (map fst ops)) r2' k.
Proof.
  intros fl1 fl2 ops w t1 t2 k e op arg extra i1 i2 r r1' r2' W1 W2 Ec P N I Hp Sa H1 H2 T NN Ag R1 R2.
  destruct (window_value_over_own_partition fl1 ops w t1 k e op arg extra i1 r W1 N I Hp H1) as [j1 [x1 [A1 [_ [B1 C1]]]]].
  destruct (window_value_over_own_partition fl2 ops w t2 k e op arg extra i2 r W2 N I Hp H2) as [j2 [x2 [A2 [_ [B2 C2]]]]].
  rewrite R1 in B1. inversion B1; subst x1. rewrite R2 in B2. inversion B2; subst x2. rewrite C1, C2. clear B1 B2 C1 C2.
  rewrite <- Ec in *.
  set (cs := cols t1) in *.
  (* one ordered partition *)
  assert (sorted_rows fl2 cs w (rows t2) r = sorted_rows fl1 cs w (rows t1) r) as ES.
  { rewrite (sorted_rows_input_order fl1 cs w (rows t1) (rows t2) r P T).
    apply sorted_rows_flavor_free.
    intros r0 c I0 Ic. apply NN; [|exact Ic]. unfold part_rows in *. apply filter_In in I0. apply filter_In.
    split; [eapply Permutation_in; [apply Permutation_sym, P|tauto]|tauto]. }
  set (S := sorted_rows fl1 cs w (rows t1) r) in *.
  (* the values the function sees *)
  assert (map (fun ir => arg_val fl1 cs arg (snd ir)) (sorted_tagged fl1 cs w (rows t1) r) = map (arg_val fl1 cs arg) S) as V1.
  { rewrite <- (map_map snd (arg_val fl1 cs arg)), sorted_tagged_rows. reflexivity. }
  assert (map (fun ir => arg_val fl2 cs arg (snd ir)) (sorted_tagged fl2 cs w (rows t2) r) = map (arg_val fl1 cs arg) S) as V2.
  { rewrite <- (map_map snd (arg_val fl2 cs arg)), sorted_tagged_rows, ES. apply map_ext. intros a. apply arg_val_simple. exact Sa. }
  rewrite V1, V2, <- (win_fn_conventions fl1 fl2 op extra _ Ag).
  (* the position of the row *)
  assert (nth_error S j1 = Some r) as P1.
  { unfold S. rewrite <- sorted_tagged_rows, nth_error_map, A1. reflexivity. }
  assert (nth_error S j2 = Some r) as P2.
  { rewrite <- ES, <- sorted_tagged_rows, nth_error_map, A2. reflexivity. }
  assert (NoDup S) as ND.
  { eapply Permutation_NoDup; [apply Permutation_sym, stable_sort_perm|]. eapply strict_total_NoDup. exact T. }
  rewrite NoDup_nth_error in ND. rewrite (ND j1 j2); [reflexivity| |congruence]. apply nth_error_Some. congruence.
Qed.

(* sufficient: the partition is never empty at one of its own rows, so count / size never meet the empty-group convention *)
Lemma own_partition_nonempty fl cs w rs r i : nth_error rs i = Some r -> sorted_rows fl cs w rs r <> [].
Proof.
  intros H E. assert (In r (sorted_rows fl cs w rs r)) as I.
  { unfold sorted_rows. eapply Permutation_in; [apply Permutation_sym, stable_sort_perm|]. unfold part_rows. apply filter_In.
    split; [eapply nth_error_In; eassumption|apply same_part_refl]. }
  rewrite E in I. destruct I.
Qed.

(* ---------- decidable versions of the two guards (for concrete instances) *)
Fixpoint no_tie_with {A} (le : A -> A -> bool) (a : A) (l : list A) : bool :=
  match l with [] => true | b :: t => negb (le a b && le b a) && no_tie_with le a t end.
Fixpoint strict_total_b {A} (le : A -> A -> bool) (l : list A) : bool :=
  match l with [] => true | a :: t => no_tie_with le a t && strict_total_b le t end.

Lemma no_tie_with_In {A} (le : A -> A -> bool) a l b : no_tie_with le a l = true -> In b l -> le a b && le b a = false.
Proof.
  induction l as [|c t IH]; simpl; intros H I; [destruct I|]. apply andb_true_iff in H. destruct H as [H1 H2].
  destruct I as [->|I]; [apply negb_true_iff; exact H1|apply IH; assumption].
Qed.

Lemma strict_total_b_sound {A} (le : A -> A -> bool) l : strict_total_b le l = true -> strict_total_on le l.
Proof.
  induction l as [|a t IH]; intros H i j x y Hi Hj L1 L2; [destruct i; discriminate|].
  simpl in H. apply andb_true_iff in H. destruct H as [H1 H2].
  destruct i as [|i]; destruct j as [|j]; simpl in Hi, Hj.
  - reflexivity.
  - inversion Hi; subst. apply nth_error_In in Hj. pose proof (no_tie_with_In le x t y H1 Hj) as C. rewrite L1, L2 in C. discriminate.
  - inversion Hj; subst. apply nth_error_In in Hi. pose proof (no_tie_with_In le y t x H1 Hi) as C. rewrite L1, L2 in C. discriminate.
  - f_equal. apply (IH H2 i j x y); assumption.
Qed.

Definition no_null_order_keys_b (cs : list string) (w : window) (l : list (list val)) : bool :=
  forallb (fun r => forallb (fun c => negb (is_null (get cs r c))) (w_order w)) l.
Lemma no_null_order_keys_b_sound cs w l : no_null_order_keys_b cs w l = true -> no_null_order_keys cs w l.
Proof.
  unfold no_null_order_keys_b, no_null_order_keys. rewrite forallb_forall. intros H r c Ir Ic E.
  specialize (H r Ir). rewrite forallb_forall in H. specialize (H c Ic). rewrite E in H. discriminate.
Qed.

(* ---------- the differences that are real (each is a listed finding; the witnesses are total orders without null keys) *)
Definition wit_tab : table :=
  mktable ["g"; "o"; "x"] [[VStr "a"; VNum 1; VNum 5]; [VStr "a"; VNum 2; VNull]; [VStr "a"; VNum 3; VNum 2]].
Definition wit_win : window := mkwin ["g"] ["o"] [].

(* Pandas leaves a null at a null-valued row of a running sum, SQL's SUM() OVER carries the running value *)
Lemma running_at_null_row_refuted :
  exists (t : table) (w : window) (ops : list (string * expr)) (i : nat) (r1 r2 : list val),
    strict_total_on (row_le fl_pandas (cols t) (okeys_of w)) (rows t) /\ no_null_order_keys (cols t) w (rows t)
    /\ nth_error (rows (sem_wextend fl_pandas ops w t)) i = Some r1 /\ nth_error (rows (sem_wextend fl_sqlite ops w t)) i = Some r2
    /\ get (ext_cols (cols t) (map fst ops)) r1 "s" = VNull /\ get (ext_cols (cols t) (map fst ops)) r2 "s" = VNum 5.
Proof.
  exists wit_tab, wit_win, [("s", EOp "cumsum" [ECol "x"])], 1%nat.
  eexists. eexists. split; [|split; [|split; [vm_compute; reflexivity|split; [vm_compute; reflexivity|split; vm_compute; reflexivity]]]].
  - apply strict_total_b_sound. vm_compute. reflexivity.
  - apply no_null_order_keys_b_sound. vm_compute. reflexivity.
Qed.

(* a GROUP aggregate written in an ORDERED window: SQL's default frame makes it a running aggregate *)
Lemma sql_group_aggregate_in_ordered_window_refuted :
  exists (vs : list val) (j : nat),
    nth j (sql_ordered_agg fl_sqlite "mean" vs) VNull <> nth j (win_fn fl_pandas "mean" [] vs) VNull.
Proof. exists [VNum 1; VNum 3], 0%nat. vm_compute. discriminate. Qed.

(* Polars first()/last() do not skip nulls; Polars n_unique() counts null *)
Lemma polars_first_last_nunique_refuted :
  exists vs : list val,
    polars_first vs <> win_fn fl_polars "first" [] vs /\ polars_last (rev vs) <> win_fn fl_polars "last" [] (rev vs)
    /\ polars_nunique vs <> win_fn fl_polars "nunique" [] vs.
Proof. exists [VNull; VNum 2]. repeat split; vm_compute; discriminate. Qed.
