(* Proofs about the REGENERATED quoting code (Gen/G_Quote.v, Gen/G_QuoteMySQL.v) against the lexing rules of Model/Lex.v. *)
From Coq Require Import List Bool Arith Ascii String Lia.
Import ListNotations.
From DA Require Import Base.PyRT Base.PyStr Model.Lex Gen.G_Quote Gen.G_QuoteMySQL.
Local Open Scope string_scope.

(* ---------------------------------------------------------------- auxiliary lemmas *)

Definition dbl (q : ascii) : string := String q (String q "").

Lemma quote_string_shape (q : ascii) (s rest : string) :
  quote_string (q1 q) s ++ rest = String q (replace_char q (dbl q) s ++ String q rest).
Proof.
  unfold quote_string, q1. rewrite str_replace_char.
  rewrite !str_append_assoc. reflexivity.
Qed.

Lemma lit_body_std_close (q : ascii) (rest : string) :
  starts_with_char q rest = false -> lit_body_std q (String q rest) = Some ("", rest).
Proof.
  intros H. cbn [lit_body_std]. rewrite Ascii.eqb_refl.
  destruct rest as [|c2 r]; [reflexivity|]. simpl in H. rewrite H. reflexivity.
Qed.

Lemma lit_body_std_double (q : ascii) (s rest : string) :
  starts_with_char q rest = false ->
  lit_body_std q (replace_char q (dbl q) s ++ String q rest) = Some (s, rest).
Proof.
  intros H. induction s as [|c s IH].
  - apply lit_body_std_close; assumption.
  - cbn [replace_char]. destruct (Ascii.eqb q c) eqn:E.
    + apply Ascii.eqb_eq in E. subst c.
      change (dbl q ++ replace_char q (dbl q) s) with (String q (String q (replace_char q (dbl q) s))).
      cbn [append lit_body_std]. rewrite Ascii.eqb_refl. rewrite IH. reflexivity.
    + cbn [append lit_body_std]. rewrite Ascii.eqb_sym, E. rewrite IH. reflexivity.
Qed.

Lemma lit_body_bs_close (q : ascii) (rest : string) :
  q <> "\"%char -> starts_with_char q rest = false -> lit_body_bs q (String q rest) = Some ("", rest).
Proof.
  intros Hq H. cbn [lit_body_bs]. rewrite Ascii.eqb_refl.
  apply Ascii.eqb_neq in Hq. rewrite Hq.
  destruct rest as [|c2 r]; [reflexivity|]. simpl in H. rewrite H. reflexivity.
Qed.

Lemma lit_body_bs_double (q : ascii) (s rest : string) :
  q <> "\"%char -> has_char (Ascii.eqb "\"%char) s = false -> starts_with_char q rest = false ->
  lit_body_bs q (replace_char q (dbl q) s ++ String q rest) = Some (s, rest).
Proof.
  intros Hq Hs H. induction s as [|c s IH].
  - apply lit_body_bs_close; assumption.
  - cbn [has_char] in Hs. apply orb_false_iff in Hs. destruct Hs as [Hc Hs].
    specialize (IH Hs).
    pose proof Hq as Hq'. apply Ascii.eqb_neq in Hq'.
    cbn [replace_char]. destruct (Ascii.eqb q c) eqn:E.
    + apply Ascii.eqb_eq in E. subst c.
      change (dbl q ++ replace_char q (dbl q) s) with (String q (String q (replace_char q (dbl q) s))).
      cbn [append lit_body_bs]. rewrite Hq', Ascii.eqb_refl. rewrite IH. reflexivity.
    + cbn [append lit_body_bs]. rewrite (Ascii.eqb_sym c "\"%char), Hc.
      rewrite (Ascii.eqb_sym c q), E. rewrite IH. reflexivity.
Qed.

Lemma str_contains_char (q : ascii) (n : string) : str_contains (q1 q) n = has_char (Ascii.eqb q) n.
Proof.
  unfold q1. induction n as [|c n IH]; [reflexivity|].
  cbn [str_contains has_char]. rewrite strip_prefix_char.
  destruct (Ascii.eqb q c); simpl; [reflexivity | exact IH].
Qed.

Lemma ident_body_plain (q : ascii) (n rest : string) :
  has_char (Ascii.eqb q) n = false -> ident_body q (n ++ String q rest) = Some (n, rest).
Proof.
  induction n as [|c n IH]; intros H.
  - cbn [append ident_body]. rewrite Ascii.eqb_refl. reflexivity.
  - cbn [has_char] in H. apply orb_false_iff in H. destruct H as [Hc Hn].
    cbn [append ident_body]. rewrite Ascii.eqb_sym, Hc. rewrite (IH Hn). reflexivity.
Qed.

Lemma has_char_app (p : ascii -> bool) (a b : string) :
  has_char p (a ++ b) = has_char p a || has_char p b.
Proof. induction a as [|x a IH]; simpl; [reflexivity | now rewrite IH, orb_assoc]. Qed.

Lemma is_eol_is_ws (c : ascii) : is_eol c = true -> is_ws c = true.
Proof.
  unfold is_eol. intros H. apply orb_true_iff in H.
  destruct H as [H|H]; apply Ascii.eqb_eq in H; subst c; reflexivity.
Qed.

Lemma not_ws_not_eol (c : ascii) : is_ws c = false -> is_eol c = false.
Proof.
  intros H. destruct (is_eol c) eqn:E; [|reflexivity].
  apply is_eol_is_ws in E. congruence.
Qed.

Lemma re_sub_ws_no_eol (s : string) : forall b, has_char is_eol (re_sub_ws_plus_aux b " " s) = false.
Proof.
  induction s as [|c s IH]; intros b; [reflexivity|].
  cbn [re_sub_ws_plus_aux]. destruct (is_ws c) eqn:W.
  - destruct b; [apply IH|]. rewrite has_char_app, IH. reflexivity.
  - cbn [has_char]. rewrite (not_ws_not_eol c W), IH. reflexivity.
Qed.

Lemma replace_percent_no_eol (s : string) :
  has_char is_eol s = false -> has_char is_eol (replace_char "%"%char "percent" s) = false.
Proof.
  induction s as [|c s IH]; intros H; [reflexivity|].
  cbn [has_char] in H. apply orb_false_iff in H. destruct H as [Hc Hs].
  cbn [replace_char]. destruct (Ascii.eqb "%"%char c).
  - rewrite has_char_app, (IH Hs). reflexivity.
  - cbn [has_char]. rewrite Hc, (IH Hs). reflexivity.
Qed.

Lemma replace_percent_no_percent (s : string) :
  has_char (Ascii.eqb "%"%char) (replace_char "%"%char "percent" s) = false.
Proof.
  induction s as [|c s IH]; [reflexivity|].
  cbn [replace_char]. destruct (Ascii.eqb "%"%char c) eqn:E.
  - rewrite has_char_app, IH. reflexivity.
  - cbn [has_char]. rewrite E, IH. reflexivity.
Qed.

Lemma lstrip_no_char (p : ascii -> bool) (s : string) :
  has_char p s = false -> has_char p (lstrip s) = false.
Proof.
  induction s as [|c s IH]; intros H; [reflexivity|].
  cbn [lstrip]. destruct (is_ws c); [|exact H].
  cbn [has_char] in H. apply orb_false_iff in H. apply IH, H.
Qed.

Lemma rstrip_no_char (p : ascii -> bool) (s : string) :
  has_char p s = false -> has_char p (rstrip s) = false.
Proof.
  induction s as [|c s IH]; intros H; [reflexivity|].
  cbn [rstrip]. destruct (all_ws (String c s)); [reflexivity|].
  cbn [has_char] in *. apply orb_false_iff in H. destruct H as [Hc Hs].
  rewrite Hc, (IH Hs). reflexivity.
Qed.

Lemma strip_no_char (p : ascii -> bool) (s : string) :
  has_char p s = false -> has_char p (str_strip s) = false.
Proof. intros H. unfold str_strip. apply rstrip_no_char, lstrip_no_char, H. Qed.

Lemma clean_annotation_shape (a : string) :
  _clean_annotation (Some a) =
  Some (str_strip (replace_char "%"%char "percent" (re_sub_ws_plus " " (str_strip a)))).
Proof. unfold _clean_annotation. cbv zeta. rewrite str_replace_char. reflexivity. Qed.

Lemma skip_line_no_eol (c rest : string) :
  has_char is_eol c = false -> skip_line (c ++ String "010"%char rest) = rest.
Proof.
  induction c as [|x c IH]; intros H; [reflexivity|].
  cbn [has_char] in H. apply orb_false_iff in H. destruct H as [Hx Hc].
  cbn [append skip_line]. rewrite Hx. apply IH, Hc.
Qed.

(* ---------------------------------------------------------------- the statements *)

(* every string, whatever it contains, reads back verbatim in the standard family, with the following text untouched *)
Lemma quote_string_roundtrip_std (q : ascii) (s rest : string) :
  starts_with_char q rest = false ->
  read_literal_std q (quote_string (q1 q) s ++ rest) = Some (s, rest).
Proof.
  intros H. rewrite quote_string_shape. unfold read_literal_std. rewrite Ascii.eqb_refl.
  apply lit_body_std_double, H.
Qed.

(* the same holds in the backslash family for strings without a backslash ... *)
Lemma quote_string_roundtrip_bs_partial (q : ascii) (s rest : string) :
  q <> "\"%char -> has_char (Ascii.eqb "\"%char) s = false -> starts_with_char q rest = false ->
  read_literal_bs q (quote_string (q1 q) s ++ rest) = Some (s, rest).
Proof.
  intros Hq Hs H. rewrite quote_string_shape. unfold read_literal_bs. rewrite Ascii.eqb_refl.
  apply lit_body_bs_double; assumption.
Qed.

(* ... and FAILS with one: the literal for the one-character string `\` swallows its closing quote *)
Lemma quote_string_backslash_family_refuted :
  read_literal_bs "'"%char (quote_string (q1 "'"%char) "\") = None /\
  exists v r, read_literal_bs "'"%char (quote_string (q1 "'"%char) "\" ++ " OR 1=1 --'") = Some (v, r) /\ v <> "\".
Proof.
  split; [vm_compute; reflexivity|].
  eexists. eexists. split; [vm_compute; reflexivity|]. discriminate.
Qed.

(* identifiers: accepted exactly when they do not contain the quote character, and then they read back verbatim *)
Lemma quote_identifier_accepts_iff (q : ascii) (n : string) :
  quote_identifier (q1 q) n = None <-> has_char (Ascii.eqb q) n = true.
Proof.
  unfold quote_identifier. rewrite str_contains_char.
  destruct (has_char (Ascii.eqb q) n); split; intros H; try reflexivity; discriminate.
Qed.
Lemma quote_identifier_roundtrip (q : ascii) (n t rest : string) :
  quote_identifier (q1 q) n = Some t -> read_ident q (t ++ rest) = Some (n, rest).
Proof.
  unfold quote_identifier. rewrite str_contains_char.
  destruct (has_char (Ascii.eqb q) n) eqn:E; [discriminate|].
  intros H. injection H as <-. unfold q1. cbn [append read_ident]. rewrite Ascii.eqb_refl, str_append_assoc.
  cbn [append]. apply ident_body_plain, E.
Qed.
Lemma mysql_quote_identifier_same (q n : string) : mysql_quote_identifier q n = quote_identifier q n.
Proof. reflexivity. Qed.

(* annotations: the cleaned text contains no end-of-line character and no percent sign, so the comment it is put in
   ends exactly at the newline the generator adds after it *)
Lemma clean_annotation_no_eol (a c : string) :
  _clean_annotation (Some a) = Some c -> has_char is_eol c = false /\ has_char (Ascii.eqb "%"%char) c = false.
Proof.
  rewrite clean_annotation_shape. intros H. injection H as <-. split.
  - apply strip_no_char, replace_percent_no_eol. unfold re_sub_ws_plus. apply re_sub_ws_no_eol.
  - apply strip_no_char, replace_percent_no_percent.
Qed.
Lemma comment_is_inert (a c rest : string) :
  _clean_annotation (Some a) = Some c ->
  skip_comment ("-- " ++ c ++ String "010"%char rest) = Some rest.
Proof.
  intros H. apply clean_annotation_no_eol in H. destruct H as [H _].
  change ("-- " ++ c ++ String "010"%char rest)
    with (String "-" (String "-" (String " " (c ++ String "010"%char rest)))).
  cbn [skip_comment]. f_equal.
  change (skip_line (String " " (c ++ String "010"%char rest)))
    with (skip_line (c ++ String "010"%char rest)).
  apply skip_line_no_eol, H.
Qed.
Lemma clean_annotation_none : _clean_annotation None = None.
Proof. reflexivity. Qed.

