(* C21, part 8: def_multi_column_map computes multimap_spec. *)
From Coq Require Import List Bool Arith ZArith QArith String Lia Permutation Sorted.
Import ListNotations.
From DA Require Import Base.PyRT Base.Val Model.Sem Model.Solutions Proofs.SemBasicP Proofs.SemOrderP
  Proofs.SolutionsP1 Proofs.SolutionsP3 Proofs.SolutionsP4 Proofs.SolutionsP5 Proofs.SolutionsP6 Proofs.SolutionsP7.
Local Open Scope string_scope.
Local Open Scope list_scope.

Lemma sem_x_env_ext pw fl p : forall en en', (forall n, In n (tables_of p) -> dict_get en' n = dict_get en n) -> sem_x pw fl p en' = sem_x pw fl p en.
Proof. induction p; intros en en' H; cbn [sem_x]; cbn [tables_of] in H;
    try (rewrite (IHp en en' H); reflexivity).
  - rewrite (H name (or_introl eq_refl)). reflexivity.
  - assert (sem_x pw fl p1 en' = sem_x pw fl p1 en) as E1 by (apply IHp1; intros n I; apply H, in_or_app; left; exact I).
    assert (sem_x pw fl p2 en' = sem_x pw fl p2 en) as E2 by (apply IHp2; intros n I; apply H, in_or_app; right; exact I).
    rewrite E1, E2. reflexivity.
  - assert (sem_x pw fl p1 en' = sem_x pw fl p1 en) as E1 by (apply IHp1; intros n I; apply H, in_or_app; left; exact I).
    assert (sem_x pw fl p2 en' = sem_x pw fl p2 en) as E2 by (apply IHp2; intros n I; apply H, in_or_app; right; exact I).
    rewrite E1, E2. reflexivity. Qed.

Lemma NoDup_app_l {A} (a b : list A) : NoDup (a ++ b) -> NoDup a.
Proof. induction a as [|x a IH]; simpl; intros H; [constructor|]. inversion H as [|? ? N H']; subst. constructor; [|apply IH, H']. intros I. apply N, in_or_app. left. exact I. Qed.
Lemma NoDup_app_r {A} (a b : list A) : NoDup (a ++ b) -> NoDup b.
Proof. induction a as [|x a IH]; simpl; intros H; [exact H|]. inversion H; subst. auto. Qed.
Lemma NoDup_app_disj {A} (a b : list A) x : NoDup (a ++ b) -> In x a -> ~ In x b.
Proof. induction a as [|y a IH]; simpl; intros H I Ib; [destruct I|]. inversion H as [|? ? N H']; subst.
  destruct I as [->|I]; [apply N, in_or_app; right; exact Ib|apply IH; assumption]. Qed.

Lemma nonempty_In {A} (l : list A) : l <> [] -> exists x, In x l.
Proof. destruct l as [|x l]; [congruence|]. intros _. exists x. left. reflexivity. Qed.
Lemma pairwiseb_In {A} (f : A -> A -> bool) l a b : (forall x y, f x y = f y x) -> pairwiseb f l = true -> In a l -> In b l -> a = b \/ f a b = true.
Proof. intros Sym. induction l as [|x l IH]; intros P Ia Ib; [destruct Ia|]. cbn [pairwiseb] in P. apply andb_true_iff in P as [P1 P2]. rewrite forallb_forall in P1.
  destruct Ia as [<-|Ia], Ib as [<-|Ib]; [left; reflexivity|right; apply P1, Ib|right; rewrite Sym; apply P1, Ia|apply IH; assumption]. Qed.
Lemma pairwiseb_NoDup_map {A B} (f : A -> A -> bool) (g : A -> B) l : pairwiseb f l = true -> (forall x y, g x = g y -> f x y = false) -> NoDup (map g l).
Proof. intros P H. induction l as [|x l IH]; [constructor|]. cbn [pairwiseb] in P. apply andb_true_iff in P as [P1 P2]. rewrite forallb_forall in P1.
  cbn [map]. constructor; [|apply IH, P2]. intros I. apply in_map_iff in I as [y [E Iy]]. specialize (P1 y Iy). rewrite (H x y (eq_sym E)) in P1. discriminate. Qed.
Lemma v_eqv_null_l w : is_null w = false -> v_eqv VNull w = false.
Proof. destruct w; simpl; congruence. Qed.
Lemma v_eqv_trans' a b c : v_eqv a b = true -> v_eqv b c = true -> v_eqv a c = true.
Proof. apply SemBasicP.v_eqv_trans. Qed.
Lemma find_ext_in {A} (f g : A -> bool) l : (forall x, In x l -> f x = g x) -> find f l = find g l.
Proof. induction l as [|x l IH]; intros H; [reflexivity|]. cbn [find]. rewrite (H x (or_introl eq_refl)), IH; [reflexivity|]. intros y I. apply H. right. exact I. Qed.
Lemma find_map {A B} (f : B -> bool) (g : A -> B) l : find f (map g l) = option_map g (find (fun x => f (g x)) l).
Proof. induction l as [|x l IH]; [reflexivity|]. cbn [map find]. destruct (f (g x)); [reflexivity|exact IH]. Qed.
Lemma rename_vcols bs : forall vcols, NoDup vcols -> List.length bs = List.length vcols -> map (rename_col (combine bs vcols)) vcols = bs.
Proof. induction bs as [|b bs IH]; intros [|v vcols] ND L; simpl in *; try discriminate; [reflexivity|].
  inversion ND as [|? ? Nv ND']; subst. unfold rename_col at 1. cbn [find snd fst]. rewrite String.eqb_refl. f_equal.
  rewrite <- (IH vcols ND') at 2 by lia. apply map_ext_in. intros c Ic. unfold rename_col. cbn [find snd].
  destruct (String.eqb_spec v c) as [->|]; [contradiction|reflexivity]. Qed.
Lemma rename_other m c : ~ In c (map snd m) -> rename_col m c = c.
Proof. intros N. unfold rename_col. rewrite find_none_all; [reflexivity|]. intros [n o] I. cbn [snd]. apply String.eqb_neq. intros ->. apply N. apply in_map_iff. exists (n, c). split; [reflexivity|exact I]. Qed.
Lemma combine_snd {A B} (a : list A) : forall (b : list B), List.length a = List.length b -> map snd (combine a b) = b.
Proof. induction a as [|x a IH]; intros [|y b] L; simpl in *; try discriminate; [reflexivity|]. rewrite IH by lia. reflexivity. Qed.

Section MM.
  Variable pw : nat -> nat.
  Variables (fl : flavor) (keys : list string) (namec valc mapc : string) (vcols : list string) (co : option val) (back : option (list string)).
  Variables (t mt : table).
  Hypothesis V : multimap_valid keys namec valc mapc vcols back t mt = true.
  Let cs := cols t.
  Let rs := rows t.
  Let mcs := cols mt.
  Let mrs := rows mt.

  Definition kf (r r' : list val) : bool := negb (keys_eqv (key_of cs keys r) (key_of cs keys r')).
  Definition mf (a b : list val) : bool := negb (v_eqv (get mcs a namec) (get mcs b namec) && v_eqv (get mcs a valc) (get mcs b valc)).
  Lemma mm_facts :
    keys <> [] /\ vcols <> [] /\ NoDup (keys ++ vcols) /\ NoDup (keys ++ [namec; valc; mapc])
    /\ (match back with Some bs => NoDup (keys ++ bs) /\ List.length bs = List.length vcols | None => True end)
    /\ (forall c, In c (keys ++ vcols) -> In c cs) /\ (forall c, In c [namec; valc; mapc] -> In c mcs) /\ NoDup cs /\ NoDup mcs
    /\ (forall r, In r rs -> List.length r = List.length cs) /\ (forall r, In r mrs -> List.length r = List.length mcs)
    /\ (forall r c, In r rs -> In c keys -> is_null (get cs r c) = false)
    /\ pairwiseb kf rs = true
    /\ (forall mr, In mr mrs -> is_null (get mcs mr namec) = false /\ is_null (get mcs mr valc) = false)
    /\ pairwiseb mf mrs = true.
  Proof. unfold multimap_valid in V. fold cs rs mcs mrs in V.
    apply andb_true_iff in V as [V0 V15]. apply andb_true_iff in V0 as [V0 V14]. apply andb_true_iff in V0 as [V0 V13].
    apply andb_true_iff in V0 as [V0 V12]. apply andb_true_iff in V0 as [V0 V11]. apply andb_true_iff in V0 as [V0 V10].
    apply andb_true_iff in V0 as [V0 V9]. apply andb_true_iff in V0 as [V0 V8]. apply andb_true_iff in V0 as [V0 V7].
    apply andb_true_iff in V0 as [V0 V6]. apply andb_true_iff in V0 as [V0 V5]. apply andb_true_iff in V0 as [V0 V4].
    apply andb_true_iff in V0 as [V0 V3]. apply andb_true_iff in V0 as [V1 V2].
    split; [intros E; rewrite E in V1; discriminate|]. split; [intros E; rewrite E in V2; discriminate|].
    split; [apply nodupb_NoDup, V3|]. split; [apply nodupb_NoDup, V4|].
    split; [destruct back as [bs|]; [|exact I]; apply andb_true_iff in V5 as [A B]; split; [apply nodupb_NoDup, A|apply Nat.eqb_eq, B]|].
    split; [apply subset_spec, V6|]. split; [apply subset_spec, V7|]. split; [apply nodupb_NoDup, V8|]. split; [apply nodupb_NoDup, V9|].
    split; [apply widthb_ok in V10; rewrite Forall_forall in V10; exact V10|].
    split; [apply widthb_ok in V11; rewrite Forall_forall in V11; exact V11|].
    split; [intros r c Ir Ic; rewrite forallb_forall in V12; specialize (V12 r Ir); rewrite forallb_forall in V12; apply negb_true_iff, V12, Ic|].
    split; [exact V13|]. split; [|exact V15].
    intros mr Im. rewrite forallb_forall in V14. specialize (V14 mr Im). apply andb_true_iff in V14 as [A B]. split; apply negb_true_iff; assumption. Qed.

  Definition K (r : list val) : list val := key_of cs keys r.
  Definition ML (r : list val) (c : string) : val := map_lookup mcs namec valc mapc mrs c (get cs r c).
  Definition ucols : list string := keys ++ [namec; valc].
  Definition LR : list (list val) := flat_map (fun r => map (fun c => K r ++ [VStr c; get cs r c]) vcols) rs.
  Definition rc : list string := [namec; valc; mapc].
  Definition RRow (mr : list val) : list val := [get mcs mr namec; get mcs mr valc; get mcs mr mapc].

  Lemma K_len r : List.length (K r) = List.length keys.
  Proof. apply key_of_length. Qed.
  Lemma names_facts : ~ In namec keys /\ ~ In valc keys /\ ~ In mapc keys /\ namec <> valc /\ namec <> mapc /\ valc <> mapc /\ NoDup keys /\ NoDup vcols
                      /\ (forall c, In c vcols -> ~ In c keys).
  Proof. destruct mm_facts as (_ & _ & NDkv & NDk3 & _).
    pose proof (NoDup_app_r _ _ NDk3) as ND3. inversion ND3 as [|? ? N1 ND2]; subst. inversion ND2 as [|? ? N2 _]; subst.
    assert (forall c, In c [namec; valc; mapc] -> ~ In c keys) as D by (intros c Ic Ik; apply (NoDup_app_disj _ _ c NDk3 Ik Ic)).
    split; [apply D; left; reflexivity|]. split; [apply D; right; left; reflexivity|]. split; [apply D; right; right; left; reflexivity|].
    split; [intros E; apply N1; left; symmetry; exact E|]. split; [intros E; apply N1; right; left; symmetry; exact E|].
    split; [intros E; apply N2; left; symmetry; exact E|].
    split; [eapply NoDup_app_l, NDkv|]. split; [eapply NoDup_app_r, NDkv|].
    intros c Ic Ik. apply (NoDup_app_disj _ _ c NDkv Ik Ic). Qed.

  (* ---- select_columns then unpivot *)
  Lemma step_unpivot :
    sem_unpivot keys namec valc vcols (sem_select_cols (keys ++ vcols) t) = mktable ucols LR.
  Proof. destruct mm_facts as (_ & _ & NDkv & _). destruct names_facts as (_ & _ & _ & _ & _ & _ & NDk & NDv & Dv).
    unfold sem_unpivot, sem_select_cols, ucols, LR. cbn [cols rows]. fold cs rs. f_equal. rewrite flat_map_map. apply flat_map_ext_in. intros r Ir.
    apply map_ext_in. intros c Ic. rewrite map_app. fold (key_of cs keys r). fold (K r).
    assert (key_of (keys ++ vcols) keys (K r ++ map (get cs r) vcols) = K r) as E1 by (unfold key_of at 1; apply map_get_app_l; [exact NDk|apply K_len]).
    rewrite E1. f_equal. f_equal. rewrite (get_app_r keys vcols (K r) _ c (Dv c Ic) (K_len r)). f_equal. apply get_map, Ic. Qed.

  Lemma NoDup_ucols : NoDup ucols.
  Proof. destruct mm_facts as (_ & _ & _ & NDk3 & _). unfold ucols.
    replace (keys ++ [namec; valc; mapc]) with ((keys ++ [namec; valc]) ++ [mapc]) in NDk3 by (rewrite <- app_assoc; reflexivity).
    eapply NoDup_app_l, NDk3. Qed.
  Lemma LR_form row : In row LR <-> exists r c, In r rs /\ In c vcols /\ row = K r ++ [VStr c; get cs r c].
  Proof. unfold LR. rewrite in_flat_map. split.
    - intros [r [Ir I]]. apply in_map_iff in I as [c [<- Ic]]. exists r, c. auto.
    - intros [r [c [Ir [Ic ->]]]]. exists r. split; [exact Ir|]. apply in_map_iff. exists c. auto. Qed.
  Lemma left_select : sem_select_cols ucols (mktable ucols LR) = mktable ucols LR.
  Proof. unfold sem_select_cols. cbn [cols rows]. f_equal. rewrite <- (map_id LR) at 2. apply map_ext_in. intros row I.
    apply LR_form in I as [r [c [_ [_ ->]]]]. apply map_get_id; [apply NoDup_ucols|]. unfold ucols. rewrite !app_length, K_len. reflexivity. Qed.
  Lemma right_select : sem_select_cols rc mt = mktable rc (map RRow mrs).
  Proof. reflexivity. Qed.

  (* ---- the left join with the mapping table *)
  Definition mtch (r : list val) (c : string) (mr : list val) : bool :=
    negb (is_null (get cs r c)) && (v_eqv (get mcs mr namec) (VStr c) && v_eqv (get mcs mr valc) (get cs r c)).
  Lemma key_L r c : key_of ucols [namec; valc] (K r ++ [VStr c; get cs r c]) = [VStr c; get cs r c].
  Proof. destruct names_facts as (N1 & N2 & _ & D12 & _). unfold key_of, ucols. cbn [map].
    rewrite !get_app_r by (auto using K_len). rewrite get_head, get_tail by (intros E; apply D12; symmetry; exact E). rewrite get_head. reflexivity. Qed.
  Lemma key_R mr : key_of rc [namec; valc] (RRow mr) = [get mcs mr namec; get mcs mr valc].
  Proof. destruct names_facts as (_ & _ & _ & D12 & _). unfold key_of, rc, RRow. cbn [map].
    rewrite get_head, get_tail by (intros E; apply D12; symmetry; exact E). rewrite get_head. reflexivity. Qed.
  Lemma km nm r c mr : In mr mrs ->
    keys_match nm (key_of ucols [namec; valc] (K r ++ [VStr c; get cs r c])) (key_of rc [namec; valc] (RRow mr)) = mtch r c mr.
  Proof. intros Im. destruct mm_facts as (_ & _ & _ & _ & _ & _ & _ & _ & _ & _ & _ & _ & _ & NNm & _). destruct (NNm mr Im) as [Nn Nv].
    rewrite key_L, key_R. unfold keys_match, mtch. cbn [existsb is_null keys_eqv orb]. rewrite orb_false_r, andb_true_r.
    rewrite (v_eqv_sym (VStr c)), (v_eqv_sym (get cs r c)).
    destruct (is_null (get cs r c)) eqn:E.
    - apply is_null_VNull in E. rewrite E, (v_eqv_sym _ VNull), (v_eqv_null_l _ Nv). cbn [negb andb]. rewrite !andb_false_r. reflexivity.
    - cbn [negb]. rewrite orb_true_r. reflexivity. Qed.

  Definition jcols : list string := ucols ++ [mapc].
  Definition Nrow (r : list val) (c : string) (x : val) : list val := K r ++ [VStr c; get cs r c; x].

  Lemma mapc_notin_ucols : ~ In mapc ucols.
  Proof. destruct names_facts as (_ & _ & N3 & _ & D13 & D23 & _). unfold ucols. intros I. apply in_app_or in I as [I|[I|[I|[]]]]; [contradiction|congruence|congruence]. Qed.
  Lemma out_cols : ucols ++ filter (fun c => negb (mem c ucols)) rc = jcols.
  Proof. unfold jcols, rc. f_equal. cbn [filter].
    assert (mem namec ucols = true) as M1 by (apply mem_In; unfold ucols; apply in_or_app; right; left; reflexivity).
    assert (mem valc ucols = true) as M2 by (apply mem_In; unfold ucols; apply in_or_app; right; right; left; reflexivity).
    assert (mem mapc ucols = false) as M3 by (apply mem_false, mapc_notin_ucols).
    rewrite M1, M2, M3. reflexivity. Qed.

  Lemma mk_row r c (ob' : option (list val)) :
    (match ob' with Some _ => is_null (get cs r c) = false | None => True end) ->
    join_mk ucols rc jcols (Some (K r ++ [VStr c; get cs r c])) (option_map RRow ob')
    = Nrow r c (match ob' with Some mr => get mcs mr mapc | None => VNull end).
  Proof. intros Hn. destruct names_facts as (N1 & N2 & N3 & D12 & D13 & D23 & NDk & NDv & Dv).
    unfold join_mk, jcols, ucols, Nrow. rewrite !map_app. cbn [map]. rewrite <- app_assoc. cbn [app].
    assert (forall x, In x (keys ++ [namec; valc]) -> mem x (keys ++ [namec; valc]) = true) as MU by (intros x I; apply mem_In, I).
    f_equal; [|f_equal; [|f_equal; [|f_equal]]].
    - transitivity (map (get keys (K r)) keys); [|apply map_get_id; [exact NDk|apply K_len]]. apply map_ext_in. intros k Ik.
      rewrite MU by (apply in_or_app; left; exact Ik). rewrite (get_app_l keys _ (K r) _ k Ik (K_len r)).
      assert (mem k rc = false) as M by (apply mem_false; unfold rc; intros [E|[E|[E|[]]]]; subst k; contradiction).
      rewrite M. destruct ob'; apply unnull.
    - rewrite MU by (apply in_or_app; right; left; reflexivity). rewrite (get_app_r keys _ (K r) _ namec N1 (K_len r)), get_head. reflexivity.
    - rewrite MU by (apply in_or_app; right; right; left; reflexivity).
      rewrite (get_app_r keys _ (K r) _ valc N2 (K_len r)), get_tail by (intros E; apply D12; symmetry; exact E). rewrite get_head.
      destruct ob' as [mr|]; cbn [option_map]; [rewrite Hn; reflexivity|apply unnull].
    - assert (mem mapc (keys ++ [namec; valc]) = false) as M by (apply mem_false, mapc_notin_ucols). rewrite M. cbn [is_null].
      destruct ob' as [mr|]; cbn [option_map]; [|reflexivity].
      assert (mem mapc rc = true) as M2 by (apply mem_In; right; right; left; reflexivity). rewrite M2. unfold rc, RRow.
      rewrite get_tail by (intros E; apply D13; symmetry; exact E). rewrite get_tail by (intros E; apply D23; symmetry; exact E). apply get_head. Qed.

  (* all rows of the mapping table matching (c, v) carry the same mapped value: the table is uniquely keyed *)
  Lemma mf_sym a b : mf a b = mf b a.
  Proof. unfold mf. rewrite (v_eqv_sym (get mcs a namec)), (v_eqv_sym (get mcs a valc)). reflexivity. Qed.
  Lemma mtch_unique r c m1 m2 : In m1 mrs -> In m2 mrs -> mtch r c m1 = true -> mtch r c m2 = true -> m1 = m2.
  Proof. intros I1 I2 M1 M2. destruct mm_facts as (_ & _ & _ & _ & _ & _ & _ & _ & _ & _ & _ & _ & _ & _ & UM).
    destruct (pairwiseb_In mf mrs m1 m2 mf_sym UM I1 I2) as [E|F]; [exact E|exfalso].
    unfold mtch in M1, M2. apply andb_true_iff in M1 as [_ M1]. apply andb_true_iff in M1 as [A1 B1]. apply andb_true_iff in M2 as [_ M2]. apply andb_true_iff in M2 as [A2 B2].
    unfold mf in F. rewrite (v_eqv_sym _ (VStr c)) in A2. rewrite (v_eqv_sym _ (get cs r c)) in B2.
    rewrite (v_eqv_trans' _ _ _ A1 A2), (v_eqv_trans' _ _ _ B1 B2) in F. discriminate. Qed.
  Lemma ML_match r c mr : In mr mrs -> mtch r c mr = true -> ML r c = get mcs mr mapc.
  Proof. intros Im M. unfold ML, map_lookup. pose proof M as M'. unfold mtch in M'. apply andb_true_iff in M' as [Nn M'].
    apply negb_true_iff in Nn. rewrite Nn.
    destruct (find (fun mr0 => v_eqv (get mcs mr0 namec) (VStr c) && v_eqv (get mcs mr0 valc) (get cs r c)) mrs) as [m0|] eqn:F.
    - apply find_some in F as [I0 P0]. f_equal. apply (mtch_unique r c); auto. unfold mtch. rewrite Nn, P0. reflexivity.
    - pose proof (find_none _ _ F mr Im) as X. cbn beta in X. rewrite M' in X. discriminate. Qed.
  Lemma ML_nomatch r c : (forall mr, In mr mrs -> mtch r c mr = false) -> ML r c = VNull.
  Proof. intros H. unfold ML, map_lookup. destruct (is_null (get cs r c)) eqn:Nn; [reflexivity|].
    destruct (find _ mrs) as [m0|] eqn:F; [|reflexivity]. apply find_some in F as [I0 P0]. specialize (H m0 I0). unfold mtch in H. rewrite Nn, P0 in H. discriminate. Qed.

  Lemma join_rows nm row :
    In row (rows (sem_join nm [namec; valc] [namec; valc] JLeft (mktable ucols LR) (mktable rc (map RRow mrs))))
    <-> exists r c, In r rs /\ In c vcols /\ row = Nrow r c (ML r c).
  Proof. rewrite sem_join_left. cbn [cols rows]. rewrite out_cols, app_nil_r. rewrite in_app_iff, !in_flat_map. split.
    - intros [[L [IL I]]|[L [IL I]]]; apply LR_form in IL as [r [c [Ir [Ic ->]]]]; exists r, c; (split; [exact Ir|]); (split; [exact Ic|]).
      + apply in_flat_map in I as [R [IR I]]. apply in_map_iff in IR as [mr [<- Im]]. rewrite (km nm r c mr Im) in I.
        destruct (mtch r c mr) eqn:M; [|destruct I]. destruct I as [<-|[]].
        assert (is_null (get cs r c) = false) as Nn by (unfold mtch in M; apply andb_true_iff in M as [M _]; apply negb_true_iff, M).
        pose proof (mk_row r c (Some mr) Nn) as MK. cbn [option_map] in MK. rewrite MK, (ML_match r c mr Im M). reflexivity.
      + destruct (existsb _ (map RRow mrs)) eqn:E; [destruct I|]. destruct I as [<-|[]].
        pose proof (mk_row r c None I) as MK. cbn [option_map] in MK. rewrite MK. unfold Nrow. f_equal. f_equal. f_equal. f_equal. symmetry. apply ML_nomatch. intros mr Im.
        rewrite <- (km nm r c mr Im). destruct (keys_match nm _ _) eqn:X; [|reflexivity].
        assert (existsb (fun rb => keys_match nm (key_of ucols [namec; valc] (K r ++ [VStr c; get cs r c])) (key_of rc [namec; valc] rb)) (map RRow mrs) = true) as Y
          by (apply existsb_exists; exists (RRow mr); split; [apply in_map, Im|exact X]).
        congruence.
    - intros [r [c [Ir [Ic ->]]]].
      assert (In (K r ++ [VStr c; get cs r c]) LR) as IL by (apply LR_form; exists r, c; auto).
      destruct (existsb (fun rb => keys_match nm (key_of ucols [namec; valc] (K r ++ [VStr c; get cs r c])) (key_of rc [namec; valc] rb)) (map RRow mrs)) eqn:E.
      + left. exists (K r ++ [VStr c; get cs r c]). split; [exact IL|]. apply existsb_exists in E as [R [IR X]]. apply in_map_iff in IR as [mr [<- Im]].
        apply in_flat_map. exists (RRow mr). split; [apply in_map, Im|]. rewrite X. left.
        rewrite (km nm r c mr Im) in X.
        assert (is_null (get cs r c) = false) as Nn by (unfold mtch in X; apply andb_true_iff in X as [X _]; apply negb_true_iff, X).
        pose proof (mk_row r c (Some mr) Nn) as MK. cbn [option_map] in MK. rewrite MK, (ML_match r c mr Im X). reflexivity.
      + right. exists (K r ++ [VStr c; get cs r c]). split; [exact IL|]. rewrite E. left.
        pose proof (mk_row r c None I) as MK. cbn [option_map] in MK. rewrite MK. f_equal. f_equal. f_equal. f_equal. symmetry. apply ML_nomatch. intros mr Im. rewrite <- (km nm r c mr Im).
        destruct (keys_match nm _ _) eqn:X; [|reflexivity].
        assert (existsb (fun rb => keys_match nm (key_of ucols [namec; valc] (K r ++ [VStr c; get cs r c])) (key_of rc [namec; valc] rb)) (map RRow mrs) = true) as Y
          by (apply existsb_exists; exists (RRow mr); split; [apply in_map, Im|exact X]).
        congruence. Qed.
  Lemma join_cols nm : cols (sem_join nm [namec; valc] [namec; valc] JLeft (mktable ucols LR) (mktable rc (map RRow mrs))) = jcols.
  Proof. rewrite sem_join_left. cbn [cols]. apply out_cols. Qed.

  (* ---- optional coalesce of the mapped value *)
  Definition cov (x : val) : val := match co with Some d => if is_null x then d else x | None => x end.
  Definition co_table (j : table) : table :=
    match co with Some d => sem_extend_x pw fl [(mapc, EOp "coalesce" [ECol mapc; EConst d])] j | None => j end.
  Lemma Nrow_len r c x : List.length (Nrow r c x) = List.length jcols.
  Proof. unfold Nrow, jcols, ucols. rewrite !app_length, K_len. cbn [List.length]. lia. Qed.
  Lemma co_rows j : cols j = jcols -> (forall row, In row (rows j) <-> exists r c, In r rs /\ In c vcols /\ row = Nrow r c (ML r c)) ->
    cols (co_table j) = jcols /\ (forall row, In row (rows (co_table j)) <-> exists r c, In r rs /\ In c vcols /\ row = Nrow r c (cov (ML r c))).
  Proof. intros Cj Rj. unfold co_table, cov. destruct co as [d|]; [|split; assumption].
    assert (In mapc jcols) as Im by (unfold jcols; apply in_or_app; right; left; reflexivity).
    unfold sem_extend_x. cbn [map fst cols rows]. unfold ext_cols. cbn [fold_left]. rewrite Cj, (add_end_old jcols mapc Im). split; [reflexivity|].
    assert (forall r c, extend_row_x pw fl jcols [(mapc, EOp "coalesce" [ECol mapc; EConst d])] (Nrow r c (ML r c)) = Nrow r c (if is_null (ML r c) then d else ML r c)) as E.
    { intros r c. unfold extend_row_x. cbn [fold_left fst snd]. unfold eval_x.
      change (norm_expr (EOp "coalesce" [ECol mapc; EConst d])) with (EOp "coalesce" [ECol mapc; EConst d]). cbn [eval_n].
      change (xscalar pw fl "coalesce" [get jcols (Nrow r c (ML r c)) mapc; d]) with (if is_null (get jcols (Nrow r c (ML r c)) mapc) then d else get jcols (Nrow r c (ML r c)) mapc).
      assert (Nrow r c (ML r c) = (K r ++ [VStr c; get cs r c]) ++ [ML r c]) as EN by (unfold Nrow; rewrite <- app_assoc; reflexivity).
      assert (List.length (K r ++ [VStr c; get cs r c]) = List.length ucols) as LU by (unfold ucols; rewrite !app_length, K_len; reflexivity).
      assert (get jcols (Nrow r c (ML r c)) mapc = ML r c) as G by (rewrite EN; unfold jcols; rewrite (get_app_r ucols _ _ _ mapc mapc_notin_ucols LU); apply get_head).
      rewrite G, EN. unfold jcols. rewrite (set_cell_snoc ucols _ mapc _ _ mapc_notin_ucols LU). unfold Nrow. rewrite <- app_assoc. reflexivity. }
    intros row. rewrite in_map_iff. split.
    - intros [row0 [<- I0]]. apply Rj in I0 as [r [c [Ir [Ic ->]]]]. exists r, c. rewrite E. auto.
    - intros [r [c [Ir [Ic ->]]]]. exists (Nrow r c (ML r c)). split; [apply E|]. apply Rj. exists r, c. auto. Qed.

  (* ---- pivot back: one row per record key *)
  Lemma kf_sym a b : kf a b = kf b a.
  Proof. unfold kf. rewrite keys_eqv_sym. reflexivity. Qed.
  Lemma K_inj r r' : In r rs -> In r' rs -> keys_eqv (K r) (K r') = true -> r = r'.
  Proof. intros I I' E. destruct mm_facts as (_ & _ & _ & _ & _ & _ & _ & _ & _ & _ & _ & _ & UK & _).
    destruct (pairwiseb_In kf rs r r' kf_sym UK I I') as [H|H]; [exact H|]. unfold kf in H. fold (K r) (K r') in H. rewrite E in H. discriminate. Qed.
  Lemma Nrow_key r c x : key_of jcols keys (Nrow r c x) = K r.
  Proof. destruct names_facts as (_ & _ & _ & _ & _ & _ & NDk & _). unfold key_of at 1, jcols, ucols, Nrow. rewrite <- app_assoc. apply map_get_app_l; [exact NDk|apply K_len]. Qed.
  Lemma Nrow_name r c x : get jcols (Nrow r c x) namec = VStr c.
  Proof. destruct names_facts as (N1 & _). unfold jcols, ucols, Nrow. rewrite <- app_assoc. rewrite (get_app_r keys _ (K r) _ namec N1 (K_len r)). apply get_head. Qed.
  Lemma Nrow_mapc r c x : get jcols (Nrow r c x) mapc = x.
  Proof. destruct names_facts as (_ & _ & N3 & _ & D13 & D23 & _). unfold jcols, ucols, Nrow. rewrite <- app_assoc. rewrite (get_app_r keys _ (K r) _ mapc N3 (K_len r)).
    cbn [app]. rewrite get_tail by (intros E; apply D13; symmetry; exact E). rewrite get_tail by (intros E; apply D23; symmetry; exact E). apply get_head. Qed.

  Lemma pivot_rows j : cols j = jcols -> (forall row, In row (rows j) <-> exists r c, In r rs /\ In c vcols /\ row = Nrow r c (cov (ML r c))) ->
    Permutation (rows (sem_pivot keys namec mapc vcols j)) (map (fun r => K r ++ map (fun c => cov (ML r c)) vcols) rs).
  Proof. intros Cj Rj. destruct mm_facts as (NEk & NEv & _ & _ & _ & _ & _ & _ & _ & _ & _ & _ & UK & _).
    unfold sem_pivot. cbn [rows]. rewrite Cj.
    set (DK := distinct_keys (map (key_of jcols keys) (rows j))).
    set (G := fun k : list val => k ++ map (fun c => match find (fun r => keys_eqv k (key_of jcols keys r) && v_eqv (get jcols r namec) (VStr c)) (rows j) with
                                                      | Some r => get jcols r mapc | None => VNull end) vcols).
    assert (forall r, In r rs -> G (K r) = K r ++ map (fun c => cov (ML r c)) vcols) as EG.
    { intros r Ir. unfold G. f_equal. apply map_ext_in. intros c Ic.
      destruct (find _ (rows j)) as [row|] eqn:F.
      - apply find_some in F as [I P]. apply Rj in I as [r' [c' [Ir' [Ic' ->]]]]. rewrite Nrow_key, Nrow_name, Nrow_mapc in *.
        apply andb_true_iff in P as [P1 P2]. assert (r = r') as <- by (apply K_inj; assumption).
        cbn [v_eqv] in P2. apply String.eqb_eq in P2. subst c'. reflexivity.
      - exfalso. assert (In (Nrow r c (cov (ML r c))) (rows j)) as I by (apply Rj; exists r, c; auto).
        pose proof (find_none _ _ F _ I) as X. cbn beta in X. rewrite Nrow_key, Nrow_name, keys_eqv_refl in X. cbn [v_eqv andb] in X. rewrite String.eqb_refl in X. discriminate. }
    assert (Permutation DK (map K rs)) as PK.
    { apply NoDup_Permutation.
      - pose proof (distinct_keys_pairwise (map (key_of jcols keys) (rows j))) as FO. fold DK in FO. clear -FO.
        induction FO as [|k l F _ IH]; constructor; [|exact IH]. intros I. rewrite Forall_forall in F. specialize (F k I). rewrite keys_eqv_refl in F. discriminate.
      - apply (pairwiseb_NoDup_map kf K rs UK). intros x y E. unfold kf. fold (K x) (K y). rewrite E, keys_eqv_refl. reflexivity.
      - intros k. split.
        + intros I. apply distinct_keys_sound in I. apply in_map_iff in I as [row [<- I]]. apply Rj in I as [r [c [Ir [Ic ->]]]]. rewrite Nrow_key. apply in_map, Ir.
        + intros I. apply in_map_iff in I as [r [<- Ir]].
          destruct (nonempty_In vcols NEv) as [c0 Ic0].
          assert (In (K r) (map (key_of jcols keys) (rows j))) as I0.
          { apply in_map_iff. exists (Nrow r c0 (cov (ML r c0))). split; [apply Nrow_key|]. apply Rj. exists r, c0. split; [exact Ir|]. split; [exact Ic0|reflexivity]. }
          destruct (distinct_keys_complete _ _ I0) as [k' [Ik' E']]. fold DK in Ik'.
          pose proof Ik' as Ik''. apply distinct_keys_sound in Ik''. apply in_map_iff in Ik'' as [row [Er I]]. apply Rj in I as [r' [c' [Ir' [Ic' ->]]]]. rewrite Nrow_key in Er.
          subst k'. assert (r' = r) as -> by (apply K_inj; assumption). exact Ik'. }
    change (map (fun k => G k) DK) with (map G DK).
    eapply perm_trans; [apply Permutation_map, PK|]. rewrite map_map. rewrite (map_ext_in _ (fun r => K r ++ map (fun c => cov (ML r c)) vcols) rs EG). apply Permutation_refl.
  Qed.
  Lemma pivot_cols j : cols (sem_pivot keys namec mapc vcols j) = keys ++ vcols.
  Proof. reflexivity. Qed.
  Lemma pivot_width j row : In row (rows (sem_pivot keys namec mapc vcols j)) -> List.length row = List.length (keys ++ vcols).
  Proof. unfold sem_pivot. cbn [rows]. intros I. apply in_map_iff in I as [k [<- Ik]]. rewrite !app_length, map_length. f_equal.
    apply distinct_keys_sound in Ik. apply in_map_iff in Ik as [r [<- _]]. apply key_of_length. Qed.

  (* ---- the whole pipeline on tables *)
  Definition mm_pivoted (nm : bool) : table :=
    sem_pivot keys namec mapc vcols
      (co_table (sem_join nm [namec; valc] [namec; valc] JLeft
                   (sem_select_cols ucols (sem_unpivot keys namec valc vcols (sem_select_cols (keys ++ vcols) t)))
                   (sem_select_cols rc mt))).
  Lemma spec_rows : rows (multimap_spec keys namec valc mapc vcols co back t mt) = map (fun r => K r ++ map (fun c => cov (ML r c)) vcols) rs.
  Proof. unfold multimap_spec. cbn [rows]. fold cs rs mcs mrs. apply map_ext. intros r. f_equal. Qed.
  Lemma mm_pivoted_ok nm : cols (mm_pivoted nm) = keys ++ vcols /\ Permutation (rows (mm_pivoted nm)) (map (fun r => K r ++ map (fun c => cov (ML r c)) vcols) rs).
  Proof. split; [reflexivity|]. unfold mm_pivoted. rewrite step_unpivot, left_select, right_select.
    destruct (co_rows _ (join_cols nm) (join_rows nm)) as [C R]. apply pivot_rows; assumption. Qed.

  Lemma mm_renamed nm bs : back = Some bs ->
    tbl_equiv (sem_rename (combine bs vcols) (sem_select_cols (keys ++ vcols) (mm_pivoted nm))) (multimap_spec keys namec valc mapc vcols co back t mt).
  Proof. intros EB. destruct mm_facts as (_ & _ & NDkv & _ & HB & _). rewrite EB in HB. destruct HB as [NDb Lb].
    destruct names_facts as (_ & _ & _ & _ & _ & _ & NDk & NDv & Dv).
    destruct (mm_pivoted_ok nm) as [C R]. split.
    - unfold sem_rename, sem_select_cols, multimap_spec. cbn [cols]. rewrite EB, map_app. f_equal; [|apply rename_vcols; assumption].
      rewrite <- (map_id keys) at 2. apply map_ext_in. intros k Ik. apply rename_other. rewrite combine_snd by exact Lb. intros I. apply (Dv k I Ik).
    - unfold sem_rename. cbn [rows sem_select_cols]. rewrite spec_rows.
      rewrite (map_ext_in _ (fun r => r) (rows (mm_pivoted nm))); [rewrite map_id; exact R|].
      intros row I. rewrite C. apply map_get_id; [exact NDkv|]. apply (pivot_width _ row I). Qed.
  Lemma mm_plain nm : back = None -> tbl_equiv (mm_pivoted nm) (multimap_spec keys namec valc mapc vcols co back t mt).
  Proof. intros EB. destruct (mm_pivoted_ok nm) as [C R]. split; [rewrite C; unfold multimap_spec; cbn [cols]; rewrite EB; reflexivity|rewrite spec_rows; exact R]. Qed.
End MM.

Lemma sem_xop_let pw fl n b body e :
  sem_xop pw fl (XLet n b body) e = match sem_xop pw fl b e with Some t => sem_xop pw fl body ((n, t) :: e) | None => None end.
Proof. reflexivity. Qed.

Theorem multi_map_correct (pw : nat -> nat) (fl : flavor) (d m : op) (keys : list string) (namec valc mapc : string) (vcols : list string)
        (co : option val) (back : option (list string)) (e : env) (t mt : table) :
  sem_x pw fl d e = Some t -> sem_x pw fl m e = Some mt -> ~ In mm_tmp1 (tables_of m) ->
  multimap_valid keys namec valc mapc vcols back t mt = true ->
  exists out, sem_xop pw fl (multi_map_pipeline d m keys namec valc mapc vcols co back) e = Some out
              /\ tbl_equiv out (multimap_spec keys namec valc mapc vcols co back t mt).
Proof. intros Hd Hm Nm V. unfold multi_map_pipeline.
  set (u := sem_unpivot keys namec valc vcols (sem_select_cols (keys ++ vcols) t)).
  assert (sem_x pw fl m ((mm_tmp1, u) :: e) = Some mt) as Hm'.
  { rewrite <- Hm. apply sem_x_env_ext. intros n I. cbn [dict_get]. destruct (eq_dec n mm_tmp1) as [->|]; [contradiction|reflexivity]. }
  assert (forall p, sem_xop pw fl (XPivot (XLet mm_tmp1 (XUnpivot (XSem (OSelectCols d (keys ++ vcols))) keys namec valc vcols) (XSem p)) keys namec mapc vcols) e
                    = option_map (sem_pivot keys namec mapc vcols) (sem_x pw fl p ((mm_tmp1, u) :: e))) as EP
    by (intros p; cbn [sem_xop sem_x]; rewrite Hd; reflexivity).
  assert (sem_x pw fl (OJoin (OTable mm_tmp1 (keys ++ [namec; valc])) (OSelectCols m [namec; valc; mapc]) [namec; valc] [namec; valc] JLeft) ((mm_tmp1, u) :: e)
          = Some (sem_join (f_join_null_match fl) [namec; valc] [namec; valc] JLeft (sem_select_cols (keys ++ [namec; valc]) u) (sem_select_cols [namec; valc; mapc] mt))) as EJ.
  { cbn [sem_x dict_get]. destruct (eq_dec mm_tmp1 mm_tmp1) as [_|N]; [|congruence]. rewrite Hm'. reflexivity. }
  assert (exists pv, sem_xop pw fl (XPivot (XLet mm_tmp1 (XUnpivot (XSem (OSelectCols d (keys ++ vcols))) keys namec valc vcols)
                                              (XSem match co with
                                                    | Some v => OExtend (OJoin (OTable mm_tmp1 (keys ++ [namec; valc])) (OSelectCols m [namec; valc; mapc]) [namec; valc] [namec; valc] JLeft) [(mapc, EOp "coalesce" [ECol mapc; EConst v])] false no_win
                                                    | None => OJoin (OTable mm_tmp1 (keys ++ [namec; valc])) (OSelectCols m [namec; valc; mapc]) [namec; valc] [namec; valc] JLeft
                                                    end)) keys namec mapc vcols) e = Some pv
                     /\ pv = mm_pivoted pw fl keys namec valc mapc vcols co t mt (f_join_null_match fl)) as [pv [Epv ->]].
  { eexists. split; [|reflexivity]. rewrite EP. unfold mm_pivoted, co_table. destruct co as [v|].
    - cbn [sem_x]. cbn [sem_x] in EJ. rewrite EJ. reflexivity.
    - rewrite EJ. reflexivity. }
  destruct back as [bs|] eqn:EB.
  - eexists. split.
    + cbv zeta. rewrite sem_xop_let, Epv. cbn [sem_xop sem_x dict_get]. destruct (eq_dec mm_tmp2 mm_tmp2) as [_|N]; [|congruence]. reflexivity.
    + apply (mm_renamed pw fl keys namec valc mapc vcols co (Some bs) t mt V _ bs eq_refl).
  - eexists. split; [cbv zeta; exact Epv|]. apply (mm_plain pw fl keys namec valc mapc vcols co None t mt V _ eq_refl).
Qed.

(* what the helper returns when it returns: for two or more columns to map the pipeline above *)
Theorem multi_map_built_correct (pw : nat -> nat) (fl : flavor) (d m : op) (keys : list string) (namec valc mapc : string) (vcols : list string)
        (co : option val) (back : option (list string)) (p : xop) (e : env) (t mt : table) :
  multi_map_build d m keys namec valc mapc vcols co back = Some p ->
  sem_x pw fl d e = Some t -> sem_x pw fl m e = Some mt -> ~ In mm_tmp1 (tables_of m) ->
  multimap_valid keys namec valc mapc vcols back t mt = true ->
  exists out, sem_xop pw fl p e = Some out /\ tbl_equiv out (multimap_spec keys namec valc mapc vcols co back t mt).
Proof. unfold multi_map_build. destruct (Nat.leb (List.length vcols) 1); [discriminate|]. intros E. inversion E; subst p. apply multi_map_correct. Qed.
Lemma multi_map_build_some d m keys namec valc mapc vcols co back :
  (2 <= List.length vcols)%nat -> multi_map_build d m keys namec valc mapc vcols co back = Some (multi_map_pipeline d m keys namec valc mapc vcols co back).
Proof. intros L. unfold multi_map_build. destruct (Nat.leb_spec (List.length vcols) 1); [lia|reflexivity]. Qed.

(* the known finding's witness: a call the docstring allows (one column to map) on which the helper returns nothing *)
Lemma multi_map_single_column_witness :
  exists (d m : op) (keys : list string) (namec valc mapc : string) (vcols : list string) (t mt : table),
    multimap_valid keys namec valc mapc vcols None t mt = true
    /\ sem_gen fl_pandas d [("d", t); ("m", mt)] = Some t /\ sem_gen fl_pandas m [("d", t); ("m", mt)] = Some mt
    /\ multi_map_build d m keys namec valc mapc vcols None None = None.
Proof.
  exists (OTable "d" ["id"; "a"]), (OTable "m" ["column_name"; "column_value"; "mapped_value"]), ["id"], "column_name", "column_value", "mapped_value", ["a"],
         (mktable ["id"; "a"] [[vnat 0; VStr "x"]; [vnat 1; VStr "y"]]),
         (mktable ["column_name"; "column_value"; "mapped_value"] [[VStr "a"; VStr "x"; vnat 1]]).
  vm_compute. repeat split; reflexivity. Qed.
