(* Proofs/PipePrintP1.v -- C12, character level, part 1: the value of the literal written by str.__repr__ is the
   string itself (py_unquote (py_repr np s) = Some s), for every string and every set `np` of non-printable code
   points. *)
From Coq Require Import List Bool String Ascii ZArith NArith Arith Lia ZifyBool.
Import ListNotations.
From DA Require Import Model.PyExpr Model.ExprPrint Model.PipePrintStr.
Local Open Scope string_scope.
Local Open Scope bool_scope.
Local Open Scope list_scope.

(* ------------------------------------------------------------------ strings *)
Lemma sapp_assoc (a b c : string) : (a +++ b) +++ c = a +++ (b +++ c).
Proof. induction a as [|x a IH]; [reflexivity|]. cbn [String.append]. rewrite IH. reflexivity. Qed.

Lemma sapp_nil_r (a : string) : a +++ EmptyString = a.
Proof. induction a as [|x a IH]; [reflexivity|]. cbn [String.append]. rewrite IH. reflexivity. Qed.

Lemma slen_app (a b : string) : String.length (a +++ b) = String.length a + String.length b.
Proof. induction a as [|x a IH]; [reflexivity|]. cbn [String.append String.length]. rewrite IH. reflexivity. Qed.

Lemma stake_sdrop (k : nat) (s : string) : stake k s +++ sdrop k s = s.
Proof. revert s. induction k as [|k IH]; intros s; [reflexivity|]. destruct s as [|c r]; [reflexivity|].
  cbn [stake sdrop String.append]. rewrite IH. reflexivity. Qed.

Lemma is_quote_cases (q : ascii) : is_quote q = true -> q = c_sq \/ q = c_dq.
Proof. unfold is_quote. intros H. apply orb_prop in H as [H|H]; apply Ascii.eqb_eq in H; [left|right]; exact H. Qed.

(* ------------------------------------------------------------------ several steps of the literal scanner *)
Fixpoint run (q : ascii) (st : sst) (w : string) : option (string * sst) :=
  match w with
  | EmptyString => Some (EmptyString, st)
  | String c r =>
      match step q st c with
      | Cont out st' => match run q st' r with Some (v, st'') => Some (out +++ v, st'') | None => None end
      | _ => None
      end
  end.

Lemma scan_run (q : ascii) (w : string) : forall (st : sst) (out : string) (st' : sst) (t : string),
  run q st w = Some (out, st') ->
  scan_go q st (w +++ t) = match scan_go q st' t with Some (v, rest) => Some (out +++ v, rest) | None => None end.
Proof. induction w as [|c r IH]; intros st out st' t H.
  - cbn [run] in H. injection H as <- <-. cbn [String.append]. destruct (scan_go q st t) as [[v rest]|]; reflexivity.
  - cbn [run] in H. cbn [String.append scan_go]. destruct (step q st c) as [| |o1 st1]; try discriminate H.
    destruct (run q st1 r) as [[v1 st2]|] eqn:R; [|discriminate H]. injection H as <- <-.
    rewrite (IH _ _ _ t R). destruct (scan_go q st2 t) as [[v rest]|]; [|reflexivity].
    rewrite sapp_assoc. reflexivity. Qed.

Lemma run_app (q : ascii) (a : string) : forall (st : sst) (b o1 o2 : string) (st1 st2 : sst),
  run q st a = Some (o1, st1) -> run q st1 b = Some (o2, st2) -> run q st (a +++ b) = Some (o1 +++ o2, st2).
Proof. induction a as [|c r IH]; intros st b o1 o2 st1 st2 Ha Hb.
  - cbn [run] in Ha. injection Ha as <- <-. exact Hb.
  - cbn [run] in Ha. cbn [String.append run]. destruct (step q st c) as [| |o st']; try discriminate Ha.
    destruct (run q st' r) as [[v st'']|] eqn:R; [|discriminate Ha]. injection Ha as <- <-.
    rewrite (IH _ _ _ _ _ _ R Hb). rewrite sapp_assoc. reflexivity. Qed.

(* ------------------------------------------------------------------ facts about one character *)
Lemma esc_ascii_run (q c : ascii) : is_quote q = true -> (code c <? 128)%N = true ->
  run q SNorm (esc_ascii q c) = Some (s1 c, SNorm).
Proof. intros Hq Hc. apply is_quote_cases in Hq as [-> | ->];
  destruct c as [[] [] [] [] [] [] [] []]; try (vm_compute in Hc; discriminate Hc); vm_compute; reflexivity. Qed.

Lemma step_high (q c : ascii) : is_quote q = true -> (code c <? 128)%N = false -> step q SNorm c = Cont (s1 c) SNorm.
Proof. intros Hq Hc. apply is_quote_cases in Hq as [-> | ->];
  destruct c as [[] [] [] [] [] [] [] []]; try (vm_compute in Hc; discriminate Hc); vm_compute; reflexivity. Qed.

Lemma step_quote (q : ascii) : step q SNorm q = Done.
Proof. cbn [step]. unfold step_norm. rewrite Ascii.eqb_refl. reflexivity. Qed.

Lemma hexval_hexdigit_nat (d : nat) : d < 16 -> hexval (hexdigit (N.of_nat d)) = Some (N.of_nat d).
Proof. intros H. do 16 (destruct d as [|d]; [vm_compute; reflexivity|]). lia. Qed.

Lemma hexval_hexdigit (d : N) : (d < 16)%N -> hexval (hexdigit d) = Some d.
Proof. intros H. rewrite <- (N2Nat.id d). apply hexval_hexdigit_nat. lia. Qed.

Lemma run_escape_start (q : ascii) : is_quote q = true ->
  run q SNorm "\x" = Some (EmptyString, SHex 2 0) /\ run q SNorm "\u" = Some (EmptyString, SHex 4 0)
  /\ run q SNorm "\U" = Some (EmptyString, SHex 8 0).
Proof. intros Hq. apply is_quote_cases in Hq as [-> | ->]; vm_compute; repeat split; reflexivity. Qed.

(* ------------------------------------------------------------------ hexadecimal escapes *)
Lemma step_hex_last (q : ascii) (acc d : N) : (d < 16)%N -> (acc * 16 + d <= max_cp)%N ->
  step q (SHex 1 acc) (hexdigit d) = Cont (utf8_enc (acc * 16 + d)) SNorm.
Proof. intros Hd Hm. cbn [step]. rewrite (hexval_hexdigit d Hd). apply N.leb_le in Hm. rewrite Hm. reflexivity. Qed.

Lemma step_hex_more (q : ascii) (k : nat) (acc d : N) : (d < 16)%N ->
  step q (SHex (S (S k)) acc) (hexdigit d) = Cont EmptyString (SHex (S k) (acc * 16 + d)).
Proof. intros Hd. cbn [step]. rewrite (hexval_hexdigit d Hd). reflexivity. Qed.

Lemma run_hex (q : ascii) (n : N) : forall (k : nat) (acc : N),
  (acc * 16 ^ N.of_nat (S k) + n mod 16 ^ N.of_nat (S k) <= max_cp)%N ->
  run q (SHex (S k) acc) (hexN (S k) n) = Some (utf8_enc (acc * 16 ^ N.of_nat (S k) + n mod 16 ^ N.of_nat (S k)), SNorm).
Proof. induction k as [|k IH]; intros acc Hm.
  - change (N.of_nat 1) with 1%N in *. change (16 ^ 1)%N with 16%N in *.
    change (hexN 1 n) with (String (hexdigit ((n / 16 ^ N.of_nat 0) mod 16)%N) EmptyString).
    change (16 ^ N.of_nat 0)%N with 1%N. rewrite N.div_1_r. cbn [run].
    rewrite step_hex_last; [|apply N.mod_lt; discriminate|exact Hm]. rewrite sapp_nil_r. reflexivity.
  - change (hexN (S (S k)) n) with (String (hexdigit ((n / 16 ^ N.of_nat (S k)) mod 16)%N) (hexN (S k) n)).
    remember (N.of_nat (S k)) as K eqn:EK.
    assert (EK2 : N.of_nat (S (S k)) = N.succ K) by (rewrite EK; apply Nat2N.inj_succ).
    rewrite EK2 in *. clear EK2.
    assert (Hp : (16 ^ K <> 0)%N) by (apply N.pow_nonzero; discriminate).
    assert (E : ((acc * 16 + (n / 16 ^ K) mod 16) * 16 ^ K + n mod 16 ^ K
                 = acc * 16 ^ N.succ K + n mod 16 ^ N.succ K)%N).
    { rewrite N.pow_succ_r'. rewrite (N.mul_comm 16 (16 ^ K)). rewrite (N.mod_mul_r n (16 ^ K) 16 Hp); [|discriminate]. ring. }
    cbn [run]. rewrite step_hex_more; [|apply N.mod_lt; discriminate].
    rewrite (IH (acc * 16 + (n / 16 ^ K) mod 16)%N); [|rewrite E; exact Hm]. rewrite E. reflexivity. Qed.

Lemma esc_cp_run (q : ascii) (cp : N) : is_quote q = true -> (cp <= max_cp)%N ->
  run q SNorm (esc_cp cp) = Some (utf8_enc cp, SNorm).
Proof. intros Hq Hm. destruct (run_escape_start q Hq) as [Hx [Hu HU]]. unfold esc_cp.
  assert (G : forall k pre, run q SNorm pre = Some (EmptyString, SHex (S k) 0) -> (cp < 16 ^ N.of_nat (S k))%N ->
              run q SNorm (pre +++ hexN (S k) cp) = Some (utf8_enc cp, SNorm)).
  { intros k pre Hpre Hlt. assert (E : (0 * 16 ^ N.of_nat (S k) + cp mod 16 ^ N.of_nat (S k) = cp)%N).
    { rewrite N.mod_small by exact Hlt. rewrite N.mul_0_l. apply N.add_0_l. }
    pose proof (run_hex q cp k 0%N) as R. rewrite E in R. specialize (R Hm).
    exact (run_app q pre SNorm (hexN (S k) cp) EmptyString (utf8_enc cp) (SHex (S k) 0) SNorm Hpre R). }
  destruct (cp <? 256)%N eqn:C1; [|destruct (cp <? 65536)%N eqn:C2].
  - apply (G 1 "\x" Hx). change (16 ^ N.of_nat 2)%N with 256%N. apply N.ltb_lt. exact C1.
  - apply (G 3 "\u" Hu). change (16 ^ N.of_nat 4)%N with 65536%N. apply N.ltb_lt. exact C2.
  - apply (G 7 "\U" HU). change (16 ^ N.of_nat 8)%N with 4294967296%N. unfold max_cp in Hm. lia. Qed.

(* ------------------------------------------------------------------ UTF-8 decoding *)
Lemma try_spec (e t : string) (cp0 : N) (k0 : nat) (cp : N) (k : nat) :
  (if String.eqb e t && (cp0 <=? 1114111)%N then Some (cp0, k0) else None) = Some (cp, k) ->
  e = t /\ (cp0 <= max_cp)%N /\ cp0 = cp /\ k0 = k.
Proof. destruct (String.eqb e t) eqn:E1; [|discriminate]. destruct (cp0 <=? 1114111)%N eqn:E2; [|discriminate].
  cbn [andb]. intros H. injection H as <- <-. apply String.eqb_eq in E1. apply N.leb_le in E2. unfold max_cp. tauto. Qed.

Lemma utf8_dec_spec (s : string) (cp : N) (k : nat) : utf8_dec s = Some (cp, k) ->
  utf8_enc cp = stake (S k) s /\ (cp <= max_cp)%N /\ S k <= String.length s.
Proof. destruct s as [|c0 r]; [discriminate|]. unfold utf8_dec. cbv beta zeta.
  destruct (code c0 <? 192)%N; [discriminate|].
  destruct (code c0 <? 224)%N; [|destruct (code c0 <? 240)%N].
  - destruct r as [|c1 r1]; [discriminate|]. intros H. apply try_spec in H as [H1 [H2 [<- <-]]].
    split; [exact H1|]. split; [exact H2|]. cbn [String.length]. lia.
  - destruct r as [|c1 [|c2 r2]]; try discriminate. intros H. apply try_spec in H as [H1 [H2 [<- <-]]].
    split; [exact H1|]. split; [exact H2|]. cbn [String.length]. lia.
  - destruct r as [|c1 [|c2 [|c3 r3]]]; try discriminate. intros H. apply try_spec in H as [H1 [H2 [<- <-]]].
    split; [exact H1|]. split; [exact H2|]. cbn [String.length]. lia. Qed.

(* ------------------------------------------------------------------ the round trip *)
Lemma scan_go_esc_gen (np : N -> bool) (q : ascii) (rest : string) : is_quote q = true ->
  forall (s : string) (k : nat), k <= String.length s ->
  scan_go q SNorm (esc_go np q k s +++ String q rest) = Some (sdrop k s, rest).
Proof. intros Hq. induction s as [|c r IH]; intros k Hk.
  - cbn [String.length] in Hk. assert (k = 0) as -> by lia. cbn [esc_go String.append scan_go sdrop].
    rewrite step_quote. reflexivity.
  - destruct k as [|k].
    + cbn [esc_go sdrop]. destruct (code c <? 128)%N eqn:Hc.
      * rewrite sapp_assoc. rewrite (scan_run q _ SNorm (s1 c) SNorm _ (esc_ascii_run q c Hq Hc)).
        rewrite (IH 0); [|lia]. reflexivity.
      * assert (Plain : scan_go q SNorm (String c (esc_go np q 0 r) +++ String q rest) = Some (String c r, rest)).
        { cbn [String.append scan_go]. rewrite (step_high q c Hq Hc). rewrite (IH 0); [|lia]. reflexivity. }
        destruct (utf8_dec (String c r)) as [[cp k]|] eqn:D; [|exact Plain].
        destruct (np cp) eqn:P; [|exact Plain].
        apply utf8_dec_spec in D as [D1 [D2 D3]]. cbn [String.length] in D3.
        rewrite sapp_assoc. rewrite (scan_run q _ SNorm (utf8_enc cp) SNorm _ (esc_cp_run q cp Hq D2)).
        rewrite (IH k); [|lia]. rewrite D1. cbn [stake String.append]. rewrite stake_sdrop. reflexivity.
    + cbn [esc_go sdrop]. apply IH. cbn [String.length] in Hk. lia. Qed.

Lemma scan_go_esc : forall (np : N -> bool) (q : ascii) (s rest : string), is_quote q = true ->
  scan_go q SNorm (esc_go np q 0 s +++ String q rest) = Some (s, rest).
Proof. intros np q s rest Hq. exact (scan_go_esc_gen np q rest Hq s 0 (Nat.le_0_l _)). Qed.

Lemma pick_quote_is_quote (s : string) : is_quote (pick_quote s) = true.
Proof. unfold pick_quote. destruct (has_char c_sq s && negb (has_char c_dq s)); reflexivity. Qed.

Theorem py_unquote_repr : forall (np : N -> bool) (s : string), py_unquote (py_repr np s) = Some s.
Proof. intros np s. unfold py_repr, py_unquote. cbv zeta. rewrite (pick_quote_is_quote s).
  unfold s1. rewrite (scan_go_esc np (pick_quote s) s EmptyString (pick_quote_is_quote s)). reflexivity. Qed.

Print Assumptions scan_go_esc.
Print Assumptions py_unquote_repr.
