(* C18, part 5: the Pandas executor model on inputs that are BOTH row-permuted and re-labelled. *)
From Coq Require Import List Bool Arith ZArith QArith String Lia Permutation.
Import ListNotations.
From DA Require Import Base.PyRT Base.Val Model.Sem Model.PermGuard Model.PandasIndex Proofs.PermP4 Proofs.PandasIndexP.
Local Open Scope list_scope.

Theorem px_perm_reindex fl p e e' f :
  env_perm (strip e) (strip e') -> total_orders fl p (strip e) -> exact_group_keys fl p (strip e) ->
  px fl p e = Some f ->
  exists f', px fl p e' = Some f' /\ ix f' = default_ix (nrows f') /\ cols (tb f') = cols (tb f) /\ Permutation (rows (tb f)) (rows (tb f')).
Proof.
  intros EP TO XK H. pose proof (px_data fl p e f H) as S.
  destruct (sem_perm fl p (strip e) (strip e') (tb f) EP TO XK S) as [t' [S' [C P]]].
  destruct (px_defined fl p e' t' S') as [f' H']. exists f'. split; [exact H'|].
  split; [apply (px_default_index fl p e' f' H')|].
  pose proof (px_data fl p e' f' H') as S2. rewrite S' in S2. inversion S2; subst t'. split; assumption.
Qed.
