(* C01 / C02, part 4: concrete witnesses (vm_compute).
   - for every convention in which the models of Pandas and SQLite (PostgreSQL) differ: a pipeline and tables on which the two
     models return different tables, on which exactly that convention matters, and the causes Model/SemStrict.v names for it;
   - non-vacuity: a non-trivial pipeline over tables WITH nulls, duplicates and ties that is insensitive. *)
From Coq Require Import List Bool Arith ZArith QArith String.
Import ListNotations.
From DA Require Import Base.PyRT Base.Val Model.Sem Model.SemStrict.
Local Open Scope string_scope.
Local Open Scope list_scope.

Definition zv (z : Z) : val := VNum (inject_Z z).
Definition half : val := VNum (1 # 2).
Definition w_d1 : table :=
  mktable ["k"; "a"; "b"; "u"]
    [[zv 1; zv 1; VNull; zv 0]; [zv 1; VNull; zv 2; zv 1]; [zv 2; zv 3; zv 1; zv 2]; [VNull; VNull; VNull; zv 3]; [VNull; zv 5; half; zv 4]].
Definition w_d2 : table := mktable ["k"; "c"] [[zv 1; zv 10]; [VNull; zv 20]; [zv 3; zv 30]].
(* nb : a boolean column with a null (for and / or without any comparison) *)
Definition w_d3 : table := mktable ["a"; "nb"; "u"] [[zv 1; VNull; zv 0]; [VNull; VBool true; zv 1]; [zv 2; VBool false; zv 2]].
Definition w_env : env := [("d1", w_d1); ("d2", w_d2); ("d3", w_d3)].
Definition T1 : op := OTable "d1" ["k"; "a"; "b"; "u"].
Definition T2 : op := OTable "d2" ["k"; "c"].
Definition T3 : op := OTable "d3" ["a"; "nb"; "u"].
Definition nowin : window := mkwin [] [] [].

Definition w_cmp : op := OExtend T1 [("x", EOp ">" [ECol "a"; EConst (zv 1)])] false nowin.
Definition w_ne_filter : op := OSelectRows T1 (EOp "!=" [ECol "a"; EConst (zv 1)]).
Definition w_logic : op := OExtend T3 [("x", EOp "if_else" [EOp "or" [EOp "is_null" [ECol "a"]; ECol "nb"]; EConst (zv 1); EConst (zv 0)])] false nowin.
Definition w_minmax : op := OExtend T1 [("x", EOp "maximum" [ECol "a"; ECol "b"])] false nowin.
Definition w_fminmax : op := OExtend T1 [("x", EOp "fmax" [ECol "a"; ECol "b"])] false nowin.
Definition w_empty_agg : op := OProject (OSelectRows T1 (EOp "==" [ECol "u"; EConst (zv 3)])) [("s", EOp "sum" [ECol "a"])] ["k"].
Definition w_running : op := OExtend T1 [("x", EOp "cumsum" [ECol "a"])] true (mkwin [] ["u"] []).
Definition w_sort_asc : op := OOrder T1 ["a"; "u"] [] (Some 2%nat).
Definition w_sort_desc : op := OOrder T1 ["a"; "u"] ["a"] (Some 2%nat).
Definition w_window_order : op := OExtend T1 [("x", EOp "_row_number" [])] true (mkwin [] ["a"; "u"] []).
Definition w_join : op := OJoin T1 T2 ["k"] ["k"] JInner.
Definition w_final_order : op := OOrder T1 ["a"; "u"] [] None.

(* (causes along Pandas, conventions of SQLite that matter when adopted alone, do the two models agree as multisets?) *)
Definition verdict (fl2 : flavor) (p : op) : list nat * list nat * bool :=
  (map cause_code (causes fl_pandas p w_env), map field_code (effective_fields false fl_pandas fl2 p w_env),
   tables_agree false (sem_gen fl_pandas p w_env) (sem_gen fl2 p w_env)).

Lemma w_cmp_ok : verdict fl_sqlite w_cmp = ([1; 1]%nat, [1]%nat, false).              Proof. vm_compute. reflexivity. Qed.
Lemma w_ne_filter_ok : verdict fl_sqlite w_ne_filter = ([2; 2]%nat, [1]%nat, false).  Proof. vm_compute. reflexivity. Qed.
Lemma w_logic_ok : verdict fl_sqlite w_logic = ([3]%nat, [2]%nat, false).             Proof. vm_compute. reflexivity. Qed.
(* maximum / minimum / fmax / fmin: since /repo 9699787 the SQL templates follow Pandas (fl_sqlite, fl_postgres): the cause is
   met, no convention of SQLite matters, the models agree; since /repo 73dee51 the same holds for Polars (fl_polars).  Only a
   hypothetical backend that ignored a null operand (the field set by hand) would still differ: that is why the cause stays in
   the hypothesis of the agreement theorems, which quantify over EVERY flavour. *)
Lemma w_minmax_ok : verdict fl_sqlite w_minmax = ([4; 4; 4]%nat, []%nat, true).       Proof. vm_compute. reflexivity. Qed.
Lemma w_fminmax_ok : verdict fl_sqlite w_fminmax = ([5; 5; 5]%nat, []%nat, true).     Proof. vm_compute. reflexivity. Qed.
Lemma w_minmax_polars : verdict fl_polars w_minmax = ([4; 4; 4]%nat, []%nat, true).    Proof. vm_compute. reflexivity. Qed.
Lemma w_minmax_postgres : verdict fl_postgres w_minmax = ([4; 4; 4]%nat, []%nat, true). Proof. vm_compute. reflexivity. Qed.
Definition fl_ignoring_minmax : flavor := set_field FMinMax true fl_pandas.
Lemma w_minmax_hypothetical : verdict fl_ignoring_minmax w_minmax = ([4; 4; 4]%nat, [3]%nat, false). Proof. vm_compute. reflexivity. Qed.
Lemma w_empty_agg_ok : verdict fl_sqlite w_empty_agg = ([6]%nat, [5]%nat, false).     Proof. vm_compute. reflexivity. Qed.
Lemma w_running_ok : verdict fl_sqlite w_running = ([7]%nat, [6]%nat, false).         Proof. vm_compute. reflexivity. Qed.
Lemma w_sort_asc_ok : verdict fl_sqlite w_sort_asc = ([8]%nat, [7]%nat, false).       Proof. vm_compute. reflexivity. Qed.
Lemma w_window_order_ok : verdict fl_sqlite w_window_order = ([8]%nat, [7]%nat, false). Proof. vm_compute. reflexivity. Qed.
(* null join keys on both sides: since /repo af27aca the Pandas executor no longer pairs null keys (fl_pandas), so the four named
   flavours agree; a backend that paired them (what pandas.merge does, the field set by hand) would differ *)
Lemma w_join_ok : verdict fl_sqlite w_join = ([10]%nat, []%nat, true).                  Proof. vm_compute. reflexivity. Qed.
Lemma w_join_postgres : verdict fl_postgres w_join = ([10]%nat, []%nat, true).          Proof. vm_compute. reflexivity. Qed.
Lemma w_join_polars : verdict fl_polars w_join = ([10]%nat, []%nat, true).              Proof. vm_compute. reflexivity. Qed.
Definition fl_matching_null_keys : flavor := set_field FJoinNull true fl_pandas.
Lemma w_join_hypothetical : verdict fl_matching_null_keys w_join = ([10]%nat, [9]%nat, false). Proof. vm_compute. reflexivity. Qed.
(* a FULL join with null keys on one side only: every named flavour keeps the null-key rows *)
Definition w_full_join : op := OJoin T1 (OSelectRows T2 (EOp ">" [ECol "k"; EConst (zv 0)])) ["k"] ["k"] JFull.
Lemma w_full_join_ok : verdict fl_sqlite w_full_join = ([]%nat, []%nat, true) /\ insensitive w_full_join w_env = true
                       /\ option_map (fun t => List.length (rows t)) (sem_strict w_full_join w_env) = Some 6%nat.
Proof. vm_compute. repeat split; reflexivity. Qed.
(* PostgreSQL: nulls LAST ascending (as Pandas), FIRST descending (unlike Pandas and SQLite) *)
Lemma w_sort_asc_pg : verdict fl_postgres w_sort_asc = ([8]%nat, []%nat, true).       Proof. vm_compute. reflexivity. Qed.
Lemma w_sort_desc_pg : verdict fl_postgres w_sort_desc = ([8]%nat, [8]%nat, false).   Proof. vm_compute. reflexivity. Qed.
Lemma w_sort_desc_sqlite : verdict fl_sqlite w_sort_desc = ([8]%nat, []%nat, true).   Proof. vm_compute. reflexivity. Qed.

(* a final order_rows without limit over a key with nulls: same multiset, different row order *)
Lemma w_final_order_ok :
  tables_agree false (sem_gen fl_pandas w_final_order w_env) (sem_gen fl_sqlite w_final_order w_env) = true
  /\ tables_agree true (sem_gen fl_pandas w_final_order w_env) (sem_gen fl_sqlite w_final_order w_env) = false
  /\ insensitive_bag w_final_order w_env = true /\ insensitive w_final_order w_env = false.
Proof. vm_compute. repeat split; reflexivity. Qed.

(* ---------- the same facts in the form Props/C01.v states them *)
Definition differ_with_causes (fl2 : flavor) (codes : list nat) : Prop :=
  exists (p : op) (e : env), tables_agree false (sem_gen fl_pandas p e) (sem_gen fl2 p e) = false /\ map cause_code (causes fl_pandas p e) = codes.
Lemma w_cmp_refuted : differ_with_causes fl_sqlite [1; 1]%nat.
Proof. exists w_cmp, w_env. vm_compute. split; reflexivity. Qed.
Lemma w_ne_filter_refuted : differ_with_causes fl_sqlite [2; 2]%nat.
Proof. exists w_ne_filter, w_env. vm_compute. split; reflexivity. Qed.
Lemma w_logic_refuted : differ_with_causes fl_sqlite [3]%nat.
Proof. exists w_logic, w_env. vm_compute. split; reflexivity. Qed.
Lemma w_minmax_some_flavour_refuted : exists fl : flavor, differ_with_causes fl [4; 4; 4]%nat.
Proof. exists fl_ignoring_minmax, w_minmax, w_env. vm_compute. split; reflexivity. Qed.
Lemma w_empty_agg_refuted : differ_with_causes fl_sqlite [6]%nat.
Proof. exists w_empty_agg, w_env. vm_compute. split; reflexivity. Qed.
Lemma w_running_refuted : differ_with_causes fl_sqlite [7]%nat.
Proof. exists w_running, w_env. vm_compute. split; reflexivity. Qed.
Lemma w_sort_asc_refuted : differ_with_causes fl_sqlite [8]%nat.
Proof. exists w_sort_asc, w_env. vm_compute. split; reflexivity. Qed.
Lemma w_window_order_refuted : differ_with_causes fl_sqlite [8]%nat.
Proof. exists w_window_order, w_env. vm_compute. split; reflexivity. Qed.
Lemma w_join_some_flavour_refuted : exists fl : flavor, differ_with_causes fl [10]%nat.
Proof. exists fl_matching_null_keys, w_join, w_env. vm_compute. split; reflexivity. Qed.
Lemma w_sort_desc_pg_refuted : differ_with_causes fl_postgres [8]%nat.
Proof. exists w_sort_desc, w_env. vm_compute. split; reflexivity. Qed.
Lemma w_final_order_refuted :
  exists (p : op) (e : env), tables_agree true (sem_gen fl_pandas p e) (sem_gen fl_sqlite p e) = false
                             /\ tables_agree false (sem_gen fl_pandas p e) (sem_gen fl_sqlite p e) = true
                             /\ insensitive_bag p e = true.
Proof. exists w_final_order, w_env. vm_compute. repeat split; reflexivity. Qed.

(* ---------- non-vacuity *)
(* d1 LEFT JOIN d2 (null keys on the left only), a row filter whose comparison meets nulls, a per-group aggregate,
   a running sum over a total order, an order_rows with limit: no convention is reached *)
Definition nv_pipeline : op :=
  OOrder
    (OExtend
       (OProject
          (OSelectRows (OJoin T1 (OSelectRows T2 (EOp ">" [ECol "c"; EConst (zv 5)])) ["k"] ["k"] JLeft)
                       (EOp "and" [EOp ">" [ECol "a"; EConst (zv 0)]; EOp "<=" [ECol "u"; EConst (zv 4)]]))
          [("s", EOp "sum" [ECol "a"]); ("n", EOp "_size" []); ("m", EOp "max" [ECol "c"])] ["k"])
       [("r", EOp "cumsum" [ECol "s"])] true (mkwin [] ["s"] []))
    ["r"] ["r"] (Some 2%nat).
Definition nv_env : env :=
  [("d1", w_d1); ("d2", mktable ["k"; "c"] [[zv 1; zv 10]; [zv 3; zv 30]; [zv 1; zv 10]])].
Lemma nv_insensitive : insensitive nv_pipeline nv_env = true.
Proof. vm_compute. reflexivity. Qed.
Lemma nv_result : option_map rows (sem_strict nv_pipeline nv_env) = Some [[VNull; zv 5; zv 1; VNull; zv 10]; [zv 2; zv 3; zv 1; VNull; zv 5]].
Proof. vm_compute. reflexivity. Qed.
