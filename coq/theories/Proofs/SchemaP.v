(* Proofs about Model/Schema.v -- statements to prove (each currently ends in Abort). *)
From Coq Require Import List Bool Arith String Lia.
Import ListNotations.
From DA Require Import Base.PyRT Model.Schema.

Section P.
Context {ty atom : Type} `{EqDec ty} (isinst : atom -> ty -> bool) (type_of : atom -> ty).
Hypothesis isinst_type_of : forall a, isinst a (type_of a) = true.       (* isinstance(v, type(v)) *)
Notation check_atom := (check_atom isinst).
Notation check_frame := (check_frame isinst).
Notation check_value := (check_value isinst).
Notation check_args := (check_args isinst).
Notation value_violates := (value_violates isinst).

Lemma check_atom_iff c a : check_atom c a = false <-> atom_violates isinst c a.
Proof. destruct c as [|t|ts]; simpl.
  - split; [discriminate|tauto].
  - tauto.
  - split.
    + intros E t I. destruct (isinst a t) eqn:Et; [|reflexivity].
      assert (existsb (isinst a) ts = true) as X by (apply existsb_exists; eauto). congruence.
    + intros Hall. destruct (existsb (isinst a) ts) eqn:E; [|reflexivity].
      apply existsb_exists in E. destruct E as [t [I Et]]. rewrite (Hall t I) in Et. discriminate.
Qed.

Lemma check_frame_iff cols d : NoDup (map fst cols) -> (check_frame cols d = false <-> frame_violates isinst cols d).
Proof. intros _. unfold Schema.check_frame, frame_violates. rewrite forallb_false. split.
  - intros [[k c] [I E]]. simpl in E. exists k, c. split; [exact I|].
    destruct (dict_get d k) as [cells|] eqn:G; [|left; reflexivity]. right.
    apply orb_false_iff in E. destruct E as [Ec E]. apply forallb_false in E.
    destruct E as [[a|] [Ia Ea]]; [|discriminate].
    exists cells, a. split; [reflexivity|]. split; [exact Ia|]. apply check_atom_iff. exact Ea.
  - intros [k [c [I [G|[cells [a [G [Ia V]]]]]]]]; exists (k, c); (split; [exact I|]); simpl; rewrite G; [reflexivity|].
    apply orb_false_iff. split.
    + destruct c; simpl in *; [contradiction|reflexivity|reflexivity].
    + apply forallb_false. exists (Some a). split; [exact Ia|]. apply check_atom_iff. exact V.
Qed.

Lemma is_cnone_false (c : @colspec ty) : is_cnone c = false <-> c <> CNone.
Proof. destruct c; simpl; split; intros X; try reflexivity; try discriminate; try congruence. Qed.

(* the checker rejects a value exactly when the value violates the specification *)
Lemma check_value_iff s v : (forall cols, s = SFrame cols -> NoDup (map fst cols)) ->
  (check_value s v = false <-> value_violates s v).
Proof. intros Hn. destruct s as [c|cols], v as [|a|d]; simpl.
  - apply is_cnone_false.
  - apply check_atom_iff.
  - apply is_cnone_false.
  - split; [tauto|reflexivity].
  - split; [tauto|reflexivity].
  - apply check_frame_iff. apply (Hn cols). reflexivity.
Qed.

Lemma zip_names_total names (args : list (@value atom)) :
  List.length args <= List.length names -> exists pos, zip_names names args = Some pos.
Proof. revert names. induction args as [|a t IH]; intros names L; [destruct names; simpl; eexists; reflexivity|].
  destruct names as [|n ns]; simpl in L; [lia|]. simpl.
  destruct (IH ns) as [pos E]; [lia|]. rewrite E. simpl. eexists; reflexivity. Qed.

Lemma zip_names_keys names (args : list (@value atom)) pos :
  zip_names names args = Some pos -> map fst pos = firstn (List.length args) names.
Proof. revert names pos. induction args as [|a t IH]; intros names pos E.
  - destruct names; simpl in E; inversion E; subst; reflexivity.
  - destruct names as [|n ns]; simpl in E; [discriminate|].
    destruct (zip_names ns t) as [p|] eqn:Z; [|discriminate]. simpl in E. inversion E; subst.
    simpl. f_equal. apply IH. exact Z. Qed.

Lemma NoDup_firstn' {A} n (l : list A) : NoDup l -> NoDup (firstn n l).
Proof. revert l. induction n as [|n IH]; intros l N; simpl; [constructor|].
  destruct l as [|x l]; [constructor|]. inversion N as [|y m Hx N']; subst.
  constructor; [|apply IH; exact N']. intros I. apply Hx.
  rewrite <- (firstn_skipn n l). apply in_or_app. left. exact I. Qed.

Lemma zip_names_NoDup names (args : list (@value atom)) pos :
  NoDup names -> zip_names names args = Some pos -> NoDup (map fst pos).
Proof. intros N E. rewrite (zip_names_keys _ _ _ E). apply NoDup_firstn'. exact N. Qed.

(* check_args raises TypeError exactly when a declared argument is missing or its value violates its specification *)
Definition arg_value (names : list string) (args : list (@value atom)) (kwargs : list (string * @value atom)) (k : string) : option (@value atom) :=
  match zip_names names args with
  | Some pos => match dict_get pos k with Some v => Some v | None => dict_get kwargs k end
  | None => None
  end.
Lemma check_args_iff sp names args kwargs :
  NoDup names -> List.length args <= List.length names -> NoDup (map fst sp) ->
  (forall k s cols, In (k, s) sp -> s = SFrame cols -> NoDup (map fst cols)) ->
  (check_args (Some sp) names args kwargs = TypeErr <->
   exists k s, In (k, s) sp /\
     match arg_value names args kwargs k with None => True | Some v => value_violates s v end).
Proof. intros Nn Hlen Nsp Hfr. unfold Schema.check_args, arg_value.
  destruct (zip_names_total names args Hlen) as [pos Ez]. rewrite Ez.
  pose proof (zip_names_NoDup _ _ _ Nn Ez) as Np.
  assert (forall k s v, In (k, s) sp -> (check_value s v = false <-> value_violates s v)) as CV.
  { intros k s v I. apply check_value_iff. intros cols E. exact (Hfr k s cols I E). }
  match goal with |- context [if ?a && ?b then _ else _] => set (pos_ok := a); set (named_ok := b) end.
  split.
  - intros E. destruct (pos_ok && named_ok) eqn:B; [discriminate|].
    apply andb_false_iff in B. destruct B as [B|B]; apply forallb_false in B.
    + destruct B as [[k v] [I E1]]. simpl in E1.
      destruct (dict_get sp k) as [s|] eqn:G; [|discriminate].
      apply dict_get_In in G. exists k, s. split; [exact G|].
      rewrite (dict_get_NoDup_In pos k v Np I). apply (CV k s v G). exact E1.
    + destruct B as [[k s] [I E1]]. simpl in E1.
      destruct (mem k (map fst pos)) eqn:M; [discriminate|].
      apply mem_keys_false_dict_get in M. exists k, s. split; [exact I|]. rewrite M.
      destruct (dict_get kwargs k) as [v|]; [|exact Logic.I]. apply (CV k s v I). exact E1.
  - intros [k [s [I V]]].
    assert (pos_ok && named_ok = false) as B; [|rewrite B; reflexivity].
    apply andb_false_iff. destruct (dict_get pos k) as [v|] eqn:G.
    + left. apply forallb_false. exists (k, v). split; [apply dict_get_In; exact G|]. simpl.
      rewrite (dict_get_NoDup_In sp k s Nsp I). apply (CV k s v I). exact V.
    + right. apply forallb_false. exists (k, s). split; [exact I|]. simpl.
      apply mem_keys_false_dict_get in G. rewrite G.
      destruct (dict_get kwargs k) as [v|]; [|reflexivity]. apply (CV k s v I). exact V.
Qed.

Lemma check_args_no_other sp names args kwargs :
  List.length args <= List.length names -> check_args sp names args kwargs <> OtherErr.
Proof. intros L. unfold Schema.check_args. destruct sp as [sp|]; [|discriminate].
  destruct (zip_names_total names args L) as [pos Ez]. rewrite Ez.
  match goal with |- context [if ?c then _ else _] => destruct c end; discriminate. Qed.

(* with the switch off the wrapper never raises and returns the function's own result *)
Lemma switch_off_transparent {R} specs ret (tv : R -> @value atom) names f args kwargs :
  wrapped isinst false specs ret tv names f args kwargs = Returned (f args kwargs).
Proof. reflexivity. Qed.

(* with the switch on: whatever is returned is the function's own result, unchanged *)
Lemma returns_unchanged {R} sw specs ret (tv : R -> @value atom) names f args kwargs r :
  wrapped isinst sw specs ret tv names f args kwargs = Returned r -> r = f args kwargs.
Proof. unfold wrapped. destruct sw; simpl; [|intros E; inversion E; reflexivity].
  destruct (check_args specs names args kwargs); try discriminate.
  destruct ret as [s|]; [|intros E; inversion E; reflexivity].
  destruct (check_value s (tv (f args kwargs))); [|discriminate]. intros E; inversion E; reflexivity. Qed.

(* ... and it is returned exactly when neither the arguments nor the result violate the schema *)
Lemma wrapped_returns_iff {R} specs ret (tv : R -> @value atom) names f args kwargs :
  List.length args <= List.length names ->
  (wrapped isinst true specs ret tv names f args kwargs = Returned (f args kwargs) <->
   check_args specs names args kwargs = Returned tt /\
   match ret with None => True | Some s => check_value s (tv (f args kwargs)) = true end).
Proof. intros _. unfold wrapped. simpl.
  destruct (check_args specs names args kwargs) as [[]| |].
  - destruct ret as [s|].
    + destruct (check_value s (tv (f args kwargs))); split; try tauto; try discriminate.
      intros [_ X]; discriminate.
    + tauto.
  - split; [discriminate|intros [X _]; discriminate].
  - split; [discriminate|intros [X _]; discriminate].
Qed.

(* example values declare their own types, alone and inside sets; and the example itself conforms *)
Lemma prep_example_alone a : prep_col type_of (RExample a) = CType (type_of a) /\ check_atom (prep_col type_of (RExample a)) a = true.
Proof. simpl. split; [reflexivity|apply isinst_type_of]. Qed.
Lemma prep_example_in_set l a : In (EExample a) l ->
  exists ts, prep_col type_of (RSet l) = CSet ts /\ In (type_of a) ts /\ check_atom (CSet ts) a = true.
Proof. intros I. simpl. eexists. split; [reflexivity|].
  assert (In (type_of a) (py_set (flat_map (prep_elem type_of) l))) as X.
  { apply In_py_set. apply in_flat_map. exists (EExample a). split; [exact I|]. simpl. left. reflexivity. }
  split; [exact X|]. simpl. apply existsb_exists. exists (type_of a). split; [exact X|apply isinst_type_of]. Qed.
Lemma prep_set_members l t : (exists ts, prep_col type_of (RSet l) = CSet ts /\
  (In t ts <-> (In (EType t) l \/ exists a, In (EExample a) l /\ type_of a = t))).
Proof. simpl. eexists. split; [reflexivity|]. rewrite In_py_set, in_flat_map. split.
  - intros [e [I X]]. destruct e as [|t'|a]; simpl in X.
    + contradiction.
    + destruct X as [->|[]]. left. exact I.
    + destruct X as [X|[]]. right. exists a. split; [exact I|exact X].
  - intros [I|[a [I E]]].
    + exists (EType t). split; [exact I|]. simpl. left. reflexivity.
    + exists (EExample a). split; [exact I|]. simpl. left. exact E.
Qed.
End P.

(* The letter of the property ("a NON-NULL value has none of the declared types") fails for a None argument of a typed
   parameter: the checker raises although no non-null value is involved.  Universe: one type, atoms = unit. *)
Lemma null_argument_raises_refuted :
  check_args (fun (_ : unit) (_ : unit) => true) (Some [("x"%string, SPlain (CType tt))]) ["x"%string] [VNone] [] = TypeErr.
Proof. vm_compute. reflexivity. Qed.

