(* SQLGEN, part 5: the un-windowed extend step, rename_columns and map_columns (stage i, continued). *)
From Coq Require Import List Bool Arith ZArith QArith String Lia.
Import ListNotations.
From DA Require Import Base.PyRT Base.Val Model.Sem Proofs.SemBasicP Model.ColumnsUsed Proofs.ColumnsUsedP1 Proofs.ColumnsUsedP2
  Proofs.ColumnsUsedP3 Proofs.ColumnsUsedP4 Proofs.ComposeP Model.SqlGen Model.SqlSem Proofs.SqlGenP1 Proofs.SqlGenP2 Proofs.SqlGenP3
  Proofs.SqlGenP4.
Local Open Scope list_scope.

(* ------------------------------------------------------------------ dicts built by repeated dict_set *)
Section FoldSet.
Context {X V : Type}.
Variables (f : X -> string) (g : X -> V).

Lemma dict_get_fold_set_notin (l : list X) (d : pydict string V) k :
  ~ In k (map f l) -> dict_get (fold_left (fun acc x => dict_set acc (f x) (g x)) l d) k = dict_get d k.
Proof.
  revert d. induction l as [|x t IH]; intros d N; [reflexivity|]. simpl. rewrite IH.
  - apply dict_get_set_other. intros E. apply N. left. symmetry. exact E.
  - intros I. apply N. right. exact I.
Qed.
Lemma dict_get_fold_set_in (l : list X) (d : pydict string V) x :
  NoDup (map f l) -> In x l -> dict_get (fold_left (fun acc x => dict_set acc (f x) (g x)) l d) (f x) = Some (g x).
Proof.
  revert d. induction l as [|y t IH]; intros d N I; [destruct I|]. simpl. inversion N as [|? ? Ny Nt]; subst.
  destruct I as [->|I].
  - rewrite dict_get_fold_set_notin by exact Ny. apply dict_get_set_same.
  - apply IH; assumption.
Qed.
Lemma keys_fold_set (l : list X) (d : pydict string V) :
  dict_keys (fold_left (fun acc x => dict_set acc (f x) (g x)) l d) = fold_left add_end (map f l) (dict_keys d).
Proof. revert d. induction l as [|x t IH]; intros d; [reflexivity|]. simpl. rewrite IH, dict_keys_set. reflexivity. Qed.
Lemma values_fold_set (P : V -> Prop) (l : list X) (d : pydict string V) :
  (forall kv, In kv d -> P (snd kv)) -> (forall x, In x l -> P (g x)) ->
  forall kv, In kv (fold_left (fun acc x => dict_set acc (f x) (g x)) l d) -> P (snd kv).
Proof.
  revert d. induction l as [|x t IH]; intros d Hd Hl kv I; [apply Hd, I|]. simpl in I. apply (IH (dict_set d (f x) (g x))); [| |exact I].
  - clear IH I. intros kv' I'. induction d as [|[k0 v0] d' IHd]; simpl in I'.
    + destruct I' as [<-|[]]. apply Hl. left. reflexivity.
    + destruct (eq_dec (f x) k0).
      * destruct I' as [<-|I']; [apply Hl; left; reflexivity|apply Hd; right; exact I'].
      * destruct I' as [<-|I']; [apply (Hd (k0, v0)); left; reflexivity|]. apply IHd; [|exact I']. intros kv2 I2. apply Hd. right. exact I2.
  - intros y Iy. apply Hl. right. exact Iy.
Qed.
End FoldSet.

Lemma NoDup_map_fst_filter {V} (h : string * V -> bool) (l : list (string * V)) : NoDup (map fst l) -> NoDup (map fst (filter h l)).
Proof.
  induction l as [|a t IH]; intros N; simpl; [constructor|]. inversion N as [|? ? Na Nt]; subst.
  destruct (h a); [|apply IH, Nt]. simpl. constructor; [|apply IH, Nt].
  intros I. apply Na. apply in_map_iff in I. destruct I as [y [E Iy]]. apply filter_In in Iy. apply in_map_iff. exists y. tauto.
Qed.

Lemma bok_extend_full s ops wd w : builder_ok (OExtend s ops wd w) = true ->
  builder_ok s = true /\ incl (ops_cols ops) (column_names s) /\ NoDup (map fst ops).
Proof.
  cbn [builder_ok]. rewrite !andb_true_iff. intros H. split; [tauto|]. split.
  - assert (subset (ops_cols ops) (column_names s) = true) as X by tauto. exact (proj1 (subset_spec _ _) X).
  - apply nodupb_NoDup. tauto.
Qed.

Section Nodes2.
Variable fl : flavor.
Variable e : env.

(* ------------------------------------------------------------------ extend, no window *)
Lemma set_union_nil (a : list string) : set_union a [] = a. Proof. reflexivity. Qed.

Lemma node_extend s ops sub u S nm dp :
  builder_ok (OExtend s ops false no_window) = true -> sem_gen fl s e = Some S -> NoDup u ->
  incl u (column_names (OExtend s ops false no_window)) -> sub_ops u ops <> [] ->
  let p := OExtend s ops false no_window in
  let subops := sub_ops u ops in
  let origcols := filter (fun k => negb (mem k (map fst subops))) u in
  Delivers fl e sub (cfs1 p u) S ->
  Delivers fl e (TUnary nm (norm (pass_terms origcols ++ map (fun ke => (fst ke, TmExpr (snd ke))) subops)) sub
                        (mk_tci (Some (cfs1 p u)) false None) SfxNone true dp) u (sem_extend fl ops S).
Proof.
  intros BO ES Nu Iu NSub p subops origcols D. set (us := cfs1 p u) in *.
  destruct (bok_extend_full _ _ _ _ BO) as [BOs [Ic Nk]].
  pose proof (builder_ok_nodup s BOs) as Ns. pose proof (sem_cols fl s e S ES) as EC.
  pose proof (wneeds_needs _ _ _ _ _ (extend_request s ops false no_window u (fun k _ H => H))) as Need. fold p in Need. fold us in Need.
  assert (NoDup us) as Nus.
  { unfold us, cfs1, p. simpl. destruct (sub_ops u ops); [exact Ns|apply NoDup_filter, Ns]. }
  assert (incl us (cols S)) as Ius.
  { rewrite EC. unfold us, cfs1, p. simpl. destruct (sub_ops u ops); [apply incl_refl|]. intros c Hc. apply filter_In in Hc. tauto. }
  assert (sem_gen fl p e = Some (sem_extend fl ops S)) as ET by (simpl; rewrite ES; reflexivity).
  assert (forall K, incl K u -> sel K (sem_extend fl ops S) = sel K (sem_extend fl ops (sel us S))) as Hpr.
  { intros K IK. destruct (prune_unary fl e p s us u K S _ BO eq_refl Iu IK ES ET (fun c H => H) Ius) as [T1 [E1 E2]].
    simpl in E1. rewrite ES in E1. simpl in E1. injection E1 as <-. exact E2. }
  set (tms := pass_terms origcols ++ map (fun ke => (fst ke, TmExpr (snd ke))) subops).
  assert (NoDup (map fst subops)) as Nsub by (apply NoDup_map_fst_filter, Nk).
  assert (map fst (map (fun ke : string * expr => (fst ke, TmExpr (snd ke))) subops) = map fst subops) as EKS by (rewrite map_map; reflexivity).
  assert (forall k, In k u -> match last_for k ops with Some ke => term_of tms k = TmExpr (snd ke) | None => term_of tms k = TmPass end) as Hterm.
  { intros k Ik. unfold term_of, tms. rewrite dict_get_app.
    destruct (last_for k ops) as [ke|] eqn:L.
    - destruct (last_for_In _ _ _ L) as [Ike Ek].
      assert (In ke subops) as Isub by (apply in_sub_ops; [exact Ike|rewrite Ek; exact Ik]).
      assert (dict_get (pass_terms origcols) k = None) as G1.
      { apply dict_get_None. unfold dict_keys. rewrite keys_pass. unfold origcols. intros I. apply filter_In in I. destruct I as [_ I].
        apply negb_true_iff, mem_false in I. apply I. rewrite <- Ek. apply in_map, Isub. }
      rewrite G1.
      assert (dict_get (map (fun ke0 : string * expr => (fst ke0, TmExpr (snd ke0))) subops) k = Some (TmExpr (snd ke))) as G2.
      { apply dict_get_NoDup_In; [unfold dict_keys; rewrite EKS; exact Nsub|]. apply in_map_iff. exists ke. rewrite Ek. tauto. }
      rewrite G2. reflexivity.
    - destruct (dict_get (pass_terms origcols) k) as [t|] eqn:G1.
      + apply dict_get_In in G1. apply pass_scalar in G1 as G1'. unfold pass_terms in G1. apply in_map_iff in G1. destruct G1 as [x [[= _ <-] _]]. reflexivity.
      + destruct (dict_get (map _ subops) k) as [t|] eqn:G2; [|reflexivity]. exfalso. apply dict_get_Some_keys in G2. unfold dict_keys in G2. rewrite EKS in G2.
        apply (last_for_None _ _ L). apply in_map_iff in G2. destruct G2 as [ke [E1 I1]]. apply filter_In in I1. apply in_map_iff. exists ke. tauto. }
  apply (fresh_scalar fl e sub us S nm tms SfxNone true dp u _ (sem_extend fl ops (sel us S)) (extend_row fl us ops)); try assumption.
  - unfold tms. rewrite map_app, keys_pass, EKS. apply NoDup_app_intro; [apply NoDup_filter, Nu|exact Nsub|].
    intros x Hx. unfold origcols in Hx. apply filter_In in Hx. destruct Hx as [_ Hx]. apply negb_true_iff, mem_false in Hx. exact Hx.
  - unfold tms. rewrite map_app, keys_pass, EKS. intros k Ik. apply in_app_iff.
    destruct (in_dec string_dec k (map fst subops)) as [i|n]; [right; exact i|left]. unfold origcols. apply filter_In. split; [exact Ik|]. apply negb_true_iff, mem_false, n.
  - simpl. rewrite EC. exact Iu.
  - unfold tms. intros X. apply app_eq_nil in X. destruct X as [_ X]. apply map_eq_nil in X. contradiction.
  - reflexivity.
  - unfold tms. intros kt I. apply in_app_iff in I. destruct I as [I|I]; [apply (pass_scalar _ _ I)|]. apply in_map_iff in I. destruct I as [x [<- _]]. reflexivity.
  - reflexivity.
  - intros r k L Ik. change (cols (sem_extend fl ops (sel us S))) with (ext_cols us (map fst ops)). unfold extend_row.
    rewrite (fold_cells_get_full (fun ke => eval_expr fl us r (snd ke)) ops r us k L).
    specialize (Hterm k Ik). destruct (last_for k ops) as [ke|]; rewrite Hterm; reflexivity.
  - intros k Ik c Hc. specialize (Hterm k Ik). specialize (Need k Ik).
    destruct (last_for k ops) as [ke|] eqn:L; rewrite Hterm in Hc; simpl in Hc.
    + destruct (last_for_In _ _ _ L) as [Ike Ek]. apply Need; [exact Hc|]. apply Ic. eapply cols_used_in_ops; eassumption.
    + destruct Hc as [<-|[]]. apply Need. specialize (Iu k Ik). simpl in Iu. apply in_ext_cols in Iu. destruct Iu as [H|H]; [exact H|].
      exfalso. apply (last_for_None _ _ L). exact H.
  - intros x [].
Qed.

(* ------------------------------------------------------------------ rename_columns / map_columns *)
Definition rename_terms (m : list (string * string)) (unchanged : list string) : terms :=
  fold_left (fun acc c => dict_set acc c TmPass) unchanged
            (fold_left (fun acc no => dict_set acc (fst no) (TmCol (snd no))) m []).

Lemma rename_terms_keys_nodup m un : NoDup (map fst (rename_terms m un)).
Proof.
  unfold rename_terms. change (map fst ?d) with (dict_keys d). rewrite !keys_fold_set. apply NoDup_fold_add_end, NoDup_fold_add_end. constructor.
Qed.
Lemma rename_terms_keys m un k : In k (map fst (rename_terms m un)) <-> In k (map fst m) \/ In k un.
Proof.
  unfold rename_terms. change (map fst ?d) with (dict_keys d). rewrite !keys_fold_set. rewrite !In_fold_add_end. simpl. rewrite map_id. tauto.
Qed.
Lemma rename_terms_scalar m un kt : In kt (rename_terms m un) -> scalar_term (snd kt) = true.
Proof.
  unfold rename_terms. apply (values_fold_set (fun c => c) (fun _ => TmPass) (fun t => scalar_term t = true)); [|reflexivity].
  apply (values_fold_set fst (fun no => TmCol (snd no)) (fun t => scalar_term t = true)); [intros kv []|reflexivity].
Qed.
Lemma dict_get_fold_const (v : tterm) (l : list string) (d : pydict string tterm) k :
  In k l -> dict_get (fold_left (fun acc c => dict_set acc c v) l d) k = Some v.
Proof.
  revert d. induction l as [|c0 t IH]; intros d I; [destruct I|]. simpl.
  destruct (in_dec string_dec k t) as [i|n]; [apply IH, i|]. destruct I as [->|I]; [|contradiction].
  rewrite (dict_get_fold_set_notin (fun c : string => c) (fun _ => v) t _ k); [apply dict_get_set_same|rewrite map_id; exact n].
Qed.

Lemma rename_terms_term m un k :
  NoDup (map fst m) -> (forall c, In c un -> ~ In c (map fst m)) ->
  term_of (rename_terms m un) k = match dict_get m k with Some o => TmCol o | None => TmPass end.
Proof.
  intros N Dj. unfold term_of, rename_terms.
  destruct (in_dec string_dec k un) as [i|n].
  - rewrite (dict_get_fold_const TmPass un _ k i).
    assert (dict_get m k = None) as G by (apply dict_get_None; apply Dj, i). rewrite G. reflexivity.
  - rewrite (dict_get_fold_set_notin (fun c : string => c) (fun _ => TmPass) un _ k) by (rewrite map_id; exact n).
    destruct (dict_get m k) as [o|] eqn:G.
    + apply dict_get_In in G. pose proof (dict_get_fold_set_in fst (fun no : string * string => TmCol (snd no)) m [] (k, o) N G) as GG. simpl in GG. rewrite GG. reflexivity.
    + rewrite (dict_get_fold_set_notin fst (fun no : string * string => TmCol (snd no)) m [] k); [reflexivity|]. apply dict_get_None in G. exact G.
Qed.

(* a column of the renamed table that is not a new name is not an old name either *)
Lemma unchanged_not_old m cs k : rename_ok m cs -> In k (map (rename_col m) cs) -> ~ In k (map fst m) -> ~ In k (map snd m).
Proof.
  intros [N1 [N2 [I3 N4]]] Ik Nk Io. apply in_map_iff in Ik. destruct Ik as [x0 [E I0]].
  apply in_map_iff in Io. destruct Io as [[n o] [Eo Io]]. simpl in Eo. subst o.
  destruct (rename_col_spec m x0) as [[n0 [In0 E0]]|[No E0]].
  - apply Nk. rewrite <- E, E0. apply in_map_iff. exists (n0, x0). tauto.
  - rewrite E0 in E. subst x0. exact (No n Io).
Qed.

Lemma old_of_get m k : old_of m k = match dict_get m k with Some o => o | None => k end.
Proof. reflexivity. Qed.

Lemma node_rename s m sub u S nm :
  builder_ok (ORename s m) = true -> sem_gen fl s e = Some S -> NoDup u -> incl u (column_names (ORename s m)) ->
  let us := py_set (cfs1 (ORename s m) u) in
  let unchanged := filter (fun c => negb (mem c (map snd m ++ map fst m))) us in
  Delivers fl e sub us S ->
  Delivers fl e (TUnary nm (norm (rename_terms m unchanged)) sub (mk_tci (Some us) false None) SfxNone false None) u (sem_rename m S).
Proof.
  intros BO ES Nu Iu us unchanged D. set (p := ORename s m) in *.
  destruct (bok_rename _ _ BO) as [BOs OK]. pose proof (sem_cols fl s e S ES) as EC. rewrite <- EC in OK.
  pose proof OK as [N1 [N2 [I3 N4]]].
  assert (forall c, In c us <-> exists k, In k u /\ c = old_of m k) as Hus.
  { intros c. unfold us, cfs1, p. simpl. rewrite In_py_set, in_map_iff. split; intros [k [H1 H2]]; exists k; split; try assumption; symmetry; assumption. }
  assert (NoDup us) as Nus by apply NoDup_py_set.
  assert (incl u (map (rename_col m) (cols S))) as Iu' by (rewrite EC; exact Iu).
  assert (incl us (cols S)) as Ius.
  { intros c Hc. apply Hus in Hc. destruct Hc as [k [Ik ->]]. destruct (get_rename m (cols S) (cols S) [] k OK (incl_refl _) (Iu' k Ik)) as [_ [H _]]. exact H. }
  assert (sem_gen fl p e = Some (sem_rename m S)) as ET by (simpl; rewrite ES; reflexivity).
  assert (forall K, incl K u -> sel K (sem_rename m S) = sel K (sem_rename m (sel us S))) as Hpr.
  { intros K IK.
    assert (forall c, In c (cfs1 p u) -> In c us) as H1 by (intros c Hc; apply In_py_set; exact Hc).
    destruct (prune_unary fl e p s us u K S _ BO eq_refl Iu IK ES ET H1 Ius) as [T1 [E1 E2]].
    simpl in E1. rewrite ES in E1. simpl in E1. injection E1 as <-. exact E2. }
  assert (forall c, In c unchanged -> ~ In c (map fst m)) as Dj.
  { intros c Hc. unfold unchanged in Hc. apply filter_In in Hc. destruct Hc as [_ Hc]. apply negb_true_iff, mem_false in Hc. intros I. apply Hc. apply in_app_iff. right. exact I. }
  assert (incl u (map fst (rename_terms m unchanged))) as IuK.
  { intros k Ik. apply rename_terms_keys. destruct (in_dec string_dec k (map fst m)) as [i|n]; [left; exact i|right].
    unfold unchanged. apply filter_In. split.
    - apply Hus. exists k. split; [exact Ik|]. rewrite old_of_get. assert (dict_get m k = None) as G by (apply dict_get_None; exact n). rewrite G. reflexivity.
    - apply negb_true_iff, mem_false. intros I. apply in_app_iff in I. destruct I as [I|I]; [|contradiction].
      exact (unchanged_not_old m (cols S) k OK (Iu' k Ik) n I). }
  apply (fresh_scalar fl e sub us S nm (rename_terms m unchanged) SfxNone false None u _ (sem_rename m (sel us S)) (fun r => r)); try assumption.
  - apply rename_terms_keys_nodup.
  - intros X. rewrite X in IuK. destruct u as [|k0 u']; [reflexivity|]. destruct (IuK k0 (or_introl eq_refl)).
  - reflexivity.
  - apply rename_terms_scalar.
  - simpl. rewrite map_id. reflexivity.
  - intros r k L Ik. change (cols (sem_rename m (sel us S))) with (map (rename_col m) us).
    destruct (get_rename m (cols S) us r k OK Ius (Iu' k Ik)) as [E1 _]. rewrite E1.
    rewrite (rename_terms_term m unchanged k N1 Dj), old_of_get. destruct (dict_get m k); reflexivity.
  - intros k Ik c Hc. rewrite (rename_terms_term m unchanged k N1 Dj) in Hc. apply Hus. exists k. split; [exact Ik|]. rewrite old_of_get.
    destruct (dict_get m k); simpl in Hc; destruct Hc as [<-|[]]; reflexivity.
  - intros x [].
Qed.

Lemma node_map_cols s m dels sub u S nm :
  builder_ok (OMapCols s m dels) = true -> sem_gen fl s e = Some S -> NoDup u -> incl u (column_names (OMapCols s m dels)) ->
  let us := py_set (cfs1 (OMapCols s m dels) u) in
  let unchanged := filter (fun c => negb (mem c (map snd m ++ map fst m ++ dels))) us in
  Delivers fl e sub us S ->
  Delivers fl e (TUnary nm (norm (rename_terms m unchanged)) sub (mk_tci (Some us) false None) SfxNone false None) u
           (sem_drop_cols dels (sem_rename m S)).
Proof.
  intros BO ES Nu Iu us unchanged D. set (p := OMapCols s m dels) in *.
  destruct (bok_map_cols _ _ _ BO) as [BOs OK]. pose proof (sem_cols fl s e S ES) as EC. rewrite <- EC in OK.
  pose proof OK as [N1 [N2 [I3 N4]]].
  assert (incl dels (cols S)) as Idel.
  { rewrite EC. pose proof BO as BO'. simpl in BO'. rewrite !andb_true_iff in BO'. destruct BO' as [[[_ _] Bd] _]. exact (proj1 (subset_spec _ _) Bd). }
  assert (forall c, In c us <-> (exists k, In k u /\ c = old_of m k) \/ In c dels) as Hus.
  { intros c. unfold us, cfs1, p. simpl. rewrite In_py_set, in_app_iff, in_map_iff. split.
    - intros [[k [E I]]|H]; [left; exists k; rewrite (old_of_dict_of_list m k N1) in E; split; [exact I|symmetry; exact E]|right; exact H].
    - intros [[k [I E]]|H]; [left; exists k; rewrite (old_of_dict_of_list m k N1); split; [symmetry; exact E|exact I]|right; exact H]. }
  assert (NoDup us) as Nus by apply NoDup_py_set.
  assert (forall k, In k u -> In k (map (rename_col m) (cols S)) /\ ~ In k dels) as Iu'.
  { intros k Ik. specialize (Iu k Ik). simpl in Iu. apply filter_In in Iu. destruct Iu as [A B]. rewrite EC. split; [exact A|]. apply negb_true_iff, mem_false in B. exact B. }
  assert (incl us (cols S)) as Ius.
  { intros c Hc. apply Hus in Hc. destruct Hc as [[k [Ik ->]]|Hc]; [|apply Idel, Hc].
    destruct (get_rename m (cols S) (cols S) [] k OK (incl_refl _) (proj1 (Iu' k Ik))) as [_ [H _]]. exact H. }
  assert (sem_gen fl p e = Some (sem_drop_cols dels (sem_rename m S))) as ET by (simpl; rewrite ES; reflexivity).
  assert (forall K, incl K u -> sel K (sem_drop_cols dels (sem_rename m S)) = sel K (sem_drop_cols dels (sem_rename m (sel us S)))) as Hpr.
  { intros K IK.
    assert (forall c, In c (cfs1 p u) -> In c us) as H1 by (intros c Hc; apply In_py_set; exact Hc).
    destruct (prune_unary fl e p s us u K S _ BO eq_refl Iu IK ES ET H1 Ius) as [T1 [E1 E2]].
    simpl in E1. rewrite ES in E1. simpl in E1. injection E1 as <-. exact E2. }
  assert (forall c, In c unchanged -> ~ In c (map fst m)) as Dj.
  { intros c Hc. unfold unchanged in Hc. apply filter_In in Hc. destruct Hc as [_ Hc]. apply negb_true_iff, mem_false in Hc. intros I. apply Hc.
    apply in_app_iff. right. apply in_app_iff. left. exact I. }
  assert (incl u (map fst (rename_terms m unchanged))) as IuK.
  { intros k Ik. destruct (Iu' k Ik) as [A B]. apply rename_terms_keys. destruct (in_dec string_dec k (map fst m)) as [i|n]; [left; exact i|right].
    unfold unchanged. apply filter_In. split.
    - apply Hus. left. exists k. split; [exact Ik|]. rewrite old_of_get. assert (dict_get m k = None) as G by (apply dict_get_None; exact n). rewrite G. reflexivity.
    - apply negb_true_iff, mem_false. intros I. apply in_app_iff in I. destruct I as [I|I]; [exact (unchanged_not_old m (cols S) k OK A n I)|].
      apply in_app_iff in I. destruct I; contradiction. }
  set (C1 := filter (fun c => negb (mem c dels)) (map (rename_col m) us)).
  apply (fresh_scalar fl e sub us S nm (rename_terms m unchanged) SfxNone false None u _ (sem_drop_cols dels (sem_rename m (sel us S)))
                      (fun r => map (get (map (rename_col m) us) r) C1)); try assumption.
  - apply rename_terms_keys_nodup.
  - intros k Ik. destruct (Iu' k Ik) as [A B]. simpl. apply filter_In. split; [exact A|]. apply negb_true_iff, mem_false, B.
  - intros X. rewrite X in IuK. destruct u as [|k0 u']; [reflexivity|]. destruct (IuK k0 (or_introl eq_refl)).
  - reflexivity.
  - apply rename_terms_scalar.
  - reflexivity.
  - intros r k L Ik. destruct (Iu' k Ik) as [A B].
    change (cols (sem_drop_cols dels (sem_rename m (sel us S)))) with C1.
    destruct (get_rename m (cols S) us r k OK Ius A) as [E1 [E2 E3]].
    assert (In k C1) as IC.
    { unfold C1. apply filter_In. split; [|apply negb_true_iff, mem_false, B]. rewrite <- E3. apply in_map. apply Hus. left. exists k. tauto. }
    rewrite (get_sel_row _ r C1 k IC), E1.
    rewrite (rename_terms_term m unchanged k N1 Dj), old_of_get. destruct (dict_get m k); reflexivity.
  - intros k Ik c Hc. rewrite (rename_terms_term m unchanged k N1 Dj) in Hc. apply Hus. left. exists k. split; [exact Ik|]. rewrite old_of_get.
    destruct (dict_get m k); simpl in Hc; destruct Hc as [<-|[]]; reflexivity.
  - intros x [].
Qed.

End Nodes2.
