(* SQLGEN, part 15 (stage iv, generic dialect): the natural_join step written as a native SQL join
   (INNER / LEFT / RIGHT / FULL, no rewrite) delivers the join node's table, given what its two sub-queries deliver. *)
From Coq Require Import List Bool Arith ZArith QArith String Lia.
Import ListNotations.
From DA Require Import Base.PyRT Base.Val Model.Sem Proofs.SemBasicP Model.ColumnsUsed Proofs.ColumnsUsedP1 Proofs.ColumnsUsedP2
  Proofs.ColumnsUsedP3 Proofs.ColumnsUsedP4 Model.JoinSpec Proofs.JoinP1 Model.SqlGen Model.SqlSem Proofs.SqlGenP1 Proofs.SqlGenP2 Proofs.SqlGenP3 Proofs.SqlGenP4.
Local Open Scope list_scope.

(* a table step handed on as the generator's result for a non-empty request has exactly the requested columns *)
Definition BareOk (e : env) (q : tnear) (u : list string) : Prop :=
  forall n ts, q = TTable n ts -> u <> [] -> exists st, dict_get e n = Some st /\ (forall c, In c (cols st) <-> In c u).

Lemma bare_ok_unary e n t s ci sfx mg dp u : BareOk e (TUnary n t s ci sfx mg dp) u.
Proof. intros n0 ts E. discriminate. Qed.
Lemma bare_ok_binary e n t s1 c1 j s2 c2 on u : BareOk e (TBinary n t s1 c1 j s2 c2 on) u.
Proof. intros n0 ts E. discriminate. Qed.
Lemma bare_ok_restrict e q K q' u u' : BareOk e q u -> restrict_terms q K = Some q' -> (u' <> [] -> u <> []) ->
  (forall c, In c u <-> In c u') -> BareOk e q' u'.
Proof.
  intros B E NE EQ n ts Eq NU. subst q'. destruct q as [n0 ts0| |]; simpl in E; try (destruct (subset K _); discriminate).
  destruct (subset K _); [|discriminate]. injection E as <- _. destruct (B n0 ts0 eq_refl (NE NU)) as [st [G H]].
  exists st. split; [exact G|]. intros c. rewrite H. apply EQ.
Qed.
Lemma bare_ok_empty e q u u' : BareOk e q u -> (u' <> [] -> u <> []) -> (forall c, In c u <-> In c u') -> BareOk e (empty_terms q) u'.
Proof.
  intros B NE EQ n ts Eq NU. destruct q as [n0 ts0| |]; simpl in Eq; try discriminate. injection Eq as <- _.
  destruct (B n0 ts0 eq_refl (NE NU)) as [st [G H]]. exists st. split; [exact G|]. intros c. rewrite H. apply EQ.
Qed.

Definition join_terms (lf : bool) (u ul ur : list string) : terms :=
  let common := set_inter ul ur in
  map (fun c => (c, TmCoalesce lf c)) (filter (fun c => mem c u) common)
  ++ pass_terms (filter (fun c => negb (mem c common)) ul)
  ++ pass_terms (filter (fun c => negb (mem c common)) ur).

Section Join.
Variable fl : flavor.
Variable e : env.

(* what a join sees of an operand asked for the non-empty column set u *)
Lemma operand_cols q u T pub S' :
  Delivers fl e q u T -> BareOk e q u -> NoDup u -> u <> [] ->
  csem fl e q (mk_tci (Some u) false pub) = Some S' -> (forall c, In c (cols S') <-> In c u) /\ RA u T S'.
Proof.
  intros D B N NE E. destruct (deliver_csem fl e q u T u false pub D N (incl_refl u)) as [S2 [E2 [R X]]].
  rewrite E in E2. injection E2 as <-. split; [|exact R].
  destruct (by_name q (mk_tci (Some u) false pub)) eqn:BN.
  - destruct q as [n ts| |]; try discriminate. destruct (B n ts eq_refl NE) as [st [G H]].
    unfold csem in E. rewrite BN in E. rewrite G in E. injection E as <-. exact H.
  - rewrite (X NE eq_refl). intros c. reflexivity.
Qed.

Definition orow_rel (us ca ca' : list string) (o o' : option row) : Prop :=
  match o, o' with Some r, Some r' => rowrel us ca ca' r r' | None, None => True | _, _ => False end.
Definition pair_rel (ul ur ca ca' cb cb' : list string) (p p' : option row * option row) : Prop :=
  orow_rel ul ca ca' (fst p) (fst p') /\ orow_rel ur cb cb' (snd p) (snd p').

Lemma F2_list_prod {A B A' B'} (R : A -> A' -> Prop) (Q : B -> B' -> Prop) la la' lb lb' :
  Forall2 R la la' -> Forall2 Q lb lb' -> Forall2 (fun p p' => R (fst p) (fst p') /\ Q (snd p) (snd p')) (list_prod la lb) (list_prod la' lb').
Proof.
  intros H1 H2. induction H1 as [|x x' l l' Rx _ IH]; simpl; [constructor|]. apply Forall2_app; [|exact IH].
  apply (F2_map Q); [exact H2|]. intros y y' Qy. split; assumption.
Qed.

Lemma on_holds_local ul ur (ca ca' cb cb' : list string) on r1 r1' r2 r2' :
  incl (map fst on) ul -> incl (map snd on) ur -> rowrel ul ca ca' r1 r1' -> rowrel ur cb cb' r2 r2' ->
  on_holds ca cb on r1 r2 = on_holds ca' cb' on r1' r2'.
Proof.
  intros I1 I2 R1 R2. unfold on_holds, on_cond. f_equal. induction on as [|[x y] t IH]; [reflexivity|]. simpl.
  rewrite (R1 x (I1 x (or_introl eq_refl))), (R2 y (I2 y (or_introl eq_refl))). f_equal. apply IH; intros z Hz; [apply I1|apply I2]; right; exact Hz.
Qed.

(* the joined pairs of the operands as the join sees them correspond, pair by pair, to those of the tables they deliver *)
Lemma join_pairs_rel ul ur jt on A A' B B' :
  incl (map fst on) ul -> incl (map snd on) ur -> RA ul A A' -> RA ur B B' ->
  Forall2 (pair_rel ul ur (cols A) (cols A') (cols B) (cols B')) (join_pairs jt on A B) (join_pairs jt on A' B').
Proof.
  intros I1 I2 RA1 RB1.
  assert (Forall2 (pair_rel ul ur (cols A) (cols A') (cols B) (cols B'))
            (map (fun p => (Some (fst p), Some (snd p))) (joined_TN on A B)) (map (fun p => (Some (fst p), Some (snd p))) (joined_TN on A' B'))) as HTN.
  { apply (F2_map (fun p p' => rowrel ul (cols A) (cols A') (fst p) (fst p') /\ rowrel ur (cols B) (cols B') (snd p) (snd p'))).
    - unfold joined_TN. eapply F2_filter; [apply F2_list_prod; [exact RA1|exact RB1]|]. intros p p' [R1 R2]. apply (on_holds_local ul ur); assumption.
    - intros p p' [R1 R2]. split; assumption. }
  assert (Forall2 (pair_rel ul ur (cols A) (cols A') (cols B) (cols B'))
            (map (fun r => (Some r, @None row)) (unmatched_left on A B)) (map (fun r => (Some r, @None row)) (unmatched_left on A' B'))) as HL.
  { apply (F2_map (rowrel ul (cols A) (cols A'))).
    - unfold unmatched_left. eapply F2_filter; [exact RA1|]. intros r r' R1. f_equal. eapply F2_existsb; [exact RB1|]. intros s s' R2. apply (on_holds_local ul ur); assumption.
    - intros r r' R1. split; [exact R1|exact I]. }
  assert (Forall2 (pair_rel ul ur (cols A) (cols A') (cols B) (cols B'))
            (map (fun r => (@None row, Some r)) (unmatched_right on A B)) (map (fun r => (@None row, Some r)) (unmatched_right on A' B'))) as HR.
  { apply (F2_map (rowrel ur (cols B) (cols B'))).
    - unfold unmatched_right. eapply F2_filter; [exact RB1|]. intros r r' R2. f_equal. eapply F2_existsb; [exact RA1|]. intros s s' R1. apply (on_holds_local ul ur); assumption.
    - intros r r' R2. split; [exact I|exact R2]. }
  unfold join_pairs. destruct jt; repeat apply Forall2_app; assumption.
Qed.

Lemma spec_rows_pairs jt on A B :
  sql_join_rows (jt_of jt) on A B = map (fun p => select_row (cols A) (cols B) (fst p) (snd p)) (join_pairs jt on A B).
Proof. unfold sql_join_rows, join_pairs. destruct jt; simpl; rewrite ?map_app, !map_map; reflexivity. Qed.

Lemma cell_rel us cs cs' o o' c : orow_rel us cs cs' o o' -> In c us -> cell cs o c = cell cs' o' c.
Proof. destruct o, o'; simpl; intros H I; try contradiction; [apply H, I|reflexivity]. Qed.

Lemma term_of_join lf u ul ur k :
  NoDup ul -> NoDup ur ->
  term_of (join_terms lf u ul ur) k =
  if mem k ul && mem k ur && mem k u then TmCoalesce lf k else TmPass.
Proof.
  intros Nl Nr. unfold term_of, join_terms. set (common := set_inter ul ur).
  assert (forall c, In c common <-> In c ul /\ In c ur) as HC by (intros c; apply In_set_inter).
  rewrite dict_get_app.
  destruct (mem k ul && mem k ur && mem k u) eqn:M.
  - apply andb_true_iff in M. destruct M as [M M3]. apply andb_true_iff in M. destruct M as [M1 M2]. apply mem_In in M1, M2, M3.
    assert (dict_get (map (fun c => (c, TmCoalesce lf c)) (filter (fun c => mem c u) common)) k = Some (TmCoalesce lf k)) as G.
    { apply dict_get_NoDup_In.
      - unfold dict_keys. rewrite map_map. simpl. rewrite map_id. apply NoDup_filter. unfold common, set_inter. apply NoDup_filter, Nl.
      - apply in_map_iff. exists k. split; [reflexivity|]. apply filter_In. split; [apply HC; tauto|apply mem_In, M3]. }
    rewrite G. reflexivity.
  - assert (dict_get (map (fun c => (c, TmCoalesce lf c)) (filter (fun c => mem c u) common)) k = None) as G.
    { apply dict_get_None. unfold dict_keys. rewrite map_map. simpl. rewrite map_id. intros I. apply filter_In in I. destruct I as [I1 I2]. apply HC in I1.
      destruct I1 as [A1 A2]. apply mem_In in A1, A2. rewrite A1, A2, I2 in M. discriminate. }
    rewrite G, dict_get_app.
    assert (forall l t, dict_get (pass_terms l) k = Some t -> t = TmPass) as PT.
    { intros l t Gt. apply dict_get_In in Gt. unfold pass_terms in Gt. apply in_map_iff in Gt. destruct Gt as [x [E _]]. congruence. }
    destruct (dict_get (pass_terms (filter (fun c => negb (mem c common)) ul)) k) as [t|] eqn:G1; [rewrite (PT _ _ G1); reflexivity|].
    destruct (dict_get (pass_terms (filter (fun c => negb (mem c common)) ur)) k) as [t|] eqn:G2; [rewrite (PT _ _ G2); reflexivity|reflexivity].
Qed.

Lemma join_terms_keys lf u ul ur k : In k (map fst (join_terms lf u ul ur)) -> In k ul \/ In k ur.
Proof.
  unfold join_terms. rewrite !map_app, !keys_pass, map_map. simpl. rewrite map_id. intros I.
  apply in_app_iff in I. destruct I as [I|I]; [apply filter_In in I; destruct I as [I _]; apply In_set_inter in I; tauto|].
  apply in_app_iff in I. destruct I as [I|I]; apply filter_In in I; tauto.
Qed.
Lemma join_terms_keys_iff lf u ul ur k :
  In k (map fst (join_terms lf u ul ur)) <->
  (In k ul /\ In k ur /\ In k u) \/ (In k ul /\ ~ In k ur) \/ (In k ur /\ ~ In k ul).
Proof.
  unfold join_terms. rewrite !map_app, !keys_pass, map_map. simpl. rewrite map_id, !in_app_iff, !filter_In.
  assert (forall c, mem c (set_inter ul ur) = mem c ul && mem c ur) as MC.
  { intros c. destruct (mem c ul && mem c ur) eqn:M.
    - apply andb_true_iff in M. destruct M as [M1 M2]. apply mem_In. apply In_set_inter. split; apply mem_In; assumption.
    - apply mem_false. intros I. apply In_set_inter in I. destruct I as [I1 I2]. apply mem_In in I1, I2. rewrite I1, I2 in M. discriminate. }
  rewrite In_set_inter, !MC. split.
  - intros [[[A1 A2] A3]|[[A1 A2]|[A1 A2]]].
    + left. apply mem_In in A3. tauto.
    + right. left. split; [exact A1|]. apply mem_In in A1. rewrite A1 in A2. simpl in A2. apply negb_true_iff, mem_false in A2. exact A2.
    + right. right. split; [exact A1|]. apply mem_In in A1. rewrite A1, andb_true_r in A2. apply negb_true_iff, mem_false in A2. exact A2.
  - intros [[A1 [A2 A3]]|[[A1 A2]|[A1 A2]]].
    + left. split; [tauto|apply mem_In, A3].
    + right. left. split; [exact A1|]. apply mem_false in A2. rewrite A2, andb_false_r. reflexivity.
    + right. right. split; [exact A1|]. apply mem_false in A2. rewrite A2. reflexivity.
Qed.

Lemma join_terms_nodup lf u ul ur : NoDup ul -> NoDup ur -> NoDup (map fst (join_terms lf u ul ur)).
Proof.
  intros Nl Nr. unfold join_terms. rewrite !map_app, !keys_pass, map_map. simpl. rewrite map_id.
  set (common := set_inter ul ur).
  assert (forall c, In c common <-> In c ul /\ In c ur) as HC by (intros c; apply In_set_inter).
  apply NoDup_app_intro; [apply NoDup_filter; unfold common, set_inter; apply NoDup_filter, Nl| |].
  - apply NoDup_app_intro; [apply NoDup_filter, Nl|apply NoDup_filter, Nr|].
    intros x I1 I2. apply filter_In in I1, I2. destruct I1 as [A1 A2], I2 as [B1 B2]. apply negb_true_iff, mem_false in A2. apply A2, HC. tauto.
  - intros x I1 I2. apply filter_In in I1. destruct I1 as [A1 _]. apply in_app_iff in I2.
    destruct I2 as [I2|I2]; apply filter_In in I2; destruct I2 as [_ B2]; apply negb_true_iff, mem_false in B2; contradiction.
Qed.

(* THE JOIN STEP.  ul / ur: what the two sub-queries were asked for (non-empty, inside the operands' columns, containing the
   keys and every requested column of the respective operand); lf = left_is_first. *)
Lemma delivers_join nm pl pr ql qr jt on_a on_b u ul ur A B :
  f_join_null_match fl = false -> List.length on_a = List.length on_b ->
  Delivers fl e ql ul A -> Delivers fl e qr ur B -> BareOk e ql ul -> BareOk e qr ur ->
  NoDup ul -> NoDup ur -> ul <> [] -> ur <> [] -> incl ul (cols A) -> incl ur (cols B) ->
  incl on_a ul -> incl on_b ur -> NoDup (cols A) -> NoDup (cols B) ->
  (forall k, In k u -> (In k (cols A) -> In k ul) /\ (In k (cols B) -> In k ur) /\ (In k (cols A) \/ In k (cols B))) ->
  join_terms true u ul ur <> [] ->
  Delivers fl e (TBinary nm (Some (join_terms true u ul ur)) ql (mk_tci (Some ul) false pl) (TJoin jt) qr (mk_tci (Some ur) false pr) (combine on_a on_b))
           u (sem_join (f_join_null_match fl) on_a on_b jt A B).
Proof.
  intros NM Len DL DR BL BR Nl Nr NEl NEr Il Ir Ia Ib NA NB Hu NT.
  rewrite NM, (sem_join_is_spec on_a on_b jt A B Len). set (on := combine on_a on_b).
  destruct (deliver_csem fl e ql ul A ul false pl DL Nl (incl_refl _)) as [A' [EA _]].
  destruct (deliver_csem fl e qr ur B ur false pr DR Nr (incl_refl _)) as [B' [EB _]].
  destruct (operand_cols ql ul A pl A' DL BL Nl NEl EA) as [CA RA1]. destruct (operand_cols qr ur B pr B' DR BR Nr NEr EB) as [CB RB1].
  assert (incl (map fst on) ul /\ incl (map snd on) ur) as [I1 I2].
  { unfold on. split; intros x Hx; apply in_map_iff in Hx; destruct Hx as [[y z] [<- I]]; [apply in_combine_l in I; apply Ia, I|apply in_combine_r in I; apply Ib, I]. }
  pose proof (join_pairs_rel ul ur jt on A A' B B' I1 I2 RA1 RB1) as HP.
  set (tms := join_terms true u ul ur) in *.
  set (T := sql_join_spec (jt_of jt) on A B).
  assert (forall k, In k (map fst tms) <-> (In k ul /\ In k ur /\ In k u) \/ (In k ul /\ ~ In k ur) \/ (In k ur /\ ~ In k ul)) as HK
      by (intros k; apply join_terms_keys_iff).
  assert (forall k, term_of tms k = if mem k ul && mem k ur && mem k u then TmCoalesce true k else TmPass) as HT
      by (intros k; apply term_of_join; assumption).
  (* no unqualified name is ambiguous *)
  assert (forall K, incl K (map fst tms) -> ambiguous (cols A') (cols B') (map (item_of_terms tms) K) = false) as NoAmb.
  { intros K IK. apply existsb_false_map. intros k Ik. unfold item_of_terms. cbn [fst snd]. rewrite HT.
    destruct (mem k ul && mem k ur && mem k u) eqn:M; [reflexivity|].
    destruct (mem k (cols A')) eqn:M1; [|reflexivity]. destruct (mem k (cols B')) eqn:M2; [|reflexivity]. exfalso.
    apply mem_In in M1, M2. apply CA in M1. apply CB in M2. specialize (IK k Ik). apply HK in IK.
    destruct IK as [[_ [_ X]]|[[_ X]|[_ X]]]; try contradiction.
    apply mem_In in M1, M2, X. rewrite M1, M2, X in M. discriminate. }
  set (pairs' := join_pairs jt on A' B').
  set (RK := fun K => mktable K (map (fun p => map (fun k => join_item (cols A') (cols B') (fst p) (snd p) k (term_of tms k)) K) pairs')).
  set (q := TBinary nm (Some tms) ql (mk_tci (Some ul) false pl) (TJoin jt) qr (mk_tci (Some ur) false pr) on).
  assert (forall want, qsem fl e q want = sql_join_select (Some tms) want jt on A' B') as EQ.
  { intros want. unfold q. cbn [qsem]. unfold csem in EA, EB.
    destruct (by_name ql (mk_tci (Some ul) false pl)); destruct (by_name qr (mk_tci (Some ur) false pr)); cbn [tc_cols] in *; rewrite EA, EB; reflexivity. }
  assert (forall K, K <> [] -> incl K (map fst tms) -> qsem fl e q (Some K) = Some (RK K)) as EK.
  { intros K NK IK. rewrite EQ. unfold sql_join_select. rewrite (select_keys_some false tms K NK), (NoAmb K IK). unfold RK. f_equal. f_equal.
    apply map_ext. intros p. rewrite map_map. reflexivity. }
  assert (List.length pairs' = List.length (rows T)) as LP.
  { unfold T, sql_join_spec. cbn [rows]. rewrite spec_rows_pairs, map_length. symmetry. apply (F2_length _ _ _ HP). }
  (* one cell *)
  assert (forall p p' k, pair_rel ul ur (cols A) (cols A') (cols B) (cols B') p p' -> In k u ->
            join_item (cols A') (cols B') (fst p') (snd p') k (term_of tms k)
            = get (out_cols (cols A) (cols B)) (select_row (cols A) (cols B) (fst p) (snd p)) k) as Hcell.
  { intros p p' k [R1 R2] Ik. destruct (Hu k Ik) as [HA [HB HAB]].
    assert (In k (out_cols (cols A) (cols B))) as Iout.
    { unfold out_cols. apply in_app_iff. destruct (in_dec string_dec k (cols A)) as [i|n]; [left; exact i|right].
      apply filter_In. split; [tauto|apply negb_true_iff, mem_false, n]. }
    unfold select_row. rewrite get_map_cols. assert (mem k (out_cols (cols A) (cols B)) = true) as MO by (apply mem_In, Iout). rewrite MO.
    rewrite HT. unfold item_of, eval_item.
    destruct (mem k (cols A)) eqn:MA; destruct (mem k (cols B)) eqn:MB.
    - apply mem_In in MA, MB. pose proof (HA MA) as Il1. pose proof (HB MB) as Ir1.
      assert (mem k ul && mem k ur && mem k u = true) as M by (apply mem_In in Il1, Ir1, Ik; rewrite Il1, Ir1, Ik; reflexivity).
      rewrite M. cbn [join_item]. rewrite <- (cell_rel ul _ _ _ _ k R1 Il1), <- (cell_rel ur _ _ _ _ k R2 Ir1). reflexivity.
    - apply mem_In in MA. pose proof (HA MA) as Il1. assert (~ In k ur) as Nr1 by (intros X; apply mem_false in MB; apply MB, Ir, X).
      apply mem_false in Nr1. rewrite Nr1, andb_false_r. cbn [join_item andb].
      assert (mem k (cols A') = true) as MA' by (apply mem_In, CA, Il1). rewrite MA'. symmetry. apply (cell_rel ul _ _ _ _ k R1 Il1).
    - apply mem_In in MB. pose proof (HB MB) as Ir1. assert (~ In k ul) as Nl1 by (intros X; apply mem_false in MA; apply MA, Il, X).
      assert (mem k ul = false) as Nl2 by (apply mem_false, Nl1). rewrite Nl2. cbn [join_item andb].
      assert (mem k (cols A') = false) as MA' by (apply mem_false; intros X; apply Nl1, CA, X). rewrite MA'. symmetry. apply (cell_rel ur _ _ _ _ k R2 Ir1).
    - exfalso. apply mem_false in MA, MB. tauto. }
  assert (forall K, incl K u -> RK K = sel K T) as Exact.
  { intros K IK. unfold RK, T, sql_join_spec, sem_select_cols. cbn [cols rows]. f_equal. rewrite spec_rows_pairs, map_map.
    symmetry. eapply F2_map_eq; [exact HP|]. intros p p' R. cbv beta. apply map_ext_in. intros k Ik. symmetry. apply Hcell; [exact R|apply IK, Ik]. }
  assert (incl u (map fst tms)) as IuK.
  { intros k Ik. apply HK. destruct (Hu k Ik) as [HA [HB HAB]].
    destruct (in_dec string_dec k (cols A)) as [ia|na]; destruct (in_dec string_dec k (cols B)) as [ib|nb].
    - left. tauto.
    - right. left. split; [tauto|]. intros X. apply nb, Ir, X.
    - right. right. split; [tauto|]. intros X. apply na, Il, X.
    - tauto. }
  constructor.
  - apply join_terms_nodup; assumption.
  - exact IuK.
  - intros k Ik. unfold T, sql_join_spec. cbn [cols]. destruct (Hu k Ik) as [_ [_ HAB]]. unfold out_cols. apply in_app_iff.
    destruct (in_dec string_dec k (cols A)) as [i|n]; [left; exact i|right]. apply filter_In. split; [tauto|apply negb_true_iff, mem_false, n].
  - intros K NK NDK IK. cbn [tkeys] in IK. exists (RK K). split; [apply EK; assumption|]. split.
    + apply sel_nil_length. unfold RK. cbn [rows]. rewrite map_length. exact LP.
    + split; [intros IKu; apply Exact, IKu|]. intros C NC IC ICu. rewrite <- (Exact C ICu). unfold RK, sem_select_cols. cbn [cols rows]. f_equal. rewrite map_map.
      apply map_ext. intros p. apply map_ext_in. intros k Ik. rewrite get_map_cols. assert (mem k K = true) as M by (apply mem_In, IC, Ik). rewrite M. reflexivity.
  - rewrite EQ. unfold sql_join_select. assert (select_keys false (Some tms) (Some []) = None) as E0 by (destruct tms; reflexivity). rewrite E0.
    eexists. split; [reflexivity|]. apply sel_nil_length. cbn [rows]. rewrite map_length. exact LP.
  - intros n0 ts X. discriminate.
Qed.

(* the same step when it has no term at all (nothing requested, and the only requested-from-the-operands columns are common keys):
   written SELECT * over the join; it still supplies the rows *)
Lemma delivers_join_star nm pl pr ql qr jt on_a on_b ul ur A B :
  f_join_null_match fl = false -> List.length on_a = List.length on_b ->
  Delivers fl e ql ul A -> Delivers fl e qr ur B -> BareOk e ql ul -> BareOk e qr ur ->
  NoDup ul -> NoDup ur -> ul <> [] -> ur <> [] -> incl on_a ul -> incl on_b ur ->
  Delivers fl e (TBinary nm None ql (mk_tci (Some ul) false pl) (TJoin jt) qr (mk_tci (Some ur) false pr) (combine on_a on_b))
           [] (sem_join (f_join_null_match fl) on_a on_b jt A B).
Proof.
  intros NM Len DL DR BL BR Nl Nr NEl NEr Ia Ib.
  rewrite NM, (sem_join_is_spec on_a on_b jt A B Len). set (on := combine on_a on_b).
  destruct (deliver_csem fl e ql ul A ul false pl DL Nl (incl_refl _)) as [A' [EA _]].
  destruct (deliver_csem fl e qr ur B ur false pr DR Nr (incl_refl _)) as [B' [EB _]].
  destruct (operand_cols ql ul A pl A' DL BL Nl NEl EA) as [CA RA1]. destruct (operand_cols qr ur B pr B' DR BR Nr NEr EB) as [CB RB1].
  assert (incl (map fst on) ul /\ incl (map snd on) ur) as [I1 I2].
  { unfold on. split; intros x Hx; apply in_map_iff in Hx; destruct Hx as [[y z] [<- I]]; [apply in_combine_l in I; apply Ia, I|apply in_combine_r in I; apply Ib, I]. }
  pose proof (join_pairs_rel ul ur jt on A A' B B' I1 I2 RA1 RB1) as HP.
  set (T := sql_join_spec (jt_of jt) on A B).
  assert (List.length (join_pairs jt on A' B') = List.length (rows T)) as LP.
  { unfold T, sql_join_spec. cbn [rows]. rewrite spec_rows_pairs, map_length. symmetry. apply (F2_length _ _ _ HP). }
  constructor.
  - constructor.
  - intros x [].
  - intros x [].
  - intros K NK _ IK. destruct K as [|k0 K']; [congruence|]. destruct (IK k0 (or_introl eq_refl)).
  - cbn [qsem]. unfold csem in EA, EB.
    destruct (by_name ql (mk_tci (Some ul) false pl)); destruct (by_name qr (mk_tci (Some ur) false pr)); cbn [tc_cols] in *; rewrite EA, EB;
      (eexists; split; [reflexivity|]; apply sel_nil_length; cbn [rows]; rewrite map_length; exact LP).
  - intros n0 ts X. discriminate.
Qed.

End Join.
