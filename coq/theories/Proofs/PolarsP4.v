(* C03, part 4: order_rows (null placement and tie-breaking cannot matter when the keys are non-null and pairwise
   different), and the aggregates the Polars executor builds (sum / mean / min / max / count / size) as the Pandas-flavoured
   aggregate over the same values; frames extended by literal temporary columns. *)
From Coq Require Import List Bool Arith ZArith QArith Qreduction String Lia Permutation Sorted.
Import ListNotations.
From DA Require Import Base.PyRT Base.PyStr Base.Val Model.Sem Model.PolarsExec Proofs.SemBasicP Proofs.SemOrderP
  Proofs.PolarsP1 Proofs.PolarsP2 Proofs.PolarsP3.
Local Open Scope string_scope.
Local Open Scope list_scope.

(* ------------------------------------------------------------------ sorting *)
Lemma stable_sort_ext_in {A} (le1 le2 : A -> A -> bool) l :
  (forall a b, In a l -> In b l -> le1 a b = le2 a b) -> stable_sort le1 l = stable_sort le2 l.
Proof.
  induction l as [|x t IH]; intros H; simpl; [reflexivity|].
  rewrite <- IH by (intros a b Ia Ib; apply H; right; assumption).
  assert (forall s, (forall y, In y s -> In y t) -> insert_sorted le1 x s = insert_sorted le2 x s) as G.
  { induction s as [|y s IHs]; intros S; simpl; [reflexivity|].
    rewrite (H x y) by (simpl; auto using in_eq). rewrite IHs by (intros z Iz; apply S; right; exact Iz). reflexivity. }
  apply G. intros y Iy. eapply SemBasicP.stable_sort_In. exact Iy.
Qed.

Lemma v_le_dir_nonnull nf1 nf2 d a b : is_null a = false -> is_null b = false -> v_le_dir nf1 d a b = v_le_dir nf2 d a b.
Proof. destruct a, b; simpl; intros; try discriminate; reflexivity. Qed.

Lemma row_le_nonnull fl1 fl2 cs keys r1 r2 :
  (forall c, In c (map fst keys) -> is_null (get cs r1 c) = false /\ is_null (get cs r2 c) = false) ->
  row_le fl1 cs keys r1 r2 = row_le fl2 cs keys r1 r2.
Proof.
  induction keys as [|[c d] t IH]; simpl; intros H; [reflexivity|].
  rewrite IH by (intros c0 I0; apply H; right; exact I0).
  destruct (H c (or_introl eq_refl)) as [A B]. rewrite (v_le_dir_nonnull (nulls_first fl1 d) (nulls_first fl2 d) d _ _ A B). reflexivity.
Qed.

Lemma row_le_both_eqv fl cs ks rev r1 r2 :
  row_le fl cs (map (fun c => (c, mem c rev)) ks) r1 r2 = true -> row_le fl cs (map (fun c => (c, mem c rev)) ks) r2 r1 = true ->
  keys_eqv (key_of cs ks r1) (key_of cs ks r2) = true.
Proof.
  induction ks as [|c t IH]; simpl; intros H1 H2; [reflexivity|].
  rewrite (SemOrderP.v_eqv_sym (get cs r2 c) (get cs r1 c)) in H2.
  destruct (v_eqv (get cs r1 c) (get cs r2 c)) eqn:E; simpl.
  - apply IH; assumption.
  - exfalso. eapply SemOrderP.v_le_dir_antisym; eassumption.
Qed.

Lemma keys_nonnull_spec cs ks rs : keys_nonnull cs ks rs = true ->
  forall r c, In r rs -> In c ks -> is_null (get cs r c) = false.
Proof.
  unfold keys_nonnull. rewrite forallb_forall. intros H r c Ir Ic. specialize (H r Ir). apply negb_true_iff in H.
  destruct (is_null (get cs r c)) eqn:E; [|reflexivity].
  assert (existsb is_null (key_of cs ks r) = true); [|congruence].
  apply existsb_exists. exists (get cs r c). split; [|exact E]. unfold key_of. apply in_map. exact Ic.
Qed.

Lemma keys_distinct_spec cs ks rs : keys_distinct cs ks rs = true ->
  forall a b, In a rs -> In b rs -> keys_eqv (key_of cs ks a) (key_of cs ks b) = true -> a = b.
Proof.
  induction rs as [|r t IH]; simpl; intros H a b Ia Ib E; [destruct Ia|].
  apply andb_true_iff in H. destruct H as [H1 H2]. apply negb_true_iff in H1.
  assert (forall x, In x t -> keys_eqv (key_of cs ks r) (key_of cs ks x) = false) as NX.
  { intros x Ix. destruct (keys_eqv (key_of cs ks r) (key_of cs ks x)) eqn:Ex; [|reflexivity].
    assert (existsb (fun r2 => keys_eqv (key_of cs ks r) (key_of cs ks r2)) t = true); [|congruence].
    apply existsb_exists. exists x. auto. }
  destruct Ia as [<-|Ia], Ib as [<-|Ib].
  - reflexivity.
  - rewrite (NX b Ib) in E. discriminate.
  - rewrite SemBasicP.keys_eqv_sym, (NX a Ia) in E. discriminate.
  - apply IH; assumption.
Qed.

Lemma forallb_perm {A} (f : A -> bool) l l' : Permutation l l' -> forallb f l = forallb f l'.
Proof.
  intros P. apply eq_true_iff_eq. rewrite !forallb_forall. split; intros H x I; apply H.
  - eapply Permutation_in; [apply Permutation_sym|]; eassumption.
  - eapply Permutation_in; eassumption.
Qed.

Lemma order_step_perm cs rev lim t t' t2 :
  cols t = cols t' -> Permutation (rows t) (rows t') ->
  (lim <> None -> keys_nonnull (cols t') cs (rows t') = true /\ keys_distinct (cols t') cs (rows t') = true) ->
  pl_order_step cs rev lim t = Ok t2 ->
  cols t2 = cols (sem_order fl_pandas cs rev lim t') /\ Permutation (rows t2) (rows (sem_order fl_pandas cs rev lim t')).
Proof.
  intros C P G H. unfold pl_order_step in H. inversion H; subst; clear H.
  set (keys := map (fun c => (c, mem c rev)) cs).
  destruct lim as [n|]; cbn [cols rows sem_order pl_sort]; fold keys.
  - split; [exact C|].
    destruct (G ltac:(discriminate)) as [Gn Gd].
    assert (stable_sort (row_le fl_plsort (cols t) keys) (rows t) = stable_sort (row_le fl_pandas (cols t') keys) (rows t')) as E.
    { rewrite C.
      rewrite (stable_sort_ext_in (row_le fl_plsort (cols t') keys) (row_le fl_pandas (cols t') keys)).
      - apply stable_sort_perm_invariant; [intros; apply row_le_total|intros; eapply row_le_trans; eassumption|exact P|].
        intros a b Ia Ib L1 L2. apply (keys_distinct_spec _ _ _ Gd).
        + eapply Permutation_in; eassumption.
        + eapply Permutation_in; eassumption.
        + eapply row_le_both_eqv; eassumption.
      - intros a b Ia Ib. apply row_le_nonnull. intros c Ic. unfold keys in Ic. rewrite map_map in Ic. cbn [fst] in Ic. rewrite map_id in Ic.
        split; apply (keys_nonnull_spec _ _ _ Gn); try assumption; eapply Permutation_in; eassumption. }
    rewrite E. apply Permutation_refl.
  - split; [exact C|].
    eapply perm_trans; [apply SemOrderP.stable_sort_perm|]. eapply perm_trans; [exact P|]. apply Permutation_sym, SemOrderP.stable_sort_perm.
Qed.

(* ------------------------------------------------------------------ counting with sums *)
Lemma qsum_ones {A} (l : list A) : qsum (nums (map (fun _ => qn (inject_Z 1)) l)) == inject_Z (Z.of_nat (List.length l)).
Proof.
  induction l as [|x t IH]; [reflexivity|].
  cbn [map nums flat_map num_of qn app]. change (flat_map (fun v => match num_of v with Some q => [q] | None => [] end) (map (fun _ => qn (inject_Z 1)) t)) with (nums (map (fun _ : A => qn (inject_Z 1)) t)).
  rewrite qsum_cons, IH. cbn [List.length]. rewrite Nat2Z.inj_succ. unfold Z.succ. rewrite inject_Z_plus. rewrite Qred_correct. ring.
Qed.

Definition count_cell (v : val) : val := pl_when (or3 (VBool (is_null v)) (pl_nan_like v)) (qn (inject_Z 0)) (qn (inject_Z 1)).
Lemma count_cell_val v : count_cell v = if is_null v then qn (inject_Z 0) else qn (inject_Z 1).
Proof. destruct v; reflexivity. Qed.

Lemma qsum_count (l : list val) :
  qsum (nums (map count_cell l)) == inject_Z (Z.of_nat (List.length (filter (fun v => negb (is_null v)) l))).
Proof.
  induction l as [|x t IH]; [reflexivity|].
  cbn [map filter]. rewrite count_cell_val.
  destruct (is_null x); cbn [negb nums flat_map num_of qn app];
    change (flat_map (fun v => match num_of v with Some q => [q] | None => [] end) (map count_cell t)) with (nums (map count_cell t));
    rewrite qsum_cons, IH.
  - rewrite Qred_correct. unfold inject_Z at 1. ring.
  - cbn [List.length]. rewrite Nat2Z.inj_succ. unfold Z.succ. rewrite inject_Z_plus. rewrite Qred_correct. ring.
Qed.

Lemma size_value {A} (grp : list A) :
  qn (qsum (nums (map (fun _ => qn (inject_Z 1)) grp))) = agg_fn fl_pandas "size" (map (fun _ => VBool true) grp).
Proof.
  cbn [agg_fn]. rewrite map_length. destruct (map (fun _ : A => VBool true) grp) eqn:E.
  - destruct grp; [reflexivity|discriminate].
  - apply qn_eq. apply qsum_ones.
Qed.
Lemma size_value_any {A} (grp : list A) (f : A -> val) : agg_fn fl_pandas "size" (map f grp) = agg_fn fl_pandas "size" (map (fun _ => VBool true) grp).
Proof. cbn [agg_fn]. rewrite !map_length. destruct grp; reflexivity. Qed.
Lemma size_value_us {A} (grp : list A) (f : A -> val) : agg_fn fl_pandas "_size" (map f grp) = agg_fn fl_pandas "size" (map (fun _ => VBool true) grp).
Proof. cbn [agg_fn]. rewrite !map_length. destruct grp; reflexivity. Qed.
Lemma count_value (vs : list val) : qn (qsum (nums (map count_cell vs))) = agg_fn fl_pandas "count" vs.
Proof.
  cbn [agg_fn]. destruct vs as [|v t] eqn:E; [reflexivity|]. rewrite <- E. apply qn_eq. apply qsum_count.
Qed.

(* ------------------------------------------------------------------ the aggregate expressions *)
(* the argument of a vocabulary aggregate, as Model/Sem.v reads it *)
Definition argval (e : expr) (cs : list string) (r : list val) : val :=
  match e with EOp _ [a] => eval_expr fl_pandas cs r a | _ => VBool true end.
Definition agg_name (e : expr) : string := match e with EOp op _ => op | _ => "" end.
Definition uses_one (e : expr) : bool := match e with EOp _ [] => true | EOp op _ => eqb op "size" || eqb op "count" | _ => false end.

Lemma agg_vocab_name e : agg_vocab e = true -> mem (agg_name e) agg_names = true.
Proof.
  destruct e as [c|v|op [|a [|b rest]]]; cbn [agg_vocab]; try discriminate; intros V.
  - split_mem V; try discriminate; reflexivity.
  - apply andb_true_iff in V. destruct V as [V _]. split_mem V; try discriminate; reflexivity.
Qed.

Lemma agg_value_unfold e cs grp : agg_vocab e = true ->
  agg_value fl_pandas cs grp e = agg_fn fl_pandas (agg_name e) (map (argval e cs) grp).
Proof.
  destruct e as [c|v|op [|a [|b rest]]]; cbn [agg_vocab]; try discriminate; intros V; reflexivity.
Qed.

(* the Polars expression of a vocabulary aggregate evaluates, over the rows of a group, to the Pandas-flavoured aggregate *)
Lemma agg_plx_value one e : agg_vocab e = true ->
  exists x, (forall ext, tr_expr one ext e = Ok x) /\
    forall cs grp pos, (uses_one e = true -> forall r, In r grp -> get cs r one = qn (inject_Z 1)) ->
      plx_at cs grp pos x = agg_fn fl_pandas (agg_name e) (map (argval e cs) grp).
Proof.
  destruct e as [c|v|op [|a [|b rest]]]; cbn [agg_vocab]; try discriminate; intros V.
  - (* size() *)
    split_mem V; try discriminate.
    + exists (PAgg ASum (PCol one)). split; [intros ext; destruct ext; reflexivity|].
      intros cs grp pos O. cbn [plx_at agg_name argval pl_agg].
      rewrite (map_nth_seq (fun r => get cs r one) grp).
      rewrite (map_ext_in (fun r => get cs r one) (fun _ => qn (inject_Z 1)) grp) by (intros r I; apply O; [reflexivity|exact I]).
      apply size_value.
    + exists (PAgg ASum (PCol one)). split; [intros ext; destruct ext; reflexivity|].
      intros cs grp pos O. cbn [plx_at agg_name argval pl_agg].
      rewrite (map_nth_seq (fun r => get cs r one) grp).
      rewrite (map_ext_in (fun r => get cs r one) (fun _ => qn (inject_Z 1)) grp) by (intros r I; apply O; [reflexivity|exact I]).
      rewrite size_value_us. apply size_value.
  - apply andb_true_iff in V. destruct V as [V S]. destruct a as [c| |]; try discriminate.
    split_mem V; try discriminate.
    + exists (PAgg ASum (PCol c)). split; [intros ext; destruct ext; reflexivity|]. intros cs grp pos _.
      change (argval (EOp "sum" [ECol c]) cs) with (fun r => get cs r c).
      cbn [plx_at agg_name agg_fn pl_agg]. rewrite (map_nth_seq (fun r => get cs r c) grp).
      destruct (nums (map (fun r => get cs r c) grp)); reflexivity.
    + exists (PAgg AMean (PCol c)). split; [intros ext; destruct ext; reflexivity|]. intros cs grp pos _.
      change (argval (EOp "mean" [ECol c]) cs) with (fun r => get cs r c).
      cbn [plx_at agg_name agg_fn pl_agg]. rewrite (map_nth_seq (fun r => get cs r c) grp). reflexivity.
    + exists (PAgg AMin (PCol c)). split; [intros ext; destruct ext; reflexivity|]. intros cs grp pos _.
      change (argval (EOp "min" [ECol c]) cs) with (fun r => get cs r c).
      cbn [plx_at agg_name agg_fn pl_agg]. rewrite (map_nth_seq (fun r => get cs r c) grp). reflexivity.
    + exists (PAgg AMax (PCol c)). split; [intros ext; destruct ext; reflexivity|]. intros cs grp pos _.
      change (argval (EOp "max" [ECol c]) cs) with (fun r => get cs r c).
      cbn [plx_at agg_name agg_fn pl_agg]. rewrite (map_nth_seq (fun r => get cs r c) grp). reflexivity.
    + exists (count_expr (PCol c)). split; [intros ext; destruct ext; reflexivity|]. intros cs grp pos _.
      change (argval (EOp "count" [ECol c]) cs) with (fun r => get cs r c).
      unfold count_expr. cbn [plx_at agg_name pl_agg lit_int].
      transitivity (qn (qsum (nums (map count_cell (map (fun r => get cs r c) grp))))); [|apply count_value].
      rewrite map_map. f_equal. f_equal. f_equal. apply (map_nth_seq (fun r => count_cell (get cs r c)) grp).
    + exists (PAgg ASum (PCol one)). split; [intros ext; destruct ext; reflexivity|]. intros cs grp pos O.
      cbn [plx_at agg_name argval pl_agg eval_expr].
      rewrite (map_nth_seq (fun r => get cs r one) grp).
      rewrite (map_ext_in (fun r => get cs r one) (fun _ => qn (inject_Z 1)) grp) by (intros r I; apply O; [reflexivity|exact I]).
      rewrite size_value_any. apply size_value.
Qed.

(* vocabulary aggregates are never "promoted" and need the constant-one column exactly when they count rows *)
Lemma agg_vocab_promote prefix n names e : agg_vocab e = true -> promote prefix n names e = None.
Proof.
  destruct e as [c|v|op [|a [|b rest]]]; cbn [agg_vocab promote]; try discriminate; try reflexivity.
  intros V. apply andb_true_iff in V. destruct V as [_ S]. destruct a; try discriminate; reflexivity.
Qed.
Lemma agg_vocab_zero e : agg_vocab e = true -> needs_zero e = false.
Proof.
  destruct e as [c|v|op [|a [|b rest]]]; cbn [agg_vocab]; try discriminate; intros V.
  - split_mem V; try discriminate; reflexivity.
  - apply andb_true_iff in V. destruct V as [V S]. destruct a as [c| |]; try discriminate. split_mem V; try discriminate; reflexivity.
Qed.
Lemma agg_vocab_one e : agg_vocab e = true -> uses_one e = true -> needs_one e = true.
Proof.
  destruct e as [c|v|op [|a [|b rest]]]; cbn [agg_vocab]; try discriminate; intros V U.
  - split_mem V; try discriminate; reflexivity.
  - apply andb_true_iff in V. destruct V as [V S]. destruct a as [c| |]; try discriminate.
    split_mem V; try discriminate; cbn in U; try discriminate; reflexivity.
Qed.
Lemma agg_vocab_cols e c : agg_vocab e = true -> In c (expr_cols e) -> argval e = (fun cs r => get cs r c) /\ e = EOp (agg_name e) [ECol c].
Proof.
  destruct e as [c0|v|op [|a [|b rest]]]; cbn [agg_vocab]; try discriminate; intros V I.
  - destruct I.
  - apply andb_true_iff in V. destruct V as [V S]. destruct a as [c1| |]; try discriminate.
    cbn in I. destruct I as [<-|[]]. split; reflexivity.
Qed.

(* ------------------------------------------------------------------ frames extended by literal temporary columns *)
Definition lit_temps (temps : list (string * colx)) : Prop := Forall (fun kx => exists v, snd kx = CPlain (PLit v)) temps.
Definition temps_row (t : table) (temps : list (string * colx)) (r : list val) : list val := wc_row t temps (0%nat, r).

Lemma wc_row_lits t temps i r : lit_temps temps -> wc_row t temps (i, r) = temps_row t temps r.
Proof.
  intros LT. unfold temps_row, wc_row. cbn [fst snd]. generalize (cols t). revert r.
  induction temps as [|kx tl IH]; intros r ccs; [reflexivity|].
  inversion LT as [|? ? [v Hv] LT']; subst. cbn [fold_left]. rewrite Hv. cbn [col_at plx_at]. apply IH. exact LT'.
Qed.

Lemma rows_with_lit_temps t temps : lit_temps temps -> rows (pl_with_columns t temps) = map (temps_row t temps) (rows t).
Proof. intros LT. rewrite rows_with_columns. apply map_tag_from_rowwise. intros i r _. apply wc_row_lits. exact LT. Qed.

Lemma temps_row_get t temps r c : lit_temps temps -> List.length r = List.length (cols t) ->
  get (ext_cols (cols t) (map fst temps)) (temps_row t temps r) c =
  match last_for c temps with Some kx => match snd kx with CPlain (PLit v) => v | _ => VNull end | None => get (cols t) r c end.
Proof.
  intros LT L. unfold temps_row. rewrite wc_row_get by exact L. destruct (last_for c temps) as [kx|] eqn:E; [|reflexivity].
  destruct (last_for_Some _ _ _ E) as [_ I]. unfold lit_temps in LT. rewrite Forall_forall in LT. destruct (LT kx I) as [v Hv].
  rewrite Hv. reflexivity.
Qed.

Lemma temps_row_len t temps r : List.length r = List.length (cols t) ->
  List.length (temps_row t temps r) = List.length (ext_cols (cols t) (map fst temps)).
Proof. intros L. apply wc_row_len. exact L. Qed.

Lemma temps_row_get_user t temps r c : lit_temps temps -> List.length r = List.length (cols t) ->
  ~ In c (map fst temps) ->
  get (ext_cols (cols t) (map fst temps)) (temps_row t temps r) c = get (cols t) r c.
Proof.
  intros LT L Nc. rewrite temps_row_get by assumption. rewrite last_for_None; [reflexivity|exact Nc].
Qed.
