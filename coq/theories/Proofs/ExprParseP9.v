(* Proofs/ExprParseP9.v -- C13, part 2 (end): lark_of (unparse d) = Some (strip d). *)
From Coq Require Import List Bool String Ascii ZArith NArith QArith Arith Lia.
Import ListNotations.
From DA Require Import Model.PyExpr Model.ExprParse Model.ExprAst Proofs.ExprParseP1 Proofs.ExprParseP5 Proofs.ExprParseP6
  Proofs.ExprParseP7 Proofs.ExprParseP8.
Local Close Scope Q_scope.
Local Open Scope string_scope.
Local Open Scope bool_scope.
Local Open Scope list_scope.

Lemma Forall2_map_same {A B C} (f : A -> B) (g : A -> C) (R : B -> C -> Prop) l :
  (forall x, In x l -> R (f x) (g x)) -> Forall2 R (map f l) (map g l).
Proof. induction l as [|x l IH]; intros H; simpl; constructor; [apply H; left; reflexivity|apply IH; intros y Hy; apply H; right; exact Hy]. Qed.

(* a bracketed group of tests *)
Lemma scans_group k (items : list dtree) tr ts cur st :
  (forall x, In x items -> wfn x = true /\ scans x) -> (tr = true -> items <> []) ->
  scan (open_tok k :: commas (map unparse items) tr ++ close_tok k :: ts) cur st
  = scan ts (EGrp k (map (fun a => GTest (strip a)) items) tr :: cur) st.
Proof. intros H Htr. rewrite scan_open.
  rewrite (scan_commas (map unparse items) (map flat items) tr).
  2:{ apply Forall2_map_same. intros x Hx. exact (proj2 (H x Hx)). }
  rewrite app_nil_r. apply scan_close. rewrite rev_involutive. apply parse_content_pieces.
  - apply Forall2_map_same. intros x Hx. destruct (H x Hx) as [W _]. exact (piece_test x W (wf_good x W)).
  - intros T E. apply (Htr T). destruct items; [reflexivity|discriminate E]. Qed.

Lemma scans_size : forall n d, dsize d < n -> wfn d = true -> scans d.
Proof. induction n as [|n IH]; intros d Hs W; [lia|].
  destruct d as [x|s|t|t|k|L d0 rest|x|op x|b e|f args tr|o nm|k items tr|items tr]; intros ts cur st.
  - (* parentheses *)
    simpl in W, Hs. pose proof (scans_group BParen [x] false ts cur st) as G. cbn [map commas open_tok close_tok] in G.
    rewrite app_nil_r in G.
    change (unparse (DPar x) ++ ts) with (TSym "(" :: (unparse x ++ [TSym ")"]) ++ ts).
    rewrite <- app_assoc. change ([TSym ")"] ++ ts) with (TSym ")" :: ts).
    change (rev (flat (DPar x)) ++ cur) with (EGrp BParen [GTest (strip x)] false :: cur). apply G.
    + intros y [<-|[]]. split; [exact W|apply IH; [lia|exact W]].
    + discriminate.
  - cbn [unparse flat rev app]. apply scan_tok, plain_nonsym. exact I.
  - cbn [unparse flat rev app]. apply scan_tok. destruct t; simpl in W; try discriminate W; apply plain_nonsym; exact I.
  - cbn [unparse flat rev app]. apply scan_tok. destruct t; simpl in W; try discriminate W; apply plain_nonsym; exact I.
  - cbn [unparse flat rev app]. apply scan_tok. cbn [wfn] in W. apply mem_str_In in W. simpl in W.
    destruct W as [<-|[<-|[<-|[]]]]; split; reflexivity.
  - (* binary level *)
    pose proof W as W'. simpl in W'. apply andb_prop in W' as [W' Hrest]. apply andb_prop in W' as [_ W0].
    rewrite forallb_forall in Hrest. simpl in Hs.
    cbn [unparse flat]. rewrite <- app_assoc. rewrite (IH d0 ltac:(lia) W0).
    rewrite (scans_chain_rest rest L).
    + rewrite rev_app_distr, <- app_assoc. reflexivity.
    + intros p Hp. specialize (Hrest p Hp). apply andb_prop in Hrest as [Hr Hw]. apply andb_prop in Hr as [Ho _].
      split; [exact Ho|apply IH; [pose proof (dsize_rest rest p Hp); lia|exact Hw]].
  - pose proof W as W'. simpl in W'. apply andb_prop in W' as [_ Wx]. simpl in Hs.
    cbn [unparse flat]. rewrite <- app_comm_cons. rewrite scan_tok; [|split; reflexivity].
    rewrite (IH x ltac:(lia) Wx). cbn [rev]. rewrite <- app_assoc. reflexivity.
  - pose proof W as W'. simpl in W'. apply andb_prop in W' as [W' Wx]. apply andb_prop in W' as [Hu _]. simpl in Hs.
    cbn [unparse flat]. rewrite <- app_comm_cons. rewrite (scan_tok _ _ _ _ (plain_uop _ Hu)).
    rewrite (IH x ltac:(lia) Wx). cbn [rev]. rewrite <- app_assoc. reflexivity.
  - pose proof W as W'. simpl in W'. apply andb_prop in W' as [W' We]. apply andb_prop in W' as [W' _]. apply andb_prop in W' as [_ Wb].
    simpl in Hs. cbn [unparse flat]. rewrite <- app_assoc, (IH b ltac:(lia) Wb). rewrite <- app_comm_cons.
    rewrite scan_tok; [|split; reflexivity]. rewrite (IH e ltac:(lia) We).
    rewrite rev_app_distr. cbn [rev]. rewrite <- !app_assoc. reflexivity.
  - (* call *)
    pose proof W as W'. simpl in W'. apply andb_prop in W' as [W' Htr]. apply andb_prop in W' as [W' Hargs]. apply andb_prop in W' as [_ Wf].
    rewrite forallb_forall in Hargs. simpl in Hs.
    cbn [unparse flat]. rewrite <- app_assoc, (IH f ltac:(lia) Wf).
    pose proof (scans_group BParen args tr ts (rev (flat f) ++ cur) st) as G.
    change (open_tok BParen) with (TSym "(") in G. change (close_tok BParen) with (TSym ")") in G.
    rewrite <- app_comm_cons, <- app_assoc. cbn [app]. rewrite G.
    + rewrite rev_app_distr. reflexivity.
    + intros x Hx. split; [exact (Hargs x Hx)|apply IH; [pose proof (dsize_items args x Hx); lia|exact (Hargs x Hx)]].
    + intros T E. subst. simpl in Htr. discriminate Htr.
  - pose proof W as W'. simpl in W'. apply andb_prop in W' as [_ Wo]. simpl in Hs.
    cbn [unparse flat]. rewrite <- app_assoc, (IH o ltac:(lia) Wo). cbn [app].
    rewrite scan_tok; [|split; reflexivity]. rewrite scan_tok; [|split; reflexivity].
    rewrite rev_app_distr. reflexivity.
  - (* tuple / list / set *)
    pose proof W as W'. simpl in W'. apply andb_prop in W' as [Hitems Hshape]. rewrite forallb_forall in Hitems. simpl in Hs.
    change (unparse (DColl k items tr) ++ ts) with (open_tok k :: (commas (map unparse items) tr ++ [close_tok k]) ++ ts).
    rewrite <- app_assoc. change ([close_tok k] ++ ts) with (close_tok k :: ts).
    change (rev (flat (DColl k items tr)) ++ cur) with (EGrp k (map (fun a => GTest (strip a)) items) tr :: cur).
    apply scans_group.
    + intros x Hx. split; [exact (Hitems x Hx)|apply IH; [pose proof (dsize_items items x Hx); lia|exact (Hitems x Hx)]].
    + intros T E. subst. destruct k; simpl in Hshape; discriminate Hshape.
  - (* dict *)
    pose proof W as W'. simpl in W'. apply andb_prop in W' as [Hitems Htr]. rewrite forallb_forall in Hitems. simpl in Hs.
    change (unparse (DDict items tr) ++ ts)
      with (open_tok BBrace :: (commas (map (fun kv => unparse (fst kv) ++ TSym ":" :: unparse (snd kv)) items) tr ++ [TSym "}"]) ++ ts).
    rewrite <- app_assoc. change ([TSym "}"] ++ ts) with (TSym "}" :: ts).
    change (rev (flat (DDict items tr)) ++ cur)
      with (EGrp BBrace (map (fun kv => GKV (strip (fst kv)) (strip (snd kv))) items) tr :: cur).
    rewrite scan_open.
    rewrite (scan_commas _ (map (fun kv => flat (fst kv) ++ ETok (TSym ":") :: flat (snd kv)) items) tr).
    2:{ apply Forall2_map_same. intros kv Hkv ts' cur' st'. specialize (Hitems kv Hkv). apply andb_prop in Hitems as [Wk Wv].
        pose proof (dsize_kvs items kv Hkv).
        rewrite <- app_assoc, (IH (fst kv) ltac:(lia) Wk). rewrite <- app_comm_cons.
        rewrite scan_tok; [|split; reflexivity]. rewrite (IH (snd kv) ltac:(lia) Wv).
        rewrite rev_app_distr. cbn [rev]. rewrite <- !app_assoc. reflexivity. }
    rewrite app_nil_r. change (TSym "}") with (close_tok BBrace). apply scan_close. rewrite rev_involutive.
    apply parse_content_pieces.
    + apply Forall2_map_same. intros kv Hkv. specialize (Hitems kv Hkv). apply andb_prop in Hitems as [Wk Wv].
      exact (piece_kv _ _ (wf_good _ Wk) (wf_good _ Wv)).
    + intros T E. subst tr. destruct items; [simpl in Htr; discriminate Htr|discriminate E]. Qed.

Theorem lark_of_unparse d : wfn d = true -> lark_of (unparse d) = Some (strip d).
Proof. intros W. unfold lark_of. rewrite <- (app_nil_r (unparse d)).
  rewrite (scans_size (S (dsize d)) d (Nat.lt_succ_diag_r _) W). cbn [scan]. rewrite app_nil_r, rev_involutive.
  exact (g_parse d (wf_good d W) 0 (Nat.le_0_l _)). Qed.
