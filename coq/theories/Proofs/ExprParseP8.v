(* Proofs/ExprParseP8.v -- C13, part 2 (end): bracket matching, group contents, and
   lark_of (unparse d) = Some (strip d) for every well-formed AST. *)
From Coq Require Import List Bool String Ascii ZArith NArith QArith Arith Lia.
Import ListNotations.
From DA Require Import Model.PyExpr Model.ExprParse Model.ExprAst Proofs.ExprParseP1 Proofs.ExprParseP5 Proofs.ExprParseP6
  Proofs.ExprParseP7.
Local Close Scope Q_scope.
Local Open Scope string_scope.
Local Open Scope bool_scope.
Local Open Scope list_scope.

(* ------------------------------------------------------------------ splitting at punctuation *)
Definition not_sym (s : string) (e : elem) : bool := match e with ETok t => negb (sym_is t s) | _ => true end.

Lemma split_sym_app s a b : forallb (not_sym s) a = true ->
  split_sym s (a ++ b) = (let '(x, r) := split_sym s b in (a ++ x, r)).
Proof. induction a as [|e a IH]; intros H.
  - simpl. destruct (split_sym s b); reflexivity.
  - simpl in H. apply andb_prop in H as [He Ha]. rewrite <- app_comm_cons. cbn [split_sym]. rewrite (IH Ha).
    destruct (split_sym s b) as [x r]. destruct e as [t|k items tr]; [|reflexivity].
    simpl in He. destruct (sym_is t s); [discriminate He|reflexivity]. Qed.

Lemma split_sym_none s a : forallb (not_sym s) a = true -> split_sym s a = (a, []).
Proof. intros H. rewrite <- (app_nil_r a) at 1. rewrite (split_sym_app s a [] H). simpl. rewrite app_nil_r. reflexivity. Qed.

Lemma split_sym_hit s r : split_sym s (ETok (TSym s) :: r) = (let '(x, rest) := split_sym s r in ([], x :: rest)).
Proof. cbn [split_sym]. destruct (split_sym s r). unfold sym_is. rewrite String.eqb_refl. reflexivity. Qed.

Lemma no_punct_comma es : forallb no_punct es = true -> forallb (not_sym ",") es = true.
Proof. intros H. rewrite forallb_forall in *. intros e He. specialize (H e He). destruct e as [t|]; [|reflexivity].
  simpl in *. destruct (sym_is t ","); [discriminate H|reflexivity]. Qed.
Lemma no_punct_colon es : forallb no_punct es = true -> forallb (not_sym ":") es = true.
Proof. intros H. rewrite forallb_forall in *. intros e He. specialize (H e He). destruct e as [t|]; [|reflexivity].
  simpl in *. destruct (sym_is t ":"); [rewrite orb_true_r in H; discriminate H|reflexivity]. Qed.

(* ------------------------------------------------------------------ comma separated contents *)
Fixpoint ecommas (parts : list (list elem)) (trailing : bool) : list elem :=
  match parts with
  | [] => []
  | [p] => p ++ (if trailing then [ETok (TSym ",")] else [])
  | p :: more => p ++ ETok (TSym ",") :: ecommas more trailing
  end.

Lemma split_ecommas : forall more p tr,
  Forall (fun q => forallb (not_sym ",") q = true) (p :: more) ->
  split_sym "," (ecommas (p :: more) tr) = (p, more ++ (if tr then [[]] else [])).
Proof. induction more as [|q more IH]; intros p tr H; inversion H as [|? ? Hp Hm]; subst.
  - cbn [ecommas]. rewrite (split_sym_app _ _ _ Hp). destruct tr; simpl; rewrite app_nil_r; reflexivity.
  - change (ecommas (p :: q :: more) tr) with (p ++ ETok (TSym ",") :: ecommas (q :: more) tr).
    rewrite (split_sym_app _ _ _ Hp), split_sym_hit, (IH q tr Hm). rewrite app_nil_r. reflexivity. Qed.

Lemma strip_trailing_plain : forall ps, Forall (fun q : list elem => q <> []) ps -> strip_trailing ps = (ps, false).
Proof. induction ps as [|p ps IH]; intros H; [reflexivity|]. inversion H as [|? ? Hp Hps]; subst.
  destruct ps as [|q ps]; [reflexivity|]. inversion Hps as [|? ? Hq _]; subst.
  destruct q as [|e q]; [congruence|].
  change (strip_trailing (p :: (e :: q) :: ps)) with (let '(x, t) := strip_trailing ((e :: q) :: ps) in (p :: x, t)).
  rewrite (IH Hps). reflexivity. Qed.

Lemma strip_trailing_comma : forall ps, ps <> [] -> Forall (fun q : list elem => q <> []) ps ->
  strip_trailing (ps ++ [[]]) = (ps, true).
Proof. induction ps as [|p ps IH]; intros Hne H; [congruence|]. inversion H as [|? ? Hp Hps]; subst.
  destruct ps as [|q ps]; [reflexivity|]. inversion Hps as [|? ? Hq _]; subst.
  destruct q as [|e q]; [congruence|].
  change (strip_trailing ((p :: (e :: q) :: ps) ++ [[]]))
    with (let '(x, t) := strip_trailing (((e :: q) :: ps) ++ [[]]) in (p :: x, t)).
  rewrite (IH ltac:(discriminate) Hps). reflexivity. Qed.

Lemma mapM_Forall2 {A B} (f : A -> option B) l r : Forall2 (fun x y => f x = Some y) l r -> mapM f l = Some r.
Proof. induction 1 as [|x y l r Hxy _ IH]; simpl; [reflexivity|]. rewrite Hxy, IH. reflexivity. Qed.

Lemma parse_content_pieces pieces gs tr :
  Forall2 (fun p g => p <> [] /\ forallb (not_sym ",") p = true /\ parse_piece p = Some g) pieces gs ->
  (tr = true -> pieces <> []) ->
  parse_content (ecommas pieces tr) = Some (gs, tr).
Proof. intros H Htr. destruct pieces as [|p more].
  - inversion H; subst. destruct tr; [exfalso; apply (Htr eq_refl); reflexivity|reflexivity].
  - assert (Hne : Forall (fun q : list elem => q <> []) (p :: more)).
    { clear Htr. induction H as [|? ? ? ? [Hx _] _ IH]; constructor; assumption. }
    assert (Hc : Forall (fun q => forallb (not_sym ",") q = true) (p :: more)).
    { clear Htr Hne. induction H as [|? ? ? ? [_ [Hx _]] _ IH]; constructor; assumption. }
    assert (Hp : mapM parse_piece (p :: more) = Some gs).
    { apply mapM_Forall2. clear Htr Hne Hc. induction H as [|? ? ? ? [_ [_ Hx]] _ IH]; constructor; assumption. }
    unfold parse_content.
    assert (Hes : exists e es, ecommas (p :: more) tr = e :: es).
    { inversion Hne as [|? ? Hp0 _]; subst. destruct p as [|e p]; [congruence|].
      destruct more; cbn [ecommas]; rewrite <- app_comm_cons; eauto. }
    destruct Hes as [e [es Hes]]. rewrite Hes. rewrite <- Hes. rewrite (split_ecommas more p tr Hc).
    destruct tr.
    + rewrite app_comm_cons, (strip_trailing_comma (p :: more) ltac:(discriminate) Hne), Hp. reflexivity.
    + rewrite app_nil_r, (strip_trailing_plain _ Hne), Hp. reflexivity. Qed.

(* one item that is a test / a key: value pair *)
Lemma piece_test x : wfn x = true -> good x ->
  flat x <> [] /\ forallb (not_sym ",") (flat x) = true /\ parse_piece (flat x) = Some (GTest (strip x)).
Proof. intros W G. split; [exact (good_nonempty x G)|split; [exact (no_punct_comma _ (g_punct x G))|]].
  unfold parse_piece. rewrite (split_sym_none ":" _ (no_punct_colon _ (g_punct x G))).
  pose proof (g_parse x G 0 (Nat.le_0_l _)) as P. cbn [plvl] in P. unfold p_test. rewrite P. reflexivity. Qed.

Lemma piece_kv k v : good k -> good v ->
  flat k ++ ETok (TSym ":") :: flat v <> [] /\ forallb (not_sym ",") (flat k ++ ETok (TSym ":") :: flat v) = true
  /\ parse_piece (flat k ++ ETok (TSym ":") :: flat v) = Some (GKV (strip k) (strip v)).
Proof. intros Gk Gv. split; [|split].
  - pose proof (good_nonempty k Gk). destruct (flat k); [congruence|discriminate].
  - rewrite forallb_app. cbn [forallb]. rewrite (no_punct_comma _ (g_punct k Gk)), (no_punct_comma _ (g_punct v Gv)). reflexivity.
  - unfold parse_piece. rewrite (split_sym_app ":" _ _ (no_punct_colon _ (g_punct k Gk))), split_sym_hit.
    rewrite (split_sym_none ":" _ (no_punct_colon _ (g_punct v Gv))). rewrite app_nil_r.
    pose proof (g_parse k Gk 0 (Nat.le_0_l _)) as Pk. pose proof (g_parse v Gv 0 (Nat.le_0_l _)) as Pv.
    cbn [plvl] in Pk, Pv. unfold p_test. rewrite Pk, Pv. reflexivity. Qed.

(* ------------------------------------------------------------------ bracket matching *)
Definition plain_tok (t : tok) : Prop := open_of t = None /\ close_of t = None.

Lemma scan_tok t ts cur st : plain_tok t -> scan (t :: ts) cur st = scan ts (ETok t :: cur) st.
Proof. intros [Ho Hc]. cbn [scan]. rewrite Ho, Hc. reflexivity. Qed.

Lemma plain_nonsym t : match t with TSym _ => False | _ => True end -> plain_tok t.
Proof. destruct t; intros H; try destruct H; split; reflexivity. Qed.

Lemma plain_sym s : ~ In s ["("; ")"; "["; "]"; "{"; "}"] -> plain_tok (TSym s).
Proof. intros H. unfold plain_tok, open_of, close_of, sym_is.
  destruct (s ==s "(") eqn:E1; [apply String.eqb_eq in E1; subst; exfalso; apply H; simpl; tauto|].
  destruct (s ==s "[") eqn:E2; [apply String.eqb_eq in E2; subst; exfalso; apply H; simpl; tauto|].
  destruct (s ==s "{") eqn:E3; [apply String.eqb_eq in E3; subst; exfalso; apply H; simpl; tauto|].
  destruct (s ==s ")") eqn:E4; [apply String.eqb_eq in E4; subst; exfalso; apply H; simpl; tauto|].
  destruct (s ==s "]") eqn:E5; [apply String.eqb_eq in E5; subst; exfalso; apply H; simpl; tauto|].
  destruct (s ==s "}") eqn:E6; [apply String.eqb_eq in E6; subst; exfalso; apply H; simpl; tauto|].
  split; reflexivity. Qed.

Lemma plain_binop L s : is_binop_at L s = true -> plain_tok (TSym s).
Proof. intros H. apply is_binop_at_lvl in H. apply plain_sym. simpl.
  intros [<-|[<-|[<-|[<-|[<-|[<-|[]]]]]]]; discriminate H. Qed.

Lemma plain_uop s : is_uop s = true -> plain_tok (TSym s).
Proof. intros H. destruct (uop_cases _ H) as [ -> | [ -> | -> ] ]; split; reflexivity. Qed.

Definition scans (d : dtree) : Prop :=
  forall ts cur st, scan (unparse d ++ ts) cur st = scan ts (rev (flat d) ++ cur) st.

Lemma scan_open k ts cur st : scan (open_tok k :: ts) cur st = scan ts [] ((k, cur) :: st).
Proof. destruct k; reflexivity. Qed.

Lemma scan_close k ts cur parent st items tr : parse_content (rev cur) = Some (items, tr) ->
  scan (close_tok k :: ts) cur ((k, parent) :: st) = scan ts (EGrp k items tr :: parent) st.
Proof. intros H. destruct k; cbn [scan close_tok open_of close_of sym_is]; simpl; rewrite H; reflexivity. Qed.

(* comma separated items *)
Lemma scan_commas : forall (us : list (list tok)) (fs : list (list elem)) tr ts cur st,
  Forall2 (fun u f => forall ts cur st, scan (u ++ ts) cur st = scan ts (rev f ++ cur) st) us fs ->
  scan (commas us tr ++ ts) cur st = scan ts (rev (ecommas fs tr) ++ cur) st.
Proof. induction us as [|u us IH]; intros fs tr ts cur st H; inversion H as [|? f ? fs' Hu Hr]; subst; [reflexivity|].
  destruct us as [|u2 us].
  - inversion Hr; subst. cbn [commas ecommas]. rewrite <- app_assoc, Hu. destruct tr.
    + cbn [app]. rewrite scan_tok; [|apply plain_sym; simpl; intuition discriminate].
      rewrite rev_app_distr. reflexivity.
    + simpl. rewrite app_nil_r. reflexivity.
  - inversion Hr as [|? f2 ? fs2 Hu2 Hr2]; subst.
    change (commas (u :: u2 :: us) tr) with (u ++ TSym "," :: commas (u2 :: us) tr).
    change (ecommas (f :: f2 :: fs2) tr) with (f ++ ETok (TSym ",") :: ecommas (f2 :: fs2) tr).
    rewrite <- app_assoc, Hu. rewrite <- app_comm_cons. rewrite scan_tok; [|apply plain_sym; simpl; intuition discriminate].
    rewrite (IH (f2 :: fs2) tr ts _ st Hr). rewrite rev_app_distr. cbn [rev]. rewrite <- !app_assoc. reflexivity. Qed.

Lemma scans_chain_rest (rest : list (string * dtree)) L :
  (forall p, In p rest -> is_binop_at L (fst p) = true /\ scans (snd p)) ->
  forall ts cur st,
  scan (flat_map (fun p => TSym (fst p) :: unparse (snd p)) rest ++ ts) cur st
  = scan ts (rev (flat_map (fun p => ETok (TSym (fst p)) :: flat (snd p)) rest) ++ cur) st.
Proof. induction rest as [|p rest IH]; intros H ts cur st; [reflexivity|].
  destruct (H p (or_introl eq_refl)) as [Ho Hs].
  cbn [flat_map]. rewrite <- !app_comm_cons, <- app_assoc. rewrite (scan_tok _ _ _ _ (plain_binop _ _ Ho)).
  rewrite Hs. rewrite IH; [|intros q Hq; apply H; right; exact Hq].
  cbn [rev]. rewrite rev_app_distr. rewrite <- !app_assoc. reflexivity. Qed.
