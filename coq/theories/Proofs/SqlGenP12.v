(* SQLGEN, part 12 (stage iii): the invariant of mergeable steps, and the merged step delivers the outer extend's table. *)
From Coq Require Import List Bool Arith ZArith QArith String Lia.
Import ListNotations.
From DA Require Import Base.PyRT Base.Val Model.Sem Proofs.SemBasicP Model.ColumnsUsed Proofs.ColumnsUsedP1 Proofs.ColumnsUsedP2
  Proofs.ColumnsUsedP4 Model.SqlGen Model.SqlSem Proofs.SqlGenP1 Proofs.SqlGenP2 Proofs.SqlGenP3 Proofs.SqlGenP4 Proofs.SqlGenP5 Proofs.SqlGenP11.
Local Open Scope list_scope.

(* what extend_to_near_sql may assume of a step it is allowed to merge into *)
Definition merge_ok (l : terms) (dp : depmap) : Prop :=
  l <> [] /\ (forall kt, In kt l -> scalar_term (snd kt) = true) /\ NoDup (map fst l) /\
  incl (map fst l) (map fst dp) /\ NoDup (map fst dp) /\ deps_describe l dp.
Definition MergeInv (q : tnear) : Prop :=
  forall n ts s0 ci sfx dp, q = TUnary n ts s0 ci sfx true (Some dp) -> sfx = SfxNone /\ exists l, ts = Some l /\ merge_ok l dp.

Lemma merge_inv_not_mergeable n ts s0 ci sfx dp : MergeInv (TUnary n ts s0 ci sfx false dp).
Proof. intros n' ts' s0' ci' sfx' dp' E. discriminate. Qed.
Lemma merge_inv_table n ts : MergeInv (TTable n ts).
Proof. intros n' ts' s0' ci' sfx' dp' E. discriminate. Qed.
Lemma merge_inv_binary n t s1 c1 j s2 c2 on : MergeInv (TBinary n t s1 c1 j s2 c2 on).
Proof. intros n' ts' s0' ci' sfx' dp' E. discriminate. Qed.

Lemma merge_inv_restrict q K q' : MergeInv q -> restrict_terms q K = Some q' -> K <> [] -> NoDup K -> MergeInv q'.
Proof.
  intros M E NE NK n ts s0 ci sfx dp Eq. subst q'.
  destruct q as [nm tt|nm l s ci0 sfx0 mg dp0|nm l s1 c1 j s2 c2 on]; simpl in E.
  - destruct (subset K _); discriminate.
  - destruct (subset K _) eqn:Sb; [|discriminate]. injection E as E1 E2 E3 E4 E5 E6 E7. subst n ts s0 ci sfx mg dp0.
    destruct (M nm l s ci0 sfx0 dp eq_refl) as [-> [l0 [-> [NL [SC [ND [IK [NDd DD]]]]]]]]. split; [reflexivity|].
    pose proof (proj1 (subset_spec _ _) Sb) as Sb'. cbn in Sb'.
    eexists. split; [reflexivity|]. repeat split.
    + destruct K as [|k0 K']; [congruence|]. cbn [flat_map]. specialize (Sb' k0 (or_introl eq_refl)).
      destruct (dict_get l0 k0) eqn:G; [discriminate|]. apply dict_get_None in G. contradiction.
    + intros kt I. apply in_flat_map in I. destruct I as [k [_ I]]. destruct (dict_get l0 k) as [v|] eqn:G; [|destruct I]. destruct I as [<-|[]].
      apply dict_get_In in G. exact (SC _ G).
    + rewrite (keys_restrict l0 K Sb'). exact NK.
    + rewrite (keys_restrict l0 K Sb'). intros k Ik. apply IK, Sb', Ik.
    + exact NDd.
    + intros k t I. apply in_flat_map in I. destruct I as [k1 [_ I]]. destruct (dict_get l0 k1) as [v|] eqn:G; [|destruct I]. destruct I as [[= <- <-]|[]].
      apply dict_get_In in G. exact (DD _ _ G).
  - destruct (subset K _); discriminate.
Qed.

Lemma merge_inv_empty q : terms_is_none q = true -> MergeInv q -> MergeInv (empty_terms q).
Proof.
  intros TN M n ts s0 ci sfx dp Eq. destruct q as [nm tt|nm l s ci0 sfx0 mg dp0|nm l s1 c1 j s2 c2 on]; simpl in Eq; try discriminate.
  injection Eq as E1 E2 E3 E4 E5 E6 E7. subst n ts s0 ci sfx mg dp0. destruct l; [discriminate|].
  destruct (M nm None s ci0 sfx0 dp eq_refl) as [_ [l0 [X _]]]. discriminate.
Qed.

Lemma merge_inv_narrow q K q' : MergeInv q -> NoDup K ->
  (if terms_is_none q then (match K with [] => Some (empty_terms q) | _ => None end) else narrow_or_first q K) = Some q' -> MergeInv q'.
Proof.
  intros M NK E. destruct (terms_is_none q) eqn:TN.
  - destruct K; [|discriminate]. injection E as <-. apply merge_inv_empty; assumption.
  - unfold narrow_or_first in E. destruct K as [|k1 K'].
    + destruct (tkeys q) as [|k0 rest] eqn:EK.
      * (* terms = Some [] : cannot be a mergeable step *)
        intros n ts s0 ci sfx dp Eq. subst q'. destruct q as [nm tt|nm l s ci0 sfx0 mg dp0|nm l s1 c1 j s2 c2 on]; simpl in E; try discriminate.
        injection E as E1 E2 E3 E4 E5 E6 E7. subst n ts s0 ci sfx mg dp0. destruct l as [l|]; [|discriminate]. destruct (M nm (Some l) s ci0 sfx0 dp eq_refl) as [_ [l0 [X [NL _]]]].
        injection X as <-. simpl in EK. destruct l; [congruence|discriminate].
      * apply (merge_inv_restrict q [k0] q' M E); [discriminate|]. constructor; [intros []|constructor].
    + assert (restrict_terms q (k1 :: K') = Some q') as E' by (destruct (tkeys q); exact E).
      apply (merge_inv_restrict q (k1 :: K') q' M E'); [discriminate|exact NK].
Qed.

(* ------------------------------------------------------------------ a fresh extend step satisfies the invariant *)
Lemma extend_deps_ok (origcols : list string) (subops : list (string * expr)) :
  NoDup origcols -> NoDup (map fst subops) -> (forall k, In k origcols -> ~ In k (map fst subops)) -> subops <> [] ->
  merge_ok (pass_terms origcols ++ map (fun ke => (fst ke, TmExpr (snd ke))) subops)
           (map (fun k => (k, [k])) origcols ++ map (fun ke => (fst ke, set_union (py_set (cols_used (snd ke))) [])) subops).
Proof.
  intros No Ns Dj NE.
  assert (map fst (pass_terms origcols ++ map (fun ke : string * expr => (fst ke, TmExpr (snd ke))) subops) = origcols ++ map fst subops) as EK1.
  { rewrite map_app, keys_pass, map_map. reflexivity. }
  assert (map fst (map (fun k : string => (k, [k])) origcols ++ map (fun ke : string * expr => (fst ke, set_union (py_set (cols_used (snd ke))) [])) subops)
          = origcols ++ map fst subops) as EK2.
  { rewrite map_app, !map_map. simpl. rewrite map_id. reflexivity. }
  assert (NoDup (origcols ++ map fst subops)) as NA by (apply NoDup_app_intro; assumption).
  split; [intros X; apply app_eq_nil in X; destruct X as [_ X]; apply map_eq_nil in X; contradiction|].
  split; [intros kt I; apply in_app_iff in I; destruct I as [I|I]; [exact (pass_scalar _ _ I)|apply in_map_iff in I; destruct I as [x [<- _]]; reflexivity]|].
  split; [rewrite EK1; exact NA|]. split; [rewrite EK1, EK2; apply incl_refl|]. split; [rewrite EK2; exact NA|].
  intros k t I. unfold deps_of.
  set (dp := map (fun k0 : string => (k0, [k0])) origcols ++ map (fun ke : string * expr => (fst ke, set_union (py_set (cols_used (snd ke))) [])) subops).
  assert (NoDup (dict_keys dp)) as ND by (unfold dict_keys, dp; rewrite EK2; exact NA).
  apply in_app_iff in I. destruct I as [I|I].
  - unfold pass_terms in I. apply in_map_iff in I. destruct I as [x [[= <- <-] Ix]].
    assert (In (x, [x]) dp) as Id by (unfold dp; apply in_app_iff; left; apply in_map_iff; exists x; tauto).
    rewrite (dict_get_NoDup_In dp x [x] ND Id). simpl. apply incl_refl.
  - apply in_map_iff in I. destruct I as [ke [[= <- <-] Ike]].
    assert (In (fst ke, set_union (py_set (cols_used (snd ke))) []) dp) as Id by (unfold dp; apply in_app_iff; right; apply in_map_iff; exists ke; tauto).
    rewrite (dict_get_NoDup_In dp _ _ ND Id). simpl. intros x Hx. apply In_py_set. exact Hx.
Qed.

(* ------------------------------------------------------------------ a unary step with plain terms over ANY input X *)
Section Direct.
Variable fl : flavor.
Variable e : env.

Lemma unary_scalar_delivers n tm s0 ci mg dp X u T :
  csem fl e s0 ci = Some X -> tm <> [] -> NoDup (map fst tm) -> (forall kt, In kt tm -> scalar_term (snd kt) = true) ->
  incl u (map fst tm) -> incl u (cols T) -> List.length (rows X) = List.length (rows T) ->
  (forall K, K <> [] -> NoDup K -> incl K u -> sql_select fl true (Some tm) (Some K) SfxNone X = Some (sel K T)) ->
  Delivers fl e (TUnary n (Some tm) s0 ci SfxNone mg dp) u T.
Proof.
  intros EX NT ND SC Iu IuT L Exact.
  assert (forall K, K <> [] -> NoDup K -> incl K (map fst tm) ->
          exists R, sql_select fl true (Some tm) (Some K) SfxNone X = Some R /\ sel [] R = sel [] T /\ (incl K u -> R = sel K T) /\
                    (forall C, NoDup C -> incl C K -> incl C u -> sel C R = sel C T)) as Main.
  { intros K NE NK IK. destruct (scalar_count fl tm SfxNone eq_refl SC K X NE IK) as [R [X0 [E1 [E2 E3]]]]. exists R. split; [exact E1|].
    assert (sel [] R = sel [] T) as ER0.
    { rewrite E3. rewrite (star_is fl SfxNone X eq_refl) in E2. injection E2 as <-. apply sel_nil_length. cbn [rows sfx_rows]. exact L. }
    split; [exact ER0|]. split.
    - intros IKu. rewrite (Exact K NE NK IKu) in E1. congruence.
    - intros C NC IC ICu. destruct C as [|c0 C']; [rewrite ER0; reflexivity|].
      pose proof (scalar_sub fl tm SfxNone eq_refl SC K (c0 :: C') X R ltac:(discriminate) IC IK E1) as E4.
      rewrite (Exact (c0 :: C') ltac:(discriminate) NC ICu) in E4. congruence. }
  constructor.
  - exact ND.
  - exact Iu.
  - exact IuT.
  - intros K NE NK IK. rewrite qsem_unary, EX. apply Main; assumption.
  - rewrite qsem_unary, EX. rewrite (sql_select_keys_eq fl true (Some tm) (Some []) (Some (map fst tm))) by (apply select_keys_own_nil, NT).
    destruct (Main (map fst tm)) as [R [E1 [E2 _]]]; [destruct tm; [congruence|discriminate]|exact ND|apply incl_refl|].
    exists R. split; assumption.
  - intros n0 ts X0. discriminate.
Qed.

End Direct.

Lemma try_sql_merge_inv sub tms deps m : try_sql_merge sub tms deps = Some (Ok m) ->
  exists n0 ts s0 ci ds, sub = TUnary n0 (Some ts) s0 ci SfxNone true (Some ds) /\
    contention (non_trivial_terms deps tms) (needs deps (non_trivial_terms deps tms)) (non_trivial_terms ds ts) (needs ds (non_trivial_terms ds ts)) = [] /\
    m = TUnary n0 (Some (merged_terms (non_trivial_terms deps tms) tms deps ts)) s0 ci SfxNone true (Some (merged_deps (non_trivial_terms deps tms) tms deps ds)).
Proof.
  destruct sub as [nm tt|nm l s ci sfx mg dp|nm l s1 c1 j s2 c2 on]; simpl; try discriminate.
  destruct sfx; try discriminate. destruct mg; try discriminate. destruct dp as [ds|]; try discriminate. destruct l as [ts|]; try discriminate.
  destruct (contention _ _ _ _) eqn:C; try discriminate. intros [= <-]. exists nm, ts, s, ci, ds. split; [reflexivity|]. split; [exact C|reflexivity].
Qed.
