(* Proofs/ExprParseP17.v -- C13, part 3: chains, calls and displays as the walker sees them on the tree of a
   source AST. *)
From Coq Require Import List Bool String Ascii ZArith NArith QArith Arith Lia.
Import ListNotations.
From DA Require Import Model.PyExpr Model.ExprPrint Model.ExprParse Model.ExprAst Model.ExprRoundtrip
  Proofs.ExprParseP1 Proofs.ExprParseP2 Proofs.ExprParseP10 Proofs.ExprParseP12 Proofs.ExprParseP13 Proofs.ExprParseP15
  Proofs.ExprParseP16.
Local Close Scope Q_scope.
Local Open Scope string_scope.
Local Open Scope bool_scope.
Local Open Scope list_scope.

(* ------------------------------------------------------------------ more unfoldings *)
Lemma wn_bitwise c d cs rs g a : In d ["expr"; "xor_expr"; "and_expr"] -> walk_node c d cs rs g a = Err.
Proof. simpl. intros [<-|[<-|[<-|[]]]]; unfold walk_node; cbn -[Nat.ltb]; destruct (Nat.ltb (List.length cs) 2); reflexivity. Qed.
Lemma wn_shift c cs rs g a : walk_node c "shift_expr" cs rs g a = Err.
Proof. reflexivity. Qed.
Lemma wn_getattr c cs rs g a : walk_node c "getattr" cs rs g a = Err.
Proof. reflexivity. Qed.
Lemma wn_coll c d cs rs g a : In d ["list"; "tuple"; "set"] -> walk_node c d cs rs g a = walk_node c "list" cs rs g a.
Proof. simpl. intros [<-|[<-|[<-|[]]]]; reflexivity. Qed.

(* ------------------------------------------------------------------ children of a binary level with its operators *)
Definition inter2 (l : list (string * ltree)) : list ltree := flat_map (fun p => [LTok (TSym (fst p)); snd p]) l.

Lemma evens_inter2 t0 l : evens (t0 :: inter2 l) = t0 :: map snd l.
Proof. revert t0. induction l as [|p l IH]; intros t0; [reflexivity|].
  change (inter2 (p :: l)) with (LTok (TSym (fst p)) :: snd p :: inter2 l). rewrite evens_cons2, IH. reflexivity. Qed.
Lemma odds_inter2 t0 l : odds (t0 :: inter2 l) = map (fun p => LTok (TSym (fst p))) l.
Proof. revert t0. induction l as [|p l IH]; intros t0; [reflexivity|].
  change (inter2 (p :: l)) with (LTok (TSym (fst p)) :: snd p :: inter2 l). rewrite odds_cons2, IH. reflexivity. Qed.

Section Built.
Variables (c : cfg) (dd : list string).
Notation PR := (printable c dd).
Notation W := (walk c dd).

(* ---- a chain  acc op1 b1 op2 b2 ...  over operator tokens of level 3, 8 or 9 *)
Lemma chain_pr L : In L [3; 8; 9] -> forall (rest : list (string * ltree)) acc e,
  (forall p, In p rest -> is_binop_at L (fst p) = true) ->
  chain_fold c (Ok acc) (map (fun p => Some (fst p)) rest) (map (fun p => W (snd p)) rest) = Ok e ->
  PR acc = true -> (forall p x, In p rest -> W (snd p) = Ok x -> PR x = true) -> PR e = true.
Proof. intros HL. induction rest as [|[o t] rest IH]; intros acc e Hops Hc Pa Pr.
  - simpl in Hc. inversion Hc; subst. exact Pa.
  - cbn [map chain_fold fst snd] in Hc. destruct (W t) as [b|] eqn:Wt; [|discriminate Hc].
    destruct (call_method c (remap op_remap o) acc [b]) as [e1|] eqn:Cm; [|exfalso; eapply chain_fold_Err; exact Hc].
    apply (IH e1 e (fun p Hp => Hops p (or_intror Hp)) Hc).
    + apply (step_printable c dd L o acc b e1 (Hops (o, t) (or_introl eq_refl)) HL Cm Pa). apply (Pr (o, t) b (or_introl eq_refl) Wt).
    + intros p x Hp Hx. exact (Pr p x (or_intror Hp) Hx). Qed.

(* ---- displays *)
Lemma unwrap_vals vs vals : all_some (map (fun e0 => match e0 with EVal v => Some v | _ => None end) vs) = Some vals ->
  vs = map EVal vals.
Proof. revert vals. induction vs as [|x vs IH]; intros vals H.
  - simpl in H. inversion H. reflexivity.
  - cbn [map all_some] in H. destruct x as [|v| | |]; try discriminate H.
    destruct (all_some (map (fun e0 => match e0 with EVal v => Some v | _ => None end) vs)) as [r|] eqn:E; [|discriminate H].
    inversion H; subst. cbn [map]. rewrite (IH r eq_refl). reflexivity. Qed.

Lemma all_ok_In {A} (l : list (res A)) r x : all_ok l = Ok r -> In x r -> In (Ok x) l.
Proof. revert r. induction l as [|[y|] l IH]; intros r H Hx; simpl in H; try discriminate H.
  - inversion H; subst. destruct Hx.
  - destruct (all_ok l) as [r'|] eqn:E; [|discriminate H]. inversion H; subst. destruct Hx as [->|Hx]; [left; reflexivity|right; exact (IH r' eq_refl Hx)]. Qed.

(* a list / tuple / set node whose walked items are printable builds a printable ListTerm *)
Lemma coll_printable d cs rs g a e l : In d ["list"; "tuple"; "set"] ->
  coll_items cs rs g = Some l -> (forall x, In (Ok x) l -> PR x = true) ->
  walk_node c d cs rs g a = Ok e -> PR e = true.
Proof. intros Hd Hl Hp. rewrite (wn_coll c d _ _ _ _ Hd), wn_list, Hl.
  destruct (all_ok l) as [vs|] eqn:A; [|discriminate].
  destruct (all_some (map (fun e0 => match e0 with EVal v => Some v | _ => None end) vs)) as [vals|] eqn:U; [|discriminate].
  destruct (existsb (fun v => pval_eqb v PNone) vals) eqn:En; [discriminate|].
  destruct (negb (compatible_types (map type_of vals))) eqn:Ec; [discriminate|]. apply negb_false_iff in Ec.
  intros H. inversion H; subst. cbn [printable]. rewrite En, Ec. cbn [negb]. rewrite !andb_true_r.
  apply negb_true_iff. destruct (existsb is_inf vals) eqn:Ei; [|reflexivity]. exfalso.
  apply existsb_exists in Ei as [v [Hv Hi]]. apply unwrap_vals in U. subst vs.
  assert (Hin : In (Ok (EVal v)) l) by (apply (all_ok_In l (map EVal vals)); [exact A|apply in_map; exact Hv]).
  specialize (Hp _ Hin). cbn [printable] in Hp. rewrite Hi in Hp. discriminate Hp. Qed.

(* dict_combine keeps the keys distinct and never stores None *)
Lemma pdict_set_keys d k v :
  existsb (fun a => py_eq k (fst a)) d = true -> map fst (pdict_set d k v) = map fst d.
Proof. induction d as [|[k' v'] d IH]; [discriminate|]. cbn [existsb fst pdict_set]. destruct (py_eq k k'); [reflexivity|].
  cbn [orb]. intros H. cbn [map fst]. rewrite (IH H). reflexivity. Qed.

Definition keys_ok (ks : list pval) : Prop :=
  (forall k, In k ks -> pval_eqb k PNone = false) /\ distinct_keys (map (fun k => (k, PNone)) ks) = true.

Lemma distinct_keys_fst (d : list (pval * pval)) : distinct_keys d = distinct_keys (map (fun k => (k, PNone)) (map fst d)).
Proof. induction d as [|[k v] d IH]; [reflexivity|]. cbn [distinct_keys map fst]. rewrite IH. f_equal. f_equal.
  rewrite map_map. clear IH. induction d as [|[k' v'] d IH]; [reflexivity|]. cbn [existsb map fst]. rewrite IH. reflexivity. Qed.

Lemma distinct_keys_snoc ks k : distinct_keys (map (fun x => (x, PNone)) ks) = true ->
  existsb (fun a => py_eq k a) ks = false -> distinct_keys (map (fun x => (x, PNone)) (ks ++ [k])) = true.
Proof. induction ks as [|k0 ks IH]; intros Hd Hf; [reflexivity|].
  cbn [map distinct_keys app] in *. apply andb_prop in Hd as [H1 H2]. cbn [existsb] in Hf. apply orb_false_elim in Hf as [Hf1 Hf2].
  rewrite (IH H2 Hf2), andb_true_r. rewrite map_app. cbn [map]. rewrite existsb_app. cbn [existsb fst].
  apply negb_true_iff in H1. rewrite H1, Hf1. reflexivity. Qed.

Lemma pdict_set_inv d k v : pval_eqb k PNone = false -> keys_ok (map fst d) -> keys_ok (map fst (pdict_set d k v)).
Proof. intros Hk [Hn Hd]. destruct (existsb (fun a => py_eq k (fst a)) d) eqn:E.
  - rewrite (pdict_set_keys d k v E). split; assumption.
  - rewrite (pdict_set_fresh d k v E), map_app. cbn [map fst]. split.
    + intros x Hx. apply in_app_or in Hx as [Hx|[<-|[]]]; [exact (Hn x Hx)|exact Hk].
    + apply distinct_keys_snoc; [exact Hd|]. rewrite <- E. clear. induction d as [|[k' v'] d IH]; [reflexivity|].
      cbn [map existsb fst]. rewrite IH. reflexivity. Qed.

Lemma dict_combine_inv : forall ds acc comb, dict_combine acc ds = Some comb -> keys_ok (map fst acc) ->
  keys_ok (map fst comb) /\ List.length acc <= List.length comb.
Proof. induction ds as [|d ds IH]; intros acc comb H Hi.
  - simpl in H. inversion H; subst. split; [exact Hi|lia].
  - destruct d as [| | |kvs|]; try discriminate H. cbn [dict_combine] in H.
    destruct (existsb (fun kv => pval_eqb (fst kv) PNone) kvs) eqn:En; [discriminate H|].
    assert (Hf : forall kvs acc, existsb (fun kv => pval_eqb (fst kv) PNone) kvs = false -> keys_ok (map fst acc) ->
                 keys_ok (map fst (fold_left (fun a kv => pdict_set a (fst kv) (snd kv)) kvs acc))
                 /\ List.length acc <= List.length (fold_left (fun a kv => pdict_set a (fst kv) (snd kv)) kvs acc)).
    { clear. induction kvs as [|[k v] kvs IH]; intros acc En Hi; [split; [exact Hi|simpl; lia]|].
      cbn [existsb fst] in En. apply orb_false_elim in En as [E1 E2]. cbn [fold_left fst snd].
      destruct (IH (pdict_set acc k v) E2 (pdict_set_inv acc k v E1 Hi)) as [A B]. split; [exact A|].
      assert (List.length acc <= List.length (pdict_set acc k v)).
      { clear. induction acc as [|[k' v'] acc IHa]; simpl; [lia|]. destruct (py_eq k k'); simpl; lia. }
      lia. }
    destruct (Hf kvs acc En Hi) as [A B]. destruct (IH _ _ H A) as [C D]. split; [exact C|lia]. Qed.

Definition noinf (d : list (pval * pval)) : bool := negb (existsb (fun kv => is_inf (fst kv) || is_inf (snd kv)) d).

Lemma noinf_cons kv d : noinf (kv :: d) = negb (is_inf (fst kv) || is_inf (snd kv)) && noinf d.
Proof. unfold noinf. cbn [existsb]. rewrite negb_orb. reflexivity. Qed.

Lemma pdict_set_noinf d k v : is_inf k = false -> is_inf v = false -> noinf d = true -> noinf (pdict_set d k v) = true.
Proof. intros Hk Hv. induction d as [|[k' v'] d IH]; intros H.
  - cbn [pdict_set]. rewrite noinf_cons. cbn [fst snd]. rewrite Hk, Hv. reflexivity.
  - rewrite noinf_cons in H. apply andb_prop in H as [H1 H2]. cbn [fst snd] in H1. cbn [pdict_set]. destruct (py_eq k k').
    + rewrite noinf_cons. cbn [fst snd]. apply negb_true_iff in H1. apply orb_false_elim in H1 as [H1 _]. rewrite H1, Hv, H2. reflexivity.
    + rewrite noinf_cons. cbn [fst snd]. rewrite H1, (IH H2). reflexivity. Qed.

Lemma dict_combine_noinf : forall ds acc comb, dict_combine acc ds = Some comb -> noinf acc = true ->
  (forall kvs, In (EDict kvs) ds -> noinf kvs = true) -> noinf comb = true.
Proof. induction ds as [|d ds IH]; intros acc comb H Ha Hd.
  - simpl in H. inversion H; subst. exact Ha.
  - destruct d as [| | |kvs|]; try discriminate H. cbn [dict_combine] in H.
    destruct (existsb (fun kv => pval_eqb (fst kv) PNone) kvs); [discriminate H|].
    apply (IH _ _ H); [|intros k Hk; apply Hd; right; exact Hk].
    pose proof (Hd kvs (or_introl eq_refl)) as Hk. clear H Hd IH. revert acc Ha.
    induction kvs as [|[k v] kvs IHk]; intros acc Ha; [exact Ha|]. rewrite noinf_cons in Hk. apply andb_prop in Hk as [H1 H2].
    cbn [fst snd] in H1. apply negb_true_iff in H1. apply orb_false_elim in H1 as [Hik Hiv].
    cbn [fold_left fst snd]. apply (IHk H2). apply pdict_set_noinf; assumption. Qed.

Lemma dict_printable cs rs g a e : walk_node c "dict" cs rs g a = Ok e ->
  (forall l, g = Some l -> forall x, In (Ok x) l -> exists k v, x = EDict [(k, v)] /\ is_inf k = false /\ is_inf v = false) ->
  (forall l, g = Some l -> l <> []) ->
  PR e = true.
Proof. rewrite wn_dict. destruct cs as [|x [|y cs]]; try discriminate. destruct g as [l|]; [|discriminate].
  destruct (all_ok l) as [ds|] eqn:A; [|discriminate].
  destruct (dict_combine [] ds) as [comb|] eqn:D; [|discriminate].
  destruct (negb (compatible_types (map (fun kv => type_of (fst kv)) comb))) eqn:Ek; [discriminate|].
  destruct (negb (compatible_types (map (fun kv => type_of (snd kv)) comb))) eqn:Ev; [discriminate|].
  apply negb_false_iff in Ek. apply negb_false_iff in Ev.
  intros H Hsingle Hne. inversion H; subst.
  assert (K0 : keys_ok (map fst ([] : list (pval * pval)))) by (split; [intros k []|reflexivity]).
  destruct (dict_combine_inv ds [] comb D K0) as [[Hn Hd] Hlen].
  assert (Hinf : noinf comb = true).
  { apply (dict_combine_noinf ds [] comb D eq_refl). intros kvs Hk.
    destruct (Hsingle l eq_refl (EDict kvs) (all_ok_In l ds _ A Hk)) as [k [v [E [Hik Hiv]]]]. inversion E; subst.
    rewrite noinf_cons. cbn [fst snd]. rewrite Hik, Hiv. reflexivity. }
  (* comb is not empty: the first walked child is a one-entry dict *)
  assert (Hc : comb <> []).
  { destruct l as [|r l]; [exfalso; apply (Hne _ eq_refl); reflexivity|]. cbn [all_ok] in A.
    destruct r as [x0|]; [|discriminate A]. destruct (all_ok l) as [ds'|]; [|discriminate A]. inversion A; subst.
    destruct (Hsingle _ eq_refl x0 (or_introl eq_refl)) as [k [v [-> _]]].
    cbn [dict_combine existsb fst] in D. destruct (pval_eqb k PNone || false) eqn:Ek0; [discriminate D|].
    cbn [fold_left pdict_set fst snd] in D. apply orb_false_elim in Ek0 as [Ek0 _].
    assert (K1 : keys_ok (map fst [(k, v)])).
    { split; [intros k0 [<-|[]]; exact Ek0|reflexivity]. }
    destruct (dict_combine_inv ds' _ comb D K1) as [_ Hl].
    destruct comb; [simpl in Hl; lia|discriminate]. }
  cbn [printable]. unfold noinf in Hinf. rewrite Hinf, Ek, Ev. rewrite (distinct_keys_fst comb), Hd.
  assert (Hnone : existsb (fun kv => pval_eqb (fst kv) PNone) comb = false).
  { destruct (existsb (fun kv => pval_eqb (fst kv) PNone) comb) eqn:E; [|reflexivity].
    apply existsb_exists in E as [kv [Hin Hkv]]. rewrite (Hn (fst kv)) in Hkv; [discriminate Hkv|]. apply in_map. exact Hin. }
  rewrite Hnone. destruct comb; [congruence|reflexivity]. Qed.

End Built.
