(* C03, part 3: the row-wise steps of the Polars executor model compute the Pandas-flavoured reference semantics on the
   same input: select_rows, extend (no window), concat_rows. *)
From Coq Require Import List Bool Arith ZArith QArith String Lia Permutation.
Import ListNotations.
From DA Require Import Base.PyRT Base.PyStr Base.Val Model.Sem Model.PolarsExec Proofs.SemBasicP Proofs.PolarsP1 Proofs.PolarsP2.
Local Open Scope string_scope.
Local Open Scope list_scope.

Definition good (t : table) : Prop := NoDup (cols t) /\ width_ok t.

Lemma width_row t r : width_ok t -> In r (rows t) -> List.length r = List.length (cols t).
Proof. unfold width_ok. rewrite Forall_forall. auto. Qed.

Lemma tag_from_map (G : nat * list val -> list val) n l :
  tag_from n (map G (tag_from n l)) = map (fun ir => (fst ir, G ir)) (tag_from n l).
Proof. revert n. induction l as [|x t IH]; intros n; simpl; [reflexivity|]. rewrite IH. reflexivity. Qed.

Lemma nth_error_rows_wc t xs i r : nth_error (rows t) i = Some r ->
  nth_error (rows (pl_with_columns t xs)) i = Some (wc_row t xs (i, r)).
Proof. intros N. rewrite rows_with_columns, nth_error_map, nth_error_tag_from, N. reflexivity. Qed.

(* ------------------------------------------------------------------ select_rows *)
Lemma pl_filter_rowwise x t q :
  (forall i r, nth_error (rows t) i = Some r -> truth (plx_at (cols t) (rows t) i x) = q r) ->
  pl_filter x t = mktable (cols t) (filter q (rows t)).
Proof. intros H. unfold pl_filter. f_equal. apply filter_tag_from_rowwise. intros i r N. cbn [fst]. apply H. exact N. Qed.

Lemma select_rows_step_ok declared e t t2 :
  expr_vocab e = true -> (forall r, In r (rows t) -> nulls_ok3 (cols t) r e) ->
  pl_select_rows_step declared e t = Ok t2 -> t2 = sem_select_rows fl_pandas e t.
Proof.
  intros V G H. unfold pl_select_rows_step in H. rewrite req_temps_vocab in H by (simpl; rewrite V; reflexivity).
  cbn [with_columns_if select_if] in H. destruct (tr_expr_sound e V) as [x [T E]]. rewrite T in H. cbn [rbind] in H.
  inversion H; subst. unfold sem_select_rows. apply pl_filter_rowwise. intros i r N.
  rewrite E; rewrite (nth_error_nth _ _ [] N); [reflexivity|]. apply G. eapply nth_error_In; eassumption.
Qed.

(* a row filter only needs the TRUTH of the predicate: Polars' null (dropped) stands for Pandas' False (dropped) *)
Definition vrel (vpl vpd : val) : Prop := vpl = vpd \/ (vpl = VNull /\ vpd = VBool false).
Lemma vrel_truth a b : vrel a b -> truth a = truth b.
Proof. intros [->|[-> ->]]; reflexivity. Qed.
Lemma vrel_and a a' b b' : vrel a a' -> vrel b b' -> vrel (and3 a b) (VBool (truth a' && truth b')).
Proof.
  intros Ra Rb. rewrite <- (vrel_truth _ _ Ra), <- (vrel_truth _ _ Rb). unfold vrel, and3.
  destruct a as [|[]| | |], b as [|[]| | |]; cbn [is_null negb truth andb orb]; auto;
    repeat match goal with |- context [Qeq_bool ?x ?y] => destruct (Qeq_bool x y) | |- context [Z.eqb ?x ?y] => destruct (Z.eqb x y) end;
    cbn [negb andb orb]; auto.
Qed.
Lemma vrel_or a a' b b' : vrel a a' -> vrel b b' -> vrel (or3 a b) (VBool (truth a' || truth b')).
Proof.
  intros Ra Rb. rewrite <- (vrel_truth _ _ Ra), <- (vrel_truth _ _ Rb). unfold vrel, or3.
  destruct a as [|[]| | |], b as [|[]| | |]; cbn [is_null negb truth andb orb]; auto;
    repeat match goal with |- context [Qeq_bool ?x ?y] => destruct (Qeq_bool x y) | |- context [Z.eqb ?x ?y] => destruct (Z.eqb x y) end;
    cbn [negb andb orb]; auto.
Qed.
Lemma vrel_cmp c a b : c <> CNe -> vrel (pl_cmp c a b) (compare_vals fl_pandas c a b).
Proof.
  intros N. destruct a, b; cbn [pl_cmp compare_vals f_cmp3 fl_pandas]; try (left; reflexivity); right; split; try reflexivity;
    destruct c; try reflexivity; congruence.
Qed.

Definition filter_ok3 (cs : list string) (r : list val) (e : expr) : Prop :=
  filter_nulls_ok is_cmp_op cs r e = true /\ filter_nulls_ok is_logic_op cs r e = true.
Definition filter_agrees (e : expr) : Prop :=
  exists x, (forall one ext, tr_expr one ext e = Ok x) /\
            forall cs rs i, filter_ok3 cs (nth i rs []) e -> vrel (plx_at cs rs i x) (eval_expr fl_pandas cs (nth i rs []) e).

Lemma filter_agrees_plain e : expr_vocab e = true ->
  exists x, (forall one ext, tr_expr one ext e = Ok x) /\
            forall cs rs i, nulls_ok3 cs (nth i rs []) e -> vrel (plx_at cs rs i x) (eval_expr fl_pandas cs (nth i rs []) e).
Proof. intros V. destruct (tr_expr_sound e V) as [x [T E]]. exists x. split; [exact T|]. intros cs rs i G. left. apply E. exact G. Qed.

Lemma tr_filter_sound e : expr_vocab e = true -> filter_agrees e.
Proof.
  induction e as [c|v|op args IH] using expr_ind2; intros V.
  - destruct (filter_agrees_plain (ECol c) V) as [x [T E]]. exists x. split; [exact T|]. intros cs rs i G. apply E. exact G.
  - destruct (filter_agrees_plain (EConst v) V) as [x [T E]]. exists x. split; [exact T|]. intros cs rs i G. apply E. exact G.
  - assert (forall cs r, (match args with [a; b] => False | _ => True end) -> filter_ok3 cs r (EOp op args) -> nulls_ok3 cs r (EOp op args)) as Plain.
    { intros cs r Sh G. destruct args as [|a [|b [|c rest]]]; try exact G. destruct Sh. }
    destruct args as [|a [|b [|c rest]]].
    1,2,4: (destruct (filter_agrees_plain _ V) as [x [T E]]; exists x; split; [exact T|]; intros cs rs i G; apply E; apply Plain; [exact I|exact G]).
    pose proof V as V0. rewrite expr_vocab_op in V. apply andb_true_iff in V. destruct V as [V1 V2]. cbn [forallb] in V2.
    apply andb_true_iff in V2. destruct V2 as [Va V2]. apply andb_true_iff in V2. destruct V2 as [Vb _].
    apply Forall_cons_iff in IH. destruct IH as [IHa IH]. apply Forall_cons_iff in IH. destruct IH as [IHb _].
    destruct (is_logic_op op) eqn:Lg.
    + (* and / or *)
      destruct (IHa Va) as [xa [Ta Ea]], (IHb Vb) as [xb [Tb Eb]].
      unfold is_logic_op in Lg. split_mem Lg; try discriminate.
      * exists (PAnd xa xb). split; [intros one ext; rewrite tr_expr_op; cbn [tr_list]; rewrite Ta, Tb; reflexivity|].
        intros cs rs i [G1 G2]. cbn [filter_nulls_ok is_logic_op mem] in G1, G2.
        destruct (eq_dec "and" "and"); [|congruence].
        apply andb_true_iff in G1, G2. destruct G1 as [G1a G1b], G2 as [G2a G2b].
        rewrite eval_expr_op. cbn [map plx_at scalar_op f_logic3 fl_pandas].
        apply vrel_and; [apply Ea|apply Eb]; repeat split; assumption.
      * exists (POr xa xb). split; [intros one ext; rewrite tr_expr_op; cbn [tr_list]; rewrite Ta, Tb; reflexivity|].
        intros cs rs i [G1 G2]. cbn [filter_nulls_ok is_logic_op mem] in G1, G2.
        destruct (eq_dec "or" "and"); [discriminate|]. destruct (eq_dec "or" "or"); [|congruence].
        apply andb_true_iff in G1, G2. destruct G1 as [G1a G1b], G2 as [G2a G2b].
        rewrite eval_expr_op. cbn [map plx_at scalar_op f_logic3 fl_pandas].
        apply vrel_or; [apply Ea|apply Eb]; repeat split; assumption.
    + destruct (is_cmp_op op && negb (eqb op "!=")) eqn:Cm.
      * (* a comparison other than != *)
        destruct (tr_expr_sound a Va) as [xa [Ta Ea]], (tr_expr_sound b Vb) as [xb [Tb Eb]].
        apply andb_true_iff in Cm. destruct Cm as [Cm Ne]. unfold is_cmp_op in Cm. split_mem Cm; try discriminate; try (cbn in Ne; discriminate).
        all: eexists; split; [intros one ext; rewrite tr_expr_op; cbn [tr_list]; rewrite Ta, Tb; cbn; reflexivity|];
          intros cs rs i [G1 G2]; cbn in G1, G2;
          apply andb_true_iff in G1, G2; destruct G1 as [G1a G1b], G2 as [G2a G2b];
          rewrite eval_expr_op; cbn [map plx_at scalar_op];
          rewrite (Ea cs rs i), (Eb cs rs i) by (repeat split; assumption);
          apply vrel_cmp; discriminate.
      * destruct (filter_agrees_plain _ V0) as [x [T E]]. exists x. split; [exact T|]. intros cs rs i [G1 G2]. apply E.
        cbn [filter_nulls_ok] in G1, G2. rewrite Lg, Cm in G1, G2. repeat split; assumption.
Qed.

Lemma select_rows_step_filter declared e t t2 :
  expr_vocab e = true -> (forall r, In r (rows t) -> filter_ok3 (cols t) r e) ->
  pl_select_rows_step declared e t = Ok t2 -> t2 = sem_select_rows fl_pandas e t.
Proof.
  intros V G H. unfold pl_select_rows_step in H. rewrite req_temps_vocab in H by (simpl; rewrite V; reflexivity).
  cbn [with_columns_if select_if] in H. destruct (tr_filter_sound e V) as [x [T E]]. rewrite T in H. cbn [rbind] in H.
  inversion H; subst. unfold sem_select_rows. apply pl_filter_rowwise. intros i r N.
  apply vrel_truth. rewrite <- (nth_error_nth _ _ [] N). apply E. rewrite (nth_error_nth _ _ [] N). apply G. eapply nth_error_In; eassumption.
Qed.

(* ------------------------------------------------------------------ extend without a window *)
Definition tr_ok (e : expr) : plx := match tr_expr one_base true e with Ok x => x | _ => PLit VNull end.

Lemma fold_extend_false one pb ops temps acc names : forallb expr_vocab (map snd ops) = true ->
  fold_left (extend_fold_step one false pb) ops (Ok (temps, acc, names)) =
  Ok (temps, acc ++ map (fun ke => (fst ke, CPlain (tr_ok (snd ke)))) ops, names).
Proof.
  revert acc. induction ops as [|ke t IH]; intros acc V; [simpl; rewrite app_nil_r; reflexivity|].
  cbn [map forallb] in V. apply andb_true_iff in V. destruct V as [V1 V2].
  destruct (tr_expr_sound (snd ke) V1) as [x [T E]].
  assert (extend_fold_step one false pb (Ok (temps, acc, names)) ke = Ok (temps, acc ++ [(fst ke, CPlain x)], names)) as S1.
  { unfold extend_fold_step. cbn [rbind]. rewrite T. reflexivity. }
  cbn [fold_left map]. rewrite S1, IH by exact V2.
  rewrite <- app_assoc. cbn [app]. unfold tr_ok at 2. rewrite T. reflexivity.
Qed.

Lemma ext_cols_fresh cs c : ~ In c cs -> ext_cols cs [c] = cs ++ [c].
Proof. intros N. unfold ext_cols. simpl. unfold add_end. apply mem_false in N. rewrite N. reflexivity. Qed.

Lemma extend_step_ok declared ops w t t2 :
  good t -> w_part w = [] -> w_order w = [] -> declared = ext_cols (cols t) (map fst ops) ->
  forallb expr_vocab (map snd ops) = true ->
  (forall c, In c (flat_map (fun ke => expr_cols (snd ke)) ops) -> In c (cols t)) ->
  (forall r e, In r (rows t) -> In e (map snd ops) -> nulls_ok3 (cols t) r e) ->
  pl_extend_step declared ops false w t = Ok t2 -> t2 = sem_extend fl_pandas ops t.
Proof.
  intros [ND W] Wp Wo -> V NR G H. unfold pl_extend_step in H. rewrite Wp, Wo in H.
  rewrite (req_temps_vocab _ _ _ V) in H. rewrite app_nil_r in H. rewrite fold_extend_false in H by exact V.
  cbn [rbind app with_columns_if select_if] in H.
  set (P := fresh extend_part_base (ext_cols (cols t) (map fst ops))) in *.
  set (temps := [(P, CPlain (lit_int 1))]) in *.
  set (produced := map (fun ke => (fst ke, CPlain (tr_ok (snd ke)))) ops) in *.
  set (r1 := pl_with_columns t temps) in *.
  apply pl_select_ok in H. destruct H as [-> _].
  assert (forall c, In c (ext_cols (cols t) (map fst ops)) -> c <> P) as NP.
  { intros c Ic E0. subst c. exact (fresh_not_in _ _ Ic). }
  assert (cols r1 = ext_cols (cols t) [P]) as C1 by reflexivity.
  assert (map fst produced = map fst ops) as MF.
  { unfold produced. rewrite map_map. reflexivity. }
  (* a cell of a row of r1 *)
  assert (forall i r c, List.length r = List.length (cols t) -> c <> P ->
            get (cols r1) (wc_row t temps (i, r)) c = get (cols t) r c) as G1.
  { intros i r c L Nc. rewrite C1. change [P] with (map fst temps). rewrite wc_row_get by exact L.
    unfold temps. cbn [last_for fst]. destruct (eq_dec c P); [congruence|reflexivity]. }
  unfold sem_select_cols, sem_extend. f_equal.
  assert (rows r1 = map (wc_row t temps) (tag_from 0 (rows t))) as R1 by reflexivity.
  rewrite (rows_with_columns r1 produced), R1, tag_from_map, !map_map.
  apply map_tag_from_rowwise. intros i r N. cbn [fst].
  assert (In r (rows t)) as Ir by (eapply nth_error_In; eassumption).
  pose proof (width_row _ _ W Ir) as L.
  set (row1 := wc_row t temps (i, r)).
  assert (List.length row1 = List.length (cols r1)) as L1 by (apply (wc_row_len t temps i r L)).
  assert (nth_error (rows r1) i = Some row1) as N1 by (apply nth_error_rows_wc; exact N).
  assert (NoDup (ext_cols (cols t) (map fst ops))) as NDd by (apply NoDup_ext_cols; exact ND).
  apply row_ext with (cs := ext_cols (cols t) (map fst ops)); [exact NDd|apply map_length|apply extend_row_width; exact L|].
  intros c Ic. rewrite (get_map_get _ (get (cols (pl_with_columns r1 produced)) (wc_row r1 produced (i, row1)))) by assumption.
  rewrite cols_with_columns, wc_row_get by exact L1.
  unfold extend_row. rewrite (fold_cells_get_full (fun ke => eval_expr fl_pandas (cols t) r (snd ke))) by exact L.
  unfold produced at 1. rewrite (last_for_map (fun ke => (fst ke, CPlain (tr_ok (snd ke))))) by reflexivity.
  destruct (last_for c ops) as [ke|] eqn:Lf; cbn [option_map snd].
  - destruct (last_for_Some _ _ _ Lf) as [_ Ike].
    assert (In (snd ke) (map snd ops)) as Ie by (apply in_map; exact Ike).
    assert (expr_vocab (snd ke) = true) as Vk by (rewrite forallb_forall in V; auto).
    destruct (tr_expr_sound (snd ke) Vk) as [x [T E]]. unfold tr_ok. rewrite T. cbn [col_at].
    assert (forall c0, In c0 (expr_cols (snd ke)) -> get (cols t) r c0 = get (cols r1) row1 c0) as CE.
    { intros c0 I0. symmetry. apply G1; [exact L|]. apply NP. apply In_ext_cols. left. apply NR.
      apply in_flat_map. exists ke. auto. }
    rewrite E; rewrite (nth_error_nth _ _ [] N1).
    + symmetry. apply eval_expr_cols_ext. exact CE.
    + eapply nulls_ok3_cols_ext; [exact CE|]. apply G; assumption.
  - apply G1; [exact L|]. apply NP. exact Ic.
Qed.

(* ------------------------------------------------------------------ concat_rows *)
Lemma wc_row_new_lit t c v i r : ~ In c (cols t) -> wc_row t [(c, CPlain (PLit v))] (i, r) = r ++ [v].
Proof.
  intros N. unfold wc_row. cbn [fold_left fst snd col_at plx_at]. unfold set_cell.
  apply mem_false in N. apply index_of_None in N. rewrite N. reflexivity.
Qed.

Lemma with_columns_new_lit t c v : ~ In c (cols t) ->
  pl_with_columns t [(c, CPlain (PLit v))] = mktable (cols t ++ [c]) (map (fun r => r ++ [v]) (rows t)).
Proof.
  intros N. unfold pl_with_columns. f_equal.
  - change (ext_cols (cols t) [c] = cols t ++ [c]). apply ext_cols_fresh. exact N.
  - apply map_tag_from_rowwise. intros i r _. apply (wc_row_new_lit t c v i r N).
Qed.

Lemma concat_step_ok ca idc an bn a b t2 :
  good a -> cols a = ca ->
  pl_concat_step ca idc an bn a b = Ok t2 -> t2 = sem_concat idc an bn a b.
Proof.
  intros [Na Wa] Ca H. subst ca. unfold pl_concat_step in H.
  destruct (match idc with Some c => mem c (cols a) | None => false end) eqn:Ei; [discriminate|].
  apply rbind_ok in H. destruct H as [a1 [Ha H]]. apply rbind_ok in H. destruct H as [b1 [Hb H]].
  apply pl_select_ok in Ha, Hb. destruct Ha as [-> _], Hb as [-> _].
  rewrite (select_self a Na Wa) in H. inversion H; subst. clear H.
  unfold sem_concat. destruct idc as [c|].
  - apply mem_false in Ei. rewrite (with_columns_new_lit a c _ Ei).
    rewrite with_columns_new_lit by exact Ei. reflexivity.
  - reflexivity.
Qed.
