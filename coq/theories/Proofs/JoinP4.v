(* C16, part 4: SQLite's FULL join emulation (_emit_full_join_as_complex):
        key table = distinct keys of both sides (GROUP BY: a NULL key value is a group), LEFT JOIN left, LEFT JOIN right.
   Per key k with m rows on the left and n on the right the two LEFT joins give m*n, m (n = 0) or n (m = 0) rows: exactly the
   FULL join -- PROVIDED no key contains a NULL.  A NULL key is a group of the key table but matches nothing in either LEFT
   join, so all the rows carrying it collapse into one all-NULL row (refuted below, with the witness). *)
From Coq Require Import List Bool Arith ZArith QArith String Lia Permutation.
Import ListNotations.
From DA Require Import Base.PyRT Base.Val Model.Sem Model.JoinSpec Model.JoinEmul Proofs.SemBasicP Proofs.JoinP1 Proofs.JoinP2 Proofs.JoinP3.
Local Open Scope list_scope.

(* ---------- list plumbing *)
Lemma perm_flat_map_l {A B} (f : A -> list B) l l' : Permutation l l' -> Permutation (flat_map f l) (flat_map f l').
Proof.
  induction 1 as [|x l l' P IH|x y l|l l' l'' P1 IH1 P2 IH2]; simpl.
  - constructor.
  - apply Permutation_app_head, IH.
  - rewrite !app_assoc. apply Permutation_app_tail, Permutation_app_comm.
  - eapply perm_trans; eassumption.
Qed.
Lemma perm_filter_l {A} (f : A -> bool) l l' : Permutation l l' -> Permutation (filter f l) (filter f l').
Proof.
  induction 1 as [|x l l' P IH|x y l|l l' l'' P1 IH1 P2 IH2]; simpl.
  - constructor.
  - destruct (f x); [constructor|]; exact IH.
  - destruct (f x), (f y); try apply Permutation_refl. apply perm_swap.
  - eapply perm_trans; eassumption.
Qed.
Lemma flat_map_flat_map {A B C} (f : A -> list B) (g : B -> list C) l :
  flat_map g (flat_map f l) = flat_map (fun x => flat_map g (f x)) l.
Proof. induction l as [|x t IH]; simpl; [reflexivity|]. rewrite flat_map_app, IH. reflexivity. Qed.
Lemma flat_map_map_in {A B C} (f : A -> B) (g : B -> list C) l : flat_map g (map f l) = flat_map (fun x => g (f x)) l.
Proof. induction l as [|x t IH]; simpl; [reflexivity|]. rewrite IH. reflexivity. Qed.
Lemma filter_flat_map {A B} (p : B -> bool) (f : A -> list B) l : filter p (flat_map f l) = flat_map (fun x => filter p (f x)) l.
Proof. induction l as [|x t IH]; simpl; [reflexivity|]. rewrite filter_app, IH. reflexivity. Qed.
Lemma filter_split_perm {A} (p : A -> bool) l : Permutation l (filter p l ++ filter (fun x => negb (p x)) l).
Proof.
  induction l as [|x t IH]; simpl; [constructor|]. destruct (p x); simpl.
  - constructor. exact IH.
  - eapply perm_trans; [apply perm_skip, IH|]. apply Permutation_middle.
Qed.
Lemma filter_filter_sub {A} (p q : A -> bool) l : (forall x, In x l -> p x = true -> q x = true) -> filter p (filter q l) = filter p l.
Proof.
  intros H. induction l as [|x t IH]; simpl; [reflexivity|].
  assert (filter p (filter q t) = filter p t) as E by (apply IH; intros y I; apply H; right; exact I).
  destruct (q x) eqn:Q; simpl; [rewrite E; reflexivity|].
  destruct (p x) eqn:P; [|exact E]. rewrite (H x (or_introl eq_refl) P) in Q. discriminate.
Qed.
Lemma filter_all_true {A} (p : A -> bool) l : (forall x, In x l -> p x = true) -> filter p l = l.
Proof. intros H. induction l as [|x t IH]; simpl; [reflexivity|]. rewrite (H x (or_introl eq_refl)), IH; [reflexivity|]. intros y I. apply H. right. exact I. Qed.
Lemma filter_none {A} (p : A -> bool) l : (forall x, In x l -> p x = false) -> filter p l = [].
Proof. intros H. induction l as [|x t IH]; simpl; [reflexivity|]. rewrite (H x (or_introl eq_refl)). apply IH. intros y I. apply H. right. exact I. Qed.

(* ---------- a list splits into the classes of a complete family of pairwise inequivalent keys *)
Lemma partition_by_classes {A} (key : A -> list val) K : forall l,
  ForallOrdPairs (fun x y => keys_eqv x y = false) K ->
  (forall r, In r l -> exists k, In k K /\ keys_eqv k (key r) = true) ->
  Permutation l (flat_map (fun k => filter (fun r => keys_eqv k (key r)) l) K).
Proof.
  induction K as [|k0 K' IH]; intros l P C.
  - destruct l as [|r t]; [constructor|]. destruct (C r (or_introl eq_refl)) as [k [[] _]].
  - inversion P as [|? ? F P']. subst. cbn [flat_map].
    eapply perm_trans; [apply (filter_split_perm (fun r => keys_eqv k0 (key r)))|]. apply Permutation_app_head.
    eapply perm_trans; [apply (IH _ P')|].
    + intros r I. apply filter_In in I. destruct I as [I N]. apply negb_true_iff in N.
      destruct (C r I) as [k [[<-|Ik] E]]; [congruence|]. exists k. split; assumption.
    + rewrite (flat_map_ext_in _ (fun k => filter (fun r => keys_eqv k (key r)) l)); [apply Permutation_refl|].
      intros k Ik. apply filter_filter_sub. intros r _ E. apply negb_true_iff.
      destruct (keys_eqv k0 (key r)) eqn:E0; [|reflexivity]. exfalso.
      rewrite Forall_forall in F. specialize (F k Ik).
      rewrite (keys_eqv_trans k0 (key r) k E0) in F; [discriminate|]. rewrite keys_eqv_sym. exact E.
Qed.

(* ---------- optional partners: the rows a preserved row is joined with, or the NULL extension when there is none *)
Definition opts {A} (l : list A) : list (option A) := match l with [] => [None] | _ => map Some l end.
Lemma In_opts {A} (l : list A) o : In o (opts l) -> (forall x, o = Some x -> In x l) /\ (o = None -> l = []).
Proof.
  destruct l as [|y t]; cbn [opts].
  - intros [<-|[]]. split; [discriminate|reflexivity].
  - intros I. apply in_map_iff in I. destruct I as [x [<- I]]. split; [intros z E; inversion E; subst; exact I|discriminate].
Qed.
Lemma left_contribution_opts on t1 t2 r1 :
  left_contribution on t1 t2 r1 = map (fun o2 => select_row (cols t1) (cols t2) (Some r1) o2) (opts (partners_of_left on t1 t2 r1)).
Proof. unfold left_contribution. destruct (partners_of_left on t1 t2 r1) as [|p t]; [reflexivity|]. cbn [opts]. rewrite map_map. reflexivity. Qed.

(* selecting every column of a well-formed table changes nothing (OTable re-reads its declared columns) *)
Lemma reread_all cs : NoDup cs -> forall r, List.length r = List.length cs -> map (get cs r) cs = r.
Proof.
  induction 1 as [|c cs N ND IH]; intros [|x r] L; simpl in L; try discriminate; [reflexivity|].
  cbn [map]. f_equal.
  - unfold get. cbn [index_of]. destruct (eq_dec c c); [reflexivity|congruence].
  - rewrite <- (IH r (eq_add_S _ _ L)) at 2. apply map_ext_in. intros c' I. unfold get. cbn [index_of].
    destruct (eq_dec c' c) as [->|n]; [contradiction|]. destruct (index_of c' cs); reflexivity.
Qed.
Lemma select_all_cols_id t : wf_table t -> sem_select_cols (cols t) t = t.
Proof.
  intros [N W]. destruct t as [cs rs]. unfold sem_select_cols. cbn [cols rows] in *. f_equal.
  rewrite <- (map_id rs) at 2. apply map_ext_in. intros r I. rewrite Forall_forall in W. apply reread_all; [exact N|apply W, I].
Qed.

Section FullEmul.
  Variables (J : list string) (a b : table).
  Let ca := cols a.
  Let cb := cols b.
  Let keyA := key_of ca J.
  Let keyB := key_of cb J.
  Let allkeys := map keyA (rows a) ++ map keyB (rows b).
  Hypothesis HJ : J <> [].
  Hypothesis HJa : incl J ca.
  Hypothesis HJb : incl J cb.
  (* no key contains a NULL *)
  Hypothesis Hnn : forall k, In k allkeys -> existsb is_null k = false.
  (* key values are in canonical form: two keys that compare equal ARE equal (one type per key column, numbers reduced) *)
  Hypothesis Hcanon : forall k1 k2, In k1 allkeys -> In k2 allkeys -> keys_eqv k1 k2 = true -> k1 = k2.

  Let on := combine J J.
  Let c1 := out_cols J ca.
  Let c2 := out_cols c1 cb.
  Let out := out_cols ca cb.

  Lemma key_reread cs r : map (get J (key_of cs J r)) J = key_of cs J r.
  Proof. unfold key_of. apply map_ext_in. intros c I. apply get_map_self. exact I. Qed.
  Lemma get_key cs r c : In c J -> get J (key_of cs J r) c = get cs r c.
  Proof. intros I. unfold key_of. apply get_map_self. exact I. Qed.
  Lemma allkeys_shape k : In k allkeys -> exists cs r, k = key_of cs J r.
  Proof.
    unfold allkeys. rewrite in_app_iff, !in_map_iff. intros [[r [<- _]]|[r [<- _]]]; [exists ca, r|exists cb, r]; reflexivity.
  Qed.
  Lemma allkeys_reread k : In k allkeys -> key_of J J k = k.
  Proof. intros I. destruct (allkeys_shape k I) as [cs [r ->]]. apply key_reread. Qed.
  Lemma allkeys_cell_nonnull k c : In k allkeys -> In c J -> is_null (get J k c) = false.
  Proof.
    intros I Ic. pose proof (Hnn k I) as N. destruct (allkeys_shape k I) as [cs [r ->]].
    rewrite get_key by exact Ic. unfold key_of in N.
    destruct (is_null (get cs r c)) eqn:E; [|reflexivity].
    assert (existsb is_null (map (get cs r) J) = true) as X by (apply existsb_exists; exists (get cs r c); split; [apply in_map, Ic|exact E]).
    congruence.
  Qed.

  (* ----- the key table *)
  Lemma project_keys fl t : sem_project fl [] J t = mktable J (distinct_keys (map (key_of (cols t) J) (rows t))).
  Proof.
    unfold sem_project. destruct J as [|j J'] eqn:EJ; [congruence|]. cbn [map]. rewrite app_nil_r. f_equal.
    rewrite <- (map_id (distinct_keys _)) at 2. apply map_ext. intros k. apply app_nil_r.
  Qed.

  Definition Krows := distinct_keys (distinct_keys (map keyA (rows a)) ++ distinct_keys (map keyB (rows b))).

  Lemma dk_app_sound k : In k (distinct_keys (map keyA (rows a)) ++ distinct_keys (map keyB (rows b))) -> In k allkeys.
  Proof. unfold allkeys. rewrite !in_app_iff. intros [H|H]; [left|right]; apply distinct_keys_sound, H. Qed.
  Lemma Krows_sound k : In k Krows -> In k allkeys.
  Proof. intros I. apply dk_app_sound. apply distinct_keys_sound. exact I. Qed.
  Lemma Krows_cover k0 : In k0 allkeys -> In k0 Krows.
  Proof.
    intros I.
    assert (exists k1, In k1 (distinct_keys (map keyA (rows a)) ++ distinct_keys (map keyB (rows b))) /\ keys_eqv k1 k0 = true) as [k1 [I1 E1]].
    { unfold allkeys in I. apply in_app_iff in I. destruct I as [I|I]; destruct (distinct_keys_complete _ _ I) as [k1 [I1 E1]];
        exists k1; (split; [apply in_app_iff; auto|exact E1]). }
    destruct (distinct_keys_complete _ _ I1) as [k2 [I2 E2]].
    assert (k2 = k0) as <-; [|exact I2].
    apply Hcanon; [apply Krows_sound, I2|exact I|]. eapply keys_eqv_trans; eassumption.
  Qed.
  Lemma Krows_pairwise : ForallOrdPairs (fun x y => keys_eqv x y = false) Krows.
  Proof. apply distinct_keys_pairwise. Qed.

  Lemma key_table_eq : key_table J a b = mktable J Krows.
  Proof.
    unfold key_table. rewrite (project_keys fl_sqlite a), (project_keys fl_sqlite b). unfold sem_concat. cbn [cols rows].
    rewrite project_keys. cbn [cols rows]. f_equal. unfold Krows. f_equal.
    fold ca cb. fold keyA keyB.
    assert (map (fun r => map (get J r) J) (distinct_keys (map keyB (rows b))) = distinct_keys (map keyB (rows b))) as E.
    { rewrite <- (map_id (distinct_keys _)) at 2. apply map_ext_in. intros k I.
      apply distinct_keys_sound in I. apply in_map_iff in I. destruct I as [r [<- _]]. apply key_reread. }
    rewrite E. rewrite <- (map_id (_ ++ _)) at 2. apply map_ext_in. intros k I. apply allkeys_reread, dk_app_sound, I.
  Qed.

  (* ----- classes *)
  Definition Acls (k : list val) := filter (fun ra => keys_eqv k (keyA ra)) (rows a).
  Definition Bcls (k : list val) := filter (fun rb => keys_eqv k (keyB rb)) (rows b).

  Lemma Acls_key k ra : In k Krows -> In ra (Acls k) -> In ra (rows a) /\ keyA ra = k.
  Proof.
    intros Ik I. apply filter_In in I. destruct I as [I E]. split; [exact I|]. symmetry.
    apply Hcanon; [apply Krows_sound, Ik| |exact E]. unfold allkeys. apply in_app_iff. left. apply in_map, I.
  Qed.
  Lemma Bcls_key k rb : In k Krows -> In rb (Bcls k) -> In rb (rows b) /\ keyB rb = k.
  Proof.
    intros Ik I. apply filter_In in I. destruct I as [I E]. split; [exact I|]. symmetry.
    apply Hcanon; [apply Krows_sound, Ik| |exact E]. unfold allkeys. apply in_app_iff. right. apply in_map, I.
  Qed.
  Lemma class_nonempty k : In k Krows -> Acls k <> [] \/ Bcls k <> [].
  Proof.
    intros Ik. pose proof (Krows_sound k Ik) as I. unfold allkeys in I. apply in_app_iff in I.
    destruct I as [I|I]; apply in_map_iff in I; destruct I as [r [E I]]; [left|right]; intros N.
    - assert (In r (Acls k)) as X by (apply filter_In; split; [exact I|rewrite E; apply keys_eqv_refl]). rewrite N in X. exact X.
    - assert (In r (Bcls k)) as X by (apply filter_In; split; [exact I|rewrite E; apply keys_eqv_refl]). rewrite N in X. exact X.
  Qed.

  Lemma on_holds_nonnull cs1 cs2 r1 r2 : existsb is_null (key_of cs1 J r1) = false ->
    on_holds cs1 cs2 on r1 r2 = keys_eqv (key_of cs1 J r1) (key_of cs2 J r2).
  Proof. intros N. unfold on. rewrite on_holds_keys_match by reflexivity. unfold keys_match. rewrite N. reflexivity. Qed.

  Lemma rowsA_perm : Permutation (rows a) (flat_map Acls Krows).
  Proof.
    apply (partition_by_classes keyA Krows (rows a) Krows_pairwise). intros r I. exists (keyA r). split; [|apply keys_eqv_refl].
    apply Krows_cover. unfold allkeys. apply in_app_iff. left. apply in_map, I.
  Qed.
  Lemma rowsB_perm : Permutation (rows b) (flat_map Bcls Krows).
  Proof.
    apply (partition_by_classes keyB Krows (rows b) Krows_pairwise). intros r I. exists (keyB r). split; [|apply keys_eqv_refl].
    apply Krows_cover. unfold allkeys. apply in_app_iff. right. apply in_map, I.
  Qed.

  (* ----- what the FULL join is, class by class *)
  Definition Gcls (k : list val) : list (list val) :=
    flat_map (fun o1 => map (fun o2 => select_row ca cb o1 o2) (opts (Bcls k))) (opts (Acls k)).

  Lemma partnersA ra k : In k Krows -> In ra (Acls k) -> partners_of_left on a b ra = Bcls k.
  Proof.
    intros Ik I. destruct (Acls_key k ra Ik I) as [Ia E]. unfold partners_of_left, Bcls. apply filter_ext_in_b. intros rb _.
    fold ca cb. rewrite on_holds_nonnull; [fold (keyA ra); rewrite E; reflexivity|].
    apply Hnn. unfold allkeys. apply in_app_iff. left. apply (in_map keyA), Ia.
  Qed.

  Lemma spec_by_class : Permutation (sql_join_rows SFull on a b) (flat_map Gcls Krows).
  Proof.
    eapply perm_trans; [apply full_join_by_left_row|].
    (* left part *)
    assert (Permutation (flat_map (left_contribution on a b) (rows a))
              (flat_map (fun k => flat_map (fun ra => map (fun o2 => select_row ca cb (Some ra) o2) (opts (Bcls k))) (Acls k)) Krows)) as P1.
    { eapply perm_trans; [apply perm_flat_map_l, rowsA_perm|]. rewrite flat_map_flat_map.
      rewrite (flat_map_ext_in _ (fun k => flat_map (fun ra => map (fun o2 => select_row ca cb (Some ra) o2) (opts (Bcls k))) (Acls k)));
        [apply Permutation_refl|].
      intros k Ik. apply flat_map_ext_in. intros ra I. rewrite left_contribution_opts, (partnersA ra k Ik I). reflexivity. }
    (* right-only part *)
    assert (Permutation (unmatched_right on a b) (flat_map (fun k => match Acls k with [] => Bcls k | _ => [] end) Krows)) as P2.
    { unfold unmatched_right. eapply perm_trans; [apply perm_filter_l, rowsB_perm|]. rewrite filter_flat_map.
      rewrite (flat_map_ext_in _ (fun k => match Acls k with [] => Bcls k | _ => [] end)); [apply Permutation_refl|].
      intros k Ik.
      assert (forall rb, In rb (Bcls k) ->
                existsb (fun r1 => on_holds (cols a) (cols b) on r1 rb) (rows a) = match Acls k with [] => false | _ => true end) as X.
      { intros rb Ib. destruct (Bcls_key k rb Ik Ib) as [Ib' Eb]. fold ca cb.
        destruct (Acls k) as [|ra0 t] eqn:EA.
        - destruct (existsb _ _) eqn:Y; [|reflexivity]. exfalso. apply existsb_exists in Y. destruct Y as [ra [Ia H]].
          rewrite on_holds_nonnull in H by (apply Hnn; unfold allkeys; apply in_app_iff; left; apply (in_map keyA), Ia).
          fold (keyA ra) (keyB rb) in H. rewrite Eb, keys_eqv_sym in H.
          assert (In ra (Acls k)) as Z by (apply filter_In; split; assumption). rewrite EA in Z. exact Z.
        - apply existsb_exists. assert (In ra0 (Acls k)) as Z by (rewrite EA; left; reflexivity).
          destruct (Acls_key k ra0 Ik Z) as [Ia Ea]. exists ra0. split; [exact Ia|].
          rewrite on_holds_nonnull by (apply Hnn; unfold allkeys; apply in_app_iff; left; apply (in_map keyA), Ia).
          fold (keyA ra0) (keyB rb). rewrite Ea, Eb. apply keys_eqv_refl. }
      destruct (Acls k) as [|ra0 t].
      - apply filter_all_true. intros rb Ib. rewrite (X rb Ib). reflexivity.
      - apply filter_none. intros rb Ib. rewrite (X rb Ib). reflexivity. }
    eapply perm_trans; [apply Permutation_app; [exact P1|apply Permutation_map, P2]|].
    rewrite map_flat_map_comm.
    eapply perm_trans; [apply flat_map_app_perm|].
    rewrite (flat_map_ext_in _ Gcls); [apply Permutation_refl|].
    intros k Ik. unfold Gcls. destruct (class_nonempty k Ik) as [NE|NE].
    - destruct (Acls k) as [|ra0 t]; [congruence|]. cbn [opts]. rewrite flat_map_map_in, app_nil_r. reflexivity.
    - destruct (Acls k) as [|ra0 t].
      + cbn [opts flat_map app]. rewrite app_nil_r. destruct (Bcls k) as [|rb0 u]; [congruence|]. cbn [opts]. rewrite map_map. reflexivity.
      + cbn [opts]. rewrite flat_map_map_in, app_nil_r. reflexivity.
  Qed.

  (* ----- what the emulation computes, class by class *)
  Definition S1 (k : list val) (o1 : option (list val)) : list val := select_row J ca (Some k) o1.
  Definition C1 (k : list val) : list (list val) := map (S1 k) (opts (Acls k)).

  Lemma Ktab_partners k : In k Krows -> partners_of_left on (mktable J Krows) a k = Acls k.
  Proof.
    intros Ik. unfold partners_of_left, Acls. cbn [cols rows]. apply filter_ext_in_b. intros ra _. fold ca.
    rewrite on_holds_nonnull; rewrite (allkeys_reread k (Krows_sound k Ik)); [reflexivity|apply Hnn, Krows_sound, Ik].
  Qed.

  Lemma L1_rows : Permutation (rows (sem_join false J J JLeft (key_table J a b) a)) (flat_map C1 Krows).
  Proof.
    rewrite key_table_eq. eapply perm_trans; [apply sem_left_join_by_left_row; reflexivity|]. cbn [rows]. fold on.
    rewrite (flat_map_ext_in _ C1); [apply Permutation_refl|].
    intros k Ik. rewrite left_contribution_opts, (Ktab_partners k Ik). reflexivity.
  Qed.
  Lemma L1_cols : cols (sem_join false J J JLeft (key_table J a b) a) = c1.
  Proof. rewrite key_table_eq. reflexivity. Qed.

  Lemma S1_key k o1 : In k Krows -> key_of c1 J (S1 k o1) = k.
  Proof.
    intros Ik. pose proof (Krows_sound k Ik) as Ia. rewrite <- (allkeys_reread k Ia) at 2. unfold key_of. apply map_ext_in. intros c Ic.
    unfold S1, c1. rewrite select_row_shared by (auto; apply HJa, Ic). cbn [cell].
    rewrite (allkeys_cell_nonnull k c Ia Ic). reflexivity.
  Qed.

  Lemma L2_contribution k o1 : In k Krows ->
    left_contribution on (sem_join false J J JLeft (key_table J a b) a) b (S1 k o1)
    = map (fun o2 => select_row c1 cb (Some (S1 k o1)) o2) (opts (Bcls k)).
  Proof.
    intros Ik. rewrite left_contribution_opts, L1_cols. fold cb. f_equal. f_equal.
    unfold partners_of_left, Bcls. rewrite L1_cols. fold cb. apply filter_ext_in_b. intros rb _.
    rewrite on_holds_nonnull; rewrite (S1_key k o1 Ik); [reflexivity|apply Hnn, Krows_sound, Ik].
  Qed.

  Definition Ecls (k : list val) : list (list val) :=
    flat_map (fun o1 => map (fun o2 => select_row c1 cb (Some (S1 k o1)) o2) (opts (Bcls k))) (opts (Acls k)).

  Lemma emul_rows : Permutation (rows (sqlite_full_join J a b)) (flat_map Ecls Krows).
  Proof.
    unfold sqlite_full_join. eapply perm_trans; [apply sem_left_join_by_left_row; reflexivity|]. fold on.
    eapply perm_trans; [apply perm_flat_map_l, L1_rows|]. rewrite flat_map_flat_map.
    rewrite (flat_map_ext_in _ Ecls); [apply Permutation_refl|].
    intros k Ik. unfold C1, Ecls. rewrite flat_map_map_in. apply flat_map_ext_in. intros o1 _. apply L2_contribution, Ik.
  Qed.
  Lemma emul_cols : cols (sqlite_full_join J a b) = c2.
  Proof. unfold sqlite_full_join. rewrite sem_join_unfold. cbv zeta. cbn [cols]. rewrite L1_cols. reflexivity. Qed.

  (* ----- cell by cell, a row of the emulation re-read in the declared columns is the row of the FULL join *)
  Lemma cell_agree k o1 o2 c : In k Krows ->
    (forall ra, o1 = Some ra -> keyA ra = k) -> (forall rb, o2 = Some rb -> keyB rb = k) -> (o1 <> None \/ o2 <> None) ->
    In c out ->
    get c2 (select_row c1 cb (Some (S1 k o1)) o2) c = eval_item ca cb o1 o2 (item_of ca cb c).
  Proof.
    intros Ik H1 H2 Hne Ic. pose proof (Krows_sound k Ik) as Ia.
    unfold out in Ic. apply In_out_cols in Ic. unfold c2, item_of.
    destruct (in_dec string_dec c J) as [IJ|NJ].
    - pose proof (HJa c IJ) as Ica. pose proof (HJb c IJ) as Icb.
      assert (In c c1) as Ic1 by (apply In_out_cols; left; exact IJ).
      rewrite select_row_shared by assumption. cbn [cell]. unfold S1 at 1 2, c1.
      rewrite select_row_shared by assumption. cbn [cell]. rewrite (allkeys_cell_nonnull k c Ia IJ).
      rewrite (allkeys_cell_nonnull k c Ia IJ).
      rewrite (proj2 (mem_In c ca) Ica), (proj2 (mem_In c cb) Icb). cbn [eval_item]. rewrite sql_is_null_eq.
      destruct o1 as [ra|].
      + cbn [cell]. unfold keyA in H1. rewrite <- (get_key ca ra c IJ), (H1 ra eq_refl).
        rewrite (allkeys_cell_nonnull k c Ia IJ). reflexivity.
      + cbn [cell is_null]. destruct o2 as [rb|]; [|destruct Hne; congruence].
        cbn [cell]. unfold keyB in H2. rewrite <- (get_key cb rb c IJ), (H2 rb eq_refl). reflexivity.
    - destruct (in_dec string_dec c ca) as [Ica|Nca].
      + assert (In c c1) as Ic1 by (apply In_out_cols; right; exact Ica).
        assert (get c1 (S1 k o1) c = cell ca o1 c) as V by (unfold S1, c1; apply select_row_right_only; assumption).
        rewrite (proj2 (mem_In c ca) Ica).
        destruct (in_dec string_dec c cb) as [Icb|Ncb].
        * rewrite select_row_shared by assumption. cbn [cell]. rewrite V.
          rewrite (proj2 (mem_In c cb) Icb). cbn [eval_item]. reflexivity.
        * rewrite select_row_left_only by assumption. cbn [cell]. rewrite V.
          rewrite (proj2 (mem_false c cb) Ncb). reflexivity.
      + assert (In c cb) as Icb by tauto.
        assert (~ In c c1) as Nc1 by (intros X; apply In_out_cols in X; tauto).
        rewrite select_row_right_only by assumption. rewrite (proj2 (mem_false c ca) Nca). reflexivity.
  Qed.

  Lemma Ecls_reread k : In k Krows -> map (fun r => map (get c2 r) out) (Ecls k) = Gcls k.
  Proof.
    intros Ik. unfold Ecls, Gcls. rewrite map_flat_map_comm. apply flat_map_ext_in. intros o1 I1. rewrite map_map.
    apply map_ext_in. intros o2 I2. unfold select_row at 2. fold out. apply map_ext_in. intros c Ic.
    destruct (In_opts _ _ I1) as [A1 A2]. destruct (In_opts _ _ I2) as [B1 B2].
    apply cell_agree; [exact Ik| | | |exact Ic].
    - intros ra E. apply (Acls_key k ra Ik), A1, E.
    - intros rb E. apply (Bcls_key k rb Ik), B1, E.
    - destruct o1; [left; discriminate|]. destruct o2; [right; discriminate|]. exfalso.
      destruct (class_nonempty k Ik) as [N|N]; [apply N, A2|apply N, B2]; reflexivity.
  Qed.

  Theorem sqlite_full_join_is_full_join :
    Permutation (reorder_rows (sqlite_full_join J a b) (out_cols (cols a) (cols b))) (sql_join_rows SFull (combine J J) a b)
    /\ (forall c, In c (cols (sqlite_full_join J a b)) <-> In c (out_cols (cols a) (cols b))).
  Proof.
    split.
    - unfold reorder_rows. rewrite emul_cols. fold ca cb out on.
      eapply perm_trans; [apply Permutation_map, emul_rows|]. rewrite map_flat_map_comm.
      rewrite (flat_map_ext_in _ Gcls) by (intros k Ik; apply Ecls_reread, Ik).
      apply Permutation_sym, spec_by_class.
    - intros c. rewrite emul_cols. unfold c2, c1. fold ca cb. rewrite !In_out_cols. split; [|tauto].
      intros [[H|H]|H]; [left; apply HJa, H|left; exact H|right; exact H].
  Qed.
End FullEmul.

(* the emitted pipeline, evaluated on the two tables, is that composition *)
Local Open Scope string_scope.
Lemma sqlite_full_emul_is_the_pipeline J a b : J <> [] -> wf_table a -> wf_table b ->
  sqlite_full_emul J J a b = Some (sqlite_full_join J a b).
Proof.
  intros HJ Wa Wb. unfold sqlite_full_emul. destruct J as [|j J'] eqn:EJ; [congruence|]. rewrite <- EJ.
  unfold eqb. destruct (eq_dec J J); [|congruence].
  unfold full_emul_op. cbn [sem_gen].
  replace (dict_get [("a", a); ("b", b)] "a") with (Some a) by reflexivity.
  replace (dict_get [("a", a); ("b", b)] "b") with (Some b) by reflexivity.
  cbn [option_map f_join_null_match fl_sqlite]. rewrite (select_all_cols_id a Wa), (select_all_cols_id b Wb). reflexivity.
Qed.

Theorem sqlite_full_emul_partial J a b :
  J <> [] -> wf_table a -> wf_table b -> incl J (cols a) -> incl J (cols b) ->
  (forall k, In k (map (key_of (cols a) J) (rows a) ++ map (key_of (cols b) J) (rows b)) -> existsb is_null k = false) ->
  (forall k1 k2, In k1 (map (key_of (cols a) J) (rows a) ++ map (key_of (cols b) J) (rows b)) ->
                 In k2 (map (key_of (cols a) J) (rows a) ++ map (key_of (cols b) J) (rows b)) -> keys_eqv k1 k2 = true -> k1 = k2) ->
  exists t, sqlite_full_emul J J a b = Some t
    /\ Permutation (reorder_rows t (out_cols (cols a) (cols b))) (sql_join_rows SFull (combine J J) a b)
    /\ (forall c, In c (cols t) <-> In c (out_cols (cols a) (cols b))).
Proof.
  intros HJ Wa Wb Ha Hb Hn Hc. exists (sqlite_full_join J a b). split; [apply sqlite_full_emul_is_the_pipeline; assumption|].
  apply sqlite_full_join_is_full_join; assumption.
Qed.

(* a NULL key on both sides: the FULL join keeps both rows (NULL-extended); the emulation returns ONE row of NULLs *)
Definition full_witness_a : table := mktable ["k"; "x"] [[VNull; VNum 12]; [VNum 1; VNum 10]].
Definition full_witness_b : table := mktable ["k"; "y"] [[VNull; VNum 21]; [VNull; VNum 22]].
Lemma sqlite_full_emul_refuted :
  exists J a b t, J <> [] /\ wf_table a /\ wf_table b /\ incl J (cols a) /\ incl J (cols b) /\ sqlite_full_emul J J a b = Some t /\
    ~ Permutation (reorder_rows t (out_cols (cols a) (cols b))) (sql_join_rows SFull (combine J J) a b).
Proof.
  exists ["k"], full_witness_a, full_witness_b. eexists.
  split; [discriminate|]. split; [split; [repeat constructor; simpl; intuition discriminate|repeat constructor]|].
  split; [split; [repeat constructor; simpl; intuition discriminate|repeat constructor]|].
  split; [intros c [<-|[]]; left; reflexivity|]. split; [intros c [<-|[]]; left; reflexivity|].
  split; [vm_compute; reflexivity|].
  intros P. apply Permutation_length in P. vm_compute in P. discriminate.
Qed.
(* differently named keys, or no keys: the code asserts (AssertionError) *)
Lemma sqlite_full_emul_asserts on_a on_b a b : on_a = [] \/ on_a <> on_b -> sqlite_full_emul on_a on_b a b = None.
Proof.
  intros [->|N]; [reflexivity|]. unfold sqlite_full_emul. destruct on_a; [reflexivity|]. unfold eqb.
  destruct (eq_dec _ _); [contradiction|reflexivity].
Qed.
