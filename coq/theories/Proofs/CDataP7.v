(* C17, part 7: composition.  A map whose input side is the first map's and whose output side has the layout of the second
   map's output side is equivalent to applying the two maps one after the other. *)
From Coq Require Import List Bool Arith ZArith QArith String Ascii Lia Permutation.
Import ListNotations.
From DA Require Import Base.PyRT Base.Val Model.CData Proofs.CDataP1 Proofs.CDataP2 Proofs.CDataP3 Proofs.CDataP4 Proofs.CDataP5 Proofs.CDataP6.

Lemma is_keyed_select_ok S X : keyed_facts (rs_keys S) X -> is_keyed (rs_keys S) (select_cols (row_columns S) X) = Ok true.
Proof. intros KF.
  assert (RKrc : forall c, In c (rs_keys S) -> In c (row_columns S)) by (intros c Hc; apply In_rc; left; exact Hc).
  assert (E : forall r, cells (row_columns S) (cells (cols X) r (row_columns S)) (rs_keys S) = cells (cols X) r (rs_keys S))
    by (intros r; apply cells_cells; exact RKrc).
  apply is_keyed_ok.
  - simpl. apply subset_spec. exact RKrc.
  - simpl. intros x Hx. apply in_map_iff in Hx. destruct Hx as [r [<- Hr]]. rewrite E. apply (kf_ok _ _ KF). exact Hr.
  - simpl. rewrite map_map. rewrite (map_ext _ (fun r => cells (cols X) r (rs_keys S))) by exact E. apply (kf_nodup _ _ KF). Qed.

Lemma r2b_total S X : keyed_facts (rs_keys S) X -> exists Z, rowrecs_to_blocks S X = Ok Z.
Proof. intros KF. destruct (rows X) eqn:E.
  - eexists. apply r2b_empty. exact E.
  - eexists. apply r2b_unfold; [rewrite E; discriminate|apply is_keyed_select_ok; exact KF]. Qed.

Lemma block_columns_nodup S : spec_facts S -> NoDup (block_columns S).
Proof. intros F. unfold block_columns. apply NoDup_app_intro; [apply (sf_rk_nodup S F)|apply (sf_cc_nodup S F)|apply (sf_rk_cc S F)]. Qed.

Lemma tbl_perm_eqv Z' Z : cols Z' = cols Z -> Permutation (rows Z') (rows Z) -> NoDup (cols Z') ->
  (forall r, In r (rows Z') -> List.length r = List.length (cols Z')) -> tbl_eqv Z' Z.
Proof. intros Ec P N L. split; [rewrite Ec; reflexivity|]. simpl. rewrite <- Ec.
  rewrite (map_ext_in _ (fun r => r)); [rewrite map_id; exact P|]. intros r Hr. apply cells_self; [apply L; exact Hr|exact N]. Qed.

Lemma tbl_eqv_rows_perm_r t B B' : cols B' = cols B -> Permutation (rows B') (rows B) -> tbl_eqv t B -> tbl_eqv t B'.
Proof. intros Ec P [a b]. split; [rewrite Ec; exact a|]. rewrite Ec. etransitivity; [exact b|apply Permutation_sym; exact P]. Qed.

Lemma spec_simb_facts C C' : spec_simb C C' = true ->
  rs_keys C = rs_keys C' /\ rs_ctkeys C = rs_ctkeys C' /\ value_cols C = value_cols C' /\ Permutation (ct_layout C) (ct_layout C').
Proof. unfold spec_simb. rewrite !andb_true_iff, !eqb_true, perm_eqb_spec. tauto. Qed.

(* the rows of rowrecs_to_blocks read directly off the input table *)
Lemma r2b_rows_direct S X :
  flat_map (fun cr => map (r2b_row S cr) (rows (select_cols (row_columns S) X))) (rows (rs_ct S))
  = flat_map (fun kn => map (fun r => cells (cols X) r (rs_keys S) ++ fst kn ++ cells (cols X) r (snd kn)) (rows X)) (ct_layout S).
Proof. unfold ct_layout. rewrite flat_map_map. apply flat_map_ext_in. intros cr Hcr. cbn [fst snd rows select_cols]. rewrite map_map.
  apply map_ext. intros r. unfold r2b_row.
  rewrite (cells_cells (cols X) r (row_columns S) (rs_keys S)) by (intros c Hc; apply In_rc; left; exact Hc).
  rewrite (cells_cells (cols X) r (row_columns S) (nm S cr)); [reflexivity|].
  intros n Hn. apply In_rc. right. unfold content_keys. apply In_dedup. split; [|tauto].
  fold (cnames S). eapply nm_In_cnames; eassumption. Qed.

Lemma Ok_inj {A} (a b : A) : Ok a = Ok b -> a = b.
Proof. congruence. Qed.

Lemma r2b_sim C C' X Z : spec_facts C -> spec_facts C' -> spec_simb C C' = true -> keyed_facts (rs_keys C) X ->
  rowrecs_to_blocks C X = Ok Z -> exists Z', rowrecs_to_blocks C' X = Ok Z' /\ tbl_eqv Z' Z.
Proof. intros F F' Sim KF EZ. destruct (spec_simb_facts C C' Sim) as [Erk [Eck [Evc PL]]].
  assert (Ecols : r2b_cols C' = r2b_cols C) by (unfold r2b_cols; rewrite Erk, Eck, Evc; reflexivity).
  destruct (rows X) eqn:EX.
  - rewrite (r2b_empty C X EX) in EZ. apply Ok_inj in EZ. subst Z. eexists. split; [apply r2b_empty; exact EX|].
    split; [|constructor]. simpl. rewrite <- (r2b_cols_perm C F), <- (r2b_cols_perm C' F'), Ecols. reflexivity.
  - assert (NE : rows X <> []) by (rewrite EX; discriminate). clear EX.
    rewrite (r2b_unfold C X NE (is_keyed_select_ok C X KF)) in EZ. apply Ok_inj in EZ. subst Z.
    assert (KF' : keyed_facts (rs_keys C') X) by (rewrite <- Erk; exact KF).
    eexists. split; [apply (r2b_unfold C' X NE (is_keyed_select_ok C' X KF'))|].
    apply tbl_perm_eqv.
    + simpl. exact Ecols.
    + cbn [rows]. etransitivity; [apply sort_rows_perm|]. etransitivity; [|apply Permutation_sym; apply sort_rows_perm].
      rewrite (r2b_rows_direct C X), (r2b_rows_direct C' X). rewrite <- Erk. apply perm_flat_map. apply Permutation_sym. exact PL.
    + simpl. eapply Permutation_NoDup; [apply Permutation_sym; apply r2b_cols_perm; exact F'|apply block_columns_nodup; exact F'].
    + cbn [rows cols]. intros r Hr. apply (Permutation_in _ (sort_rows_perm _ _ _)) in Hr.
      apply in_flat_map in Hr. destruct Hr as [cr [_ Hr]]. apply in_map_iff in Hr. destruct Hr as [x [<- _]].
      unfold r2b_row, r2b_cols. rewrite !app_length, !cells_length. unfold kap. rewrite cells_length, nm_length. reflexivity. Qed.

(* ------------------------------------------------------------------ composites that return blocks *)
(* X: row records conforming to B (the rows the first map produces before it lays them out as B-blocks) *)
Lemma compose_core B C C' X : strict_spec B = true -> strict_spec C = true -> strict_spec C' = true ->
  same_records B C = true -> spec_simb C C' = true -> conforming_rows B X = true ->
  exists Y X2 Z Zc, rowrecs_to_blocks B X = Ok Y /\ Permutation (cols Y) (block_columns B) /\ blocks_to_rowrecs B Y = Ok X2 /\
    rowrecs_to_blocks C X2 = Ok Z /\ rowrecs_to_blocks C' X = Ok Zc /\ tbl_eqv Zc Z.
Proof. intros HB HC HC' SR Sim CB.
  pose proof (strict_spec_facts B HB) as FB. pose proof (strict_spec_facts C HC) as FC. pose proof (strict_spec_facts C' HC') as FC'.
  destruct (same_records_facts B C SR) as [RKe CKe].
  assert (KB : keyed_facts (rs_keys B) X).
  { unfold conforming_rows in CB. apply andb_true_iff in CB. apply keyed_by_facts. tauto. }
  assert (KC : keyed_facts (rs_keys C) X) by (apply (keyed_facts_perm_keys (rs_keys B)); [exact KB|intros c; symmetry; apply RKe]).
  destruct (r2b_total C X KC) as [Z0 EZ0].
  destruct (through_blocks_and_back B C X HB FC SR CB Z0 EZ0) as [Y [X2 [Z2 [E1 [PY [E2 [E3 [Ec Pr]]]]]]]].
  destruct (r2b_sim C C' X Z0 FC FC' Sim KC EZ0) as [Zc [E4 EQ]].
  exists Y, X2, Z2, Zc. repeat (split; [assumption|]). apply (tbl_eqv_rows_perm_r Zc Z0 Z2); assumption. Qed.

(* blocks A -> blocks B, then blocks B -> blocks C; the composite goes from A to a layout of C *)
Theorem compose_blocks_blocks A B C C' t :
  strict_spec A = true -> strict_spec B = true -> strict_spec C = true -> strict_spec C' = true ->
  same_records A B = true -> same_records B C = true -> spec_simb C C' = true -> complete_blocks A t = true ->
  exists y z zc, transform (mkmap (Some A) (Some B) true) t = Ok y /\ transform (mkmap (Some B) (Some C) true) y = Ok z /\
    transform (mkmap (Some A) (Some C') true) t = Ok zc /\ tbl_eqv zc z.
Proof. intros HA HB HC HC' SAB SBC Sim CT. pose proof (strict_spec_facts A HA) as FA.
  destruct (roundtrip_blocks A t HA CT) as [X1 [B1 [E1 [PX [KX _]]]]].
  assert (Sub : subset (block_columns A) (cols t) = true).
  { unfold complete_blocks in CT. repeat (apply andb_true_iff in CT; destruct CT as [CT ?]). assumption. }
  destruct (same_records_facts A B SAB) as [RKe CKe].
  assert (CB : conforming_rows B X1 = true).
  { unfold conforming_rows. apply andb_true_iff. split.
    - apply keyed_by_facts. apply (keyed_facts_perm_keys (rs_keys A)); [apply keyed_by_facts; exact KX|]. intros c. symmetry. apply RKe.
    - apply (perm_subset _ _ _ PX). intros c Hc. apply In_rc. apply In_rc in Hc.
      destruct Hc as [Hc|Hc]; [left; apply RKe; exact Hc|right; apply CKe; exact Hc]. }
  destruct (compose_core B C C' X1 HB HC HC' SBC Sim CB) as [Y [X2 [Z [Zc [F1 [PY [F2 [F3 [F4 EQ]]]]]]]]].
  exists Y, Z, Zc.
  split; [rewrite transform_blocks_to_blocks by exact Sub; rewrite E1; exact F1|].
  split; [rewrite transform_blocks_to_blocks by (apply (perm_subset _ _ _ PY); auto); rewrite F2; exact F3|].
  split; [rewrite transform_blocks_to_blocks by exact Sub; rewrite E1; exact F4|exact EQ]. Qed.

(* rows -> blocks B, then blocks B -> blocks C; the composite goes from rows to a layout of C *)
Theorem compose_rows_blocks B C C' t :
  strict_spec B = true -> strict_spec C = true -> strict_spec C' = true ->
  same_records B C = true -> spec_simb C C' = true -> conforming_rows B t = true ->
  exists y z zc, transform (mkmap None (Some B) true) t = Ok y /\ transform (mkmap (Some B) (Some C) true) y = Ok z /\
    transform (mkmap None (Some C') true) t = Ok zc /\ tbl_eqv zc z.
Proof. intros HB HC HC' SBC Sim CB.
  destruct (compose_core B C C' t HB HC HC' SBC Sim CB) as [Y [X2 [Z [Zc [F1 [PY [F2 [F3 [F4 EQ]]]]]]]]].
  assert (SubB : subset (row_columns B) (cols t) = true) by (unfold conforming_rows in CB; apply andb_true_iff in CB; tauto).
  assert (SubC : subset (row_columns C') (cols t) = true).
  { apply subset_spec. intros c Hc. apply (proj1 (subset_spec _ _) SubB). apply In_rc. apply In_rc in Hc.
    destruct (spec_simb_facts C C' Sim) as [Erk [Eck [Evc PL]]]. destruct (same_records_facts B C SBC) as [RKe CKe].
    destruct Hc as [Hc|Hc]; [left; apply RKe; rewrite Erk; exact Hc|right; apply CKe].
    (* a content key of C' is a name of some control row of C', hence of C *)
    unfold content_keys in *. apply In_dedup in Hc. destruct Hc as [Hc _]. apply In_dedup. split; [|tauto].
    fold (cnames C') in Hc. fold (cnames C). apply (Permutation_in _ (cnames_perm C')) in Hc.
    apply (Permutation_in _ (Permutation_sym (cnames_perm C))).
    apply in_flat_map in Hc. destruct Hc as [cr' [Hcr' Hn]].
    assert (I : In (kap C' cr', nm C' cr') (ct_layout C)).
    { apply (Permutation_in _ (Permutation_sym PL)). unfold ct_layout. apply in_map_iff. exists cr'. auto. }
    unfold ct_layout in I. apply in_map_iff in I. destruct I as [cr [E Hcr]]. inversion E as [[E1 E2]].
    apply in_flat_map. exists cr. split; [exact Hcr|]. unfold nm. rewrite E2. exact Hn. }
  exists Y, Z, Zc.
  split; [rewrite transform_rows_to_blocks by exact SubB; exact F1|].
  split; [rewrite transform_blocks_to_blocks by (apply (perm_subset _ _ _ PY); auto); rewrite F2; exact F3|].
  split; [rewrite transform_rows_to_blocks by exact SubC; exact F4|exact EQ]. Qed.

(* blocks A -> blocks B, then blocks B -> rows; the composite goes from A to rows *)
Theorem compose_blocks_rows A B t :
  strict_spec A = true -> strict_spec B = true -> same_records A B = true -> complete_blocks A t = true ->
  exists y z zc, transform (mkmap (Some A) (Some B) true) t = Ok y /\ transform (mkmap (Some B) None true) y = Ok z /\
    transform (mkmap (Some A) None true) t = Ok zc /\ Permutation (cols zc) (cols z) /\ tbl_eqv z (select_cols (row_columns B) zc).
Proof. intros HA HB SAB CT. pose proof (strict_spec_facts A HA) as FA. pose proof (strict_spec_facts B HB) as FB.
  destruct (roundtrip_blocks A t HA CT) as [X1 [B1 [E1 [PX [KX _]]]]].
  assert (Sub : subset (block_columns A) (cols t) = true).
  { unfold complete_blocks in CT. repeat (apply andb_true_iff in CT; destruct CT as [CT ?]). assumption. }
  destruct (same_records_facts A B SAB) as [RKe CKe].
  assert (CB : conforming_rows B X1 = true).
  { unfold conforming_rows. apply andb_true_iff. split.
    - apply keyed_by_facts. apply (keyed_facts_perm_keys (rs_keys A)); [apply keyed_by_facts; exact KX|]. intros c. symmetry. apply RKe.
    - apply (perm_subset _ _ _ PX). intros c Hc. apply In_rc. apply In_rc in Hc.
      destruct Hc as [Hc|Hc]; [left; apply RKe; exact Hc|right; apply CKe; exact Hc]. }
  destruct (roundtrip_rows B X1 HB CB) as [Y [X2 [F1 [F2 [PC PR]]]]].
  exists Y, X2, X1.
  split; [rewrite transform_blocks_to_blocks by exact Sub; rewrite E1; exact F1|].
  split; [rewrite transform_blocks_to_rows by (apply (perm_subset _ _ _ (r2b_result_cols B X1 Y FB F1)); auto); exact F2|].
  split; [rewrite transform_blocks_to_rows by exact Sub; exact E1|].
  split; [|split; [exact PC|exact PR]].
  (* the columns: both are rearrangements of the row columns, which list the same names *)
  simpl in PC. rewrite PX, PC. apply NoDup_Permutation.
  - unfold row_columns. apply NoDup_app_intro; [apply (sf_rk_nodup A FA)|rewrite (content_keys_cnames A FA); apply (sf_names_nodup A FA)|].
    intros c Hc. rewrite (content_keys_cnames A FA). apply (sf_rk_names A FA c Hc).
  - unfold row_columns. apply NoDup_app_intro; [apply (sf_rk_nodup B FB)|rewrite (content_keys_cnames B FB); apply (sf_names_nodup B FB)|].
    intros c Hc. rewrite (content_keys_cnames B FB). apply (sf_rk_names B FB c Hc).
  - intros c. rewrite !In_rc, (RKe c), (CKe c). reflexivity. Qed.

(* ------------------------------------------------------------------ the same, stated for the map compose() returns *)
Lemma spec_eqb_eq a b : spec_eqb a b = true -> a = b.
Proof. unfold spec_eqb. rewrite !andb_true_iff, !eqb_true, Bool.eqb_true_iff. intros [[[[e1 e2] e3] e4] e5].
  destruct a as [ka [ca ra] cka sa], b as [kb [cb rb] ckb sb]. simpl in *. subst. reflexivity. Qed.

Lemma recmap_eta c : c = mkmap (rm_in c) (rm_out c) (rm_strict c).
Proof. destruct c; reflexivity. Qed.

Theorem compose_sound_blocks_blocks sfx A B C t c :
  strict_spec A = true -> strict_spec B = true -> strict_spec C = true ->
  same_records A B = true -> same_records B C = true -> complete_blocks A t = true ->
  compose sfx (mkmap (Some B) (Some C) true) (mkmap (Some A) (Some B) true) = CMap c ->
  composite_ok (Some A) (Some C) c = true ->
  exists y z zc, transform (mkmap (Some A) (Some B) true) t = Ok y /\ transform (mkmap (Some B) (Some C) true) y = Ok z /\
    transform c t = Ok zc /\ tbl_eqv zc z.
Proof. intros HA HB HC SAB SBC CT _ OK. unfold composite_ok in OK. rewrite !andb_true_iff in OK. destruct OK as [[O1 O2] O3].
  destruct (rm_in c) as [A'|] eqn:Ei; [|discriminate]. destruct (rm_out c) as [C'|] eqn:Eo; [|discriminate].
  apply spec_eqb_eq in O1. subst A'. apply andb_true_iff in O2. destruct O2 as [HC' Sim].
  rewrite (recmap_eta c), Ei, Eo, O3. apply (compose_blocks_blocks A B C C' t); assumption. Qed.

Theorem compose_sound_rows_blocks sfx B C t c :
  strict_spec B = true -> strict_spec C = true -> same_records B C = true -> conforming_rows B t = true ->
  compose sfx (mkmap (Some B) (Some C) true) (mkmap None (Some B) true) = CMap c ->
  composite_ok None (Some C) c = true ->
  exists y z zc, transform (mkmap None (Some B) true) t = Ok y /\ transform (mkmap (Some B) (Some C) true) y = Ok z /\
    transform c t = Ok zc /\ tbl_eqv zc z.
Proof. intros HB HC SBC CB _ OK. unfold composite_ok in OK. rewrite !andb_true_iff in OK. destruct OK as [[O1 O2] O3].
  destruct (rm_in c) as [A'|] eqn:Ei; [discriminate|]. destruct (rm_out c) as [C'|] eqn:Eo; [|discriminate].
  apply andb_true_iff in O2. destruct O2 as [HC' Sim].
  rewrite (recmap_eta c), Ei, Eo, O3. apply (compose_rows_blocks B C C' t); assumption. Qed.

Theorem compose_sound_blocks_rows sfx A B t c :
  strict_spec A = true -> strict_spec B = true -> same_records A B = true -> complete_blocks A t = true ->
  compose sfx (mkmap (Some B) None true) (mkmap (Some A) (Some B) true) = CMap c ->
  composite_ok (Some A) None c = true ->
  exists y z zc, transform (mkmap (Some A) (Some B) true) t = Ok y /\ transform (mkmap (Some B) None true) y = Ok z /\
    transform c t = Ok zc /\ Permutation (cols zc) (cols z) /\ tbl_eqv z (select_cols (row_columns B) zc).
Proof. intros HA HB SAB CT _ OK. unfold composite_ok in OK. rewrite !andb_true_iff in OK. destruct OK as [[O1 O2] O3].
  destruct (rm_in c) as [A'|] eqn:Ei; [|discriminate]. destruct (rm_out c) as [C'|] eqn:Eo; [discriminate|].
  apply spec_eqb_eq in O1. subst A'.
  rewrite (recmap_eta c), Ei, Eo, O3. apply (compose_blocks_rows A B t); assumption. Qed.
