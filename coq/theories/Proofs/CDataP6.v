(* C17, part 6: RecordMap.transform / inverse on the three shapes of record map. *)
From Coq Require Import List Bool Arith ZArith QArith String Ascii Lia Permutation.
Import ListNotations.
From DA Require Import Base.PyRT Base.Val Model.CData Proofs.CDataP1 Proofs.CDataP2 Proofs.CDataP3 Proofs.CDataP4 Proofs.CDataP5.

(* ------------------------------------------------------------------ columns of the results *)
Lemma r2b_result_cols S T B : spec_facts S -> rowrecs_to_blocks S T = Ok B -> Permutation (cols B) (block_columns S).
Proof. intros F. unfold rowrecs_to_blocks. cbv zeta. destruct (rows (select_cols (row_columns S) T)).
  - intros E. inversion E. reflexivity.
  - destruct (is_keyed _ _) as [[|]| |]; intros E; inversion E. simpl. apply r2b_cols_perm. exact F. Qed.

Lemma perm_subset (a b c : list string) : Permutation b c -> (forall x, In x a -> In x c) -> subset a b = true.
Proof. intros P I. apply subset_spec. intros x Hx. apply (Permutation_in _ (Permutation_sym P)). apply I. exact Hx. Qed.

(* ------------------------------------------------------------------ the constructors on strict block specifications *)
Lemma is_row_spec_false S : spec_facts S -> is_row_spec S = false.
Proof. intros F. unfold is_row_spec. apply Nat.leb_gt. pose proof (sf_two_rows S F). lia. Qed.

Lemma content_keys_nodupb S : spec_facts S -> nodupb (content_keys S) = true.
Proof. intros F. rewrite (content_keys_cnames S F). apply nodupb_NoDup. apply (sf_names_nodup S F). Qed.

Lemma mk_map_rows_to_blocks S : spec_facts S -> mk_map None (Some S) true = Some (mkmap None (Some S) true).
Proof. intros F. unfold mk_map. rewrite (sf_strict S F), (is_row_spec_false S F). reflexivity. Qed.

Lemma mk_map_blocks_to_rows S : spec_facts S -> mk_map (Some S) None true = Some (mkmap (Some S) None true).
Proof. intros F. unfold mk_map. rewrite (sf_strict S F), (is_row_spec_false S F). simpl. rewrite (content_keys_nodupb S F). reflexivity. Qed.

Lemma same_records_facts A B : same_records A B = true ->
  (forall c, In c (rs_keys A) <-> In c (rs_keys B)) /\ (forall c, In c (content_keys A) <-> In c (content_keys B)).
Proof. unfold same_records, set_eqb. rewrite !andb_true_iff, !subset_spec. intros [[a b] [c d]]. split; intros x; split; auto. Qed.

Lemma same_records_sym A B : same_records A B = true -> same_records B A = true.
Proof. unfold same_records, set_eqb. rewrite !andb_true_iff. tauto. Qed.

Lemma mk_map_blocks_to_blocks A B : spec_facts A -> spec_facts B -> same_records A B = true ->
  mk_map (Some A) (Some B) true = Some (mkmap (Some A) (Some B) true).
Proof. intros FA FB SR. unfold mk_map.
  rewrite (sf_strict A FA), (is_row_spec_false A FA), (sf_strict B FB), (is_row_spec_false B FB). simpl.
  rewrite (content_keys_nodupb A FA). simpl.
  unfold same_records, set_eqb in SR. rewrite !andb_true_iff in SR. destruct SR as [[a b] [c d]].
  rewrite b, d. simpl. unfold set_eqb. rewrite a, b. reflexivity. Qed.

(* ------------------------------------------------------------------ keyedness for another listing of the key columns *)
Lemma key_ok_cells cs r ks : key_ok (cells cs r ks) = true <-> forall c, In c ks -> non_null (get cs r c) && val_canon (get cs r c) = true.
Proof. unfold key_ok, cells. rewrite forallb_forall. split.
  - intros h c Hc. apply h. apply in_map. exact Hc.
  - intros h v Hv. apply in_map_iff in Hv. destruct Hv as [c [<- Hc]]. apply h. exact Hc. Qed.

Lemma NoDup_map_finer {A B C} (f : A -> B) (g : A -> C) l :
  (forall x y, In x l -> In y l -> f x = f y -> g x = g y) -> NoDup (map g l) -> NoDup (map f l).
Proof. intros h N. apply NoDup_map_inj_in; [eapply NoDup_map_NoDup; exact N|].
  intros x y Hx Hy E. eapply NoDup_map_inv; [exact N|exact Hx|exact Hy|]. apply h; assumption. Qed.

Lemma map_eq_pointwise {A B} (f g : A -> B) l : map f l = map g l -> forall a, In a l -> f a = g a.
Proof. induction l as [|x t IH]; simpl; intros E a Ha; [destruct Ha|]. inversion E. destruct Ha as [<-|Ha]; [assumption|apply IH; assumption]. Qed.

Lemma keyed_facts_perm_keys ks ks' t : keyed_facts ks t -> (forall c, In c ks' <-> In c ks) -> keyed_facts ks' t.
Proof. intros [a b c] E. constructor.
  - intros x Hx. apply a. apply E. exact Hx.
  - intros r Hr. apply key_ok_cells. intros x Hx. apply (proj1 (key_ok_cells _ _ _) (b r Hr)). apply E. exact Hx.
  - apply (NoDup_map_finer _ (fun r => cells (cols t) r ks)); [|exact c].
    intros x y _ _ Exy. unfold cells in *. apply map_ext_in. intros k Hk.
    apply (map_eq_pointwise _ _ _ Exy). apply E. exact Hk. Qed.

(* ------------------------------------------------------------------ rowrecs_to_blocks only sees the selected rows, as a multiset *)
Lemma nodupb_perm {A} `{EqDec A} (a b : list A) : Permutation a b -> nodupb a = nodupb b.
Proof. intros P. destruct (nodupb a) eqn:Ea, (nodupb b) eqn:Eb; try reflexivity.
  - apply nodupb_NoDup in Ea. apply (Permutation_NoDup P) in Ea. apply nodupb_NoDup in Ea. congruence.
  - apply nodupb_NoDup in Eb. apply (Permutation_NoDup (Permutation_sym P)) in Eb. apply nodupb_NoDup in Eb. congruence. Qed.

Lemma is_keyed_perm ks t t' : cols t = cols t' -> Permutation (rows t) (rows t') -> is_keyed ks t = is_keyed ks t'.
Proof. intros Ec P. unfold is_keyed. rewrite <- Ec, (Permutation_length P).
  destruct (Nat.ltb _ 2); [reflexivity|]. destruct (subset ks (cols t)); [|reflexivity]. destruct ks as [|k0 ks']; [reflexivity|].
  set (kk := k0 :: ks').
  assert (P2 : Permutation (filter (forallb non_null) (map (fun r => cells (cols t) r kk) (rows t)))
                           (filter (forallb non_null) (map (fun r => cells (cols t) r kk) (rows t')))).
  { apply perm_filter. apply Permutation_map. exact P. }
  destruct (filter _ (map _ (rows t))) as [|a l] eqn:E1, (filter _ (map _ (rows t'))) as [|a' l'] eqn:E2; try reflexivity.
  - apply Permutation_nil in P2. discriminate.
  - apply Permutation_sym, Permutation_nil in P2. discriminate.
  - f_equal. apply nodupb_perm. exact P2. Qed.

Lemma r2b_cong S X X' B :
  Permutation (rows (select_cols (row_columns S) X)) (rows (select_cols (row_columns S) X')) ->
  rowrecs_to_blocks S X = Ok B ->
  exists B', rowrecs_to_blocks S X' = Ok B' /\ cols B' = cols B /\ Permutation (rows B') (rows B).
Proof. intros P. unfold rowrecs_to_blocks. cbv zeta.
  rewrite (is_keyed_perm (rs_keys S) (select_cols (row_columns S) X) (select_cols (row_columns S) X') eq_refl P).
  destruct (rows (select_cols (row_columns S) X)) as [|a l] eqn:E1, (rows (select_cols (row_columns S) X')) as [|a' l'] eqn:E2.
  - intros E. exists B. rewrite E. auto.
  - apply Permutation_nil in P. discriminate.
  - apply Permutation_sym, Permutation_nil in P. discriminate.
  - destruct (is_keyed _ _) as [[|]| |]; intros E; inversion E as [E']. clear E. subst B. eexists. split; [reflexivity|]. split; [reflexivity|]. cbn [rows].
    etransitivity; [apply sort_rows_perm|]. etransitivity; [|apply Permutation_sym; apply sort_rows_perm].
    apply perm_flat_map_ext. intros cr _. exact (Permutation_map _ (Permutation_sym P)). Qed.

Lemma tbl_eqv_rows_perm B B' t : cols B' = cols B -> Permutation (rows B') (rows B) -> tbl_eqv B t -> tbl_eqv B' t.
Proof. intros Ec P [a b]. split; [rewrite Ec; exact a|]. simpl. rewrite Ec. etransitivity; [apply Permutation_map; exact P|exact b]. Qed.

(* ------------------------------------------------------------------ transform on the three shapes *)
Lemma transform_rows_to_blocks S t : subset (row_columns S) (cols t) = true ->
  transform (mkmap None (Some S) true) t = rowrecs_to_blocks S t.
Proof. intros Sub. unfold transform. cbn [columns_needed rm_in rm_out]. rewrite Sub. reflexivity. Qed.

Lemma transform_blocks_to_rows S t : subset (block_columns S) (cols t) = true ->
  transform (mkmap (Some S) None true) t = blocks_to_rowrecs S t.
Proof. intros Sub. unfold transform. cbn [columns_needed rm_in rm_out]. rewrite Sub. cbn [negb]. destruct (blocks_to_rowrecs S t); reflexivity. Qed.

Lemma transform_blocks_to_blocks A B t : subset (block_columns A) (cols t) = true ->
  transform (mkmap (Some A) (Some B) true) t = res_bind (blocks_to_rowrecs A t) (rowrecs_to_blocks B).
Proof. intros Sub. unfold transform. cbn [columns_needed rm_in rm_out]. rewrite Sub. reflexivity. Qed.

Theorem recordmap_inverse_rows_to_blocks S t : strict_spec S = true -> conforming_rows S t = true ->
  exists m m' y z, mk_map None (Some S) true = Some m /\ inverse m = Some m' /\
    transform m t = Ok y /\ transform m' y = Ok z /\ tbl_eqv z (select_cols (row_columns S) t).
Proof. intros HS HC. pose proof (strict_spec_facts S HS) as F.
  destruct (roundtrip_rows S t HS HC) as [B [X [E1 [E2 EQ]]]].
  unfold conforming_rows in HC. apply andb_true_iff in HC. destruct HC as [_ Sub].
  exists (mkmap None (Some S) true), (mkmap (Some S) None true), B, X.
  split; [apply mk_map_rows_to_blocks; exact F|]. split; [unfold inverse; simpl; apply mk_map_blocks_to_rows; exact F|].
  split; [rewrite transform_rows_to_blocks by exact Sub; exact E1|]. split; [|exact EQ].
  rewrite transform_blocks_to_rows; [exact E2|].
  apply (perm_subset _ _ _ (r2b_result_cols S t B F E1)). auto. Qed.

Theorem recordmap_inverse_blocks_to_rows S t : strict_spec S = true -> complete_blocks S t = true ->
  exists m m' y z, mk_map (Some S) None true = Some m /\ inverse m = Some m' /\
    transform m t = Ok y /\ transform m' y = Ok z /\ tbl_eqv z (select_cols (block_columns S) t).
Proof. intros HS HC. pose proof (strict_spec_facts S HS) as F.
  destruct (roundtrip_blocks S t HS HC) as [X [B [E1 [PX [_ [E2 EQ]]]]]].
  assert (Sub : subset (block_columns S) (cols t) = true).
  { unfold complete_blocks in HC. repeat (apply andb_true_iff in HC; destruct HC as [HC ?]). assumption. }
  exists (mkmap (Some S) None true), (mkmap None (Some S) true), X, B.
  split; [apply mk_map_blocks_to_rows; exact F|]. split; [unfold inverse; simpl; apply mk_map_rows_to_blocks; exact F|].
  split; [rewrite transform_blocks_to_rows by exact Sub; exact E1|]. split; [|exact EQ].
  rewrite transform_rows_to_blocks; [exact E2|]. apply (perm_subset _ _ _ PX). auto. Qed.

(* blocks -> rows (spec A) -> blocks (spec B), and back: the common core used by the inverse of a blocks->blocks map and by
   composition: after going to B-blocks and back to rows, rowrecs_to_blocks for any spec C over the same records gives what it
   gives on the rows directly *)
Lemma through_blocks_and_back B C X : strict_spec B = true -> spec_facts C -> same_records B C = true ->
  conforming_rows B X = true ->
  forall Z, rowrecs_to_blocks C X = Ok Z ->
  exists Y X2 Z2, rowrecs_to_blocks B X = Ok Y /\ Permutation (cols Y) (block_columns B) /\
    blocks_to_rowrecs B Y = Ok X2 /\ rowrecs_to_blocks C X2 = Ok Z2 /\ cols Z2 = cols Z /\ Permutation (rows Z2) (rows Z).
Proof. intros HB FC SR HC Z EZ. pose proof (strict_spec_facts B HB) as FB.
  destruct (roundtrip_rows B X HB HC) as [Y [X2 [E1 [E2 [PC PR]]]]].
  destruct (same_records_facts B C SR) as [RKe CKe].
  assert (rcCB : forall c, In c (row_columns C) -> In c (row_columns B)).
  { intros c Hc. apply In_rc. apply In_rc in Hc. destruct Hc as [Hc|Hc]; [left; apply RKe; exact Hc|right; apply CKe; exact Hc]. }
  destruct (r2b_cong C X X2 Z) as [Z2 [E3 [Ec Pr]]].
  - (* the selected rows agree *)
    simpl in PR. simpl.
    assert (Q : Permutation (map (fun x => cells (row_columns B) x (row_columns C)) (map (fun r => cells (cols X2) r (row_columns B)) (rows X2)))
                            (map (fun x => cells (row_columns B) x (row_columns C)) (map (fun r => cells (cols X) r (row_columns B)) (rows X))))
      by (apply Permutation_map; exact PR).
    rewrite !map_map in Q.
    rewrite (map_ext _ (fun r => cells (cols X2) r (row_columns C))) in Q by (intros r; apply cells_cells; exact rcCB).
    rewrite (map_ext (fun r => cells (row_columns B) (cells (cols X) r (row_columns B)) (row_columns C))
                     (fun r => cells (cols X) r (row_columns C))) in Q by (intros r; apply cells_cells; exact rcCB).
    apply Permutation_sym. exact Q.
  - exact EZ.
  - exists Y, X2, Z2. split; [exact E1|]. split; [apply (r2b_result_cols B X Y FB E1)|]. auto. Qed.

Theorem recordmap_inverse_blocks_to_blocks A B t :
  strict_spec A = true -> strict_spec B = true -> same_records A B = true -> complete_blocks A t = true ->
  exists m m' y z, mk_map (Some A) (Some B) true = Some m /\ inverse m = Some m' /\
    transform m t = Ok y /\ transform m' y = Ok z /\ tbl_eqv z (select_cols (block_columns A) t).
Proof. intros HA HB SR HC. pose proof (strict_spec_facts A HA) as FA. pose proof (strict_spec_facts B HB) as FB.
  destruct (roundtrip_blocks A t HA HC) as [X1 [B1 [E1 [PX [KX [E2 EQ]]]]]].
  assert (Sub : subset (block_columns A) (cols t) = true).
  { unfold complete_blocks in HC. repeat (apply andb_true_iff in HC; destruct HC as [HC ?]). assumption. }
  destruct (same_records_facts A B SR) as [RKe CKe].
  assert (CB : conforming_rows B X1 = true).
  { unfold conforming_rows. apply andb_true_iff. split.
    - apply keyed_by_facts. apply (keyed_facts_perm_keys (rs_keys A)); [apply keyed_by_facts; exact KX|]. intros c. symmetry. apply RKe.
    - apply (perm_subset _ _ _ PX). intros c Hc. apply In_rc. apply In_rc in Hc.
      destruct Hc as [Hc|Hc]; [left; apply RKe; exact Hc|right; apply CKe; exact Hc]. }
  destruct (through_blocks_and_back B A X1 HB FA (same_records_sym A B SR) CB B1 E2) as [Y [X2 [Z2 [F1 [PY [F2 [F3 [Ec Pr]]]]]]]].
  exists (mkmap (Some A) (Some B) true), (mkmap (Some B) (Some A) true), Y, Z2.
  split; [apply mk_map_blocks_to_blocks; assumption|].
  split; [unfold inverse; simpl; apply mk_map_blocks_to_blocks; [assumption|assumption|apply same_records_sym; exact SR]|].
  split; [rewrite transform_blocks_to_blocks by exact Sub; rewrite E1; exact F1|].
  split.
  - rewrite transform_blocks_to_blocks by (apply (perm_subset _ _ _ PY); auto). rewrite F2. exact F3.
  - apply (tbl_eqv_rows_perm B1 Z2); assumption. Qed.
