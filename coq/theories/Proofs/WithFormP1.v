(* WITH form without the cache: the WITH list produced by to_with_form denotes what the nested query denotes,
   for every compositional engine.  Also the basic lemmas shared with the cache proof (WithFormP2.v). *)
From Coq Require Import List Bool Arith String Ascii Lia.
Import ListNotations.
From DA Require Import Base.PyRT Model.NearSql Model.WithForm.

(* ------------------------------------------------------------------ lists / booleans *)
Lemma nodupb_NoDup l : nodupb l = true <-> NoDup l.
Proof. induction l as [|x t IH]; simpl.
  - split; [constructor|reflexivity].
  - rewrite andb_true_iff, negb_true_iff, mem_false, IH. split.
    + intros [a b]. constructor; assumption.
    + intros N. inversion N; subst. split; assumption. Qed.

Lemma hygienic_spec q : hygienic q = true ->
  NoDup (step_names q) /\ (forall n, In n (step_names q) -> ~ In n (ref_names q)) /\ terms_ok q = true.
Proof. unfold hygienic. rewrite !andb_true_iff. intros [[a b] c]. repeat split.
  - apply nodupb_NoDup, a.
  - apply disjointb_spec, b.
  - exact c. Qed.

Lemma NoDup_app_l {A} (a b : list A) : NoDup (a ++ b) -> NoDup a.
Proof. induction a as [|x a IH]; simpl; intros N; [constructor|]. inversion N; subst.
  constructor; [rewrite in_app_iff in *; tauto|auto]. Qed.
Lemma NoDup_app_r {A} (a b : list A) : NoDup (a ++ b) -> NoDup b.
Proof. induction a as [|x a IH]; simpl; intros N; [exact N|]. inversion N; subst. auto. Qed.
Lemma NoDup_app_disj {A} (a b : list A) x : NoDup (a ++ b) -> In x a -> ~ In x b.
Proof. induction a as [|y a IH]; simpl; intros N I; [contradiction|]. inversion N; subst.
  destruct I as [->|I]; [rewrite in_app_iff in *; tauto|auto]. Qed.
Lemma NoDup_app_intro {A} (a b : list A) : NoDup a -> NoDup b -> (forall x, In x a -> ~ In x b) -> NoDup (a ++ b).
Proof. induction a as [|x a IH]; simpl; intros Na Nb D; [exact Nb|]. inversion Na; subst.
  constructor; [rewrite in_app_iff; intros [i|i]; [tauto|exact (D x (or_introl eq_refl) i)]|].
  apply IH; auto. Qed.

Lemma norm_terms_ok t : match t with Some [] => false | _ => true end = true -> norm_terms t = t.
Proof. destruct t as [[|x l]|]; simpl; intros H; try reflexivity; discriminate. Qed.

(* ------------------------------------------------------------------ names *)
Lemma is_table_ref q : is_table q = true -> In (qname q) (ref_names q).
Proof. destruct q; simpl; intros H; try discriminate; left; reflexivity. Qed.
Lemma step_names_head q : is_table q = false -> step_names q = qname q :: tl (step_names q).
Proof. destruct q; simpl; intros H; try discriminate; reflexivity. Qed.
Lemma step_names_table q : is_table q = true -> step_names q = [].
Proof. destruct q; simpl; intros H; try discriminate; reflexivity. Qed.

Lemma merge_seq_id seen (sq : wseq) :
  NoDup (map fst sq) -> (forall n, In n (map fst sq) -> ~ In n seen) -> merge_seq seen sq = sq.
Proof. revert seen. induction sq as [|[n c] t IH]; intros seen N D; simpl; [reflexivity|].
  simpl in N, D. inversion N; subst.
  assert (mem n seen = false) as M by (apply mem_false, D; left; reflexivity). rewrite M. f_equal.
  apply IH; [assumption|]. intros m I [->|J]; [contradiction|]. exact (D m (or_intror I) J). Qed.

Section P.
Variable T : Type.
Variable E : engine T.
Notation nsem := (nsem E).
Notation csem := (csem E).
Notation run_steps := (run_steps E).

Lemma bind_same n (v : T) r : bind n v r n = v.
Proof. unfold bind. rewrite String.eqb_refl. reflexivity. Qed.
Lemma bind_other n (v : T) r m : m <> n -> bind n v r m = r m.
Proof. unfold bind. intros H. destruct (String.eqb m n) eqn:Eq; [apply String.eqb_eq in Eq; contradiction|reflexivity]. Qed.

(* a query only looks at the names it mentions *)
Lemma nsem_ext (r1 r2 : env T) q : (forall n, In n (ref_names q) -> r1 n = r2 n) -> forall cols, nsem r1 q cols = nsem r2 q cols.
Proof. induction q as [n t|n k|n t s IH ci sfx an mg dp k|n t s1 IH1 c1 j s2 IH2 c2 sfx an k|n p sfx an a k|n p s IH ci sfx an a k];
  intros H cols; simpl in *.
  - rewrite H by (left; reflexivity). reflexivity.
  - apply H. left; reflexivity.
  - f_equal. unfold by_name. destruct (is_table s) eqn:It; simpl.
    + destruct (cforce ci); simpl; [apply IH, H|apply H, is_table_ref, It].
    + apply IH, H.
  - f_equal.
    + unfold by_name. destruct (is_table s1) eqn:It; simpl.
      * destruct (cforce c1); simpl; [apply IH1; intros; apply H, in_app_iff; tauto|
          apply H, in_app_iff; left; apply is_table_ref, It].
      * apply IH1; intros; apply H, in_app_iff; tauto.
    + unfold by_name. destruct (is_table s2) eqn:It; simpl.
      * destruct (cforce c2); simpl; [apply IH2; intros; apply H, in_app_iff; tauto|
          apply H, in_app_iff; right; apply is_table_ref, It].
      * apply IH2; intros; apply H, in_app_iff; tauto.
  - reflexivity.
  - f_equal. unfold by_name. destruct (is_table s) eqn:It; simpl.
    + destruct (cforce ci); simpl; [apply IH, H|apply H, is_table_ref, It].
    + apply IH, H.
Qed.

Lemma csem_ext (r1 r2 : env T) c : (forall n, In n (ref_names (fst c)) -> r1 n = r2 n) -> csem r1 c = csem r2 c.
Proof. intros H. unfold csem. destruct (by_name (fst c) (snd c)) eqn:B.
  - apply H, is_table_ref. unfold by_name in B. apply andb_true_iff in B. tauto.
  - apply nsem_ext, H. Qed.

Lemma run_steps_app r (a b : wseq) : run_steps r (a ++ b) = run_steps (run_steps r a) b.
Proof. unfold WithForm.run_steps. apply fold_left_app. Qed.
Lemma run_steps_other (sq : wseq) : forall r n, ~ In n (map fst sq) -> run_steps r sq n = r n.
Proof. induction sq as [|[m c] t IH]; intros r n H; simpl; [reflexivity|].
  simpl in H. rewrite IH by tauto. apply bind_other. intros ->. tauto. Qed.
Lemma run_steps_snoc r (sq : wseq) n s ci :
  run_steps r (sq ++ [(n, (s, ci))]) = bind n (nsem (run_steps r sq) s (ccols ci)) (run_steps r sq).
Proof. rewrite run_steps_app. reflexivity. Qed.

(* a reference to a common table expression denotes what its name is bound to, forced or not *)
Lemma csem_cte r n k ci : csem r (NCte n k, ci) = r n.
Proof. unfold csem, by_name. simpl. destruct (cforce ci); reflexivity. Qed.
Lemma csem_nontable r s ci : is_table s = false -> csem r (s, ci) = nsem r s (ccols ci).
Proof. intros H. unfold csem, by_name. simpl. rewrite H. reflexivity. Qed.

(* the unary / binary / raw steps read their operands through csem *)
Lemma nsem_unary r n t s ci sfx an mg dp k cols :
  nsem r (NUnary n t s ci sfx an mg dp k) cols = e_unary E t cols sfx (csem r (s, ci)).
Proof. reflexivity. Qed.
Lemma nsem_binary r n t s1 c1 j s2 c2 sfx an k cols :
  nsem r (NBinary n t s1 c1 j s2 c2 sfx an k) cols
  = e_binary E t cols j sfx (cpub c1) (cpub c2) (csem r (s1, c1)) (csem r (s2, c2)).
Proof. reflexivity. Qed.
Lemma nsem_raw1 r n p s ci sfx an a k cols :
  nsem r (NRaw1 n p s ci sfx an a k) cols = e_raw1 E p sfx a (csem r (s, ci)).
Proof. reflexivity. Qed.

Lemma csem_named_stub r (st : container) nm :
  is_table (fst st) = true -> qname (fst st) = nm -> (cforce (snd st) = false \/ exists n k, fst st = NCte n k) -> csem r st = r nm.
Proof. destruct st as [s' ci']. cbn [fst snd]. intros It <- H. unfold csem, by_name. cbn [fst snd]. rewrite It.
  destruct H as [->|(n & k & ->)]; [reflexivity|]. destruct (cforce ci'); reflexivity. Qed.

(* ------------------------------------------------------------------ to_with_form without a cache *)
Definition spec_none (fl : flags) (q : nearsql) : Prop :=
  forall sq last oc, twf fl None q = (sq, last, oc) ->
    oc = None /\ NoDup (map fst sq) /\ (forall n, In n (map fst sq) -> In n (tl (step_names q)))
    /\ qname last = qname q /\ is_table last = is_table q
    /\ forall r cols, nsem (run_steps r sq) last cols = nsem r q cols.

(* the container level: what to_with_form_stub adds to the node level result *)
Lemma stub_none fl s ci :
  is_table s = false -> NoDup (step_names s) -> spec_none fl s ->
  forall st sq oc, stub_step fl s ci (twf fl None s) = (st, sq, oc) ->
    oc = None /\ NoDup (map fst sq) /\ (forall n, In n (map fst sq) -> In n (step_names s))
    /\ (exists key, st = (NCte (qname s) key, ci))
    /\ forall r, run_steps r sq (qname s) = nsem r s (ccols ci).
Proof.
  intros It N S st sq oc H. destruct (twf fl None s) as [[sq0 last] oc0] eqn:Et.
  destruct (S _ _ _ Et) as (-> & N0 & I0 & Qn & Itl & Sem).
  unfold stub_step in H. rewrite Itl, It in H. simpl in H.
  rewrite step_names_head in N by exact It. inversion N as [|x l Hx N']; subst.
  assert (mem (qname last) (map fst sq0) = false) as M.
  { apply mem_false. rewrite Qn. intros I. apply Hx, I0, I. }
  rewrite M in H. injection H as <- <- <-. repeat split.
  - rewrite map_app. simpl. apply NoDup_app_intro; [exact N0|repeat constructor; simpl; tauto|].
    intros x I [<-|[]]. rewrite Qn in I. apply Hx, I0, I.
  - intros n. rewrite map_app, in_app_iff. simpl. rewrite step_names_head by exact It. rewrite Qn.
    intros [I|[<-|[]]]; [right; apply I0, I|left; reflexivity].
  - rewrite Qn. eexists. reflexivity.
  - intros r. rewrite Qn, run_steps_snoc, bind_same. apply Sem.
Qed.

(* an operand of a step, table or not: the stub denotes, after the steps it needs, what the operand denoted *)
Definition operand_none fl (s : nearsql) (ci : cinfo) : Prop :=
  forall st sq oc, (if is_table s then ((s, ci), [], None) else stub_step fl s ci (twf fl None s)) = (st, sq, oc) ->
    oc = None /\ NoDup (map fst sq) /\ (forall m, In m (map fst sq) -> In m (step_names s))
    /\ (forall m, In m (ref_names (fst st)) -> In m (ref_names s) \/ In m (step_names s))
    /\ snd st = ci
    /\ forall r, csem (run_steps r sq) st = csem r (s, ci).

Lemma operand_none_holds fl s ci : NoDup (step_names s) -> spec_none fl s -> operand_none fl s ci.
Proof.
  intros N S st sq oc H. destruct (is_table s) eqn:It.
  - injection H as <- <- <-. repeat split; try constructor; simpl; tauto.
  - destruct (stub_none fl s ci It N S _ _ _ H) as (-> & N0 & I0 & (key & ->) & Sem).
    repeat split; try assumption.
    + simpl. intros m [<-|[]]. right. rewrite step_names_head by exact It. left; reflexivity.
    + intros r. rewrite csem_cte, (csem_nontable r s ci It). apply Sem.
Qed.

Lemma twf_none_spec fl q :
  NoDup (step_names q) -> (forall n, In n (step_names q) -> ~ In n (ref_names q)) -> terms_ok q = true -> spec_none fl q.
Proof.
  induction q as [n t|n k|n t s IH ci sfx an mg dp k|n t s1 IH1 c1 j s2 IH2 c2 sfx an k|n p sfx an a k|n p s IH ci sfx an a k];
  intros N D TO sq last oc H; simpl in H.
  - injection H as <- <- <-. repeat split; try constructor; simpl; tauto.
  - injection H as <- <- <-. repeat split; try constructor; simpl; tauto.
  - (* unary *)
    simpl in N, D, TO. apply andb_true_iff in TO. destruct TO as [Tt Ts]. inversion N as [|x l Hn Ns]; subst.
    destruct (is_table s) eqn:It.
    + injection H as <- <- <-. repeat split; try constructor; simpl; tauto.
    + destruct (stub_step fl s ci (twf fl None s)) as [[st sq0] oc0] eqn:Es.
      injection H as <- <- <-.
      assert (spec_none fl s) as Ss by (apply IH; [exact Ns|intros m I; apply D; right; exact I|exact Ts]).
      destruct (stub_none fl s ci It Ns Ss _ _ _ Es) as (-> & N0 & I0 & (key & ->) & Sem).
      repeat split; try assumption; try reflexivity.
      intros r cols. cbn [fst snd]. rewrite (norm_terms_ok _ Tt), !nsem_unary. f_equal.
      rewrite csem_cte, (csem_nontable r s ci It). apply Sem.
  - (* binary *)
    simpl in N, D, TO. apply andb_true_iff in TO. destruct TO as [TO Ts2]. apply andb_true_iff in TO. destruct TO as [Tt Ts1].
    inversion N as [|x l Hn Ns]; subst.
    assert (NoDup (step_names s1)) as N1 by (eapply NoDup_app_l; exact Ns).
    assert (NoDup (step_names s2)) as N2 by (eapply NoDup_app_r; exact Ns).
    assert (spec_none fl s1) as S1.
    { apply IH1; [exact N1| |exact Ts1]. intros m I J. apply (D m); [right; apply in_app_iff; tauto|apply in_app_iff; tauto]. }
    assert (spec_none fl s2) as S2.
    { apply IH2; [exact N2| |exact Ts2]. intros m I J. apply (D m); [right; apply in_app_iff; tauto|apply in_app_iff; tauto]. }
    destruct (is_table s1 && is_table s2) eqn:Both.
    + injection H as <- <- <-. repeat split; try constructor; simpl; tauto.
    + destruct (if is_table s1 then (s1, c1, [], None) else stub_step fl s1 c1 (twf fl None s1)) as [[st1 sq1] oc1] eqn:E1.
      destruct (operand_none_holds fl s1 c1 N1 S1 _ _ _ E1) as (-> & Nq1 & Iq1 & R1 & Ec1 & Sem1).
      destruct (if is_table s2 then (s2, c2, [], None) else stub_step fl s2 c2 (twf fl None s2)) as [[st2 sq2] oc2] eqn:E2.
      destruct (operand_none_holds fl s2 c2 N2 S2 _ _ _ E2) as (-> & Nq2 & Iq2 & R2 & Ec2 & Sem2).
      injection H as <- <- <-.
      assert (forall m, In m (map fst sq2) -> ~ In m (map fst sq1)) as Dj.
      { intros m I2 I1. apply (NoDup_app_disj _ _ m Ns); [apply Iq1, I1|apply Iq2, I2]. }
      rewrite merge_seq_id by assumption.
      repeat split; try reflexivity.
      * rewrite map_app. apply NoDup_app_intro; [assumption|assumption|]. intros m I1 I2. exact (Dj m I2 I1).
      * intros m. rewrite map_app, in_app_iff. simpl. rewrite in_app_iff. intros [I|I]; [left; apply Iq1, I|right; apply Iq2, I].
      * intros r cols. rewrite (norm_terms_ok _ Tt), !nsem_binary.
        destruct st1 as [s1' c1']. destruct st2 as [s2' c2']. cbn [fst snd] in *.
        subst c1' c2'.
        f_equal.
        -- (* first operand: the second sequence does not touch what it reads *)
           rewrite run_steps_app. rewrite <- (Sem1 r).
           apply csem_ext. cbn [fst]. intros m Im. apply run_steps_other. intros J.
           destruct (R1 m Im) as [K|K].
           ++ apply (D m); [right; apply in_app_iff; right; apply Iq2, J|apply in_app_iff; left; exact K].
           ++ apply (NoDup_app_disj _ _ m Ns K). apply Iq2, J.
        -- rewrite run_steps_app. rewrite (Sem2 (run_steps r sq1)).
           apply csem_ext. cbn [fst]. intros m Im. apply run_steps_other. intros J.
           apply (D m); [right; apply in_app_iff; left; apply Iq1, J|apply in_app_iff; right; exact Im].
  - injection H as <- <- <-. repeat split; try constructor; simpl; tauto.
  - (* raw query over a sub-query *)
    simpl in N, D, TO. inversion N as [|x l Hn Ns]; subst.
    destruct (is_table s) eqn:It.
    + injection H as <- <- <-. repeat split; try constructor; simpl; tauto.
    + destruct (stub_step fl s ci (twf fl None s)) as [[st sq0] oc0] eqn:Es.
      injection H as <- <- <-.
      assert (spec_none fl s) as Ss by (apply IH; [exact Ns|intros m I; apply D; right; exact I|exact TO]).
      destruct (stub_none fl s ci It Ns Ss _ _ _ Es) as (-> & N0 & I0 & (key & ->) & Sem).
      repeat split; try assumption; try reflexivity.
      intros r cols. cbn [fst snd]. rewrite !nsem_raw1. f_equal.
      rewrite csem_cte, (csem_nontable r s ci It). apply Sem.
Qed.

(* use_with on / off denote the same table *)
Theorem with_form_preserves fl q r :
  hygienic q = true -> nsem_with E r (fst (to_with_form fl None q)) = nsem r q None.
Proof.
  intros H. destruct (hygienic_spec q H) as (N & D & TO). unfold to_with_form.
  destruct (twf fl None q) as [[sq last] oc] eqn:Et. simpl.
  destruct (twf_none_spec fl q N D TO _ _ _ Et) as (_ & _ & _ & _ & _ & Sem). unfold nsem_with. simpl. apply Sem.
Qed.

(* the assertions of SQLWithList hold for hygienic queries *)
Lemma with_form_names fl q : hygienic q = true ->
  NoDup (map fst (w_prev (fst (to_with_form fl None q)))) /\
  (is_table q = true \/ ~ In (qname q) (map fst (w_prev (fst (to_with_form fl None q))))).
Proof.
  intros H. destruct (hygienic_spec q H) as (N & D & TO). unfold to_with_form.
  destruct (twf fl None q) as [[sq last] oc] eqn:Et. simpl.
  destruct (twf_none_spec fl q N D TO _ _ _ Et) as (_ & Nq & Iq & _ & _ & _).
  split; [exact Nq|]. destruct (is_table q) eqn:It; [left; reflexivity|right].
  intros I. rewrite step_names_head in N by exact It. inversion N; subst. apply Iq in I. contradiction.
Qed.
End P.
